/-
C18 — life cycle: every clause of C18 holds in every run of the same `Connection` object.

`Connection.Start` builds a new Peer (host + connection gater) each time; the MessageProtocol, its
rateLimit and the Connection keep a pointer to "their" Peer (Model/Lifecycle.lean: one generation counter
per component).  Proved here, for ALL op sequences with any number of `restart` ops at any place:

* `C18_restart_rebinds_all`      a successful restart leaves MessageProtocol.peer, rateLimit.peer and
                                 Connection.Peer on the NEW generation, gater and message protocol started;
* `C18_life_bound_invariant`     after every op sequence every started component is bound to the current
                                 generation (so the `stale-binding` branch of Driver/Lifecycle.lean is dead);
* `C18_life_*_current`           under that invariant the life-cycle semantics of every penalty path is the
                                 single-run semantics on the current gater (refinement), hence
* `C18_life_excess_penalised`, `C18_life_bad_message_banned`, `C18_life_conn_ban`
                                 the rate-limit / malformed-envelope / unknown-procedure / BanPeer clauses hold
                                 on the gater of the RUNNING host after any history of restarts;
* `C18_restart_pinned`           what a restart does to the rest (pinned as the code does it, not part of
                                 the property): empty score table (earlier bans forgotten), blocked set =
                                 configured blacklist, no connections, counters and handlers kept;
* `C18_stale_ratelimit_loses_penalty`  sensitivity: with an "idempotent" `rateLimit.start`
                                 (`if rl.peer != nil { return }`) the very same flood after one restart
                                 leaves the running gater empty - the model separates the two.
-/
import LiskVerif.Model.Lifecycle
import LiskVerif.Props.C18_Rate

open LiskVerif LiskVerif.ConnGater LiskVerif.RateLimit LiskVerif.Lifecycle

/-- every long-lived component points to the Peer of the current run (or is not started), and the
`mpStarted` flag of the single-run model says the same -/
structure C18Bound (l : LNode) : Prop where
  conn : l.connGen = some l.gen
  mp : l.mpGen = none ∨ l.mpGen = some l.gen
  rl : l.rlGen = l.mpGen
  flag : l.node.mpStarted = l.mpGen.isSome

/-! ### the restart -/

/-- **A restart re-binds everything.** After a successful `Stop`+`Start` the MessageProtocol, the rate
limiter and the Connection point to the Peer of the new generation, whose gater is started, and the
message protocol is started. -/
theorem C18_restart_rebinds_all (l : LNode) (bl : List (Option IP)) (h : (restart l bl).2 = true) :
    (restart l bl).1.gen = l.gen + 1 ∧
    (restart l bl).1.mpGen = some (restart l bl).1.gen ∧
    (restart l bl).1.rlGen = some (restart l bl).1.gen ∧
    (restart l bl).1.connGen = some (restart l bl).1.gen ∧
    (restart l bl).1.node.g.started = true ∧ (restart l bl).1.node.mpStarted = true := by
  unfold restart restartWith at h ⊢
  rcases hb : blacklist (freshGater l) bl with ⟨g', ok⟩
  rw [hb] at h
  cases ok with
  | false => simp at h
  | true => simp [startedWith, stopped, mpStartWith, bindTo, always, mpStart, start]

/-- a failed restart (invalid blacklist entry) assigns nothing: the components stay where they were -/
theorem C18_restart_failed_keeps_bindings (l : LNode) (bl : List (Option IP)) (h : (restart l bl).2 = false) :
    (restart l bl).1.gen = l.gen ∧ (restart l bl).1.mpGen = l.mpGen ∧ (restart l bl).1.rlGen = l.rlGen ∧
    (restart l bl).1.connGen = l.connGen ∧ (restart l bl).1.node.g = l.node.g ∧
    (restart l bl).1.node.conns = [] := by
  unfold restart restartWith at h ⊢
  rcases hb : blacklist (freshGater l) bl with ⟨g', ok⟩
  rw [hb] at h
  cases ok with
  | true => simp at h
  | false => simp [stopped]

private theorem blockAddr_fields (g : Gater) (ip : IP) :
    (blockAddr g ip).peerScore = g.peerScore ∧ (blockAddr g ip).expSecs = g.expSecs := by
  unfold blockAddr; split <;> exact ⟨rfl, rfl⟩

private theorem foldl_block_fields (bl : List (Option IP)) (g0 : Gater) :
    (bl.foldl (fun g o => match o with | some ip => blockAddr g ip | none => g) g0).peerScore = g0.peerScore ∧
    (bl.foldl (fun g o => match o with | some ip => blockAddr g ip | none => g) g0).expSecs = g0.expSecs := by
  induction bl generalizing g0 with
  | nil => exact ⟨rfl, rfl⟩
  | cons o r ih =>
    simp only [List.foldl_cons]
    cases o with
    | none => exact ih g0
    | some ip =>
      have h1 := ih (blockAddr g0 ip)
      have h2 := blockAddr_fields g0 ip
      exact ⟨h1.1.trans h2.1, h1.2.trans h2.2⟩

private theorem blacklist_fields (g : Gater) (bl : List (Option IP)) :
    (blacklist g bl).1.peerScore = g.peerScore ∧ (blacklist g bl).1.expSecs = g.expSecs := by
  unfold blacklist
  split
  · exact ⟨rfl, rfl⟩
  · exact foldl_block_fields bl g

/-- **What a restart does to the rest of the state (pinned as the code does it).** The new gater knows no
score and no ban (bans taken in an earlier run are forgotten), its blocked set is the configured
blacklist on an empty set, the new host has no connection; the message counters of the current window,
the registry and the handler count survive. -/
theorem C18_restart_pinned (l : LNode) (bl : List (Option IP)) (h : (restart l bl).2 = true) :
    (restart l bl).1.node.g.peerScore = [] ∧
    (restart l bl).1.node.g.blocked = (blacklist (freshGater l) bl).1.blocked ∧
    (restart l bl).1.node.g.expSecs = l.node.g.expSecs ∧
    (restart l bl).1.node.conns = [] ∧
    (restart l bl).1.node.counters = l.node.counters ∧
    (restart l bl).1.node.handled = l.node.handled ∧
    lookup (restart l bl).1.stale l.gen = some l.node.g := by
  have hsc := (blacklist_fields (freshGater l) bl).1
  have hex := (blacklist_fields (freshGater l) bl).2
  unfold restart restartWith at h ⊢
  rcases hb : blacklist (freshGater l) bl with ⟨g', ok⟩
  rw [hb] at h hsc hex
  cases ok with
  | false => simp at h
  | true =>
    simp only at hsc hex
    simp [startedWith, stopped, mpStartWith, bindTo, always, mpStart, start, lookup, hsc, hex, freshGater]

/-! ### the invariant -/

private theorem applyOut_mp (n : Node) (o : PenOut) : (applyOut n o).mpStarted = n.mpStarted := by
  unfold applyOut
  split <;> rfl

private theorem nodeAddPenalty_mp (n : Node) (now : Nat) (a : Addr) (s : Int) :
    (nodeAddPenalty n now a s).1.mpStarted = n.mpStarted := by
  unfold nodeAddPenalty
  rcases peerAddPenalty n.g now a s with ⟨g', o⟩
  simp only
  rw [applyOut_mp]

private theorem nodeBan_mp (n : Node) (now : Nat) (a : Addr) : (nodeBan n now a).1.mpStarted = n.mpStarted := by
  unfold nodeBan
  rcases banPeer n.g now a with ⟨g', o⟩
  simp only
  rw [applyOut_mp]

private theorem foldl_mp {α : Type} (f : Node → α → Node) (hf : ∀ n a, (f n a).mpStarted = n.mpStarted)
    (l : List α) (n : Node) : (l.foldl f n).mpStarted = n.mpStarted := by
  induction l generalizing n with
  | nil => rfl
  | cons a r ih => simp only [List.foldl_cons]; rw [ih, hf]

private theorem applyPenalty_mp (n : Node) (now pid : Nat) (s : Int) :
    (applyPenalty n now pid s).mpStarted = n.mpStarted :=
  foldl_mp _ (fun n _ => nodeAddPenalty_mp n now _ s) _ n

private theorem banPeerID_mp (n : Node) (now pid : Nat) : (banPeerID n now pid).mpStarted = n.mpStarted :=
  foldl_mp _ (fun n _ => nodeBan_mp n now _) _ n

private theorem register_mp (n : Node) (name : String) (opt : Option (Int × Int)) :
    (register n name opt).1.mpStarted = n.mpStarted := by
  unfold register
  split
  · rfl
  · split <;> rfl

private theorem connect_mp (n : Node) (i : Bool) (a : Addr) (p : Nat) :
    (connect n i a p).1.mpStarted = n.mpStarted := by
  unfold connect
  simp only
  split <;> (split <;> rfl)

private theorem checkLimit_mp (n : Node) (now : Nat) (proc : String) (pid : Nat) (a : Addr) :
    (checkLimit n now proc pid a).1.mpStarted = n.mpStarted := by
  unfold checkLimit
  split
  · rfl
  · split
    · rfl
    · split
      · have h := nodeAddPenalty_mp n now (withPid a pid) (by assumption : Counter).penalty
        split
        · rename_i heq; rw [heq] at h; exact h
        · rename_i heq; rw [heq] at h; exact h
      · rfl

private theorem receive_mp (n : Node) (now : Nat) (r : Bool) (a : Addr) (p : Nat) (k : MsgKind) :
    (receive n now r a p k).mpStarted = n.mpStarted := by
  unfold receive
  cases k with
  | malformed => exact nodeBan_mp n now _
  | proc name =>
    simp only
    split
    · exact nodeBan_mp n now _
    · have h := checkLimit_mp (increase n name p) now name p a
      have hi : (increase n name p).mpStarted = n.mpStarted := rfl
      split
      · rename_i heq; rw [heq] at h
        split <;> simp_all
      · rename_i heq; rw [heq] at h; simp_all

/-- the life-cycle semantics of `checkLimit` with the rate limiter on the current Peer is the single-run one -/
theorem C18_life_checkLimit_current (l : LNode) (hrl : l.rlGen = some l.gen) (hmp : l.node.mpStarted = true)
    (now : Nat) (proc : String) (pid : Nat) (a : Addr) :
    lcheckLimit l now proc pid a =
      ({ l with node := (checkLimit l.node now proc pid a).1 }, (checkLimit l.node now proc pid a).2.1,
        (checkLimit l.node now proc pid a).2.2) := by
  obtain ⟨gen, node, mpGen, rlGen, connGen, stale⟩ := l
  simp only at hrl hmp
  subst hrl
  unfold lcheckLimit checkLimit
  simp only [hmp, Bool.not_true, Bool.false_eq_true, if_false]
  cases hc : findCounter node.counters proc with
  | none => rfl
  | some c =>
    simp only
    by_cases hgt : (getCount c.counts pid : Int) > c.limit
    · simp only [hgt, if_true, penaltyVia]
      rcases hp : nodeAddPenalty node now (withPid a pid) c.penalty with ⟨n', o⟩
      cases o with
      | err e => simp
      | ok d => simp [resetCount]
    · simp only [hgt, if_false]

/-- **Refinement for the message paths.** With MessageProtocol and rate limiter on the current Peer, a
received envelope is handled exactly as in the single-run model, on the current gater. -/
theorem C18_life_receive_current (l : LNode) (hm : l.mpGen = some l.gen) (hrl : l.rlGen = some l.gen)
    (hmp : l.node.mpStarted = true) (now : Nat) (r : Bool) (a : Addr) (p : Nat) (k : MsgKind) :
    lreceive l now r a p k = { l with node := receive l.node now r a p k } := by
  obtain ⟨gen, node, mpGen, rlGen, connGen, stale⟩ := l
  simp only at hm hrl hmp
  subst hm
  subst hrl
  unfold lreceive receive
  cases k with
  | malformed => simp [banVia]
  | proc name =>
    simp only [banVia, if_true]
    by_cases hn : (findCounter node.counters name).isNone = true
    · simp [hn]
    · simp only [hn, Bool.false_eq_true, if_false]
      have hcl := C18_life_checkLimit_current
        ⟨gen, increase node name p, some gen, some gen, connGen, stale⟩ rfl hmp now name p a
      simp only at hcl
      rw [hcl]
      rcases hck : checkLimit (increase node name p) now name p a with ⟨n2, o, po⟩
      cases o <;> cases r <;> simp

/-- **Refinement for Connection.ApplyPenalty / BanPeer.** -/
theorem C18_life_conn_current (l : LNode) (hc : l.connGen = some l.gen) (now pid : Nat) (s : Int) :
    lapplyPenalty l now pid s = { l with node := applyPenalty l.node now pid s } ∧
    lbanPeerID l now pid = { l with node := banPeerID l.node now pid } := by
  unfold lapplyPenalty lbanPeerID
  simp [hc]

private theorem bound_node (l : LNode) (hb : C18Bound l) (n' : Node) (hmp : n'.mpStarted = l.node.mpStarted) :
    C18Bound { l with node := n' } :=
  ⟨hb.conn, hb.mp, hb.rl, by simp only [hmp]; exact hb.flag⟩

private theorem bound_started (l : LNode) (hb : C18Bound l) (hs : l.mpGen.isSome = true) :
    l.mpGen = some l.gen ∧ l.rlGen = some l.gen ∧ l.node.mpStarted = true := by
  rcases hb.mp with h | h
  · rw [h] at hs; simp at hs
  · exact ⟨h, hb.rl.trans h, by rw [hb.flag, h]; rfl⟩

private theorem bound_unstarted (l : LNode) (hb : C18Bound l) (hs : l.mpGen.isSome = false) :
    l.mpGen = none ∧ l.rlGen = none := by
  cases h : l.mpGen with
  | none => exact ⟨rfl, hb.rl.trans h⟩
  | some b => rw [h] at hs; simp at hs

private theorem bound_step (l : LNode) (hb : C18Bound l) (op : LOp) : C18Bound (lapply l op) := by
  cases op with
  | gater op => exact bound_node l hb _ rfl
  | ppen now a s => exact bound_node l hb _ (nodeAddPenalty_mp _ _ _ _)
  | ban now a => exact bound_node l hb _ (nodeBan_mp _ _ _)
  | register name opt => exact bound_node l hb _ (register_mp _ _ _)
  | mpStart =>
    exact ⟨hb.conn, Or.inr (by simp [lapply, lmpStart, mpStartWith, bindTo, always]),
      by simp [lapply, lmpStart, mpStartWith, bindTo, always],
      by simp [lapply, lmpStart, mpStartWith, bindTo, always, mpStart]⟩
  | connect i a p => exact bound_node l hb _ (connect_mp _ _ _ _)
  | disconnect p => exact bound_node l hb _ rfl
  | msg now r a p k =>
    show C18Bound (lreceive l now r a p k)
    cases hs : l.mpGen.isSome with
    | true =>
      obtain ⟨hm, hrl, hmp⟩ := bound_started l hb hs
      rw [C18_life_receive_current l hm hrl hmp]
      exact bound_node l hb _ (receive_mp _ _ _ _ _ _)
    | false =>
      obtain ⟨hm, _⟩ := bound_unstarted l hb hs
      unfold lreceive
      rw [hm]
      exact hb
  | check now proc p a =>
    show C18Bound (lcheckLimit l now proc p a).1
    cases hs : l.mpGen.isSome with
    | true =>
      obtain ⟨_, hrl, hmp⟩ := bound_started l hb hs
      rw [C18_life_checkLimit_current l hrl hmp]
      exact bound_node l hb _ (checkLimit_mp _ _ _ _ _)
    | false =>
      obtain ⟨_, hrl⟩ := bound_unstarted l hb hs
      unfold lcheckLimit
      rw [hrl]
      exact hb
  | applyPen now p s =>
    show C18Bound (lapplyPenalty l now p s)
    rw [(C18_life_conn_current l hb.conn now p s).1]
    exact bound_node l hb _ (applyPenalty_mp _ _ _ _)
  | banPid now p =>
    show C18Bound (lbanPeerID l now p)
    rw [(C18_life_conn_current l hb.conn now p 0).2]
    exact bound_node l hb _ (banPeerID_mp _ _ _)
  | tick => exact bound_node l hb _ rfl
  | restart bl =>
    show C18Bound (restart l bl).1
    cases hok : (restart l bl).2 with
    | true =>
      obtain ⟨_, hm, hr, hc, _, hmp⟩ := C18_restart_rebinds_all l bl hok
      exact ⟨hc, Or.inr hm, hr.trans hm.symm, by rw [hmp, hm]; rfl⟩
    | false =>
      obtain ⟨hg, hm, hr, hc, _, _⟩ := C18_restart_failed_keeps_bindings l bl hok
      refine ⟨by rw [hc, hg]; exact hb.conn, by rw [hm, hg]; exact hb.mp, by rw [hr, hm]; exact hb.rl, ?_⟩
      rw [hm]
      have : (restart l bl).1.node.mpStarted = l.node.mpStarted := by
        unfold restart restartWith at hok ⊢
        rcases hbk : blacklist (freshGater l) bl with ⟨g', ok⟩
        rw [hbk] at hok
        cases ok with
        | true => simp at hok
        | false => rfl
      rw [this]
      exact hb.flag

/-- **After every op sequence - any C18 ops, any number of restarts (also failed ones) at any place - every
started component is bound to the Peer of the current run.** -/
theorem C18_life_bound_invariant (g : Gater) (ops : List LOp) : C18Bound (lrun (Lifecycle.init g) ops) := by
  have h0 : C18Bound (Lifecycle.init g) := ⟨rfl, Or.inl rfl, rfl, rfl⟩
  generalize Lifecycle.init g = l at h0
  unfold lrun
  induction ops generalizing l with
  | nil => exact h0
  | cons op r ih => exact ih _ (bound_step l h0 op)

/-! ### the clauses of C18 in every run -/

/-- **Excess is penalised in every run.** After any history (any number of restarts), once the message
protocol is started: the message that brings the count of (procedure, peer) above the limit adds the
procedure's penalty to the score of the sender's IP in the gater of the RUNNING host and resets the
counter; at the threshold the IP is banned there and the peer has no connection left. -/
theorem C18_life_excess_penalised (g : Gater) (ops : List LOp)
    (hst : (lrun (Lifecycle.init g) ops).mpGen.isSome = true)
    (hs : (lrun (Lifecycle.init g) ops).node.g.started = true)
    (name : String) (cfg : Counter)
    (hc : findCounter (lrun (Lifecycle.init g) ops).node.counters name = some cfg)
    (remote : Addr) (ip : IP) (hip : remote.ip = some ip) (pid now : Nat) (isReq : Bool)
    (hex : ((count (lrun (Lifecycle.init g) ops).node name pid + 1 : Nat) : Int) > cfg.limit) :
    let l := lrun (Lifecycle.init g) ops
    let l' := lreceive l now isReq remote pid (.proc name)
    let old : Int := match find l.node.g.peerScore ip with | some i => i.score | none => 0
    l'.gen = l.gen ∧
    (∃ i, find l'.node.g.peerScore ip = some i ∧ i.score = old + cfg.penalty) ∧
    count l'.node name pid = 0 ∧
    (old + cfg.penalty ≥ 100 → isBanned l'.node.g ip = true ∧ ∀ c ∈ l'.node.conns, c.1 ≠ pid) := by
  intro l l' old
  obtain ⟨hm, hrl, hmp⟩ := bound_started l (C18_life_bound_invariant g ops) hst
  have hl' : l' = { l with node := receive l.node now isReq remote pid (.proc name) } :=
    C18_life_receive_current l hm hrl hmp now isReq remote pid (.proc name)
  have := C18_excess_penalised l.node hmp hs name cfg hc remote ip hip pid now isReq hex
  rw [hl']
  exact ⟨rfl, this⟩

/-- **Malformed envelopes and unknown procedures are banned in every run**, on the gater of the running
host: all gates refuse the IP afterwards, the sender has no connection left, no handler ran. -/
theorem C18_life_bad_message_banned (g : Gater) (ops : List LOp)
    (hst : (lrun (Lifecycle.init g) ops).mpGen.isSome = true)
    (hs : (lrun (Lifecycle.init g) ops).node.g.started = true)
    (remote : Addr) (ip : IP) (hip : remote.ip = some ip) (pid now : Nat) (isReq : Bool) (k : MsgKind)
    (hk : k = .malformed ∨ ∃ name, k = .proc name ∧
      findCounter (lrun (Lifecycle.init g) ops).node.counters name = none)
    (hnonneg : ∀ i, find (lrun (Lifecycle.init g) ops).node.g.peerScore ip = some i → 0 ≤ i.score)
    (q : Nat) (apid : Option Nat) :
    let l := lrun (Lifecycle.init g) ops
    let l' := lreceive l now isReq remote pid k
    isBanned l'.node.g ip = true ∧ (∀ c ∈ l'.node.conns, c.1 ≠ pid) ∧ l'.node.handled = l.node.handled ∧
      inboundAllowed l'.node.g q ⟨some ip, apid⟩ = false ∧ outboundAllowed l'.node.g q ⟨some ip, apid⟩ = false := by
  intro l l'
  obtain ⟨hm, hrl, hmp⟩ := bound_started l (C18_life_bound_invariant g ops) hst
  have hl' : l' = { l with node := receive l.node now isReq remote pid k } :=
    C18_life_receive_current l hm hrl hmp now isReq remote pid k
  rw [hl']
  exact C18_bad_message_banned l.node hs remote ip hip pid now isReq k hk hnonneg q apid

/-- **Connection.ApplyPenalty / BanPeer act on the running host in every run.** -/
theorem C18_life_conn_ban (g : Gater) (ops : List LOp) (now pid : Nat) (s : Int) :
    let l := lrun (Lifecycle.init g) ops
    (lapplyPenalty l now pid s).node = applyPenalty l.node now pid s ∧
    (lbanPeerID l now pid).node = banPeerID l.node now pid := by
  intro l
  have h := C18_life_conn_current l (C18_life_bound_invariant g ops).conn now pid s
  rw [h.1, h.2]
  exact ⟨rfl, rfl⟩

/-! ### non-vacuity and sensitivity -/

/-- one procedure (limit 2, penalty 100), started, one restart -/
def C18lifeExample : LNode :=
  lrun (Lifecycle.init (C18fresh 10))
    [.gater .start, .register "blk" (some (2, 100)), .mpStart, .restart []]

example : C18lifeExample.gen = 1 ∧ C18lifeExample.rlGen = some 1 ∧ C18lifeExample.node.g.peerScore = [] := by decide

/-- the flood: three messages of one peer from 1.2.3.4 in one window (limit 2) -/
def C18lifeFlood (l : LNode) : LNode :=
  lrun l [.msg 5 true ⟨some [1, 2, 3, 4], none⟩ 7 (.proc "blk"), .msg 5 true ⟨some [1, 2, 3, 4], none⟩ 7 (.proc "blk"),
    .msg 5 true ⟨some [1, 2, 3, 4], none⟩ 7 (.proc "blk")]

example : isBanned (C18lifeFlood C18lifeExample).node.g [1, 2, 3, 4] = true := by decide

/-- the same history with an "idempotent" `rateLimit.start` (`if rl.peer != nil { return }`): after the
restart the rate limiter still points to generation 0 -/
def C18lifeStale : LNode :=
  (restartWith always onlyWhenNil always
    (lrun (Lifecycle.init (C18fresh 10)) [.gater .start, .register "blk" (some (2, 100)), .mpStart]) []).1

/-- **Sensitivity.** With a rate limiter that keeps the Peer of the previous run, the flood that bans the
sender in the model of the code leaves the gater of the running host EMPTY (the penalty sits in the
gater of generation 0), the sender is not banned and all gates still allow it. -/
theorem C18_stale_ratelimit_loses_penalty :
    C18lifeStale.rlGen = some 0 ∧ C18lifeStale.gen = 1 ∧
    (C18lifeFlood C18lifeStale).node.g.peerScore = [] ∧
    isBanned (C18lifeFlood C18lifeStale).node.g [1, 2, 3, 4] = false ∧
    inboundAllowed (C18lifeFlood C18lifeStale).node.g 7 ⟨some [1, 2, 3, 4], none⟩ = true ∧
    ((lookup (C18lifeFlood C18lifeStale).stale 0).map fun g => isBanned g [1, 2, 3, 4]) = some true ∧
    isBanned (C18lifeFlood C18lifeExample).node.g [1, 2, 3, 4] = true := by decide
