/-
C15 — the generator is wired to the node's own consensus, pool and chain, gets the generator database the
engine opened, and starts forging only after its stored information was loaded (tie A, table described in
Props/C13_Wire.lean).
-/
import LiskVerif.Lemmas.Wire

open LiskVerif LiskVerif.Wire

theorem C15_wire_generator_params :
    fieldsOf "Engine.init" "generator.GeneratorParams" = ["ABI", "Consensus", "Pool", "Chain"] ∧
    wired "Engine.init" "generator.GeneratorParams" "Pool" "e.transactionPool" = true ∧
    wired "Engine.init" "generator.GeneratorParams" "Consensus" "e.consensusExec" = true ∧
    wired "NewGenerator" "Generator" "consensus" "params.Consensus" = true ∧
    wired "NewGenerator" "Generator" "pool" "params.Pool" = true ∧
    wired "NewGenerator" "Generator" "chain" "params.Chain" = true ∧
    wired "NewGenerator" "Generator" "abi" "params.ABI" = true := by decide +kernel

theorem C15_wire_generator_databases :
    wired "Engine.Start" "generator.GeneratorInitParams" "GeneratorDB" "e.generatorDB" = true ∧
    wired "Engine.Start" "generator.GeneratorInitParams" "BlockchainDB" "e.blockchainDB" = true ∧
    wired "Engine.Start" "generator.GeneratorInitParams" "Cfg" "e.config" = true ∧
    wired "Engine.Start" "recv" "generatorDB" "generatorDB" = true ∧
    wired "Generator.Init" "recv" "generatorDB" "params.GeneratorDB" = true ∧
    wired "Generator.Init" "recv" "blockchainDB" "params.BlockchainDB" = true := by decide +kernel

/-- the forging loop is started after `Generator.Init` loaded the keys and the stored generator info,
and after consensus is initialised -/
theorem C15_wire_forge_after_load :
    before "Engine.Start" "e.consensusExec.Init" "e.generator.Init" = true ∧
    allAsyncAfter "Engine.Start" "e.generator.Init" = true ∧
    before "Generator.Init" "g.saveGeneratorsFromFile" "g.loadGenerator" = true := by decide +kernel
