/-
C04 — a node STARTED on an existing database with WRONG start-up inputs.

`Executer.Init` receives the genesis block from the node's configuration, not from the database.
`Chain.GenesisBlockExist` decides whether it is the genesis block of the stored chain; when it answers
"not stored, no error" `Init` runs `processGenesisBlock`, which resets the BFT store, writes the block
over the height index of its height and writes `finalized height := genesis height` — on a database that
holds a chain this lowers (or arbitrarily moves) the stored finalized height and replaces finalized
blocks. The property therefore needs: **on a database that holds a chain, a start with ANY genesis block
writes nothing; with a foreign genesis block it is refused.**

`restartG` (Model/Node.lean) is `Executer.Init` with the genesis block as an input: `genesisExist`
(the check, evaluated on the database: a new `Chain` has an empty block cache), `genesis`
(`processGenesisBlock`, only on an EMPTY database) and `restart` (`PrepareCache`).

* `C04_foreign_genesis_refused` — a genesis block that is not the block stored at its height (another id
  at that height, or no block at that height) is refused on every database that holds a chain;
* `C04_start_keeps_db`, `C04_start_keeps_finalized`, `C04_start_publishes_nothing` — for EVERY genesis
  block (foreign or not) a start on a database that holds a chain leaves the database, hence the stored
  finalized height and every stored block, alone and publishes no event;
* `C04_start_ok_only_own_genesis` — such a start succeeds only if the block stored at the genesis height
  has the id of the configured genesis block;
* `C04_refused_start_invisible` — after a refused start a regular restart ends in exactly the state a
  regular restart would have produced without it: every theorem of Props/C04_Restart.lean (guards right
  after a restart) and Props/C04.lean applies unchanged to the history without the refused start;
* `C04_refused_start_serves_stored_blocks` — while the refused node object exists, the id served for a
  height is the one in the database;
* `C04_genesis_height_check_needed` — the check as it was before fix `C04-foreign-genesis-height`
  (“nothing stored at the genesis height” = “first start”) lowers the stored finalized height 7 → 3 for a
  genesis block below the stored chain: a concrete database, checked by evaluation. (The seeded change
  C04-8 made the same mistake for every foreign genesis block by consulting the empty block cache.)

Tie to the code: harness/c04 op `restartg v=genesis` (a real node restarted with a foreign genesis block:
same height other id, inside the stored chain, at the tip, above the tip, below the stored genesis; the
application keeping or having lost its state) is replayed on the compiled model (Driver/Node.lean);
model-free oracle: byte-exact database dump before == after (`c04-foreign-genesis-wrote`), start refused
(`c04-foreign-genesis-accepted`). `restartg v=cfg` / `v=chainid` (block cache size, event retention, chain
id changed) are the model's `restart` under another `Cfg` (`C04_restart_keeps_db` holds for every `cfg`).
-/
import LiskVerif.Props.C04_Restart

open LiskVerif LiskVerif.Node
open LiskVerif.DiffDB (Store KV CV Cache Diff slookup sset sdel dbIterate)

/-- the database holds a chain: its height index is not empty (what `DataAccess.getLastBlock` reads) -/
def C04HoldsChain (db : Store) : Prop := (dbIterate db [4] 1 true).isEmpty = false

/-- `g` is not the block the database stores at the height of `g` -/
def C04Foreign (cd : Codecs) (db : Store) (g : Block) : Prop :=
  ∀ b, getBlockByHeight cd db g.hdr.height = some b → b.hdr.id ≠ g.hdr.id

/-- **A foreign genesis block is refused.** On a database that holds a chain, `Executer.Init` with a
genesis block that is not the stored block of its height returns an error; nothing is written, nothing is
published, the new `Chain` object has an empty block cache. -/
theorem C04_foreign_genesis_refused (cd : Codecs) (cfg : Cfg) (s : St) (g : Block) (x : Exec)
    (hc : C04HoldsChain s.db) (hf : C04Foreign cd s.db g) :
    restartG cd cfg s g x = ({ s with cache := [] }, .err) := by
  unfold restartG genesisExist
  cases hb : getBlockByHeight cd s.db g.hdr.height with
  | none =>
    unfold C04HoldsChain at hc
    simp only [hc]
    rfl
  | some b =>
    have hne := hf b hb
    simp only [hne, if_false]

/-- **No start writes to a database that holds a chain** — whatever genesis block is configured. -/
theorem C04_start_keeps_db (cd : Codecs) (cfg : Cfg) (s : St) (g : Block) (x : Exec)
    (hc : C04HoldsChain s.db) :
    (restartG cd cfg s g x).1.db = s.db := by
  unfold restartG genesisExist
  cases hb : getBlockByHeight cd s.db g.hdr.height with
  | none =>
    unfold C04HoldsChain at hc
    simp only [hc]
    rfl
  | some b =>
    by_cases he : b.hdr.id = g.hdr.id
    · simp only [he, if_true]
      exact C04_restart_keeps_db cd _ s
    · simp only [he, if_false]

/-- … so the stored finalized height is what it was: it cannot decrease (nor move at all). -/
theorem C04_start_keeps_finalized (cd : Codecs) (cfg : Cfg) (s : St) (g : Block) (x : Exec)
    (hc : C04HoldsChain s.db) :
    finOf (restartG cd cfg s g x).1.db = finOf s.db := by
  rw [C04_start_keeps_db cd cfg s g x hc]

private theorem restart_log (cd : Codecs) (cfg : Cfg) (s : St) : (restart cd cfg s).1.log = s.log := by
  unfold restart
  split <;> rfl

/-- … and no event (in particular no finalization event) is published. -/
theorem C04_start_publishes_nothing (cd : Codecs) (cfg : Cfg) (s : St) (g : Block) (x : Exec)
    (hc : C04HoldsChain s.db) :
    (restartG cd cfg s g x).1.log = s.log := by
  unfold restartG genesisExist
  cases hb : getBlockByHeight cd s.db g.hdr.height with
  | none =>
    unfold C04HoldsChain at hc
    simp only [hc]
    rfl
  | some b =>
    by_cases he : b.hdr.id = g.hdr.id
    · simp only [he, if_true]
      exact restart_log cd _ s
    · simp only [he, if_false]

/-- A start on a database that holds a chain succeeds only with the genesis block whose id is stored at
its height. -/
theorem C04_start_ok_only_own_genesis (cd : Codecs) (cfg : Cfg) (s : St) (g : Block) (x : Exec)
    (hc : C04HoldsChain s.db) (hok : (restartG cd cfg s g x).2 = .ok) :
    ∃ b, getBlockByHeight cd s.db g.hdr.height = some b ∧ b.hdr.id = g.hdr.id := by
  cases hb : getBlockByHeight cd s.db g.hdr.height with
  | none =>
    have hf : C04Foreign cd s.db g := by
      intro b h
      rw [hb] at h
      cases h
    rw [C04_foreign_genesis_refused cd cfg s g x hc hf] at hok
    cases hok
  | some b =>
    by_cases he : b.hdr.id = g.hdr.id
    · exact ⟨b, rfl, he⟩
    · have hf : C04Foreign cd s.db g := by
        intro b' h
        rw [hb] at h
        cases h
        exact he
      rw [C04_foreign_genesis_refused cd cfg s g x hc hf] at hok
      cases hok

private theorem restart_ignores_cache (cd : Codecs) (cfg : Cfg) (s : St) (c : List Block) :
    restart cd cfg { s with cache := c } = restart cd cfg s := by
  unfold restart
  simp only

/-- **A refused start is invisible.** The regular restart that follows a refused start gives exactly
the state (database, block cache, published events) and result of a regular restart without it. -/
theorem C04_refused_start_invisible (cd : Codecs) (cfg cfg' : Cfg) (s : St) (g : Block) (x : Exec)
    (hc : C04HoldsChain s.db) (hf : C04Foreign cd s.db g) :
    restart cd cfg (restartG cd cfg' s g x).1 = restart cd cfg s := by
  rw [C04_foreign_genesis_refused cd cfg' s g x hc hf]
  exact restart_ignores_cache cd cfg s []

/-- While the refused node object exists, the block id served for a height is the stored one
(`GetBlockHeaderByHeight` with an empty block cache reads the height index and the header table). -/
theorem C04_refused_start_serves_stored_blocks (cd : Codecs) (cfg : Cfg) (s : St) (g : Block) (x : Exec)
    (hc : C04HoldsChain s.db) (hf : C04Foreign cd s.db g) (h : Nat) :
    idAt cd (restartG cd cfg s g x).1 h =
      ((slookup s.db (kHeight h)).bind (headerOf cd s.db)).map (·.id) := by
  rw [C04_foreign_genesis_refused cd cfg s g x hc hf]
  unfold idAt headerAt cacheAt
  simp only [List.find?_nil]
  cases slookup s.db (kHeight h) <;> rfl

/-! ### the check before the fix (and, for every foreign genesis block, under seeded change C04-8) -/

/-- `Chain.GenesisBlockExist` before fix `C04-foreign-genesis-height`: no block at the genesis height was
taken for "genesis block not processed yet" -/
def C04genesisExistOld (cd : Codecs) (db : Store) (g : Block) : Option Bool :=
  match getBlockByHeight cd db g.hdr.height with
  | some b => if b.hdr.id = g.hdr.id then some true else none
  | none => some false

def C04restartGOld (cd : Codecs) (cfg : Cfg) (s : St) (g : Block) (x : Exec) : St × Res :=
  let cfg' : Cfg := { cfg with genesisHeight := g.hdr.height }
  match C04genesisExistOld cd s.db g with
  | none => ({ s with cache := [] }, .err)
  | some true => restart cd cfg' s
  | some false => ({ genesis cd cfg' s.db g x with log := s.log }, .ok)

namespace C04Genesis
open LiskVerif.Node.Example

/-- a database built from a genesis block at height 7 (a migrated network), nothing applied yet -/
def hdr7 : Hdr := { hdr0 with height := 7 }
def db7 : Store := [(kFin, encU32 7), (kHeight 7, gid), (kHeader gid, [0])]
def s7 : St := { db := db7, cache := [], log := [] }
def cd7 : Codecs := { cd with decHdr := fun hb => if hb = [0] then some hdr7 else none }

/-- a foreign genesis block at height 3 (e.g. the genesis file of the network before the migration) -/
def g3 : Block := { hdr := { hdr0 with height := 3, id := [3] }, hdrBytes := [3], txs := [], assets := [] }
/-- … at height 7 with another id, and the right one -/
def g7' : Block := { hdr := { hdr0 with height := 7, id := [4] }, hdrBytes := [4], txs := [], assets := [] }
def g7 : Block := { hdr := hdr7, hdrBytes := [0], txs := [], assets := [] }
def x0 : Exec := { overlay := [], mhpc := 0, events := [] }

theorem holds7 : C04HoldsChain db7 := by unfold C04HoldsChain; decide

theorem foreign3 : C04Foreign cd7 db7 g3 := by
  intro b hb
  have : getBlockByHeight cd7 db7 g3.hdr.height = none := by decide
  rw [this] at hb
  cases hb

theorem foreign7' : C04Foreign cd7 db7 g7' := by
  intro b hb
  have : getBlockByHeight cd7 db7 g7'.hdr.height = some g7 := by decide
  rw [this] at hb
  cases hb
  decide

end C04Genesis

/-- **The height check is needed** (failing input of the model-free oracle `c04-foreign-genesis-wrote:
unstored-height`, found on the unchanged code): with the old check a start of the node whose database was
built from a genesis block at height 7 with a genesis block at height 3 is accepted and lowers the stored
finalized height 7 → 3; with the fixed check it is refused and the height stays 7. -/
theorem C04_genesis_height_check_needed :
    finOf C04Genesis.s7.db = some 7 ∧
    (C04restartGOld C04Genesis.cd7 Example.cfg C04Genesis.s7 C04Genesis.g3 C04Genesis.x0).2 = .ok ∧
    finOf (C04restartGOld C04Genesis.cd7 Example.cfg C04Genesis.s7 C04Genesis.g3 C04Genesis.x0).1.db = some 3 ∧
    (restartG C04Genesis.cd7 Example.cfg C04Genesis.s7 C04Genesis.g3 C04Genesis.x0).2 = .err ∧
    finOf (restartG C04Genesis.cd7 Example.cfg C04Genesis.s7 C04Genesis.g3 C04Genesis.x0).1.db = some 7 := by
  decide +kernel

/-! ### non-vacuity -/

example : restartG C04Genesis.cd7 Example.cfg C04Genesis.s7 C04Genesis.g3 C04Genesis.x0
    = ({ C04Genesis.s7 with cache := [] }, .err) :=
  C04_foreign_genesis_refused _ _ _ _ _ C04Genesis.holds7 C04Genesis.foreign3

example : restartG C04Genesis.cd7 Example.cfg C04Genesis.s7 C04Genesis.g7' C04Genesis.x0
    = ({ C04Genesis.s7 with cache := [] }, .err) :=
  C04_foreign_genesis_refused _ _ _ _ _ C04Genesis.holds7 C04Genesis.foreign7'

/-- the configured genesis block of the stored chain is accepted and cached -/
example : (restartG C04Genesis.cd7 Example.cfg C04Genesis.s7 C04Genesis.g7 C04Genesis.x0).2 = .ok ∧
    ((restartG C04Genesis.cd7 Example.cfg C04Genesis.s7 C04Genesis.g7 C04Genesis.x0).1.cache.map (·.hdr.height)) = [7] := by
  decide +kernel

/-- first start: on an empty database the genesis block is processed (finalized height := its height) -/
example : (restartG C04Genesis.cd7 Example.cfg { db := [] } C04Genesis.g3 C04Genesis.x0).2 = .ok ∧
    finOf (restartG C04Genesis.cd7 Example.cfg { db := [] } C04Genesis.g3 C04Genesis.x0).1.db = some 3 := by
  decide +kernel

/-- after the block of `Example` became final (0 → 1): a start with a foreign genesis block at height 1,
then the regular restart — same state as the regular restart alone -/
example :
    restart Example.cd Example.cfg (restartG Example.cd Example.cfg
      (run Example.cd Example.cfg Example.slot Example.s0 C04Restart.opsA)
      { C04Genesis.g7' with hdr := { C04Genesis.g7'.hdr with height := 1 } } C04Genesis.x0).1
    = restart Example.cd Example.cfg (run Example.cd Example.cfg Example.slot Example.s0 C04Restart.opsA) := by
  apply C04_refused_start_invisible
  · unfold C04HoldsChain
    decide +kernel
  · intro b hb
    have h : (getBlockByHeight Example.cd (run Example.cd Example.cfg Example.slot Example.s0 C04Restart.opsA).db 1).map
        (·.hdr.id) = some [7] := by decide +kernel
    simp only at hb
    rw [hb] at h
    simp only [Option.map_some, Option.some.injEq] at h
    rw [h]
    decide
