/-
C19 (geometry) — convergence of the synchronisers against an HONEST peer over the whole geometry of
(own tip, finalized height, fork point, peer tip, download end block, round length, response cap).

`Props/C19_More.lean` proves that block sync with an honest peer ends on the peer's chain OR fails
with `noCommon` (`C19_block_sync_honest`), and convergence when a height sampled in the FIRST request
of the common block search is common (`C19_block_sync_converges`); the downloader against an honest
peer is covered for an end block that is the peer's TIP (`download_honest`).  Two seeded changes
(C19-5: a response that continues past the end block is rejected; C19-6: the search gives up before
sampling the finalized block) showed what these statements leave open.  This file closes it:

* `C19_download_peer_tip_above_end` — the end block anywhere on the honest peer's chain: whatever
  follows it on the peer's chain (the peer is longer than the target, or kept growing), and however
  many responses of 103 blocks the download takes, exactly the peer's blocks from the start block to
  the end block are delivered and the download completes;
* `C19_common_search_reaches_finalized` — the (at most three) requests of the common block search,
  nine round starts each and the finalized block as the last resort, find a common block whenever
  the fork point is not below the finalized block and the finalized block is less than 18 rounds
  below the start of the search — also when it lies strictly between the finalized block and the
  lowest sampled round start;
* `C19_block_sync_geometry` — block sync ends on EXACTLY the peer's chain up to the block the peer
  announced, for every such geometry, also when the peer's tip is above that block;
* `C19_fast_sync_peer_tip_above_target` — the same for fast sync inside its two-round window.
-/
import LiskVerif.Props.C19_More

open LiskVerif LiskVerif.Sync

set_option linter.unusedSectionVars false

/-! ## 1. The downloader: the peer's chain continues past the end block -/

section Download
variable {ι : Type} [DecidableEq ι]

/-- scanning a linked response that contains the end block: the blocks up to the end block are
delivered, what follows it in the response is ignored -/
private theorem scanSeg_fin_extra (endId : ι) (endH : Nat) (s : List (Blk ι)) (e : Blk ι) (r : List (Blk ι))
    (lid : ι) (lh : Nat) (hl : Linked lid lh (s ++ [e])) (he : e.id = endId)
    (hid : ∀ b ∈ s, b.id ≠ endId) (hh : ∀ b ∈ s, b.height < endH) :
    scanSeg endId endH (s ++ e :: r) lid lh = (s ++ [e], .fin) := by
  subst he
  induction s generalizing lid lh with
  | nil =>
    obtain ⟨h1, h2, _⟩ := hl
    have hbad : ¬ (e.height ≠ lh + 1 ∨ e.prev ≠ lid ∨ (e.height ≥ endH ∧ e.id ≠ e.id)) := by
      intro h; rcases h with h | h | h
      · exact h h1
      · exact h h2
      · exact h.2 rfl
    simp only [List.nil_append, scanSeg, hbad, if_false, if_true]
  | cons a r' ih =>
    obtain ⟨h1, h2, hr⟩ := hl
    have ha := hid a List.mem_cons_self
    have hah := hh a List.mem_cons_self
    have hbad : ¬ (a.height ≠ lh + 1 ∨ a.prev ≠ lid ∨ (a.height ≥ endH ∧ a.id ≠ e.id)) := by
      intro h; rcases h with h | h | h
      · exact h h1
      · exact h h2
      · omega
    simp only [List.cons_append, scanSeg, hbad, if_false, ha]
    rw [ih a.id a.height hr (fun b hb => hh b (List.mem_cons_of_mem _ hb)) (fun b hb => hid b (List.mem_cons_of_mem _ hb))]

/-- the request loop against an honest responder whose chain continues with `rest` after the end
block `e` -/
private theorem dlLoop_honest_ext (p : List (Blk ι)) (mhp : Nat) (hnd : (p.map (·.id)).Nodup) (e : Blk ι)
    (rest : List (Blk ι)) (fuel : Nat) (pre : List (Blk ι)) (b : Blk ι) (s : List (Blk ι))
    (hp : p = pre ++ b :: (s ++ e :: rest)) (hl : Linked b.id b.height (s ++ e :: rest))
    (hf : s.length + 1 ≤ fuel) :
    dlLoop (honest p mhp).segment e.id e.height fuel b.id b.height = (s ++ [e], true) := by
  induction fuel generalizing pre b s with
  | zero => omega
  | succ f ih =>
    have hK : 1 ≤ maxBlocksPerResponse := by unfold maxBlocksPerResponse; omega
    have hids : ∀ y ∈ s, y.id ≠ e.id := by
      have : p = (pre ++ [b] ++ s) ++ (e :: rest) := by rw [hp]; simp
      rw [this] at hnd
      intro y hy
      exact nodup_split_ne _ _ hnd y (List.mem_append_right _ hy) e List.mem_cons_self
    have hl2 : Linked b.id b.height ((s ++ [e]) ++ rest) := by
      rw [List.append_assoc]; exact hl
    have hlse : Linked b.id b.height (s ++ [e]) := ((linked_append b.id b.height (s ++ [e]) rest).mp hl2).1
    obtain ⟨hls, hle⟩ := (linked_append b.id b.height s [e]).mp hlse
    obtain ⟨hlast, hhs⟩ := lastOf_height b.id b.height s hls
    have heh : e.height = b.height + s.length + 1 := by
      have := hle.1; rw [hlast] at this; exact this
    have hhts : ∀ y ∈ s, y.height < e.height := by
      intro y hy; have := (hhs y hy).2; omega
    have hseg : (honest p mhp).segment b.id = some ((s ++ e :: rest).take maxBlocksPerResponse) := by
      rw [hp]; exact honest_segment_split mhp pre b (s ++ e :: rest) (by rw [← hp]; exact hnd)
    by_cases hcase : s.length + 1 ≤ maxBlocksPerResponse
    · -- the end block is in this response, possibly followed by more blocks of the peer's chain
      have htake : (s ++ e :: rest).take maxBlocksPerResponse
          = s ++ e :: rest.take (maxBlocksPerResponse - (s.length + 1)) := by
        have h1 : s ++ e :: rest = (s ++ [e]) ++ rest := by simp
        rw [h1, List.take_append, List.take_of_length_le (by simp; omega)]
        simp
      have hlt : Linked b.id b.height (s ++ e :: rest.take (maxBlocksPerResponse - (s.length + 1))) := by
        rw [← htake]; exact linked_take b.id b.height _ _ hl
      rw [htake] at hseg
      rw [dlLoop_step _ _ _ _ _ _ _ hseg (by simp)]
      rw [sortAsc_linked b.id b.height _ hlt,
        scanSeg_fin_extra e.id e.height s e _ b.id b.height hlse rfl hids hhts]
    · -- a full response below the end block, the download continues after its last block
      have hKs : maxBlocksPerResponse ≤ s.length := by omega
      have htake : (s ++ e :: rest).take maxBlocksPerResponse = s.take maxBlocksPerResponse :=
        List.take_append_of_le_length hKs
      rw [htake] at hseg
      have hs1len : (s.take maxBlocksPerResponse).length = maxBlocksPerResponse := by
        rw [List.length_take]; omega
      have hs1ne : s.take maxBlocksPerResponse ≠ [] := by
        intro h; rw [h] at hs1len; simp at hs1len; omega
      obtain ⟨s1', x, hs1⟩ : ∃ s1' x, s.take maxBlocksPerResponse = s1' ++ [x] :=
        ⟨_, _, (List.dropLast_concat_getLast hs1ne).symm⟩
      have hsplit : s = s1' ++ [x] ++ s.drop maxBlocksPerResponse := by
        rw [← hs1, List.take_append_drop]
      have hl1 : Linked b.id b.height (s1' ++ [x]) := by
        rw [hsplit, List.append_assoc] at hls
        rw [← List.append_assoc] at hls
        exact ((linked_append b.id b.height (s1' ++ [x]) _).mp hls).1
      have hmem1 : ∀ y ∈ s1' ++ [x], y ∈ s := by
        intro y hy; rw [hsplit]; exact List.mem_append_left _ hy
      rw [dlLoop_step _ _ _ _ _ _ _ hseg hs1ne, hs1]
      rw [sortAsc_linked b.id b.height _ hl1,
        scanSeg_cont e.id e.height (s1' ++ [x]) b.id b.height hl1
          (fun y hy => hids y (hmem1 y hy)) (fun y hy => hhts y (hmem1 y hy))]
      simp only [lastOf_append_singleton]
      have hp' : p = (pre ++ b :: s1') ++ x :: (s.drop maxBlocksPerResponse ++ e :: rest) := by
        rw [hp]; conv => lhs; rw [hsplit]
        simp
      have hl' : Linked x.id x.height (s.drop maxBlocksPerResponse ++ e :: rest) := by
        have h1 := hl
        conv at h1 => rw [hsplit]
        rw [List.append_assoc] at h1
        have h2 := ((linked_append b.id b.height (s1' ++ [x]) _).mp h1).2
        rw [lastOf_append_singleton] at h2
        exact h2
      have hf' : (s.drop maxBlocksPerResponse).length + 1 ≤ f := by
        rw [List.length_drop]; omega
      rw [ih (pre ++ b :: s1') x (s.drop maxBlocksPerResponse) hp' hl' hf']
      simp only [Prod.mk.injEq, and_true]
      conv => rhs; rw [hsplit]
      simp

/-- **The downloader against an honest peer whose tip is above the end block.**  The peer's chain is
`pre ++ b :: s ++ e :: rest` (unique ids, linked): `b` is the start block, `e` the end block and
`rest` — ANY continuation: empty, one block, more than a response — what the peer has above it
(it is longer than the target, or kept growing after it announced `e`).  Then the downloader delivers
exactly `s ++ [e]` and completes without an error item, whatever number of responses of at most 103
blocks that takes and although the response that contains `e` also contains blocks of `rest`. -/
theorem C19_download_peer_tip_above_end (p : List (Blk ι)) (mhp : Nat) (hnd : (p.map (·.id)).Nodup)
    (hok : ChainOK p) (pre : List (Blk ι)) (b : Blk ι) (s : List (Blk ι)) (e : Blk ι) (rest : List (Blk ι))
    (hp : p = pre ++ b :: (s ++ e :: rest)) :
    download (honest p mhp).segment b.id pre.length e.id e.height = (s ++ [e], true) := by
  obtain ⟨hbh, hl⟩ := chainOK_split p pre b (s ++ e :: rest) hok hp
  have hp' : p = (pre ++ b :: s) ++ e :: rest := by rw [hp]; simp
  have heh := (chainOK_split p _ e rest hok hp').1
  simp only [List.length_append, List.length_cons] at heh
  unfold download
  have := dlLoop_honest_ext p mhp hnd e rest (e.height - pre.length + 1) pre b s hp hl (by omega)
  rw [hbh] at this
  exact this

end Download

/-- non-vacuity: the peer is on `g b1 b2 b3`, the download ends at `b2`: the response to the request
for the blocks after `g` is `[b1, b2, b3]`, `b3` is ignored -/
example : download (honest [C19g, C19b1, C19b2, C19b3] 0).segment 0 0 2 2 = ([C19b1, C19b2], true) := by decide
example : (honest [C19g, C19b1, C19b2, C19b3] 0).segment 0 = some [C19b1, C19b2, C19b3] := by decide

/-! ## 2. The common block search: the finalized block as the last resort -/

section Search
variable {ι : Type} [DecidableEq ι]

/-- the search only uses the peer's answers to `getHighestCommonBlock` -/
private theorem commonSearch_congr (n fin : Nat) (q : List (Blk ι)) (peer peer' : Peer ι)
    (h : peer.common = peer'.common) (trial start : Nat) :
    commonSearch n fin q peer trial start = commonSearch n fin q peer' trial start := by
  induction trial generalizing start with
  | zero => rfl
  | succ t ih => simp only [commonSearch, h, ih]

/-- one request of the search -/
private theorem commonSearch_succ (n fin : Nat) (q : List (Blk ι)) (peer : Peer ι) (trial start : Nat) :
    commonSearch n fin q peer (trial + 1) start =
      match peer.common (idsAt q (getHeightWithGap start fin n 10)) with
      | none => .error .requestFailed
      | some none => commonSearch n fin q peer trial (u32sub ((getHeightWithGap start fin n 10).getLastD 0) n)
      | some (some cid) =>
        match heightOf q cid with
        | none => .error .unknownCommon
        | some ch => .ok ch := rfl

/-- a sampled height in the common part is named by the honest responder: its answer is not "none" -/
private theorem honest_common_hit (com qOwn pOwn : List (Blk ι)) (mhp : Nat) (hs : List Nat) (h : Nat)
    (hmem : h ∈ hs) (hlt : h < com.length) :
    (honest (com ++ pOwn) mhp).common (idsAt (com ++ qOwn) hs) ≠ some none ∧
    (honest (com ++ pOwn) mhp).common (idsAt (com ++ qOwn) hs) ≠ none := by
  have hb : (com ++ qOwn)[h]? = some com[h] := by
    rw [List.getElem?_append_left hlt, List.getElem?_eq_getElem hlt]
  have hid : com[h].id ∈ idsAt (com ++ qOwn) hs := (mem_idsAt _ _ _).mpr ⟨h, hmem, _, hb, rfl⟩
  have honp : heightOf (com ++ pOwn) com[h].id ≠ none := by
    intro hn
    exact (heightOf_eq_none_iff _ _).mp hn com[h] (List.mem_append_left _ (List.getElem_mem hlt)) rfl
  constructor
  · intro hc
    exact absurd (((honest_common_some_none_iff _ mhp _).mp hc).2 _ hid) honp
  · intro hc
    have := (honest_common_none_iff _ mhp _).mp hc
    rw [this] at hid; cases hid

/-- **The search reaches the finalized block.**  Requester on `com ++ qOwn`, honest responder on
`com ++ pOwn`; the fork point is not below the finalized block (`fin < com.length`).  A search of
`trial + 1` requests that starts at a round start `start` (a multiple of the round length `n`, on the
requester's chain) at most `9 · n · trial` above the finalized height finds a common block: each
request samples nine round starts going down; a request that has passed the finalized height is
followed by one that samples the finalized block itself (`getHeightWithGap` answers `[fin]` for a
start at or below `fin`), which is common.  In particular a fork point strictly between the
finalized block and the lowest sampled round start is found — by the last-resort request. -/
theorem C19_common_search_reaches_finalized (com qOwn pOwn : List (Blk ι)) (mhp n fin : Nat)
    (hn : 0 < n) (hfork : fin < com.length) (hov : fin + 10 * n < two32)
    (hlen : (com ++ qOwn).length ≤ two32) (trial start : Nat)
    (hdiv : n ∣ start) (hstart : start < (com ++ qOwn).length) (hreach : start ≤ fin + 9 * n * trial) :
    ∃ ch, commonSearch n fin (com ++ qOwn) (honest (com ++ pOwn) mhp) (trial + 1) start = .ok ch := by
  induction trial generalizing start with
  | zero =>
    -- the only request samples the finalized block
    have hle : start ≤ fin := by omega
    exact commonSearch_honest_hit com qOwn pOwn mhp n fin 0 start
      ⟨fin, by simp only [getHeightWithGap, hle, if_true]; exact List.mem_singleton.mpr rfl, hfork⟩
  | succ t ih =>
    have hs32 : start < two32 := by omega
    by_cases hle : start ≤ fin
    · exact commonSearch_honest_hit com qOwn pOwn mhp n fin (t + 1) start
        ⟨fin, by simp only [getHeightWithGap, hle, if_true]; exact List.mem_singleton.mpr rfl, hfork⟩
    · -- the sampled heights: start, start - n, ... (k of them, 1 ≤ k ≤ 9)
      obtain ⟨k, hk9, hlist, hall, hstop⟩ :=
        ((C19_heights_arith.1 start fin n 10 hs32 (by omega)).2.1 (by omega))
      have hkpos : 0 < k := by
        rcases Nat.eq_zero_or_pos k with h0 | h0
        · subst h0
          have := hstop (by omega)
          simp at this; omega
        · exact h0
      obtain ⟨k', rfl⟩ : ∃ k', k = k' + 1 := ⟨k - 1, by omega⟩
      have hlow : fin + k' * n ≤ start := hall k' (by omega)
      have hlowmem : start - k' * n ∈ getHeightWithGap start fin n 10 := by
        rw [hlist]
        exact List.mem_map.mpr ⟨k', List.mem_range.mpr (by omega), rfl⟩
      have hlast : (getHeightWithGap start fin n 10).getLastD 0 = start - k' * n := by
        rw [hlist, getLastD_map_range]
        simp
      by_cases hhit : ∃ h ∈ getHeightWithGap start fin n 10, h < com.length
      · exact commonSearch_honest_hit com qOwn pOwn mhp n fin (t + 1) start hhit
      · -- no sampled height is common: the responder answers "none", the search continues one round
        -- below the lowest sampled height
        have hnone : ∀ h ∈ getHeightWithGap start fin n 10, com.length ≤ h := by
          intro h hh
          rcases Nat.lt_or_ge h com.length with h1 | h1
          · exact absurd ⟨h, hh, h1⟩ hhit
          · exact h1
        have hlowge : com.length ≤ start - k' * n := hnone _ hlowmem
        -- the lowest sampled height is a positive multiple of n
        have hdvd : n ∣ start - k' * n := Nat.dvd_sub hdiv (Nat.dvd_mul_left n k')
        have hnle : n ≤ start - k' * n := Nat.le_of_dvd (by omega) hdvd
        have hsub : u32sub (start - k' * n) n = start - k' * n - n := u32sub_of_le hnle (by omega)
        have hdvd' : n ∣ start - k' * n - n := Nat.dvd_sub hdvd (Nat.dvd_refl n)
        have hreach' : start - k' * n - n ≤ fin + 9 * n * t := by
          by_cases hk : k' + 1 < 10 - 1
          · have := hstop hk
            rw [Nat.succ_mul] at this
            omega
          · have hk8 : k' = 8 := by omega
            subst hk8
            have : 9 * n * (t + 1) = 9 * n * t + 9 * n := by rw [Nat.mul_succ]
            omega
        obtain ⟨ch, hch⟩ := ih (start - k' * n - n) hdvd' (by omega) hreach'
        -- the ids requested in this round are ids of blocks of the requester's chain
        have hstartmem : start ∈ getHeightWithGap start fin n 10 := by
          rcases getHeightWithGap_ne_nil start fin n 10 (by omega) hs32 with h | ⟨h, _⟩
          · exact h
          · omega
        have hidsne : idsAt (com ++ qOwn) (getHeightWithGap start fin n 10) ≠ [] := by
          intro h0
          have hb : (com ++ qOwn)[start]? = some (com ++ qOwn)[start] := List.getElem?_eq_getElem hstart
          have : (com ++ qOwn)[start].id ∈ idsAt (com ++ qOwn) (getHeightWithGap start fin n 10) :=
            (mem_idsAt _ _ _).mpr ⟨start, hstartmem, _, hb, rfl⟩
          rw [h0] at this; cases this
        rw [commonSearch_succ]
        cases hc : (honest (com ++ pOwn) mhp).common (idsAt (com ++ qOwn) (getHeightWithGap start fin n 10)) with
        | none => exact absurd ((honest_common_none_iff _ mhp _).mp hc) hidsne
        | some o =>
          cases o with
          | none =>
            simp only [hlast, hsub]
            exact ⟨ch, hch⟩
          | some cid =>
            obtain ⟨_, hmem', _⟩ := (honest_common_some_some_iff _ mhp _ cid).mp hc
            obtain ⟨h2, _, b, hb2, hbi⟩ := (mem_idsAt _ _ cid).mp hmem'
            cases hq : heightOf (com ++ qOwn) cid with
            | none => exact absurd hbi ((heightOf_eq_none_iff _ cid).mp hq b (List.mem_of_getElem? hb2))
            | some ch' => exact ⟨ch', by simp only [hq]⟩

end Search

/-! ## 3. Block sync over the whole geometry -/

/-- an honest peer on chain `p` that announced its block `e` (received block, answer to
`getLastBlock`, prevoted height `mhp`) and serves every other request from `p` — in particular when
`e` is no longer its tip because it kept growing -/
def C19grownPeer {ι : Type} [DecidableEq ι] (p : List (Blk ι)) (e : Blk ι) (mhp : Nat) : Peer ι :=
  { honest p mhp with last := some (e, mhp) }

section BlockGeometry
variable {ι : Type} [DecidableEq ι]

/-- when the announced block is the peer's tip, the grown peer is the honest peer -/
theorem C19_grown_peer_at_tip (p : List (Blk ι)) (e : Blk ι) (mhp : Nat) :
    C19grownPeer (p ++ [e]) e mhp = honest (p ++ [e]) mhp := by
  simp [C19grownPeer, honest, handleLastBlock]

/-- **Block sync converges, whole geometry.**  The requester is on `com ++ qOwn` (tip height
`tipH`), the honest peer on `com ++ s' ++ e :: rest` where `e` is the block it announced and `rest`
ANY continuation (its tip may be at, one above or many responses above `e`).  Round length `n ≥ 1`,
finalized height `fin`.  If
* the fork point is not below the finalized block (`fin < com.length`) — anywhere between the
  finalized block and the own tip, also strictly between the finalized block and the lowest sampled
  round start, and
* the finalized block is at most 18 rounds below the start of the search (two requests of nine round
  starts, then the last-resort request for the finalized block itself), and
* the sync condition holds for the reported tip and the announced block,
then one round of the block synchroniser ends with the requester on EXACTLY `com ++ s' ++ [e]` — the
peer's chain up to the announced block —, no error, nobody banned, temp table empty, however many
responses of 103 blocks the download takes. -/
theorem C19_block_sync_geometry (applies : List (Blk ι) → Blk ι → Bool) (n fin myMhp mhp : Nat)
    (com qOwn s' : List (Blk ι)) (e : Blk ι) (rest : List (Blk ι)) (best : Tip ι)
    (hf : Fork com qOwn (s' ++ e :: rest))
    (hchain : ChainOK (com ++ (s' ++ e :: rest)))
    (hvalid : ValidChain applies (com ++ (s' ++ [e])))
    (hok : ∀ b ∈ com ++ (s' ++ [e]), b.ok = true)
    (hn : 0 < n) (hov : fin + 10 * n < two32) (hlen : (com ++ qOwn).length ≤ two32)
    (hd1 : isDifferentChain myMhp best.mhp ((com ++ qOwn).length - 1) best.height = true)
    (hd2 : isDifferentChain myMhp mhp ((com ++ qOwn).length - 1) e.height = true)
    (hfork : fin < com.length)
    (hreach : getCommonBlockStartSearchHeight ((com ++ qOwn).length - 1) n ≤ fin + 18 * n) :
    blockSync applies n fin myMhp (com ++ qOwn) best (C19grownPeer (com ++ (s' ++ e :: rest)) e mhp)
      = ⟨com ++ (s' ++ [e]), [], false, none⟩ := by
  -- the search
  obtain ⟨hs1, hs2, _, _⟩ := C19_heights_arith.2.2 ((com ++ qOwn).length - 1) n hn
  have hqpos : 0 < (com ++ qOwn).length := by rw [List.length_append]; omega
  have hstart32 : getCommonBlockStartSearchHeight ((com ++ qOwn).length - 1) n < two32 := by omega
  obtain ⟨ch, hcs⟩ := C19_common_search_reaches_finalized com qOwn (s' ++ e :: rest) mhp n fin hn hfork hov hlen 2
    (getCommonBlockStartSearchHeight ((com ++ qOwn).length - 1) n) (Nat.dvd_of_mod_eq_zero hs2) (by omega) (by omega)
  have hcs' : commonSearch n fin (com ++ qOwn) (C19grownPeer (com ++ (s' ++ e :: rest)) e mhp) 3
      (getCommonBlockStartSearchHeight ((com ++ qOwn).length - 1) n) = .ok ch := by
    rw [commonSearch_congr n fin _ (C19grownPeer (com ++ (s' ++ e :: rest)) e mhp)
      (honest (com ++ (s' ++ e :: rest)) mhp) rfl]; exact hcs
  obtain ⟨hlt, hge⟩ := commonSearch_honest_ok com qOwn (s' ++ e :: rest) hf mhp n fin hov 3 _ hstart32 ch hcs
  -- the common block, the download, the application
  have hcom : com = com.take ch ++ com[ch] :: com.drop (ch + 1) := by simp
  have hp : com ++ (s' ++ e :: rest) = com.take ch ++ com[ch] :: ((com.drop (ch + 1) ++ s') ++ e :: rest) := by
    conv => lhs; rw [hcom]
    simp only [List.append_assoc, List.cons_append]
  have t1 : (com ++ qOwn)[ch]? = some com[ch] := by
    rw [List.getElem?_append_left hlt, List.getElem?_eq_getElem hlt]
  have t2 : download (C19grownPeer (com ++ (s' ++ e :: rest)) e mhp).segment com[ch].id ch e.id e.height
      = (com.drop (ch + 1) ++ s' ++ [e], true) := by
    have := C19_download_peer_tip_above_end (com ++ (s' ++ e :: rest)) mhp hf.ndp hchain (com.take ch) com[ch]
      (com.drop (ch + 1) ++ s') e rest hp
    rw [List.length_take, Nat.min_eq_left (by omega)] at this
    exact this
  have t3 : streamApply applies ((com ++ qOwn).take (ch + 1)) (com.drop (ch + 1) ++ s' ++ [e])
      = (com ++ (s' ++ [e]), none) := by
    have htake : (com ++ qOwn).take (ch + 1) = com.take (ch + 1) :=
      List.take_append_of_le_length (by omega)
    rw [htake]
    apply streamApply_valid applies _ _ _ hvalid
    · rw [List.append_assoc, ← List.append_assoc (com.take (ch + 1)), List.take_append_drop]
    · intro h
      have := congrArg List.length h
      simp only [List.length_take, List.length_nil] at this
      omega
    · intro b hb
      apply hok b
      simp only [List.mem_append, List.mem_singleton] at hb ⊢
      rcases hb with (hb | hb) | hb
      · exact Or.inl (List.mem_of_mem_drop hb)
      · exact Or.inr (Or.inl hb)
      · exact Or.inr (Or.inr hb)
  have hlast : (C19grownPeer (com ++ (s' ++ e :: rest)) e mhp).last = some (e, mhp) := rfl
  have heok : e.ok = true := hok e (by simp)
  have h4 : ¬ ch < fin := by omega
  simp only [blockSync, hlast, hd1, hd2, heok, hcs', Bool.not_true, Bool.false_eq_true, if_false, h4,
    t1, t2, t3, if_true]

/-- the same for an honest peer whose tip is the announced block: the statement the seeded change
C19-6 (no last-resort request for the finalized block) violates -/
theorem C19_block_sync_geometry_at_tip (applies : List (Blk ι) → Blk ι → Bool) (n fin myMhp mhp : Nat)
    (com qOwn s' : List (Blk ι)) (e : Blk ι) (best : Tip ι)
    (hf : Fork com qOwn (s' ++ [e]))
    (hchain : ChainOK (com ++ (s' ++ [e])))
    (hvalid : ValidChain applies (com ++ (s' ++ [e])))
    (hok : ∀ b ∈ com ++ (s' ++ [e]), b.ok = true)
    (hn : 0 < n) (hov : fin + 10 * n < two32) (hlen : (com ++ qOwn).length ≤ two32)
    (hd1 : isDifferentChain myMhp best.mhp ((com ++ qOwn).length - 1) best.height = true)
    (hd2 : isDifferentChain myMhp mhp ((com ++ qOwn).length - 1) e.height = true)
    (hfork : fin < com.length)
    (hreach : getCommonBlockStartSearchHeight ((com ++ qOwn).length - 1) n ≤ fin + 18 * n) :
    blockSync applies n fin myMhp (com ++ qOwn) best (honest (com ++ (s' ++ [e])) mhp)
      = ⟨com ++ (s' ++ [e]), [], false, none⟩ := by
  have h := C19_block_sync_geometry applies n fin myMhp mhp com qOwn s' e [] best hf hchain hvalid hok hn hov hlen
    hd1 hd2 hfork hreach
  have hp : com ++ (s' ++ [e]) = (com ++ s') ++ [e] := by simp
  rw [hp, C19_grown_peer_at_tip, ← hp] at h
  exact h

end BlockGeometry

/-- non-vacuity.  Requester `g b1 q2` (tip 2), peer `g b1 b2 b3`, round length 2: the search starts at
height 0.  (a) the peer announced `b2` and has grown to `b3`: the requester ends on `g b1 b2`.
(b) round length 1, finalized height 1: the search starts at height 1 = the finalized block. -/
example : C19outcome (blockSync C19applies 2 0 0 [C19g, C19b1, C19q2] ⟨0, 2, 1, 2⟩
      (C19grownPeer [C19g, C19b1, C19b2, C19b3] C19b2 1))
    = ([C19g, C19b1, C19b2], [], false, none) := by decide
example : Fork [C19g, C19b1] [C19q2] [C19b2, C19b3] ∧ ChainOK [C19g, C19b1, C19b2, C19b3] ∧
    getCommonBlockStartSearchHeight 2 2 ≤ 0 + 18 * 2 :=
  ⟨⟨by decide, by decide, by decide⟩, by simp [ChainOK, Linked, C19g, C19b1, C19b2, C19b3], by decide⟩

/-! ## 4. Fast sync: the received block is below the peer's tip -/

section FastGeometry
variable {ι : Type} [DecidableEq ι]

/-- **Fast sync converges when the peer's tip is above the received block.**  The situation of
`C19_converges_to_better_chain` (requester on `init ++ last :: qOwn`, fork point `last` not below the
finalized height, both own parts inside the two-round window), but the honest peer's chain continues
with ANY `rest` after the received block `e`: the requester ends on exactly the peer's chain up to
`e`, no error, nobody banned, no temp block left. -/
theorem C19_fast_sync_peer_tip_above_target (applies : List (Blk ι) → Blk ι → Bool)
    (finAfter : List (Blk ι) → Nat) (n fin mhp : Nat) (init : List (Blk ι)) (last : Blk ι)
    (qOwn s : List (Blk ι)) (e : Blk ι) (rest : List (Blk ι))
    (hndp : ((init ++ last :: (s ++ e :: rest)).map (·.id)).Nodup)
    (hndq : ((init ++ last :: qOwn).map (·.id)).Nodup)
    (hdisj : ∀ y ∈ qOwn, ∀ x ∈ init ++ last :: (s ++ e :: rest), x.id ≠ y.id)
    (hheight : last.height = init.length)
    (hlinked : Linked last.id last.height (s ++ e :: rest))
    (hok : ∀ b ∈ s ++ [e], b.ok = true)
    (hvalid : ValidChain applies (init ++ last :: (s ++ [e])))
    (hfin : fin ≤ init.length)
    (hn : 1 ≤ n) (hwq : qOwn.length ≤ 2 * n - 2) (hwp : s.length + 1 ≤ 2 * n)
    (hbq : init.length + 1 + qOwn.length ≤ two32) (hbp : init.length + 1 + s.length + 1 ≤ two32)
    (hbn : 2 * n ≤ two32) :
    fastSync applies finAfter n fin (init ++ last :: qOwn) e (honest (init ++ last :: (s ++ e :: rest)) mhp)
      = ⟨init ++ last :: (s ++ [e]), [], false, none⟩ := by
  have hqlen : (init ++ last :: qOwn).length - 1 = init.length + qOwn.length := by
    rw [List.length_append, List.length_cons]; omega
  have hheights := C19_heights_arith.2.1 (init.length + qOwn.length) (2 * n) (by omega) hbn
  have hqget : (init ++ last :: qOwn)[init.length]? = some last := by
    rw [List.getElem?_append_right (Nat.le_refl _)]; simp
  have hmem : last.id ∈ idsAt (init ++ last :: qOwn) (getLastHeights (init.length + qOwn.length) (2 * n)) := by
    rw [mem_idsAt]
    refine ⟨init.length, ?_, last, hqget, rfl⟩
    rw [hheights]
    apply List.mem_map.mpr
    exact ⟨qOwn.length, by rw [List.mem_range]; omega, by omega⟩
  have hhp : heightOf (init ++ last :: (s ++ e :: rest)) last.id = some init.length :=
    heightOf_split init last _ (fun x hx => nodup_split_ne init (last :: (s ++ e :: rest)) hndp x hx last List.mem_cons_self)
  have hcommon : (honest (init ++ last :: (s ++ e :: rest)) mhp).common
      (idsAt (init ++ last :: qOwn) (getLastHeights (init.length + qOwn.length) (2 * n))) = some (some last.id) := by
    rw [honest_common_some_some_iff]
    have hne : idsAt (init ++ last :: qOwn) (getLastHeights (init.length + qOwn.length) (2 * n)) ≠ [] := by
      intro h0; rw [h0] at hmem; cases hmem
    refine ⟨hne, hmem, init.length, hhp, ?_⟩
    intro j hj hjh hjp
    obtain ⟨h', _, y, hy, hyj⟩ := (mem_idsAt _ _ j).mp hj
    have hymem : y ∈ init ++ last :: qOwn := List.mem_of_getElem? hy
    have hcase : y ∈ init ++ [last] ∨ y ∈ qOwn := by
      rcases List.mem_append.mp hymem with h1 | h1
      · exact Or.inl (List.mem_append_left _ h1)
      · rcases List.mem_cons.mp h1 with h2 | h2
        · exact Or.inl (by rw [h2]; simp)
        · exact Or.inr h2
    rcases hcase with h1 | h1
    · have hP : init ++ last :: (s ++ e :: rest) = (init ++ [last]) ++ (s ++ e :: rest) := by simp
      rw [hP, ← hyj] at hjp
      have := heightOf_lt_of_mem (init ++ [last]) _ y h1 hjh hjp
      simp at this; omega
    · have hnone : heightOf (init ++ last :: (s ++ e :: rest)) j = none := by
        rw [heightOf_eq_none_iff]
        intro x hx; rw [← hyj]; exact hdisj y h1 x hx
      rw [hnone] at hjp; cases hjp
  have hch : heightOf (init ++ last :: qOwn) last.id = some init.length :=
    heightOf_split init last qOwn (fun x hx => nodup_split_ne init (last :: qOwn) hndq x hx last List.mem_cons_self)
  -- the end block
  have hl2 : Linked last.id last.height ((s ++ [e]) ++ rest) := by rw [List.append_assoc]; exact hlinked
  have hlse : Linked last.id last.height (s ++ [e]) := ((linked_append last.id last.height (s ++ [e]) rest).mp hl2).1
  obtain ⟨hls, hle⟩ := (linked_append last.id last.height s [e]).mp hlse
  obtain ⟨hlast, _⟩ := lastOf_height last.id last.height s hls
  have heh : e.height = init.length + s.length + 1 := by
    have := hle.1; rw [hlast, hheight] at this; exact this
  have hsub : u32sub e.height init.length = s.length + 1 := by
    rw [u32sub_of_le (by omega) (by omega)]; omega
  -- the download: the response containing `e` also contains blocks of `rest`
  have hdl : download (honest (init ++ last :: (s ++ e :: rest)) mhp).segment last.id init.length e.id e.height
      = (s ++ [e], true) := by
    unfold download
    have := dlLoop_honest_ext (init ++ last :: (s ++ e :: rest)) mhp hndp e rest (e.height - init.length + 1)
      init last s rfl hlinked (by omega)
    rw [hheight] at this
    exact this
  have hany : (s ++ [e]).any (fun b => !b.ok) = false := by
    rw [List.any_eq_false]
    intro b hb; simp [hok b hb]
  have htake : (init ++ last :: qOwn).take (init.length + 1) = init ++ [last] := by
    have : init ++ last :: qOwn = (init ++ [last]) ++ qOwn := by simp
    rw [this]; exact List.take_left' (by simp)
  have happly : applyAll applies (init ++ [last]) (s ++ [e]) = (init ++ last :: (s ++ [e]), true) :=
    applyAll_valid applies _ _ _ hvalid (by simp) (by simp)
  unfold fastSync
  simp only [hqlen, hcommon, hch, hdl, hany, htake, happly, hsub]
  have h1 : ¬ init.length < fin := by omega
  have h2 : ¬ (init.length + qOwn.length - init.length > 2 * n ∨ s.length + 1 > 2 * n) := by omega
  rw [if_neg h1, if_neg h2, if_neg (by decide), if_neg (by decide)]

end FastGeometry

/-- non-vacuity: requester `g b1 q2`, the peer `g b1 b2 b3` announced `b2` -/
example : C19outcome (fastSync C19applies (fun _ => 0) 2 0 [C19g, C19b1, C19q2] C19b2
      (honest [C19g, C19b1, C19b2, C19b3] 1))
    = ([C19g, C19b1, C19b2], [], false, none) := by decide
