/-
C19 — tie A for the sync context (miss C19-17): WHERE the fields of the `sync.SyncContext` handed to the
synchronisers come from, regenerated from the source on every run.

tools/syncpathgen (`-ctxout`) lists the assignments, composite-literal fields and returns of
`Executer.createSyncContext` and `Executer.process` (pkg/consensus/execute.go) in program order into
Gen/SyncCtxSrc.lean, plus every function of pkg/consensus and pkg/consensus/sync that builds a `SyncContext` and
every later write to its `FinalizedBlockHeader` / `CurrentValidators`.  The obligations below are decided by
kernel evaluation of that table; they break when

* the finalized header is no longer read at `DataAccess.GetFinalizedHeight()` through
  `GetBlockHeaderByHeight` (`C19_gen_ctx_finalized_header_read_at_stored_height`, `C19_gen_ctx_source_is_marker`:
  the source expression, mapped to the `FinSrc` of Model/SyncCtx.lean, is `FinSrc.marker` — the source the model
  driver runs and the theorems of Props/C19_Context.lean are about; the seeded change C19-17 maps to
  `FinSrc.bftStore`, for which `C19_ctx_bft_store_source_counterexample` is the failing behaviour);
* the height variable is assigned more than once or under a condition, the validators stop being those of the BFT
  parameters at `tip + 1`, the block / peer are not the received ones, a field is added
  (`C19_gen_ctx_validators`, `C19_gen_ctx_block_and_peer`, `C19_gen_ctx_fields_exact`);
* a second constructor of the context or a later field write appears (`C19_gen_ctx_single_constructor`), or
  `Executer.process` hands something else to `Syncer.Sync` (`C19_gen_ctx_process_hands_it_on`);
* the fast synchroniser's ban check stops reading the context's finalized header
  (`C19_gen_ctx_fast_check_reads_context`, on Gen/SyncPaths.lean).
-/
import LiskVerif.Gen.SyncCtxSrc
import LiskVerif.Gen.SyncPaths
import LiskVerif.Model.SyncCtx

open LiskVerif LiskVerif.Gen.SyncPaths LiskVerif.Gen.SyncCtxSrc

namespace C19CtxGen

/-- the assignments to a name, in program order -/
def assigns (f : Fn) (v : String) : List Item := f.items.filter (fun it => it.kind == "assign" && it.dst == v)

/-- the defining expression of a name that is assigned exactly once, outside every branch / loop -/
def defOf (f : Fn) (v : String) : Option String :=
  match assigns f v with
  | [it] => if it.ctx.isEmpty then some it.subj else none
  | _ => none

/-- the value given to a field of a composite literal (`none`: not exactly one such literal field) -/
def fieldOf (f : Fn) (fld : String) : Option String :=
  match f.items.filter (fun it => it.kind == "field" && it.dst == fld) with
  | [it] => if it.ctx.isEmpty then some it.subj else none
  | _ => none

/-- the candidate sources of a finalized height as expressions of `createSyncContext` -/
def srcOf : String → Option SyncCtx.FinSrc
  | "self.chain.DataAccess().GetFinalizedHeight()#0" => some .marker
  | "self.liskBFT.API().GetBFTHeights(diffStore)#1" => some .bftStore
  | _ => none

def cs : Fn := Executer_createSyncContext

end C19CtxGen

open C19CtxGen

/-- **The finalized header of the sync context is read at the stored finalized height**: the field is the local
`header`, which is `GetBlockHeaderByHeight(finalizedHeight)`, and `finalizedHeight` is assigned exactly once,
unconditionally, from `DataAccess.GetFinalizedHeight()`. -/
theorem C19_gen_ctx_finalized_header_read_at_stored_height :
    fieldOf cs "sync.SyncContext.FinalizedBlockHeader" = some "header" ∧
    defOf cs "header" = some "self.chain.DataAccess().GetBlockHeaderByHeight(finalizedHeight)#0" ∧
    defOf cs "finalizedHeight" = some "self.chain.DataAccess().GetFinalizedHeight()#0" := by
  decide +kernel

/-- **The source of the finalized height is the marker** — the `FinSrc` the model driver builds every sync context
from and the theorems of Props/C19_Context.lean are about. -/
theorem C19_gen_ctx_source_is_marker :
    (defOf cs "finalizedHeight").bind srcOf = some SyncCtx.FinSrc.marker := by
  decide +kernel

/-- the validators are those of the BFT parameters for the height after the tip, one address per validator -/
theorem C19_gen_ctx_validators :
    fieldOf cs "sync.SyncContext.CurrentValidators" = some "currentValidators" ∧
    defOf cs "currentValidators" = some "make([]codec.Lisk32, len(params.Validators()))" ∧
    (assigns cs "currentValidators[i]").map (fun it => (it.subj, it.ctx)) =
      [("validator.Address()", ["range(validator in params.Validators())"])] ∧
    defOf cs "params" =
      some "self.liskBFT.API().GetBFTParameters(diffStore, self.chain.LastBlock().Header.Height + 1)#0" := by
  decide +kernel

/-- block, sender and Go context are those of the received block -/
theorem C19_gen_ctx_block_and_peer :
    fieldOf cs "sync.SyncContext.Block" = some "pCtx.block" ∧
    fieldOf cs "sync.SyncContext.PeerID" = some "pCtx.peerID" ∧
    fieldOf cs "sync.SyncContext.Ctx" = some "pCtx.ctx" := by
  decide +kernel

/-- the context has exactly these five fields, set in one literal, which is what the function returns -/
theorem C19_gen_ctx_fields_exact :
    ((cs.items.filter (fun it => it.kind == "field")).map (·.dst)) =
      ["sync.SyncContext.Ctx", "sync.SyncContext.Block", "sync.SyncContext.PeerID",
       "sync.SyncContext.CurrentValidators", "sync.SyncContext.FinalizedBlockHeader"] ∧
    defOf cs "ctx" = some "&sync.SyncContext{…}" ∧
    (cs.items.getLast?).map (fun it => (it.kind, it.subj, it.dst, it.ctx)) = some ("return", "ctx", "nil", []) := by
  decide +kernel

/-- `createSyncContext` is the only place that builds a `SyncContext`, and nothing rewrites its finalized header or
validators afterwards -/
theorem C19_gen_ctx_single_constructor :
    contextLiterals = ["Executer.createSyncContext"] ∧ contextFieldWrites = [] ∧
    Gen.SyncCtxSrc.fns.map (·.name) = ["Executer.process", "Executer.createSyncContext"] := by
  decide +kernel

/-- `Executer.process` hands exactly this context to `Syncer.Sync`, on the different-chain branch -/
theorem C19_gen_ctx_process_hands_it_on :
    (assigns Executer_process "sContext").map (fun it => (it.subj, it.ctx)) =
      [("self.createSyncContext(ctx)#0", ["if forkChocie.IsDifferentChain()"])] ∧
    (Executer_process.items.filter (fun it => it.subj == "self.syncer.Sync(sContext)")).map (fun it => (it.kind, it.ctx)) =
      [("assign", ["if forkChocie.IsDifferentChain()"])] := by
  decide +kernel

/-- the fast synchroniser compares the common block with the context's finalized header and leaves on that branch -/
theorem C19_gen_ctx_fast_check_reads_context :
    (fastSyncer_Sync.items.filter (fun it =>
      it.ctx == ["if commonBlockHeader.Height < ctx.FinalizedBlockHeader.Height"])).map (fun it => (it.kind, it.subj)) =
      [("return", "false")] := by
  decide +kernel

/-- non-vacuity: the table is not empty and the query functions distinguish the two sources -/
example : 10 ≤ cs.items.length ∧ srcOf "self.liskBFT.API().GetBFTHeights(diffStore)#1" = some SyncCtx.FinSrc.bftStore ∧
    defOf cs "err" = none := by
  decide +kernel
