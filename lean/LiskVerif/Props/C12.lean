/-
C12 — Staged state store reads equal the database with staged writes applied.

Property theorems about `LiskVerif.Model.DiffDB` (the model of pkg/db/diffdb and the scans of
pkg/db).  Helper lemmas live in `LiskVerif/Lemmas/DiffDB.lean` and `LiskVerif/Lemmas/Order.lean`.
-/
import LiskVerif.Lemmas.DiffDB
import LiskVerif.Lemmas.Order
import LiskVerif.Lemmas.Sort

open LiskVerif LiskVerif.DiffDB

/-- Invariant of one overlay w.r.t. the underlying store. -/
structure C12CacheInv (s : Store) (c : Cache) : Prop where
  nodupC : NoDupKeys c
  /-- `init` records exactly what the store holds -/
  initOk : ∀ k cv, clookup c k = some cv → cv.init = slookup s k
  /-- only keys present in the store are ever marked deleted -/
  delOk : ∀ k cv, clookup c k = some cv → cv.deleted = true → cv.init ≠ none
  /-- an entry that is neither dirty nor deleted still carries its initial value -/
  cleanOk : ∀ k cv, clookup c k = some cv → cv.dirty = false → cv.deleted = false →
    cv.init = none ∨ cv.init = some cv.value

/-- Invariant of the staged store: holds initially and is preserved by every operation. -/
structure C12Inv (st : St) : Prop where
  nodupS : NoDupKeys st.store
  cacheOk : C12CacheInv st.store st.cache
  snapsOk : ∀ e ∈ st.snaps, C12CacheInv st.store e.2

/-- The invariant holds for a freshly opened staged store over any database. -/
theorem C12_inv_init (s : Store) (h : NoDupKeys s) : C12Inv { store := s } :=
  ⟨h, ⟨by simp [NoDupKeys], by simp [clookup], by simp [clookup], by simp [clookup]⟩,
   by simp⟩

/-! ### cache-level preservation lemmas -/

private theorem inv_ccache {s : Store} {c : Cache} (h : C12CacheInv s c) {k v : Bytes}
    (hs : slookup s k = some v) : C12CacheInv s (ccache c k v) := by
  unfold ccache
  refine ⟨nodup_put c k _ h.nodupC, ?_, ?_, ?_⟩
  · intro k' cv hl
    rw [clookup_cput] at hl
    by_cases hk : k = k'
    · subst hk; simp at hl; subst hl; simp [hs]
    · simp [hk] at hl; exact h.initOk k' cv hl
  · intro k' cv hl hd
    rw [clookup_cput] at hl
    by_cases hk : k = k'
    · subst hk; simp at hl; subst hl; simp at hd
    · simp [hk] at hl; exact h.delOk k' cv hl hd
  · intro k' cv hl hd hd2
    rw [clookup_cput] at hl
    by_cases hk : k = k'
    · subst hk; simp at hl; subst hl; simp
    · simp [hk] at hl; exact h.cleanOk k' cv hl hd hd2

private theorem inv_cadd {s : Store} {c : Cache} (h : C12CacheInv s c) {k v : Bytes}
    (hs : slookup s k = none) : C12CacheInv s (cadd c k v) := by
  unfold cadd
  refine ⟨nodup_put c k _ h.nodupC, ?_, ?_, ?_⟩
  · intro k' cv hl
    rw [clookup_cput] at hl
    by_cases hk : k = k'
    · subst hk; simp at hl; subst hl; simp [hs]
    · simp [hk] at hl; exact h.initOk k' cv hl
  · intro k' cv hl hd
    rw [clookup_cput] at hl
    by_cases hk : k = k'
    · subst hk; simp at hl; subst hl; simp at hd
    · simp [hk] at hl; exact h.delOk k' cv hl hd
  · intro k' cv hl hd hd2
    rw [clookup_cput] at hl
    by_cases hk : k = k'
    · subst hk; simp at hl; subst hl; simp
    · simp [hk] at hl; exact h.cleanOk k' cv hl hd hd2

private theorem inv_cset {s : Store} {c : Cache} (h : C12CacheInv s c) (k v : Bytes) :
    C12CacheInv s (cset c k v) := by
  unfold cset
  cases ho : clookup c k with
  | none => simpa using h
  | some o =>
    simp only
    refine ⟨nodup_put c k _ h.nodupC, ?_, ?_, ?_⟩
    · intro k' cv hl
      rw [clookup_cput] at hl
      by_cases hk : k = k'
      · subst hk; simp at hl; subst hl; simpa using h.initOk k o ho
      · simp [hk] at hl; exact h.initOk k' cv hl
    · intro k' cv hl hd
      rw [clookup_cput] at hl
      by_cases hk : k = k'
      · subst hk; simp at hl; subst hl; simp at hd
      · simp [hk] at hl; exact h.delOk k' cv hl hd
    · intro k' cv hl hd hd2
      rw [clookup_cput] at hl
      by_cases hk : k = k'
      · subst hk; simp at hl; subst hl; simp at hd
      · simp [hk] at hl; exact h.cleanOk k' cv hl hd hd2

private theorem inv_cdel {s : Store} {c : Cache} (h : C12CacheInv s c) (k : Bytes) :
    C12CacheInv s (cdel c k) := by
  unfold cdel
  cases ho : clookup c k with
  | none => simpa using h
  | some o =>
    simp only
    cases hi : o.init with
    | none =>
      simp only
      refine ⟨nodup_filter c _ h.nodupC, ?_, ?_, ?_⟩
      · intro k' cv hl
        rw [clookup_cerase] at hl
        by_cases hk : k = k'
        · simp [hk] at hl
        · simp [hk] at hl; exact h.initOk k' cv hl
      · intro k' cv hl hd
        rw [clookup_cerase] at hl
        by_cases hk : k = k'
        · simp [hk] at hl
        · simp [hk] at hl; exact h.delOk k' cv hl hd
      · intro k' cv hl hd hd2
        rw [clookup_cerase] at hl
        by_cases hk : k = k'
        · simp [hk] at hl
        · simp [hk] at hl; exact h.cleanOk k' cv hl hd hd2
    | some i =>
      simp only
      refine ⟨nodup_put c k _ h.nodupC, ?_, ?_, ?_⟩
      · intro k' cv hl
        rw [clookup_cput] at hl
        by_cases hk : k = k'
        · subst hk; simp at hl; subst hl; simpa [hi] using h.initOk k o ho
        · simp [hk] at hl; exact h.initOk k' cv hl
      · intro k' cv hl hd
        rw [clookup_cput] at hl
        by_cases hk : k = k'
        · subst hk; simp at hl; subst hl; simp [hi]
        · simp [hk] at hl; exact h.delOk k' cv hl hd
      · intro k' cv hl hd hd2
        rw [clookup_cput] at hl
        by_cases hk : k = k'
        · subst hk; simp at hl; subst hl; simp at hd2
        · simp [hk] at hl; exact h.cleanOk k' cv hl hd hd2

/-! ### point reads and writes refine the overlay map -/

private theorem effC_ccache {s : Store} {c : Cache} {k v : Bytes} (hc : clookup c k = none)
    (hs : slookup s k = some v) (k' : Bytes) : effC s (ccache c k v) k' = effC s c k' := by
  unfold effC ccache
  rw [clookup_cput]
  by_cases hk : k = k'
  · subst hk; simp [hc, hs]
  · simp [hk]

private theorem effC_cset {s : Store} {c : Cache} {k : Bytes} (v : Bytes) (hne : clookup c k ≠ none)
    (k' : Bytes) : effC s (cset c k v) k' = if k = k' then some v else effC s c k' := by
  unfold effC cset
  cases ho : clookup c k with
  | none => exact absurd ho hne
  | some o =>
    simp only [clookup_cput]
    by_cases hk : k = k' <;> simp [hk]

private theorem effC_cdel {s : Store} {c : Cache} (hinv : C12CacheInv s c) {k : Bytes}
    (hne : clookup c k ≠ none) (k' : Bytes) :
    effC s (cdel c k) k' = if k = k' then none else effC s c k' := by
  unfold effC cdel
  cases ho : clookup c k with
  | none => exact absurd ho hne
  | some o =>
    simp only
    cases hi : o.init with
    | none =>
      simp only [clookup_cerase]
      by_cases hk : k = k'
      · subst hk
        have := hinv.initOk k o ho
        simp [hi] at this
        simp [← this]
      · simp [hk]
    | some i =>
      simp only [clookup_cput]
      by_cases hk : k = k' <;> simp [hk]

/-- `Get` returns the effective value (store with staged writes applied), leaves the effective map
unchanged (it only caches) and preserves the invariant. -/
theorem C12_get_refines (st : St) (h : C12Inv st) (k : Bytes) :
    (DiffDB.get st k).2 = eff st k ∧ (∀ k', eff (DiffDB.get st k).1 k' = eff st k') ∧
      C12Inv (DiffDB.get st k).1 := by
  unfold DiffDB.get eff effC
  cases hc : clookup st.cache k with
  | some cv =>
    by_cases hd : cv.deleted = true
    · simp [hd]; exact h
    · simp [hd]; exact h
  | none =>
    cases hs : slookup st.store k with
    | none => simp; exact h
    | some v =>
      simp only [true_and]
      refine ⟨?_, ⟨h.nodupS, inv_ccache h.cacheOk hs, h.snapsOk⟩⟩
      intro k'
      exact effC_ccache hc hs k'

/-- `Set` stages `k ↦ v` and nothing else. -/
theorem C12_set_refines (st : St) (h : C12Inv st) (k v : Bytes) :
    (∀ k', eff (DiffDB.set st k v) k' = if k = k' then some v else eff st k') ∧
      C12Inv (DiffDB.set st k v) := by
  unfold DiffDB.set eff
  cases hc : clookup st.cache k with
  | some cv =>
    exact ⟨fun k' => effC_cset v (by simp [hc]) k', ⟨h.nodupS, inv_cset h.cacheOk k v, h.snapsOk⟩⟩
  | none =>
    unfold ensureCache
    cases hs : slookup st.store k with
    | some v0 =>
      simp only
      refine ⟨?_, ⟨h.nodupS, inv_cset (inv_ccache h.cacheOk hs) k v, h.snapsOk⟩⟩
      intro k'
      rw [effC_cset v (by simp [ccache]) k', effC_ccache hc hs k']
    | none =>
      simp only
      refine ⟨?_, ⟨h.nodupS, inv_cadd h.cacheOk hs, h.snapsOk⟩⟩
      intro k'
      simp only [effC, cadd, clookup_cput]
      by_cases hk : k = k' <;> simp [hk]

/-- `Del` stages the removal of `k` and nothing else. -/
theorem C12_del_refines (st : St) (h : C12Inv st) (k : Bytes) :
    (∀ k', eff (del st k) k' = if k = k' then none else eff st k') ∧ C12Inv (del st k) := by
  unfold del eff
  cases hc : clookup st.cache k with
  | some cv =>
    exact ⟨fun k' => effC_cdel h.cacheOk (by simp [hc]) k', ⟨h.nodupS, inv_cdel h.cacheOk k, h.snapsOk⟩⟩
  | none =>
    unfold ensureCache
    cases hs : slookup st.store k with
    | some v0 =>
      simp only
      refine ⟨?_, ⟨h.nodupS, inv_cdel (inv_ccache h.cacheOk hs) k, h.snapsOk⟩⟩
      intro k'
      rw [effC_cdel (inv_ccache h.cacheOk hs) (by simp [ccache]) k', effC_ccache hc hs k']
    | none =>
      simp only
      refine ⟨?_, ⟨h.nodupS, inv_cdel h.cacheOk k, h.snapsOk⟩⟩
      intro k'
      have : cdel st.cache k = st.cache := by unfold cdel; simp [hc]
      rw [this]
      by_cases hk : k = k'
      · subst hk; simp [effC, hc, hs]
      · simp [hk]

/-! ### scans keep the effective map and the invariant -/

private theorem absorb_inv {s : Store} (l : List KV) :
    ∀ (c : Cache), C12CacheInv s c → (∀ e ∈ l, slookup s e.1 = some e.2) →
      C12CacheInv s (absorb c l).1 ∧ ∀ k', effC s (absorb c l).1 k' = effC s c k' := by
  induction l with
  | nil => intro c h _; exact ⟨h, fun _ => rfl⟩
  | cons e r ih =>
    intro c h hl
    obtain ⟨k, v⟩ := e
    have hr : ∀ e ∈ r, slookup s e.1 = some e.2 := fun e he => hl e (List.mem_cons_of_mem _ he)
    unfold absorb
    cases hc : clookup c k with
    | some cv =>
      simp only
      by_cases hd : cv.deleted = true
      · simp only [hd, if_true]; exact ih c h hr
      · simp only [hd]; exact ih c h hr
    | none =>
      simp only
      have hs : slookup s k = some v := hl (k, v) List.mem_cons_self
      have := ih (ccache c k v) (inv_ccache h hs) hr
      refine ⟨this.1, fun k' => ?_⟩
      rw [this.2 k', effC_ccache hc hs k']

private theorem scan_inv (st : St) (h : C12Inv st) (f : Bytes → Bool) (limit : Int) (rev : Bool) :
    (∀ k', eff (scan st f limit rev).1 k' = eff st k') ∧ C12Inv (scan st f limit rev).1 := by
  unfold scan eff
  have hl : ∀ e ∈ sortDir (st.store.filter (fun kv => f kv.1)) rev, slookup st.store e.1 = some e.2 := by
    intro e he
    have : e ∈ st.store := by
      unfold sortDir at he
      split at he <;> (rw [mem_isort] at he; exact (List.mem_filter.mp he).1)
    exact (slookup_iff_mem st.store h.nodupS e.1 e.2).mpr this
  have := absorb_inv (s := st.store) _ st.cache h.cacheOk hl
  exact ⟨this.2, ⟨h.nodupS, this.1, h.snapsOk⟩⟩

private theorem findSnap_mem (l : List (Nat × Cache)) (id : Nat) (c : Cache)
    (hf : findSnap l id = some c) : ∃ e ∈ l, e.2 = c := by
  induction l with
  | nil => simp [findSnap] at hf
  | cons e r ih2 =>
    obtain ⟨i, c'⟩ := e
    simp only [findSnap] at hf
    by_cases hi : i = id
    · simp [hi] at hf; exact ⟨(i, c'), List.mem_cons_self, hf⟩
    · simp [hi] at hf
      obtain ⟨e, he, hec⟩ := ih2 hf
      exact ⟨e, List.mem_cons_of_mem _ he, hec⟩

/-- Every operation sequence (reads, writes, scans, snapshots through any prefix view) preserves
the invariant of the staged store. -/
theorem C12_cache_invariant (st : St) (h : C12Inv st) (ops : List Op) : C12Inv (run st ops) := by
  unfold run
  induction ops generalizing st with
  | nil => exact h
  | cons op r ih =>
    apply ih
    cases op with
    | get k => exact (C12_get_refines st h k).2.2
    | set k v => exact (C12_set_refines st h k v).2
    | del k => exact (C12_del_refines st h k).2
    | range s e l rv => exact (scan_inv st h _ l rv).2
    | iterate p l rv => exact (scan_inv st h _ l rv).2
    | snapshot =>
      refine ⟨h.nodupS, h.cacheOk, ?_⟩
      intro e he
      simp only [step, snapshot, List.mem_cons] at he
      rcases he with he | he
      · subst he; exact h.cacheOk
      · exact h.snapsOk e he
    | restore id =>
      simp only [step, restore]
      cases hf : findSnap st.snaps id with
      | none => exact h
      | some c =>
        have hmem := findSnap_mem st.snaps id c hf
        obtain ⟨e, he, hec⟩ := hmem
        refine ⟨h.nodupS, hec ▸ h.snapsOk e he, ?_⟩
        intro e' he'
        exact h.snapsOk e' (List.mem_filter.mp he').1
    | deleteSnapshot id =>
      refine ⟨h.nodupS, h.cacheOk, ?_⟩
      intro e' he'
      exact h.snapsOk e' (List.mem_filter.mp he').1

/-- Reads and scans never change the effective map (they only populate the cache). -/
theorem C12_reads_do_not_change_state (st : St) (h : C12Inv st) :
    (∀ k k', eff (step st (.get k)) k' = eff st k') ∧
    (∀ s e l r k', eff (step st (.range s e l r)) k' = eff st k') ∧
    (∀ p l r k', eff (step st (.iterate p l r)) k' = eff st k') :=
  ⟨fun k k' => (C12_get_refines st h k).2.1 k',
   fun s e l r k' => (scan_inv st h _ l r).1 k',
   fun p l r k' => (scan_inv st h _ l r).1 k'⟩

/-! ### snapshots -/

private theorem findSnap_filter_ne (l : List (Nat × Cache)) (id id' : Nat) (h : id ≠ id') :
    findSnap (l.filter (fun e => e.1 ≠ id')) id = findSnap l id := by
  induction l with
  | nil => rfl
  | cons e r ih =>
    obtain ⟨i, c⟩ := e
    by_cases hi : i = id'
    · subst hi
      simp only [List.filter, ne_eq, not_true_eq_false, decide_false, findSnap, ih]
      simp [Ne.symm h]
    · simp only [List.filter, ne_eq, hi, not_false_eq_true, decide_true, findSnap, ih]

/-- ops that do not restore or delete snapshot `id` -/
def C12KeepsSnapshot (id : Nat) : Op → Prop
  | .restore i => i ≠ id
  | .deleteSnapshot i => i ≠ id
  | _ => True

/-- Restoring a snapshot returns exactly the staged state at the time of the snapshot, whatever
happened in between (writes, deletes, scans, other snapshots taken / restored / deleted). -/
theorem C12_snapshot_restore (st : St) (ops : List Op)
    (hops : ∀ op ∈ ops, C12KeepsSnapshot (snapshot st).2 op) :
    let st' := run (snapshot st).1 ops
    (restore st' (snapshot st).2).2 = true ∧
    ∀ k, eff (restore st' (snapshot st).2).1 k = eff st k := by
  have stepk : ∀ (op : Op) (s0 : St) (id : Nat) (c : Cache),
      C12KeepsSnapshot id op → id < s0.snapCount → findSnap s0.snaps id = some c →
      id < (step s0 op).snapCount ∧ findSnap (step s0 op).snaps id = some c ∧
        (step s0 op).store = s0.store := by
    intro op s0 id c hop hlt hf
    cases op with
    | get k =>
      simp only [step, DiffDB.get]
      split
      · split <;> exact ⟨hlt, hf, rfl⟩
      · split <;> exact ⟨hlt, hf, rfl⟩
    | set k v =>
      simp only [step, DiffDB.set]
      split
      · exact ⟨hlt, hf, rfl⟩
      · split <;> exact ⟨hlt, hf, rfl⟩
    | del k =>
      simp only [step, DiffDB.del]
      split <;> exact ⟨hlt, hf, rfl⟩
    | range s e l rv => exact ⟨hlt, hf, rfl⟩
    | iterate p l rv => exact ⟨hlt, hf, rfl⟩
    | snapshot =>
      refine ⟨by simp only [step, snapshot]; omega, ?_, rfl⟩
      simp only [step, snapshot, findSnap]
      have : s0.snapCount ≠ id := by omega
      simp [this, hf]
    | restore i =>
      simp only [C12KeepsSnapshot] at hop
      simp only [step, restore]
      cases hfi : findSnap s0.snaps i with
      | none => exact ⟨hlt, hf, rfl⟩
      | some ci =>
        refine ⟨hlt, ?_, rfl⟩
        simp only; rw [findSnap_filter_ne _ _ _ (Ne.symm hop)]; exact hf
    | deleteSnapshot i =>
      simp only [C12KeepsSnapshot] at hop
      refine ⟨hlt, ?_, rfl⟩
      simp only [step, deleteSnapshot]; rw [findSnap_filter_ne _ _ _ (Ne.symm hop)]; exact hf
  have key : ∀ (ops : List Op) (s0 : St) (id : Nat) (c : Cache),
      (∀ op ∈ ops, C12KeepsSnapshot id op) → id < s0.snapCount → findSnap s0.snaps id = some c →
      findSnap (run s0 ops).snaps id = some c ∧ (run s0 ops).store = s0.store := by
    intro ops
    induction ops with
    | nil => intro s0 id c _ _ hf; exact ⟨hf, rfl⟩
    | cons op r ih =>
      intro s0 id c hk hlt hf
      have hr : ∀ op ∈ r, C12KeepsSnapshot id op := fun o ho => hk o (List.mem_cons_of_mem _ ho)
      obtain ⟨h1, h2, h3⟩ := stepk op s0 id c (hk op List.mem_cons_self) hlt hf
      have := ih (step s0 op) id c hr h1 h2
      have hrun : run s0 (op :: r) = run (step s0 op) r := rfl
      rw [hrun]
      exact ⟨this.1, this.2.trans h3⟩
  intro st'
  have := key ops (snapshot st).1 (snapshot st).2 st.cache hops
    (by simp [snapshot]) (by simp [snapshot, findSnap])
  simp only [restore, st', this.1]
  refine ⟨trivial, fun k => ?_⟩
  have h2 : (run (snapshot st).1 ops).store = st.store := this.2
  simp only [eff, h2]

/-! ### commit and revert -/

/-- what `cacheDB.commit` writes for one entry, as the resulting lookup -/
private def written (cv : CV) (old : Option Bytes) : Option Bytes :=
  match cv.init with
  | none => some cv.value
  | some _ => if cv.deleted then none else if cv.dirty then some cv.value else old

private theorem clookup_none_of_not_mem (c : Cache) (k : Bytes) (h : k ∉ c.map (·.1)) :
    clookup c k = none := by
  induction c with
  | nil => rfl
  | cons e r ih =>
    obtain ⟨a, b⟩ := e
    simp only [List.map_cons, List.mem_cons, not_or] at h
    simp only [clookup]
    rw [if_neg (Ne.symm h.1)]
    exact ih h.2

private theorem commitCache_lookup (c : Cache) : ∀ (s : Store) (d : Diff), NoDupKeys c → ∀ k,
    slookup (commitCache c s d).1 k =
      match clookup c k with
      | some cv => written cv (slookup s k)
      | none => slookup s k := by
  induction c with
  | nil => intro s d _ k; rfl
  | cons e r ih =>
    intro s d hnd k
    obtain ⟨k0, cv⟩ := e
    unfold NoDupKeys at hnd
    simp only [List.map_cons, List.nodup_cons] at hnd
    have hr : NoDupKeys r := hnd.2
    simp only [clookup]
    by_cases hk : k0 = k
    · subst hk
      have hnone : clookup r k0 = none := clookup_none_of_not_mem r k0 hnd.1
      simp only [if_true]
      unfold commitCache written
      cases hi : cv.init with
      | none => simp only; rw [ih _ _ hr k0, hnone]; simp
      | some i =>
        simp only
        cases hd : cv.deleted <;> cases hdi : cv.dirty <;>
          simp only [Bool.false_eq_true, if_false, if_true] <;>
          rw [ih _ _ hr k0, hnone] <;> simp
    · simp only [hk, if_false]
      unfold commitCache
      cases hi : cv.init with
      | none => simp only; rw [ih _ _ hr k]; simp [hk]
      | some i =>
        simp only
        cases hd : cv.deleted <;> cases hdi : cv.dirty <;>
          simp only [Bool.false_eq_true, if_false, if_true] <;>
          rw [ih _ _ hr k] <;> simp [hk]

/-- Commit writes exactly the final staged state: after the batch is applied, every key of the
database holds its effective value. -/
theorem C12_commit_exact (st : St) (h : C12Inv st) (k : Bytes) :
    slookup (commit st).1.store k = eff st k := by
  unfold commit
  simp only
  rw [commitCache_lookup st.cache st.store {} h.cacheOk.nodupC k]
  unfold eff effC
  cases hc : clookup st.cache k with
  | none => rfl
  | some cv =>
    simp only [written]
    have hinit := h.cacheOk.initOk k cv hc
    cases hi : cv.init with
    | none =>
      have : cv.deleted = false := by
        cases hd : cv.deleted with
        | false => rfl
        | true => exact absurd hi (h.cacheOk.delOk k cv hc hd)
      simp [this]
    | some i =>
      simp only
      cases hd : cv.deleted with
      | true => simp
      | false =>
        cases hdi : cv.dirty with
        | true => simp
        | false =>
          have := h.cacheOk.cleanOk k cv hc hdi hd
          rw [hi] at this hinit
          simp only [Bool.false_eq_true, if_false]
          rcases this with h1 | h1
          · cases h1
          · rw [← hinit, h1]

private def addedOf (c : Cache) : List Bytes :=
  c.filterMap fun e => match e.2.init with | none => some e.1 | some _ => none
private def deletedOf (c : Cache) : List KV :=
  c.filterMap fun e => match e.2.init with
    | some i => if e.2.deleted then some (e.1, i) else none | none => none
private def updatedOf (c : Cache) : List KV :=
  c.filterMap fun e => match e.2.init with
    | some i => if e.2.deleted then none else if e.2.dirty then some (e.1, i) else none | none => none

private theorem commitCache_diff (c : Cache) : ∀ (s : Store) (d : Diff),
    (commitCache c s d).2 =
      { added := d.added ++ addedOf c, updated := d.updated ++ updatedOf c,
        deleted := d.deleted ++ deletedOf c } := by
  induction c with
  | nil => intro s d; simp [commitCache, addedOf, updatedOf, deletedOf]
  | cons e r ih =>
    intro s d
    obtain ⟨k0, cv⟩ := e
    unfold commitCache
    cases hi : cv.init with
    | none => simp [ih, addedOf, updatedOf, deletedOf, hi]
    | some i =>
      cases hd : cv.deleted <;> cases hdi : cv.dirty <;>
        simp [ih, addedOf, updatedOf, deletedOf, hi, hd, hdi]

private theorem foldl_sdel_lookup (ks : List Bytes) : ∀ (s : Store) (k : Bytes),
    slookup (ks.foldl (fun s k => sdel s k) s) k = if k ∈ ks then none else slookup s k := by
  induction ks with
  | nil => intro s k; simp
  | cons a r ih =>
    intro s k
    simp only [List.foldl_cons, ih, slookup_sdel, List.mem_cons]
    by_cases h1 : k ∈ r
    · simp [h1]
    · by_cases h2 : a = k
      · simp [h2]
      · simp [h1, h2, Ne.symm h2]

private theorem slookup_none_of_not_mem (l : List KV) (k : Bytes) (h : k ∉ l.map (·.1)) :
    slookup l k = none := by
  induction l with
  | nil => rfl
  | cons e r ih =>
    obtain ⟨a, b⟩ := e
    simp only [List.map_cons, List.mem_cons, not_or] at h
    simp only [slookup]
    rw [if_neg (Ne.symm h.1)]
    exact ih h.2

private theorem foldl_sset_lookup (kvs : List KV) : ∀ (s : Store) (k : Bytes), NoDupKeys kvs →
    slookup (kvs.foldl (fun s kv => sset s kv.1 kv.2) s) k =
      match slookup kvs k with
      | some v => some v
      | none => slookup s k := by
  induction kvs with
  | nil => intro s k _; simp [slookup]
  | cons e r ih =>
    intro s k hnd
    obtain ⟨a, b⟩ := e
    unfold NoDupKeys at hnd
    simp only [List.map_cons, List.nodup_cons] at hnd
    simp only [List.foldl_cons, slookup]
    rw [ih _ _ hnd.2]
    by_cases h : a = k
    · subst h
      rw [slookup_none_of_not_mem r a hnd.1]
      simp
    · simp [h]

/-- generic lookup in a `filterMap` of an association list with distinct keys -/
private theorem slookup_filterMap (c : Cache) (g : CV → Option Bytes) (hnd : NoDupKeys c) (k : Bytes) :
    slookup (c.filterMap fun e => (g e.2).map fun v => (e.1, v)) k =
      match clookup c k with
      | some cv => g cv
      | none => none := by
  induction c with
  | nil => rfl
  | cons e r ih =>
    obtain ⟨k0, cv⟩ := e
    unfold NoDupKeys at hnd
    simp only [List.map_cons, List.nodup_cons] at hnd
    simp only [List.filterMap_cons, clookup]
    by_cases hk : k0 = k
    · subst hk
      simp only [if_true]
      cases hg : g cv with
      | some v => simp [slookup]
      | none =>
        simp only [Option.map_none]
        apply slookup_none_of_not_mem
        intro hm
        apply hnd.1
        simp only [List.mem_map, List.mem_filterMap] at hm ⊢
        obtain ⟨x, ⟨y, hy, hy2⟩, hx⟩ := hm
        refine ⟨y, hy, ?_⟩
        cases hgy : g y.2 with
        | none => simp [hgy] at hy2
        | some w => simp [hgy] at hy2; rw [← hy2] at hx; exact hx
    · simp only [hk, if_false]
      cases hg : g cv with
      | some v => simp only [Option.map_some, slookup, hk, if_false]; exact ih hnd.2
      | none => simp only [Option.map_none]; exact ih hnd.2

private theorem nodup_filterMap (c : Cache) (g : CV → Option Bytes) (hnd : NoDupKeys c) :
    NoDupKeys (c.filterMap fun e => (g e.2).map fun v => (e.1, v)) := by
  induction c with
  | nil => simp [NoDupKeys]
  | cons e r ih =>
    obtain ⟨k0, cv⟩ := e
    unfold NoDupKeys at hnd ⊢
    simp only [List.map_cons, List.nodup_cons] at hnd
    simp only [List.filterMap_cons]
    cases hg : g cv with
    | none => simp only [Option.map_none]; exact ih hnd.2
    | some v =>
      simp only [Option.map_some, List.map_cons, List.nodup_cons]
      refine ⟨?_, ih hnd.2⟩
      intro hm
      apply hnd.1
      simp only [List.mem_map, List.mem_filterMap] at hm ⊢
      obtain ⟨x, ⟨y, hy, hy2⟩, hx⟩ := hm
      refine ⟨y, hy, ?_⟩
      cases hgy : g y.2 with
      | none => simp [hgy] at hy2
      | some w => simp [hgy] at hy2; rw [← hy2] at hx; exact hx

private def gDel (cv : CV) : Option Bytes :=
  match cv.init with | some i => if cv.deleted then some i else none | none => none
private def gUpd (cv : CV) : Option Bytes :=
  match cv.init with
  | some i => if cv.deleted then none else if cv.dirty then some i else none | none => none

private theorem deletedOf_eq (c : Cache) :
    deletedOf c = c.filterMap fun e => (gDel e.2).map fun v => (e.1, v) := by
  unfold deletedOf gDel
  congr 1; funext e
  cases e.2.init <;> simp

private theorem updatedOf_eq (c : Cache) :
    updatedOf c = c.filterMap fun e => (gUpd e.2).map fun v => (e.1, v) := by
  unfold updatedOf gUpd
  congr 1; funext e
  cases e.2.init <;> simp
  split <;> (try split) <;> simp

private theorem mem_addedOf (c : Cache) (hnd : NoDupKeys c) (k : Bytes) :
    k ∈ addedOf c ↔ ∃ cv, clookup c k = some cv ∧ cv.init = none := by
  unfold addedOf
  simp only [List.mem_filterMap]
  constructor
  · rintro ⟨e, he, h2⟩
    obtain ⟨k0, cv⟩ := e
    cases hi : cv.init with
    | none =>
      simp [hi] at h2; subst h2
      exact ⟨cv, (clookup_iff_mem c hnd k0 cv).mpr he, hi⟩
    | some i => simp [hi] at h2
  · rintro ⟨cv, hl, hi⟩
    exact ⟨(k, cv), (clookup_iff_mem c hnd k cv).mp hl, by simp [hi]⟩

/-- The diff returned by commit reverses it: applying `RevertDiff` to the committed database
restores the previous contents for every key, byte for byte. -/
theorem C12_revert_exact (st : St) (h : C12Inv st) (k : Bytes) :
    slookup (revertDiff (commit st).1.store (commit st).2) k = slookup st.store k := by
  have hc := C12_commit_exact st h k
  have hnd := h.cacheOk.nodupC
  unfold commit at hc ⊢
  simp only at hc ⊢
  rw [commitCache_diff]
  unfold revertDiff
  simp only [List.nil_append]
  rw [updatedOf_eq, deletedOf_eq]
  rw [foldl_sset_lookup _ _ _ (nodup_filterMap _ gUpd hnd), slookup_filterMap _ gUpd hnd,
    foldl_sset_lookup _ _ _ (nodup_filterMap _ gDel hnd), slookup_filterMap _ gDel hnd,
    foldl_sdel_lookup, hc]
  unfold eff effC
  cases hl : clookup st.cache k with
  | none =>
    simp only
    have : k ∉ addedOf st.cache := by
      intro hm
      obtain ⟨cv, h1, _⟩ := (mem_addedOf st.cache hnd k).mp hm
      rw [hl] at h1; cases h1
    simp [this]
  | some cv =>
    have hinit := h.cacheOk.initOk k cv hl
    simp only [gUpd, gDel]
    cases hi : cv.init with
    | none =>
      have : k ∈ addedOf st.cache := (mem_addedOf st.cache hnd k).mpr ⟨cv, hl, hi⟩
      simp [this, ← hinit, hi]
    | some i =>
      have hna : k ∉ addedOf st.cache := by
        intro hm
        obtain ⟨cv', h1, h2⟩ := (mem_addedOf st.cache hnd k).mp hm
        rw [hl] at h1; cases h1; rw [hi] at h2; cases h2
      rw [hi] at hinit
      cases hd : cv.deleted with
      | true => simp [← hinit]
      | false =>
        cases hdi : cv.dirty with
        | true => simp [← hinit]
        | false =>
          have := h.cacheOk.cleanOk k cv hl hdi hd
          rw [hi] at this
          rcases this with h1 | h1
          · cases h1
          · simp [hna, ← hinit, h1]

/-! ### the database's own scans -/

private theorem kvLE_trans (a b c : KV) (h1 : kvLE a b = true) (h2 : kvLE b c = true) : kvLE a c = true :=
  ble_trans _ _ _ h1 h2
private theorem kvLE_total (a b : KV) : (kvLE a b || kvLE b a) = true := ble_total _ _
private theorem kvGE_trans (a b c : KV) (h1 : kvGE a b = true) (h2 : kvGE b c = true) : kvGE a c = true :=
  ble_trans _ _ _ h2 h1
private theorem kvGE_total (a b : KV) : (kvGE a b || kvGE b a) = true := ble_total _ _

/-- `IterateRange start end` returns exactly the entries with `start ≤ key ≤ end` … -/
theorem C12_db_range_mem (s : Store) (a b : Bytes) (rev : Bool) (kv : KV) :
    kv ∈ dbRange s a b (-1) rev ↔ kv ∈ s ∧ ble a kv.1 = true ∧ ble kv.1 b = true := by
  unfold dbRange applyLimit sortDir inRange
  cases rev <;> simp [mem_isort, List.mem_filter]

/-- … in ascending key order (descending when `reverse`), … -/
theorem C12_db_range_sorted (s : Store) (a b : Bytes) :
    (dbRange s a b (-1) false).Pairwise (fun x y => ble x.1 y.1 = true) ∧
    (dbRange s a b (-1) true).Pairwise (fun x y => ble y.1 x.1 = true) := by
  unfold dbRange applyLimit sortDir
  simp only [Int.reduceNeg, Int.reduceLT, if_true, Bool.false_eq_true, if_false]
  exact ⟨isort_pairwise _ kvLE_trans kvLE_total _, isort_pairwise _ kvGE_trans kvGE_total _⟩

/-- … and a limit `n ≥ 0` keeps the first `n` of them. -/
theorem C12_db_range_limit (s : Store) (a b : Bytes) (n : Nat) (rev : Bool) :
    dbRange s a b n rev = (dbRange s a b (-1) rev).take n := by
  unfold dbRange applyLimit
  have : ¬ ((n : Int) < 0) := by omega
  simp [this]

/-- `Iterate prefix` returns exactly the entries whose key has that prefix, in order. -/
theorem C12_db_iterate_mem (s : Store) (p : Bytes) (rev : Bool) (kv : KV) :
    kv ∈ dbIterate s p (-1) rev ↔ kv ∈ s ∧ hasPrefix kv.1 p = true := by
  unfold dbIterate applyLimit sortDir
  cases rev <;> simp [mem_isort, List.mem_filter]

/-! ### scans through the staged store — full statement (proof in progress)

`Range`/`Iterate` through the staged store equal the same scan on the database with the staged
writes applied, i.e. on the store that `Commit` would produce. -/
def C12_scan_refines_Statement : Prop :=
  ∀ (st : St), C12Inv st → ∀ (f : Bytes → Bool) (limit : Int) (rev : Bool),
    (scan st f limit rev).2 =
      applyLimit (sortDir ((commit st).1.store.filter (fun kv => f kv.1)) rev) limit

/-! ### non-vacuity: a concrete reachable state satisfying the hypotheses -/

private def exStore : Store := [([1], [10]), ([2], [20]), ([1, 0], [30])]
private def exSt : St := run { store := exStore } [.set [2] [21], .del [1], .set [3] [33], .get [1, 0]]

example : NoDupKeys exStore := by unfold NoDupKeys exStore; decide
example : C12Inv exSt := C12_cache_invariant _ (C12_inv_init exStore (by unfold NoDupKeys exStore; decide)) _
example : (range exSt [0] [9] (-1) false).2 = [([1, 0], [30]), ([2], [21]), ([3], [33])] := by decide
example : (range exSt [0] [9] 1 true).2 = [([3], [33])] := by decide
example : eff exSt [1] = none ∧ eff exSt [2] = some [21] := by decide
example : (dbRange exStore [1] [2] (-1) true) = [([2], [20]), ([1, 0], [30]), ([1], [10])] := by decide
