/-
C20 — data-level clause: "concurrent readers always obtain some complete committed tip", and "bulk
lookups return every existing item exactly once".

`Props/C20.lean` proves the lock discipline (criteria ⇒ no deadlock, no race) over the regenerated
skeletons. This file adds what the readers *see*:

(A) Reduction. `C20_critical_sections_atomic`: in every reachable state of the skeleton interleaving
    semantics (any number of goroutines running the regenerated entry points) no goroutine touches a
    `blockCache` field while another one is inside a write section, and none writes one while another is
    inside a read section. Hence the contents of the cache change only by whole write sections, and are
    constant during a read section: sections are atomic on the data.
(B) Data model. `LiskVerif.CacheModel` (`Lemmas/LocksData.lean`) transcribes the section bodies of
    `block_cache.go` line by line. `C20.Data.Step` below interleaves the micro-steps of the single writer
    (`Chain.AddBlock` chain.go:97-101, `Chain.RemoveBlock` chain.go:104-127, including the refill through
    `blockCache.replace`) with any number of readers acquiring / releasing the read lock. Write sections
    are enabled only when no reader holds the lock (that is all of `sync.RWMutex` that matters for the
    data; writer preference only removes schedules).
(C) Theorems: the invariant "cache = non-empty contiguous suffix of the published chain, ending at its
    tip, at most `maxSize` long" holds in every reachable state (`C20_cache_suffix_invariant`); the
    published chain is the database chain, or differs from it by exactly the block in flight
    (`C20_published_is_committed`); `LastBlock` is never nil and is the tip of that chain
    (`C20_readers_observe_committed_tip`); cache hits by height / id are that chain's blocks
    (`C20_cache_hits_are_committed`); during a read section the cache and the published chain do not
    change, whatever else is scheduled (`C20_read_section_sees_one_chain_state`); the writer's sections
    never fail (`C20_writer_sections_never_fail`); the refill is necessary
    (`C20_pop_of_last_cached_block_empties_cache`).
(D) Bulk lookups with per-index slots (`GetBlockHeaders`, `GetBlockHeadersByHeights`,
    `GetTransactions`, `GetBlocksBetweenHeight`, `getTransactions`): for every worker schedule the result
    is the found items in request order, each request answered exactly once
    (`C20_bulk_lookup_request_order`, `C20_bulk_lookup_static`).

The model of (B) is not executed by the correspondence driver: it is tied to the code only by being a
line-by-line transcription (Go line numbers in the comments).
-/
import LiskVerif.Props.C20
import LiskVerif.Lemmas.LocksData

open LiskVerif LiskVerif.Locks LiskVerif.CacheModel

/-! ## (A) critical sections on the cache fields are atomic -/

namespace C20.Data

/-- the fields of `blockCache` guarded by `blockCache.mutex` -/
def cacheFields : List String :=
  ["blockCache.cachedBlocks", "blockCache.heightIndex", "blockCache.size", "blockCache.currentHeight"]

/-- generic form: lockset discipline + mutual exclusion ⇒ nobody touches `x` while another thread is
inside a write section of its guard, nobody writes `x` while another thread is inside a read section -/
theorem atomic_of_inv {g : List (String × String)} {s : State} (hls : AllLs g s) (hex : Excl s)
    {i j : Nat} {ti tj : Thread} (hij : i ≠ j) (hi : s[i]? = some ti) (hj : s[j]? = some tj)
    {x m : String} (hg : g.lookup x = some m) (rest : Path) :
    ((m, Mode.W) ∈ ti.held → tj.prog ≠ Prim.read x :: rest ∧ tj.prog ≠ Prim.write x :: rest) ∧
    ((m, Mode.R) ∈ ti.held → tj.prog ≠ Prim.write x :: rest) := by
  have htj := hls tj (List.mem_of_getElem? hj)
  refine ⟨fun hw => ⟨fun hp => ?_, fun hp => ?_⟩, fun hrd hp => ?_⟩
  · obtain ⟨m', md, hl, hm⟩ := read_holds htj hp
    rw [hg] at hl; injection hl with hmm; subst hmm
    exact hex i j ti tj m md hij hi hj hw hm
  · obtain ⟨m', hl, hm⟩ := write_holds htj hp
    rw [hg] at hl; injection hl with hmm; subst hmm
    exact hex i j ti tj m Mode.W hij hi hj hw hm
  · obtain ⟨m', hl, hm⟩ := write_holds htj hp
    rw [hg] at hl; injection hl with hmm; subst hmm
    exact hex j i tj ti m Mode.R (fun h => hij h.symm) hj hi hm hrd

end C20.Data

/-- **Critical sections on the block cache are atomic.** Any number of goroutines, each executing any
finite sequence of invocations of the regenerated entry points (hypotheses of
`C20_shared_chain_data_deadlock_and_race_free`; the lockset facts come from `C20_all_entries_ok`, the
exclusion from `C20_mutual_exclusion`), under any schedule: while goroutine `i` holds
`blockCache.mutex` exclusively no other goroutine is about to read or write `cachedBlocks`,
`heightIndex`, `size` or `currentHeight`; while it holds the mutex shared no other goroutine is about
to write them. So the cache contents change only by complete write sections and are constant during
every read section — which is what the data model below assumes. -/
theorem C20_critical_sections_atomic (u : Nat) (ps : List Path)
    (hps : ∀ p ∈ ps, ∃ segs : List Path, p = segs.flatten ∧ ∀ q ∈ segs,
      ∃ e ∈ Gen.Skeletons.table, Gen.Skeletons.entries.contains e.1 = true ∧
        C20.knownBlocking.contains e.1 = false ∧ IsThreadPath Gen.Skeletons.table u e.2 q)
    (st : State) (hr : Reachable (initState ps) st)
    (i j : Nat) (ti tj : Thread) (hij : i ≠ j) (hi : st[i]? = some ti) (hj : st[j]? = some tj)
    (x : String) (hx : x ∈ C20.Data.cacheFields) (rest : Path) :
    (("blockCache.mutex", Mode.W) ∈ ti.held →
        tj.prog ≠ Prim.read x :: rest ∧ tj.prog ≠ Prim.write x :: rest) ∧
    (("blockCache.mutex", Mode.R) ∈ ti.held → tj.prog ≠ Prim.write x :: rest) := by
  have hall := C20_all_entries_ok
  simp only [List.all_eq_true, List.mem_filter] at hall
  have hls : ∀ p ∈ ps, pathLs C20.cfg.guards p = true := by
    intro p hp
    obtain ⟨segs, rfl, hsegs⟩ := hps p hp
    refine (pathGood_flatten (c := C20.cfg) segs ?_).2
    intro q hq
    obtain ⟨e, he, hent, hkb, hpath⟩ := hsegs q hq
    have hcrit := hall e ⟨he, hent⟩
    have hkb' : ¬ (e.1 ∈ C20.knownBlocking) := by simpa using hkb
    simp only [hkb', List.contains_eq_mem, decide_false, Bool.false_eq_true, if_false] at hcrit
    simp only [criteria, Bool.and_eq_true] at hcrit
    have hwf : wellFormed C20.cfg e.2 = true := by
      have := hcrit.1
      simp only [deadlockCriteria, Bool.and_eq_true] at this
      exact this.1.1.1
    exact ⟨deadlockCriteria_paths C20.cfg e.2 hcrit.1 u q hpath,
      locksetOk_paths C20.cfg e.2 hwf hcrit.2 u q hpath⟩
  have hAll : AllLs C20.cfg.guards st :=
    reachable_induction (allLs_init _ ps hls) (fun _ _ _ hok hs => allLs_step hok hs) st hr
  have hex := mutual_exclusion ps st hr
  have hg : C20.cfg.guards.lookup x = some "blockCache.mutex" := by
    simp only [C20.Data.cacheFields, List.mem_cons, List.mem_nil_iff, or_false] at hx
    rcases hx with rfl | rfl | rfl | rfl <;> decide
  exact C20.Data.atomic_of_inv hAll hex hij hi hj hg rest

/-- non-vacuity: a goroutine in the regenerated `replace` (zero loop iterations) and one in the
regenerated `len`; after the writer has announced, acquired and done its first write it holds the mutex
exclusively, and the reader cannot even enter -/
example :
    let pw : Path := [.acq "blockCache.mutex", .write "blockCache.cachedBlocks",
      .write "blockCache.heightIndex", .write "blockCache.size", .rel "blockCache.mutex"]
    let pr : Path := [.racq "blockCache.mutex", .read "blockCache.size", .rrel "blockCache.mutex"]
    pw ∈ bodyPaths Gen.Skeletons.table 0 10 Gen.Skeletons.blockCache_replace ∧
    pr ∈ bodyPaths Gen.Skeletons.table 0 10 Gen.Skeletons.blockCache_len ∧
    ∃ st ti, run (initState [pw, pr]) [0, 0, 0] = some st ∧ st[0]? = some ti ∧
      ("blockCache.mutex", Mode.W) ∈ ti.held ∧ stepT st 1 = none := by
  refine ⟨by decide, by decide, _, _, rfl, rfl, by decide, by decide⟩

/-! ## (B) the writer's micro-steps interleaved with readers -/

namespace C20.Data

/-- where the (single) consensus goroutine is inside `Chain.AddBlock` / `Chain.RemoveBlock` -/
inductive WPc where
  | idle
  | addWritten (b : Blk)   -- AddBlock: chain.go:98-99 done (block in the database), :100 pending
  | rmRead (l : Blk)       -- RemoveBlock: chain.go:105-108 done (`lastBlock` read from the cache)
  | rmWritten (l : Blk)    -- RemoveBlock: chain.go:109-110 done (block deleted from the database)

/-- shared state -/
structure Sys where
  genesisHeight : Nat        -- c.genesisBlock.Header.Height
  maxBlockCache : Nat        -- c.maxBlockCache (also handed to newBlockCache, data_access.go:57)
  db : List Blk              -- the chain stored in the database, genesis first
  cache : Cache              -- c.dataAccess.cache
  wpc : WPc
  holding : List Nat         -- readers currently holding `cache.mutex.RLock`

/-- data_access.go:199-210 `GetBlockByHeight`: the cache first, then the database -/
def getBlockByHeight (s : Sys) (h : Nat) : Option Blk :=
  match getByHeight s.cache h with        -- :200
  | some b => some b                       -- :201-203
  | none => byHeight s.db h                -- :204-209

/-- slots `blocks[h-from]` for `n` consecutive heights from `h`; `none`: some block missing (error) -/
def fetch (s : Sys) : Nat → Nat → Option (List Blk)
  | _, 0 => some []
  | h, n + 1 =>
    match getBlockByHeight s h, fetch s (h + 1) n with
    | some b, some r => some (b :: r)
    | _, _ => none

/-- data_access.go:213-232 `GetBlocksBetweenHeight` for `from ≤ to + 1` (one slot per height, so the
result does not depend on the worker schedule: `C20_bulk_lookup_request_order`; the final sort of an
already ascending slice is the identity) -/
def getBlocksBetweenHeight (s : Sys) (from_ to : Nat) : Option (List Blk) := fetch s from_ (to + 1 - from_)

/-- chain.go:115-116 -/
def refillFrom (s : Sys) (l : Blk) : Nat :=
  -- :115 newTip := lastBlock.Header.Height - 1; :116 uint32(ints.Max(int(genesis), int(newTip)-maxBlockCache+1))
  (max (s.genesisHeight : Int) (((sub32 l.height 1 : Nat) : Int) - (s.maxBlockCache : Int) + 1)).toNat % u32

/-- chain.go:111-126: what `RemoveBlock` does to the cache -/
def removeFromCache (s : Sys) (l : Blk) : Cache :=
  if len s.cache = 1 then                                                      -- :111
    match getBlocksBetweenHeight s (refillFrom s l) (sub32 l.height 1) with    -- :117
    | none => s.cache                                                          -- :118-120 (error)
    | some blocks => replace s.cache blocks                                    -- :121-122
  else (pop s.cache).1                                                         -- :125

inductive Ev where
  | addDB (b : Blk) | addCache | rmRead | rmDB | rmCache
  | acquire (r : Nat) | release (r : Nat)

/-- One step of the system. Writer steps follow the program order of chain.go; the steps that contain a
write section of the cache (`addCache`, `rmCache`) need the lock free of readers. `rmCache` also
contains the read-only `len()` and `GetBlocksBetweenHeight` of chain.go:111-117: they are executed by
the only goroutine that modifies the cache or the database, so moving them next to the write section
does not change what they return. The block handed to `AddBlock` extends the database chain
(`ChainOK … (db ++ [b])`: next height, fresh id, `uint32` height) — the obligation of the caller. -/
inductive Step : Sys → Ev → Sys → Prop where
  | addDB (s : Sys) (b : Blk) : s.wpc = .idle → ChainOK s.genesisHeight (s.db ++ [b]) →
      Step s (.addDB b) { s with db := s.db ++ [b], wpc := .addWritten b }              -- chain.go:98-99
  | addCache (s : Sys) (b : Blk) : s.wpc = .addWritten b → s.holding = [] →
      Step s .addCache { s with cache := (push s.cache b).1, wpc := .idle }             -- chain.go:100
  | rmReadOk (s : Sys) (l : Blk) : s.wpc = .idle → last s.cache = some l →
      l.height ≠ s.genesisHeight → Step s .rmRead { s with wpc := .rmRead l }           -- chain.go:105-108
  | rmReadGenesis (s : Sys) (l : Blk) : s.wpc = .idle → last s.cache = some l →
      l.height = s.genesisHeight → Step s .rmRead s                                     -- chain.go:106-107
  | rmDB (s : Sys) (l : Blk) : s.wpc = .rmRead l →
      Step s .rmDB { s with db := s.db.erase l, wpc := .rmWritten l }                   -- chain.go:109-110
  | rmCache (s : Sys) (l : Blk) : s.wpc = .rmWritten l → s.holding = [] →
      Step s .rmCache { s with cache := removeFromCache s l, wpc := .idle }             -- chain.go:111-126
  | acquire (s : Sys) (r : Nat) : Step s (.acquire r) { s with holding := r :: s.holding }
  | release (s : Sys) (r : Nat) : r ∈ s.holding →
      Step s (.release r) { s with holding := s.holding.erase r }

inductive Run : Sys → List Ev → Sys → Prop where
  | nil (s : Sys) : Run s [] s
  | cons {s s' s'' : Sys} {e : Ev} {es : List Ev} : Step s e s' → Run s' es s'' → Run s (e :: es) s''

/-- The chain published to the readers: the chain of which the cache shows the end. It is the database
chain except between the two halves of `AddBlock` / `RemoveBlock`. -/
def published (s : Sys) : List Blk :=
  match s.wpc with
  | .idle => s.db
  | .addWritten _ => s.db.dropLast
  | .rmRead _ => s.db
  | .rmWritten l => s.db ++ [l]

/-- the invariant of the system -/
structure Inv (s : Sys) : Prop where
  cap_pos : 1 ≤ s.maxBlockCache
  cap_eq : s.cache.maxSize = s.maxBlockCache
  db_ok : ChainOK s.genesisHeight s.db
  pub_ok : ChainOK s.genesisHeight (published s)
  good : Good (published s) s.cache
  wpc_ok : match s.wpc with
    | .idle => True
    | .addWritten b => ∃ old, s.db = old ++ [b]
    | .rmRead l => ∃ old, s.db = old ++ [l] ∧ old ≠ []
    | .rmWritten _ => s.db ≠ []

theorem good_ne_nil {chain : List Blk} {c : Cache} (h : Good chain c) : chain ≠ [] := by
  obtain ⟨pre, w, rfl, hne, _, _⟩ := h
  simp [hne]

/-- with a single cached block the window is the tip alone -/
theorem good_len_one {chain : List Blk} {l : Blk} {c : Cache} (h : Good (chain ++ [l]) c)
    (h1 : len c = 1) : Repr [l] c := by
  obtain ⟨pre, w, heq, hne, _, hr⟩ := h
  have hl : w.length = 1 := by
    have := repr_len hr
    rw [h1] at this
    omega
  match w, hl with
  | [x], _ =>
    have := congrArg List.getLast? heq
    simp only [List.getLast?_append, List.getLast?_singleton, Option.some_or] at this
    injection this with this
    subst this
    exact hr

/-- the refill fetch reads exactly the end of the database chain -/
theorem fetch_spec {g : Nat} (s : Sys) (hc : ContigFrom g s.db)
    (hmiss : ∀ h, h < g + s.db.length → getByHeight s.cache h = none) :
    ∀ (n from_ : Nat), g ≤ from_ → from_ + n = g + s.db.length →
      fetch s from_ n = some (s.db.drop (from_ - g)) := by
  intro n
  induction n with
  | zero =>
    intro from_ h1 h2
    simp only [fetch]
    rw [List.drop_eq_nil_of_le (by omega)]
  | succ n ih =>
    intro from_ h1 h2
    have hlt : from_ - g < s.db.length := by omega
    have hget : getBlockByHeight s from_ = some (s.db[from_ - g]) := by
      unfold getBlockByHeight
      rw [hmiss from_ (by omega), contig_byHeight hc]
      have : g ≤ from_ ∧ from_ < g + s.db.length := by omega
      simp only [this, and_self, if_true]
      exact List.getElem?_eq_getElem hlt
    have hrest := ih (from_ + 1) (by omega) (by omega)
    simp only [fetch, hget, hrest]
    rw [show from_ + 1 - g = (from_ - g) + 1 by omega]
    exact congrArg some (List.drop_eq_getElem_cons hlt).symm

theorem erase_last {old : List Blk} {l : Blk} (hn : ((old ++ [l]).map (·.id)).Nodup) :
    (old ++ [l]).erase l = old := by
  have hnot : l ∉ old := by
    intro hm
    rw [List.map_append, List.nodup_append] at hn
    exact hn.2.2 l.id (List.mem_map.mpr ⟨l, hm, rfl⟩) l.id (by simp) rfl
  rw [List.erase_append_right _ hnot]
  simp

/-- **Every step keeps the invariant.** -/
theorem inv_step {s s' : Sys} {e : Ev} (hinv : Inv s) (hs : Step s e s') : Inv s' := by
  cases hs with
  | addDB b hw hok =>
    have hp : published s = s.db := by simp [published, hw]
    refine ⟨hinv.cap_pos, hinv.cap_eq, hok, ?_, ?_, ⟨s.db, rfl⟩⟩
    · simpa [published] using hinv.db_ok
    · have := hinv.good
      rw [hp] at this
      simpa [published] using this
  | addCache b hw hh =>
    have hwpc := hinv.wpc_ok
    simp only [hw] at hwpc
    obtain ⟨old, hdb⟩ := hwpc
    have hp : published s = old := by simp [published, hw, hdb]
    have hg := hinv.good
    rw [hp] at hg
    have hok : ChainOK s.genesisHeight (old ++ [b]) := hdb ▸ hinv.db_ok
    obtain ⟨c', hpush, hg', hm⟩ := good_push hg hok
    have hc : (push s.cache b).1 = c' := by rw [hpush]
    refine ⟨hinv.cap_pos, ?_, hinv.db_ok, ?_, ?_, trivial⟩
    · simp only [hc, hm]; exact hinv.cap_eq
    · simpa [published] using hinv.db_ok
    · simp only [published, hc, hdb]; exact hg'
  | rmReadOk l hw hl hne =>
    have hp : published s = s.db := by simp [published, hw]
    have hg := hinv.good
    rw [hp] at hg
    have hlast := (good_last hg hinv.db_ok).1
    rw [hl] at hlast
    obtain ⟨old, hdb⟩ := List.getLast?_eq_some_iff.mp hlast.symm
    refine ⟨hinv.cap_pos, hinv.cap_eq, hinv.db_ok, ?_, ?_, ⟨old, hdb, ?_⟩⟩
    · simpa [published] using hinv.db_ok
    · simpa [published] using hg
    · rintro rfl
      have hc := hinv.db_ok.contig
      rw [hdb] at hc
      exact hne (by simpa using contig_last hc)
  | rmReadGenesis l hw hl he => exact hinv
  | rmDB l hw =>
    have hwpc := hinv.wpc_ok
    simp only [hw] at hwpc
    obtain ⟨old, hdb, hne⟩ := hwpc
    have hp : published s = s.db := by simp [published, hw]
    have hok := hinv.db_ok
    rw [hdb] at hok
    have her : s.db.erase l = old := by rw [hdb]; exact erase_last hok.ids
    refine ⟨hinv.cap_pos, hinv.cap_eq, ?_, ?_, ?_, ?_⟩
    · simp only [her]; exact ChainOK.left hok
    · simp only [published, her]; exact hok
    · have hg := hinv.good
      rw [hp, hdb] at hg
      simp only [published, her]; exact hg
    · simp only [her]; exact hne
  | rmCache l hw hh =>
    have hne := hinv.wpc_ok
    simp only [hw] at hne
    have hp : published s = s.db ++ [l] := by simp [published, hw]
    have hg := hinv.good
    have hpok := hinv.pub_ok
    rw [hp] at hg hpok
    have hlh : l.height = s.genesisHeight + s.db.length := contig_last hpok.contig
    have hlb := hpok.bound l (by simp)
    have hlen : 1 ≤ s.db.length := by
      cases hdb : s.db with
      | nil => exact absurd hdb hne
      | cons a r => simp
    unfold removeFromCache
    by_cases h1 : len s.cache = 1
    · -- refill
      have hrep := good_len_one hg h1
      have hmiss : ∀ h, h < s.genesisHeight + s.db.length → getByHeight s.cache h = none := by
        intro h hh'
        have hokl : ChainOK l.height [l] := ⟨⟨rfl, trivial⟩, by simp, by simpa using hlb⟩
        rw [repr_getByHeight hrep hokl, byHeight_cons]
        have : ¬ l.height = h := by omega
        simp [this, byHeight]
      have hsub : sub32 l.height 1 = l.height - 1 := by unfold sub32 u32 at *; omega
      have hfrom : s.genesisHeight ≤ refillFrom s l ∧ refillFrom s l ≤ l.height - 1 ∧
          l.height ≤ refillFrom s l + s.maxBlockCache := by
        unfold refillFrom
        rw [hsub]
        have := hinv.cap_pos
        unfold u32 at *
        omega
      have hf := fetch_spec s hinv.db_ok.contig hmiss (sub32 l.height 1 + 1 - refillFrom s l)
        (refillFrom s l) hfrom.1 (by rw [hsub]; omega)
      have hgb : getBlocksBetweenHeight s (refillFrom s l) (sub32 l.height 1) =
          some (s.db.drop (refillFrom s l - s.genesisHeight)) := hf
      simp only [h1, if_true, hgb]
      have hsplit : s.db = s.db.take (refillFrom s l - s.genesisHeight) ++
          s.db.drop (refillFrom s l - s.genesisHeight) := (List.take_append_drop _ _).symm
      have hdne : s.db.drop (refillFrom s l - s.genesisHeight) ≠ [] := by
        intro h
        have := congrArg List.length h
        simp only [List.length_drop, List.length_nil] at this
        omega
      have hokdb : ChainOK s.genesisHeight (s.db.take (refillFrom s l - s.genesisHeight) ++
          s.db.drop (refillFrom s l - s.genesisHeight)) := by rw [← hsplit]; exact hinv.db_ok
      obtain ⟨hgood, hmax⟩ := good_replace s.cache _ _ hdne (by rw [hinv.cap_eq]; exact hinv.cap_pos) hokdb
      rw [← hsplit] at hgood
      refine ⟨hinv.cap_pos, ?_, hinv.db_ok, ?_, ?_, trivial⟩
      · simp only [hmax]; exact hinv.cap_eq
      · simpa [published] using hinv.db_ok
      · simpa [published] using hgood
    · -- pop
      obtain ⟨c', tip, hpop, _, hgood, hmax⟩ := good_pop hg hpok h1
      have hc : (pop s.cache).1 = c' := by rw [hpop]
      simp only [h1, if_false, hc]
      rw [List.dropLast_concat] at hgood
      refine ⟨hinv.cap_pos, ?_, hinv.db_ok, ?_, ?_, trivial⟩
      · simp only [hmax]; exact hinv.cap_eq
      · simpa [published] using hinv.db_ok
      · simpa [published] using hgood
  | acquire r => exact ⟨hinv.cap_pos, hinv.cap_eq, hinv.db_ok, hinv.pub_ok, hinv.good, hinv.wpc_ok⟩
  | release r hr => exact ⟨hinv.cap_pos, hinv.cap_eq, hinv.db_ok, hinv.pub_ok, hinv.good, hinv.wpc_ok⟩

theorem inv_run {s s' : Sys} {es : List Ev} (hinv : Inv s) (hr : Run s es s') : Inv s' := by
  induction hr with
  | nil => exact hinv
  | cons hs _ ih => exact ih (inv_step hinv hs)

/-- a step taken while some reader holds the lock changes neither the cache nor the published chain -/
theorem step_under_reader {s s' : Sys} {e : Ev} (hinv : Inv s) (hs : Step s e s') (hh : s.holding ≠ []) :
    s'.cache = s.cache ∧ published s' = published s := by
  cases hs with
  | addDB b hw hok => exact ⟨rfl, by simp [published, hw]⟩
  | addCache b hw hnil => exact absurd hnil hh
  | rmReadOk l hw hl hne => exact ⟨rfl, by simp [published, hw]⟩
  | rmReadGenesis l hw hl he => exact ⟨rfl, rfl⟩
  | rmDB l hw =>
    have hwpc := hinv.wpc_ok
    simp only [hw] at hwpc
    obtain ⟨old, hdb, _⟩ := hwpc
    have hok := hinv.db_ok
    rw [hdb] at hok
    have her : s.db.erase l = old := by rw [hdb]; exact erase_last hok.ids
    refine ⟨rfl, ?_⟩
    simp only [published, hw, her]
    exact hdb.symm
  | rmCache l hw hnil => exact absurd hnil hh
  | acquire r => exact ⟨rfl, rfl⟩
  | release r hr => exact ⟨rfl, rfl⟩

/-- a step leaves the published chain alone or publishes the database chain -/
theorem step_published {s s' : Sys} {e : Ev} (hinv : Inv s) (hs : Step s e s') :
    published s' = published s ∨ published s' = s'.db := by
  cases hs with
  | addDB b hw hok => left; simp [published, hw]
  | addCache b hw hnil => right; simp [published]
  | rmReadOk l hw hl hne => left; simp [published, hw]
  | rmReadGenesis l hw hl he => left; rfl
  | rmDB l hw =>
    left
    have hwpc := hinv.wpc_ok
    simp only [hw] at hwpc
    obtain ⟨old, hdb, _⟩ := hwpc
    have hok := hinv.db_ok
    rw [hdb] at hok
    have her : s.db.erase l = old := by rw [hdb]; exact erase_last hok.ids
    simp only [published, hw, her]
    exact hdb.symm
  | rmCache l hw hnil => right; simp [published]
  | acquire r => left; rfl
  | release r hr => left; rfl

theorem published_history {s0 s : Sys} {es : List Ev} (h0 : Inv s0) (hr : Run s0 es s) :
    published s = published s0 ∨
    ∃ es1 es2 s1, es = es1 ++ es2 ∧ Run s0 es1 s1 ∧ Run s1 es2 s ∧ s1.db = published s := by
  induction hr with
  | nil => left; rfl
  | @cons s s1 s2 e es hs hrest ih =>
    rcases ih (inv_step h0 hs) with hp | ⟨es1, es2, sm, rfl, r1, r2, h⟩
    · rcases step_published h0 hs with hq | hq
      · left; exact hp.trans hq
      · right
        exact ⟨[e], es, s1, rfl, .cons hs (.nil _), hrest, (hp.trans hq).symm⟩
    · right
      exact ⟨e :: es1, es2, sm, rfl, .cons hs r1, r2, h⟩

end C20.Data

open C20.Data

/-! ## (C) theorems -/

/-- **The cache invariant holds in every reachable state**, for every interleaving of the writer's
`AddBlock` / `RemoveBlock` micro-steps (push, pop and the refill through `replace`) with readers: the
cache holds exactly a window `w` (both maps, `size`, `currentHeight`) that is a non-empty suffix of the
published chain, ending at its tip, of length at most `maxSize = maxBlockCache`; the published chain is
well formed. -/
theorem C20_cache_suffix_invariant (s0 s : Sys) (es : List Ev) (h0 : Inv s0) (hr : Run s0 es s) :
    ∃ pre w, published s = pre ++ w ∧ w ≠ [] ∧ w.length ≤ s.maxBlockCache ∧ Repr w s.cache ∧
      len s.cache = w.length ∧ ChainOK s.genesisHeight (published s) := by
  have hinv := inv_run h0 hr
  obtain ⟨pre, w, h1, h2, h3, h4⟩ := hinv.good
  exact ⟨pre, w, h1, h2, hinv.cap_eq ▸ h3, h4, repr_len h4, hinv.pub_ok⟩

/-- **The published chain is a committed chain**: it is the database chain, or the database chain
without the block `AddBlock` has written but not yet pushed, or the database chain plus the block
`RemoveBlock` has deleted but not yet popped — in each case a state the database was in since the
current writer operation began. -/
theorem C20_published_is_committed (s0 s : Sys) (es : List Ev) (h0 : Inv s0) (hr : Run s0 es s) :
    ChainOK s.genesisHeight s.db ∧
    (published s = s.db ∨ (∃ b, s.wpc = .addWritten b ∧ s.db = published s ++ [b]) ∨
      (∃ l, s.wpc = .rmWritten l ∧ published s = s.db ++ [l])) := by
  have hinv := inv_run h0 hr
  refine ⟨hinv.db_ok, ?_⟩
  have hw := hinv.wpc_ok
  cases hwpc : s.wpc with
  | idle => left; simp [published, hwpc]
  | rmRead l => left; simp [published, hwpc]
  | addWritten b =>
    right; left
    simp only [hwpc] at hw
    obtain ⟨old, hdb⟩ := hw
    exact ⟨b, rfl, by simp [published, hwpc, hdb]⟩
  | rmWritten l => right; right; exact ⟨l, rfl, by simp [published, hwpc]⟩

/-- **The published chain was the database chain at some moment of the run**: starting with the
writer idle, in every reachable state the chain the readers see through the cache is literally the
content the database had after some prefix `es1` of the events executed so far. -/
theorem C20_published_chain_was_database_chain (s0 s : Sys) (es : List Ev) (h0 : Inv s0)
    (hidle : s0.wpc = .idle) (hr : Run s0 es s) :
    ∃ es1 es2 s1, es = es1 ++ es2 ∧ Run s0 es1 s1 ∧ Run s1 es2 s ∧ s1.db = published s := by
  rcases published_history h0 hr with hp | h
  · exact ⟨[], es, s0, rfl, .nil _, hr, by rw [hp]; simp [published, hidle]⟩
  · exact h

/-- **Readers always obtain a complete committed tip.** In every reachable state `blockCache.last()`
(hence `Chain.LastBlock`, `DataAccess.CachedLastBlock`, `GetLastBlock`) returns a block — never nil —
and it is the tip of the published chain; its height is the database tip's height, or one less
(`AddBlock` in flight: the old tip) or one more (`RemoveBlock` in flight: the tip being removed). -/
theorem C20_readers_observe_committed_tip (s0 s : Sys) (es : List Ev) (h0 : Inv s0) (hr : Run s0 es s) :
    ∃ tip dbTip, last s.cache = some tip ∧ (published s).getLast? = some tip ∧
      s.db.getLast? = some dbTip ∧
      tip.height + 1 = s.genesisHeight + (published s).length ∧
      (tip = dbTip ∨ (tip.height + 1 = dbTip.height ∧ ∃ b, s.wpc = .addWritten b) ∨
        (tip.height = dbTip.height + 1 ∧ ∃ l, s.wpc = .rmWritten l)) := by
  have hinv := inv_run h0 hr
  obtain ⟨hl, hsome⟩ := good_last hinv.good hinv.pub_ok
  obtain ⟨tip, htip⟩ := Option.isSome_iff_exists.mp hsome
  have hpl : (published s).getLast? = some tip := by rw [← hl, htip]
  have hth := contig_getLast hinv.pub_ok.contig hpl
  have hdbne : s.db ≠ [] := by
    have hw := hinv.wpc_ok
    have hpn := good_ne_nil hinv.good
    cases hwpc : s.wpc with
    | idle => simpa [published, hwpc] using hpn
    | rmRead l => simpa [published, hwpc] using hpn
    | addWritten b =>
      simp only [hwpc] at hw
      obtain ⟨old, hdb⟩ := hw
      simp [hdb]
    | rmWritten l => simpa [hwpc] using hw
  obtain ⟨dbTip, hdt⟩ : ∃ d, s.db.getLast? = some d := by
    cases h : s.db.getLast? with
    | none => exact absurd (List.getLast?_eq_none_iff.mp h) hdbne
    | some d => exact ⟨d, rfl⟩
  have hdh := contig_getLast hinv.db_ok.contig hdt
  refine ⟨tip, dbTip, htip, hpl, hdt, hth, ?_⟩
  rcases (C20_published_is_committed s0 s es h0 hr).2 with hp | ⟨b, hb, hdb⟩ | ⟨l, hlw, hp⟩
  · left
    rw [hp, hdt] at hpl
    injection hpl with h; exact h.symm
  · right; left
    refine ⟨?_, b, hb⟩
    have := congrArg List.length hdb
    simp only [List.length_append, List.length_singleton] at this
    omega
  · right; right
    refine ⟨?_, l, hlw⟩
    have := congrArg List.length hp
    simp only [List.length_append, List.length_singleton] at this
    omega

/-- **Cache hits are committed blocks.** In every reachable state a hit of `getByHeight` / `get` is the
block of the published chain at that height / with that id, `getByHeight` hits exactly the last
`len()` heights of the published chain, and `len()` is between 1 and `maxBlockCache`. -/
theorem C20_cache_hits_are_committed (s0 s : Sys) (es : List Ev) (h0 : Inv s0) (hr : Run s0 es s) :
    (∀ x b, getByHeight s.cache x = some b → byHeight (published s) x = some b) ∧
    (∀ i b, get s.cache i = some b → byID (published s) i = some b) ∧
    (∀ x, getByHeight s.cache x =
      if s.genesisHeight + (published s).length ≤ x + (len s.cache).toNat ∧
          x < s.genesisHeight + (published s).length then byHeight (published s) x else none) ∧
    1 ≤ len s.cache ∧ len s.cache ≤ s.maxBlockCache := by
  have hinv := inv_run h0 hr
  refine ⟨fun x b h => good_getByHeight_hit hinv.good hinv.pub_ok h,
    fun i b h => good_get_hit hinv.good hinv.pub_ok h,
    fun x => good_getByHeight_window hinv.good hinv.pub_ok x, ?_⟩
  obtain ⟨pre, w, _, hne, hle, hrp⟩ := hinv.good
  rw [repr_len hrp, ← hinv.cap_eq]
  have : w.length ≠ 0 := fun h => hne (List.length_eq_zero_iff.mp h)
  omega

/-- **A read section sees one chain state.** If reader `r` holds the read lock in `s` and does not
release it during `es` — whatever the writer and the other readers do meanwhile — the cache and the
published chain at the end are those at the beginning: every observation made inside the section
(`last`, `getByHeight`, `get`, `len`, in any number and at any point) is an observation of the single
published chain that was current when the lock was acquired, and is still current at the release. -/
theorem C20_read_section_sees_one_chain_state (s s' : Sys) (es : List Ev) (r : Nat) (hinv : Inv s)
    (hr : Run s es s') (hhold : r ∈ s.holding) (hno : Ev.release r ∉ es) :
    s'.cache = s.cache ∧ published s' = published s ∧ r ∈ s'.holding := by
  induction hr with
  | nil => exact ⟨rfl, rfl, hhold⟩
  | @cons s s1 s2 e es hs _ ih =>
    have hne : s.holding ≠ [] := List.ne_nil_of_mem hhold
    obtain ⟨hc, hp⟩ := step_under_reader hinv hs hne
    have hhold1 : r ∈ s1.holding := by
      cases hs with
      | addDB b hw hok => exact hhold
      | addCache b hw hnil => exact absurd hnil hne
      | rmReadOk l hw hl hne' => exact hhold
      | rmReadGenesis l hw hl he => exact hhold
      | rmDB l hw => exact hhold
      | rmCache l hw hnil => exact absurd hnil hne
      | acquire r' => exact List.mem_cons_of_mem _ hhold
      | release r' hr' =>
        have : r ≠ r' := by
          rintro rfl
          exact hno (by simp)
        exact (List.mem_erase_of_ne this).mpr hhold
    obtain ⟨h1, h2, h3⟩ := ih (inv_step hinv hs) hhold1 (fun h => hno (List.mem_cons_of_mem _ h))
    exact ⟨h1.trans hc, h2.trans hp, h3⟩

/-- **The writer's sections never fail** in a reachable state: `push` in `AddBlock` returns no error;
`RemoveBlock` never dereferences a nil `lastBlock` (chain.go:105-106); when the last cached block is
about to be removed the refill fetch succeeds and returns the at most `maxBlockCache` blocks that end
the database chain. -/
theorem C20_writer_sections_never_fail (s0 s : Sys) (es : List Ev) (h0 : Inv s0) (hr : Run s0 es s) :
    (∀ b, s.wpc = .addWritten b → (push s.cache b).2 = none) ∧
    (∃ l, last s.cache = some l) ∧
    (∀ l, s.wpc = .rmWritten l → len s.cache = 1 →
      ∃ k, getBlocksBetweenHeight s (refillFrom s l) (sub32 l.height 1) = some (s.db.drop k) ∧
        k < s.db.length ∧ s.db.length ≤ k + s.maxBlockCache) := by
  have hinv := inv_run h0 hr
  refine ⟨?_, ?_, ?_⟩
  · intro b hw
    have hwpc := hinv.wpc_ok
    simp only [hw] at hwpc
    obtain ⟨old, hdb⟩ := hwpc
    have hp : published s = old := by simp [published, hw, hdb]
    have hg := hinv.good
    rw [hp] at hg
    obtain ⟨c', hpush, _, _⟩ := good_push hg (hdb ▸ hinv.db_ok)
    rw [hpush]
  · obtain ⟨tip, _, h, _⟩ := C20_readers_observe_committed_tip s0 s es h0 hr
    exact ⟨tip, h⟩
  · intro l hw h1
    have hne := hinv.wpc_ok
    simp only [hw] at hne
    have hp : published s = s.db ++ [l] := by simp [published, hw]
    have hg := hinv.good
    have hpok := hinv.pub_ok
    rw [hp] at hg hpok
    have hlh : l.height = s.genesisHeight + s.db.length := contig_last hpok.contig
    have hlb := hpok.bound l (by simp)
    have hlen : 1 ≤ s.db.length := by
      cases hdb : s.db with
      | nil => exact absurd hdb hne
      | cons a r => simp
    have hrep := good_len_one hg h1
    have hmiss : ∀ h, h < s.genesisHeight + s.db.length → getByHeight s.cache h = none := by
      intro h hh'
      have hokl : ChainOK l.height [l] := ⟨⟨rfl, trivial⟩, by simp, by simpa using hlb⟩
      rw [repr_getByHeight hrep hokl, byHeight_cons]
      have : ¬ l.height = h := by omega
      simp [this, byHeight]
    have hsub : sub32 l.height 1 = l.height - 1 := by unfold sub32 u32 at *; omega
    have hfrom : s.genesisHeight ≤ refillFrom s l ∧ refillFrom s l ≤ l.height - 1 ∧
        l.height ≤ refillFrom s l + s.maxBlockCache := by
      unfold refillFrom
      rw [hsub]
      have := hinv.cap_pos
      unfold u32 at *
      omega
    have hf := fetch_spec s hinv.db_ok.contig hmiss (sub32 l.height 1 + 1 - refillFrom s l)
      (refillFrom s l) hfrom.1 (by rw [hsub]; omega)
    exact ⟨refillFrom s l - s.genesisHeight, hf, by omega, by omega⟩

/-- **The refill is necessary**: popping the only cached block — what `RemoveBlock` did before it
refilled through `replace` — leaves a cache in which `last()` returns nil although the chain still has
a tip. -/
theorem C20_pop_of_last_cached_block_empties_cache (g : Nat) (chain : List Blk) (c : Cache)
    (hg : Good chain c) (hok : ChainOK g chain) (h1 : len c = 1) : last (pop c).1 = none := by
  obtain ⟨l, hl⟩ : ∃ l, chain.getLast? = some l := by
    cases h : chain.getLast? with
    | none => exact absurd (List.getLast?_eq_none_iff.mp h) (good_ne_nil hg)
    | some d => exact ⟨d, rfl⟩
  obtain ⟨old, rfl⟩ := List.getLast?_eq_some_iff.mp hl
  have hrep := good_len_one hg h1
  have hokl : ChainOK (g + old.length) ([] ++ [l]) := by simpa using ChainOK.right hok
  obtain ⟨c', hp, hr', _⟩ := pop_window (w := []) (by simpa using hrep) hokl
  rw [hp]
  simpa using repr_last hr' (ChainOK.nil 0)

/-! ### the same invariant for arbitrary sequences of cache operations, and for start-up -/

namespace C20.Data

/-- an operation on the cache together with its effect on the chain it mirrors -/
inductive COp where
  | push (b : Blk)          -- AddBlock
  | pop                     -- RemoveBlock, more than one block cached
  | refill (bs : List Blk)  -- RemoveBlock, one block cached: `replace` with the blocks below the tip

def COp.valid (g : Nat) (chain : List Blk) (c : Cache) : COp → Prop
  | .push b => ChainOK g (chain ++ [b])
  | .pop => len c ≠ 1
  | .refill bs => bs ≠ [] ∧ ∃ pre, chain.dropLast = pre ++ bs

def COp.apply (chain : List Blk) (c : Cache) : COp → List Blk × Cache
  | .push b => (chain ++ [b], (CacheModel.push c b).1)
  | .pop => (chain.dropLast, (CacheModel.pop c).1)
  | .refill bs => (chain.dropLast, replace c bs)

/-- a sequence of operations, each valid where it is applied -/
inductive CRun (g : Nat) : List Blk → Cache → List COp → List Blk → Cache → Prop where
  | nil (chain : List Blk) (c : Cache) : CRun g chain c [] chain c
  | cons {chain chain' : List Blk} {c c' : Cache} {op : COp} {ops : List COp} :
      op.valid g chain c → CRun g (op.apply chain c).1 (op.apply chain c).2 ops chain' c' →
      CRun g chain c (op :: ops) chain' c'

theorem dropLast_ok {g : Nat} {chain : List Blk} (h : ChainOK g chain) : ChainOK g chain.dropLast := by
  rcases eq_nil_or_snoc chain with rfl | ⟨w, l, rfl⟩
  · simpa using h
  · rw [List.dropLast_concat]; exact ChainOK.left h

end C20.Data

/-- **The invariant holds after every sequence of push / pop / refill**, starting from any cache that
satisfies it: the cache stays a non-empty suffix of the chain ending at its tip, of length ≤ `maxSize`,
and `last()` returns the chain's tip. -/
theorem C20_cache_invariant_all_sequences (g : Nat) (chain chain' : List Blk) (c c' : Cache)
    (ops : List COp) (hok : ChainOK g chain) (hg : Good chain c)
    (hrun : CRun g chain c ops chain' c') :
    ChainOK g chain' ∧ Good chain' c' ∧ c'.maxSize = c.maxSize ∧ last c' = chain'.getLast? ∧
      (last c').isSome = true := by
  induction hrun with
  | nil chain c => exact ⟨hok, hg, rfl, (good_last hg hok).1, (good_last hg hok).2⟩
  | @cons chain chain' c c' op ops hv _ ih =>
    have hcap : 1 ≤ c.maxSize := by
      obtain ⟨_, w, _, hne, hle, _⟩ := hg
      have : w.length ≠ 0 := fun h => hne (List.length_eq_zero_iff.mp h)
      omega
    cases op with
    | push b =>
      obtain ⟨c1, hp, hg1, hm⟩ := good_push hg hv
      have hc : (CacheModel.push c b).1 = c1 := by rw [hp]
      have := ih hv (by simpa [COp.apply, hc] using hg1)
      simp only [COp.apply, hc] at this
      exact ⟨this.1, this.2.1, this.2.2.1.trans hm, this.2.2.2⟩
    | pop =>
      obtain ⟨c1, tip, hp, _, hg1, hm⟩ := good_pop hg hok hv
      have hc : (CacheModel.pop c).1 = c1 := by rw [hp]
      have := ih (dropLast_ok hok) (by simpa [COp.apply, hc] using hg1)
      simp only [COp.apply, hc] at this
      exact ⟨this.1, this.2.1, this.2.2.1.trans hm, this.2.2.2⟩
    | refill bs =>
      obtain ⟨hne, pre, hpre⟩ := hv
      have hok1 := dropLast_ok hok
      obtain ⟨hg1, hm⟩ := good_replace c pre bs hne hcap (hpre ▸ hok1)
      have := ih hok1 (by simpa [COp.apply, hpre] using hg1)
      simp only [COp.apply] at this
      exact ⟨this.1, this.2.1, this.2.2.1.trans hm, this.2.2.2⟩

/-- **Start-up establishes the invariant** (`Chain.PrepareCache`, chain.go:144-152: consecutive blocks
ending at the last block are pushed into the fresh cache, more of them than it holds): after pushing
the non-empty consecutive blocks `bs` that end the chain into `newBlockCache maxSize`, no push has
failed and the invariant holds. -/
theorem C20_prepare_cache_establishes_invariant (g maxSize : Nat) (hcap : 1 ≤ maxSize)
    (pre : List Blk) (b : Blk) (bs : List Blk) (hok : ChainOK g (pre ++ b :: bs)) :
    let r := (b :: bs).foldl (fun (acc : Cache × Bool) x => ((push acc.1 x).1, acc.2 && (push acc.1 x).2.isNone))
      (newBlockCache maxSize, true)
    r.2 = true ∧ Good (pre ++ b :: bs) r.1 ∧ r.1.maxSize = maxSize := by
  have hfirst : ChainOK g ((pre ++ [b]) ++ bs) := by simpa using hok
  obtain ⟨c1, hp1, hg1, hm1⟩ := good_first_push pre b maxSize hcap (ChainOK.left hfirst)
  have key : ∀ (bs : List Blk) (chain : List Blk) (c : Cache), Good chain c → ChainOK g (chain ++ bs) →
      let r := bs.foldl (fun (acc : Cache × Bool) x => ((push acc.1 x).1, acc.2 && (push acc.1 x).2.isNone)) (c, true)
      r.2 = true ∧ Good (chain ++ bs) r.1 ∧ r.1.maxSize = c.maxSize := by
    intro bs
    induction bs with
    | nil => intro chain c hg _; simpa using hg
    | cons x bs ih =>
      intro chain c hg hok
      have hok' : ChainOK g ((chain ++ [x]) ++ bs) := by simpa using hok
      obtain ⟨c2, hp, hg2, hm⟩ := good_push hg (ChainOK.left hok')
      have := ih (chain ++ [x]) c2 hg2 hok'
      simp only [List.foldl_cons, hp, Option.isNone_none, Bool.and_true]
      simp only [List.append_assoc, List.singleton_append] at this
      exact ⟨this.1, this.2.1, this.2.2.trans hm⟩
  have := key bs (pre ++ [b]) c1 hg1 hfirst
  simp only [List.foldl_cons, hp1, Option.isNone_none, Bool.and_true]
  simp only [List.append_assoc, List.singleton_append] at this
  exact ⟨this.1, this.2.1, this.2.2.trans hm1⟩

/-! ## (D) bulk lookups with one result slot per request -/

namespace C20.Data

/-- data_access.go:96-113 (also 127-144, 240-257, 213-226, 367-381): `slots := make([]T, n)`; worker `i`
performs lookup `i` — observing `res i`, whatever the shared state is at that moment — and, if it
found something, stores it into `slots[i]`; `sched` is the order in which the workers get to run. -/
def bulkSlots {α} (n : Nat) (res : Nat → Option α) (sched : List Nat) : List (Option α) :=
  sched.foldl (fun slots i => match res i with
    | some v => slots.set i (some v)
    | none => slots) (List.replicate n none)

/-- data_access.go:117-123: the non-nil slots, in slot order -/
def compact {α} (slots : List (Option α)) : List α := slots.filterMap id

theorem foldl_slots_get {α} (res : Nat → Option α) (sched : List Nat) (slots : List (Option α)) (i : Nat) :
    (sched.foldl (fun slots i => match res i with
      | some v => slots.set i (some v)
      | none => slots) slots)[i]? =
      if i ∈ sched ∧ (res i).isSome ∧ i < slots.length then some (res i) else slots[i]? := by
  induction sched generalizing slots with
  | nil => simp
  | cons j sched ih =>
    simp only [List.foldl_cons, ih]
    cases hj : res j with
    | none =>
      by_cases hij : i = j
      · subst hij; simp [hj]
      · simp [hij]
    | some v =>
      simp only [List.length_set]
      by_cases hij : i = j
      · subst hij
        by_cases hlt : i < slots.length
        · simp [hj, hlt]
        · simp [hlt]
      · have : ¬ j = i := fun h => hij h.symm
        simp [hij, List.getElem?_set_ne this]

end C20.Data

/-- **Bulk lookups return every found item exactly once, in request order, for every worker
schedule.** `n` requests, one worker per request, `res i` what worker `i` observed; if every worker has
run (`sched` contains every index below `n`; running twice or out-of-range indices change nothing) the
slots hold exactly `res 0, …, res (n-1)`, and the compacted result is the found items in request
order. -/
theorem C20_bulk_lookup_request_order {α} (n : Nat) (res : Nat → Option α) (sched : List Nat)
    (hall : ∀ i, i < n → i ∈ sched) :
    bulkSlots n res sched = (List.range n).map res ∧
    compact (bulkSlots n res sched) = (List.range n).filterMap res := by
  have h1 : bulkSlots n res sched = (List.range n).map res := by
    apply List.ext_getElem?
    intro i
    unfold bulkSlots
    rw [foldl_slots_get]
    simp only [List.length_replicate, List.getElem?_map, List.getElem?_replicate]
    by_cases hi : i < n
    · cases hres : res i with
      | none => simp [hi, hres]
      | some v => simp [hi, hall i hi, hres]
    · simp [hi]
  refine ⟨h1, ?_⟩
  rw [h1, compact, List.filterMap_map]
  rfl

/-- the same with the requests as a list and a lookup against an unchanging store: the result is
`ids.filterMap lookup` — each requested id answered once, at its place, missing ones skipped -/
theorem C20_bulk_lookup_static {κ α} (ids : List κ) (lookup : κ → Option α) (sched : List Nat)
    (hall : ∀ i, i < ids.length → i ∈ sched) :
    compact (bulkSlots ids.length (fun i => ids[i]?.bind lookup) sched) = ids.filterMap lookup := by
  rw [(C20_bulk_lookup_request_order ids.length _ sched hall).2]
  have : (List.range ids.length).map (fun i => ids[i]?) = ids.map some := by
    apply List.ext_getElem?
    intro i
    simp only [List.getElem?_map]
    by_cases hi : i < ids.length
    · simp [hi]
    · simp [hi]
  have h2 : (List.range ids.length).filterMap (fun i => ids[i]?.bind lookup) =
      ((List.range ids.length).map (fun i => ids[i]?)).filterMap (fun o => o.bind lookup) := by
    rw [List.filterMap_map]; rfl
  rw [h2, this, List.filterMap_map]
  rfl

/-- all-or-error variant (`GetBlocksBetweenHeight`, `getTransactions`): if every lookup succeeds the
slice is the items in request order -/
theorem C20_bulk_lookup_all_found {α} (n : Nat) (res : Nat → Option α) (item : Nat → α) (sched : List Nat)
    (hall : ∀ i, i < n → i ∈ sched) (hres : ∀ i, i < n → res i = some (item i)) :
    bulkSlots n res sched = (List.range n).map (fun i => some (item i)) := by
  rw [(C20_bulk_lookup_request_order n res sched hall).1]
  apply List.map_congr_left
  intro i hi
  exact hres i (List.mem_range.mp hi)

/-! ## hypotheses that cannot be dropped, non-vacuity -/

namespace C20.Data

def g0 : Blk := ⟨[0], 0, 0⟩
def b1 : Blk := ⟨[1], 1, 10⟩
def b2 : Blk := ⟨[2], 2, 20⟩
def b3 : Blk := ⟨[3], 3, 30⟩

/-- the cache of capacity `n` after pushing the given blocks -/
def cacheOf (n : Nat) (bs : List Blk) : Cache := bs.foldl (fun c b => (push c b).1) (newBlockCache n)

/-- a block whose id repeats the id of a cached block (excluded by `ChainOK.ids`) -/
def b2dup : Blk := ⟨[1], 2, 99⟩

end C20.Data

/-- distinct block ids are needed: with a repeated id `push` succeeds but the height index of the older
block now leads to the newer block -/
theorem C20_duplicate_id_breaks_height_lookup :
    (push (cacheOf 3 [g0, b1]) b2dup).2 = none ∧
    getByHeight (push (cacheOf 3 [g0, b1]) b2dup).1 1 = some b2dup ∧ b2dup.height = 2 := by
  decide

/-- the lock is needed: the two map reads of `last()` (block_cache.go:32 and :36) made on either side of
a `pop` return nil although both the old and the new tip exist -/
theorem C20_torn_read_without_lock :
    let c := cacheOf 3 [g0, b1, b2]
    let c' := (pop c).1
    last c = some b2 ∧ last c' = some b1 ∧
    (match mget c.heightIndex c.currentHeight with
     | none => none
     | some id => mget c'.cachedBlocks id) = none := by
  decide

namespace C20.Data

theorem chainOK3 : ChainOK 0 [g0, b1, b2, b3] :=
  ⟨by simp [ContigFrom, g0, b1, b2, b3], by decide, by simp [u32, g0, b1, b2, b3]⟩

/-- genesis in the database and in a cache of capacity 2 -/
def sys0 : Sys :=
  { genesisHeight := 0, maxBlockCache := 2, db := [g0], cache := cacheOf 2 [g0], wpc := .idle, holding := [] }

theorem sys0_inv : Inv sys0 := by
  have hok : ChainOK 0 ([] ++ [g0]) := ChainOK.left (p := [g0]) (w := [b1, b2, b3]) chainOK3
  obtain ⟨c', hp, hg, hm⟩ := good_first_push [] g0 2 (by omega) hok
  have hc : cacheOf 2 [g0] = c' := by
    simp only [cacheOf, List.foldl_cons, List.foldl_nil, hp]
  refine ⟨by simp [sys0], ?_, hok, hok, ?_, trivial⟩
  · simp only [sys0, hc, hm]
  · simpa [sys0, published, hc] using hg

end C20.Data

/-- non-vacuity of the run theorems: from genesis, `AddBlock b1` with a reader holding the lock across
the database write, `AddBlock b2`, `AddBlock b3` (evicting `g0`), then two `RemoveBlock`s — the first
pops (one block stays cached), the second finds a single cached block and refills from the database,
with a reader holding the lock across its database write — all steps are enabled, and the
observations are as computed (the Go code gives the same values on this scenario) -/
example : ∃ s, Run sys0
    [.addDB b1, .acquire 7, .release 7, .addCache, .addDB b2, .addCache, .addDB b3, .addCache,
     .rmRead, .rmDB, .rmCache, .rmRead, .acquire 8, .rmDB, .release 8, .rmCache] s ∧
    s.db = [g0, b1] ∧ last s.cache = some b1 ∧ len s.cache = 2 ∧ getByHeight s.cache 0 = some g0 := by
  exact ⟨_,
    .cons (Step.addDB _ b1 rfl (ChainOK.left (p := [g0, b1]) (w := [b2, b3]) chainOK3)) <|
    .cons (Step.acquire _ 7) <|
    .cons (Step.release _ 7 (by simp)) <|
    .cons (Step.addCache _ b1 rfl (by decide)) <|
    .cons (Step.addDB _ b2 rfl (ChainOK.left (p := [g0, b1, b2]) (w := [b3]) chainOK3)) <|
    .cons (Step.addCache _ b2 rfl rfl) <|
    .cons (Step.addDB _ b3 rfl chainOK3) <|
    .cons (Step.addCache _ b3 rfl rfl) <|
    .cons (Step.rmReadOk _ b3 rfl (by decide) (by decide)) <|
    .cons (Step.rmDB _ b3 rfl) <|
    .cons (Step.rmCache _ b3 rfl rfl) <|
    .cons (Step.rmReadOk _ b2 rfl (by decide) (by decide)) <|
    .cons (Step.acquire _ 8) <|
    .cons (Step.rmDB _ b2 rfl) <|
    .cons (Step.release _ 8 (by simp)) <|
    .cons (Step.rmCache _ b2 rfl (by decide)) <|
    .nil _, by decide⟩

/-- non-vacuity of `C20_cache_invariant_all_sequences`: a valid sequence with all three operations -/
example : ∃ chain' c', CRun 0 [g0] (cacheOf 1 [g0]) [.push b1, .refill [g0]] chain' c' ∧
    chain' = [g0] ∧ last c' = some g0 := by
  refine ⟨_, _, .cons (ChainOK.left (p := [g0, b1]) (w := [b2, b3]) chainOK3)
    (.cons ⟨by simp, [], by simp [COp.apply]⟩ (.nil _ _)), ?_, ?_⟩ <;> decide

/-- non-vacuity of `C20_pop_of_last_cached_block_empties_cache` -/
example : len (cacheOf 1 [g0, b1]) = 1 ∧ last (pop (cacheOf 1 [g0, b1])).1 = none := by decide

/-- non-vacuity of the bulk lookup theorems: three requests, workers scheduled 2, 0, 1, the second
request not found -/
example : compact (bulkSlots 3 (fun i => if i = 1 then none else some (i * 10)) [2, 0, 1]) = [0, 20] := by
  decide

/-- non-vacuity of `C20_prepare_cache_establishes_invariant`: three blocks pushed into a cache of 2 -/
example : Good [g0, b1, b2, b3] (cacheOf 2 [b1, b2, b3]) ∧ last (cacheOf 2 [b1, b2, b3]) = some b3 ∧
    getByHeight (cacheOf 2 [b1, b2, b3]) 1 = none := by
  have h := C20_prepare_cache_establishes_invariant 0 2 (by omega) [g0] b1 [b2, b3] chainOK3
  refine ⟨?_, by decide, by decide⟩
  have hc : cacheOf 2 [b1, b2, b3] =
      ([b1, b2, b3].foldl (fun (acc : Cache × Bool) x => ((push acc.1 x).1, acc.2 && (push acc.1 x).2.isNone))
        (newBlockCache 2, true)).1 := by rfl
  rw [hc]
  exact h.2.1

/-- non-vacuity of `C20_bulk_lookup_static`: ids 5, 6, 7 with 6 unknown, workers scheduled 1, 2, 0 -/
example : compact (bulkSlots 3 (fun i => [5, 6, 7][i]?.bind (fun k => if k = 6 then none else some (k + 100)))
    [1, 2, 0]) = [105, 107] := by
  decide
