/-
C02 — invariants of the Lisk-BFT vote-counting model (`LiskVerif.Model.BFT`, transcription of
pkg/consensus/liskbft).

1. `C02_window_bounded`      the window never exceeds `3 · batchSize` entries; the vote loops only
                             change weights (`C02_precommitLoop_only_weights`, `C02_prevoteLoop_only_weights`);
2. `C02_window_shape`        heights in the window are consecutive and descending (`C02WindowOk`);
3. `C02_weights_monotone`    prevote / precommit weights of blocks that stay in the window never decrease;
4. `C02_params_stable`       `process` (pruning) and `setParams` do not change the parameters of heights
                             that are still needed;
5. `C02_heights_monotone`    maxHeightPrevoted / maxHeightPrecommited never decrease (`C02HeightsInv`),
                             `C02_heights_monotone_chain` along whole event sequences;
6. `C02_precommitted_le_prevoted`  maxHeightPrecommited ≤ maxHeightPrevoted is preserved;
7. non-vacuity: a 3-validator chain of 15 blocks with a parameter change, evaluated by the kernel.

Helper lemmas are in `LiskVerif/Lemmas/BFT.lean`.
-/
import LiskVerif.Props.C02
import LiskVerif.Lemmas.BFT

open LiskVerif LiskVerif.BFT

/-! ## Example used for the non-vacuity checks -/

def C02exVals : List Validator := [⟨[0x0a], 1⟩, ⟨[0x0b], 1⟩, ⟨[0x0c], 1⟩]

/-- genesis at height 0, batch size 3 (window of 9 blocks), three validators of weight 1:
prevote threshold 3, precommit threshold 2 -/
def C02exInit : State := C02step (initGenesis 3 0) (.setParams 2 2 C02exVals)

def C02exHdr (i : Nat) (g : Bytes) (commit : Option Nat) : Header := ⟨i, g, i - 3, 0, commit⟩

/-- 15 blocks generated round-robin; after block 4 the precommit threshold is raised to 3
(new parameters from height 5); from block 7 on the headers carry aggregate commits -/
def C02exEvents : List C02Ev :=
  [.block (C02exHdr 1 [0x0a] none), .block (C02exHdr 2 [0x0b] none), .block (C02exHdr 3 [0x0c] none),
   .block (C02exHdr 4 [0x0a] none), .setParams 3 3 C02exVals,
   .block (C02exHdr 5 [0x0b] none), .block (C02exHdr 6 [0x0c] none),
   .block (C02exHdr 7 [0x0a] (some 3)), .block (C02exHdr 8 [0x0b] (some 5)), .block (C02exHdr 9 [0x0c] (some 6)),
   .block (C02exHdr 10 [0x0a] (some 7)), .block (C02exHdr 11 [0x0b] (some 8)), .block (C02exHdr 12 [0x0c] (some 9)),
   .block (C02exHdr 13 [0x0a] (some 10)), .block (C02exHdr 14 [0x0b] (some 11)),
   .block (C02exHdr 15 [0x0c] (some 12))]

/-- the state after the first `n` events -/
def C02exState (n : Nat) : State := C02run C02exInit (C02exEvents.take n)

def C02isOk (r : Except Err State) : Bool := match r with | .ok _ => true | .error _ => false

/-- the window of a state as (height, prevoteWeight, precommitWeight) -/
def C02weights (s : State) : List (Nat × Nat × Nat) :=
  s.infos.map (fun b => (b.height, b.prevoteWeight, b.precommitWeight))

/-! ## 1. The window is bounded; the loops only change weights -/

/-- the precommit loop keeps every entry (height, generator, mhg, mhp, prevote weight) and only
increases precommit weights -/
theorem C02_precommitLoop_only_weights (s : State) (gen : Bytes) (minH : Nat) (l : List BlockInfo) (done : Bool)
    (l' : List BlockInfo) (first : Option Nat) (h : precommitLoop s gen minH l done = .ok (l', first)) :
    l'.length = l.length ∧
      All2 (fun a b => SameMeta a b ∧ a.prevoteWeight = b.prevoteWeight ∧ a.precommitWeight ≤ b.precommitWeight) l l' := by
  have hr := precommitLoop_rel s gen minH l done l' first h
  exact ⟨(All2.length_eq hr).symm, All2.imp (fun a b h => ⟨h.1, h.2.1, h.2.2.1⟩) hr⟩

/-- the prevote loop keeps every entry and only increases prevote weights -/
theorem C02_prevoteLoop_only_weights (s : State) (gen : Bytes) (minH : Nat) (l l' : List BlockInfo)
    (h : prevoteLoop s gen minH l = .ok l') :
    l'.length = l.length ∧
      All2 (fun a b => SameMeta a b ∧ a.prevoteWeight ≤ b.prevoteWeight ∧ a.precommitWeight = b.precommitWeight) l l' := by
  have hr := prevoteLoop_rel s gen minH l l' h
  exact ⟨(All2.length_eq hr).symm, hr⟩

/-- After a block is processed the window holds the new block plus at most `3·batchSize − 1` old ones. -/
theorem C02_window_bounded (s : State) (h : Header) (s' : State) (hp : process s h = .ok s') :
    s'.infos.length ≤ 3 * s.batchSize ∧ s'.batchSize = s.batchSize ∧ 0 < s'.infos.length := by
  obtain ⟨k, hk, hrel, hbs, _⟩ := process_facts hp
  have hl := All2.length_eq hrel
  simp only [List.length_cons, List.length_take] at hl
  refine ⟨?_, hbs, ?_⟩ <;> omega

/-- … and this holds along every event sequence. -/
theorem C02_window_bounded_run (s : State) (evs : List C02Ev) (hs : s.infos.length ≤ 3 * s.batchSize) :
    (C02run s evs).infos.length ≤ 3 * (C02run s evs).batchSize := by
  induction evs generalizing s with
  | nil => exact hs
  | cons e evs ih =>
    simp only [C02run, List.foldl_cons]
    apply ih
    cases e with
    | block h =>
      simp only [C02step]
      split
      · rename_i s' hp
        have := C02_window_bounded s h s' hp
        omega
      · exact hs
    | setParams pc ct vs =>
      simp only [C02step]
      split
      · rename_i s' hp
        obtain ⟨h1, h2, _⟩ := setParams_facts hp
        rw [h1, h2]; exact hs
      · exact hs
    | setKeys g => exact hs

example : C02isOk (process (C02exState 12) (C02exHdr 12 [0x0c] (some 9))) = true ∧
    (C02exState 12).infos.length = 9 ∧ (C02exState 13).infos.length = 9 ∧ (C02exState 13).batchSize = 3 := by
  decide +kernel

/-! ## 2. Shape of the window -/

/-- the heights in the window are consecutive and descending: `[top, top-1, top-2, …]` -/
def C02WindowOk (s : State) : Prop := DescN (s.infos.map (·.height))

instance (s : State) : Decidable (C02WindowOk s) := by unfold C02WindowOk; infer_instance

/-- index form of `C02WindowOk`: `infos[i].height = top − i` (additively, hence no truncation) -/
theorem C02_window_index (s : State) (hw : C02WindowOk s) (i : Nat) (b t : BlockInfo)
    (hb : s.infos[i]? = some b) (ht : s.infos.head? = some t) : b.height + i = t.height := by
  apply DescN.index hw i b.height t.height
  · simp [hb]
  · simp [ht]

/-- the window heights are strictly descending, in particular pairwise distinct -/
theorem C02_window_sorted (s : State) (hw : C02WindowOk s) :
    s.infos.Pairwise (fun a b => b.height < a.height) := sortedDesc_of_descN hw

private theorem process_heights {s : State} {h : Header} {s' : State} (hp : process s h = .ok s') :
    ∃ k, 3 * s.batchSize = k + 1 ∧ s'.infos.map (·.height) = h.height :: (s.infos.map (·.height)).take k := by
  obtain ⟨k, hk, hrel, _⟩ := process_facts hp
  refine ⟨k, hk, ?_⟩
  have := All2.map_eq (f := (·.height)) (g := (·.height)) (fun a b (h : Ruv (getParams s) a b) => h.1.1.1) hrel
  rw [← this]
  simp [newInfo, List.map_take]

/-- Processing the block that extends the tip keeps the window consecutive. -/
theorem C02_window_shape (s : State) (h : Header) (s' : State) (hp : process s h = .ok s')
    (hw : C02WindowOk s) (hn : ∀ t, s.infos.head? = some t → h.height = t.height + 1) : C02WindowOk s' := by
  obtain ⟨k, _, hh⟩ := process_heights hp
  unfold C02WindowOk
  rw [hh]
  apply DescN.cons (DescN.take k hw)
  intro t ht
  cases hi : s.infos with
  | nil => simp [hi] at ht
  | cons n rest =>
    have hk : k ≠ 0 := by intro h0; subst h0; simp at ht
    obtain ⟨k', rfl⟩ := Nat.exists_eq_succ_of_ne_zero hk
    simp [hi] at ht
    subst ht
    exact hn n (by simp [hi])

/-- `setParams` does not touch the window. -/
theorem C02_window_shape_setParams (s : State) (pc ct : Nat) (vs : List Validator) (s' : State)
    (hp : setParams s pc ct vs = .ok s') : s'.infos = s.infos ∧ (C02WindowOk s → C02WindowOk s') := by
  obtain ⟨h1, _⟩ := setParams_facts hp
  refine ⟨h1, ?_⟩
  unfold C02WindowOk; rw [h1]; exact id

/-- `setKeys` does not touch the window. -/
theorem C02_window_shape_setKeys (s : State) (g : List Bytes) :
    (setKeys s g).infos = s.infos ∧ (C02WindowOk s → C02WindowOk (setKeys s g)) := ⟨rfl, id⟩

example : C02WindowOk (C02exState 13) ∧ C02isOk (process (C02exState 13) (C02exHdr 13 [0x0a] (some 10))) = true ∧
    (∀ t, (C02exState 13).infos.head? = some t → (C02exHdr 13 [0x0a] (some 10)).height = t.height + 1) ∧
    (C02exState 14).infos.map (·.height) = [13, 12, 11, 10, 9, 8, 7, 6, 5] := by
  refine ⟨by decide +kernel, by decide +kernel, ?_, by decide +kernel⟩
  intro t ht
  have : (C02exState 13).infos.head?.map (·.height) = some 12 := by decide +kernel
  rw [ht] at this
  simp at this
  simp [C02exHdr, this]

/-! ## 3. Weights of blocks that stay in the window never decrease -/

/-- The new window is the new block followed by the old window (cut to `3·batchSize − 1` entries), with
identical height / generator / mhg / mhp and weights that did not decrease. -/
theorem C02_weights_monotone (s : State) (h : Header) (s' : State) (hp : process s h = .ok s') :
    All2 InfoLE (s.infos.take (3 * s.batchSize - 1)) s'.infos.tail ∧
      ∃ n, s'.infos.head? = some n ∧ SameMeta (newInfo h) n := by
  obtain ⟨k, hk, hrel, _⟩ := process_facts hp
  have hk' : 3 * s.batchSize - 1 = k := by omega
  rw [hk']
  cases hi : s'.infos with
  | nil => rw [hi] at hrel; exact hrel.elim
  | cons n rest =>
    rw [hi] at hrel
    exact ⟨All2.imp (fun a b h => h.1) hrel.2, n, rfl, hrel.1.1.1⟩

example : C02isOk (process (C02exState 13) (C02exHdr 13 [0x0a] (some 10))) = true ∧
    ((C02exState 13).infos.take (3 * (C02exState 13).batchSize - 1)).map (fun b => (b.height, b.prevoteWeight, b.precommitWeight))
      = [(12, 1, 0), (11, 2, 0), (10, 3, 0), (9, 3, 1), (8, 3, 2), (7, 3, 3), (6, 3, 3), (5, 3, 3)] ∧
    (C02exState 14).infos.tail.map (fun b => (b.height, b.prevoteWeight, b.precommitWeight))
      = [(12, 2, 0), (11, 3, 0), (10, 3, 1), (9, 3, 2), (8, 3, 3), (7, 3, 3), (6, 3, 3), (5, 3, 3)] := by
  decide +kernel

/-! ## 4. Parameters of heights that are still needed are stable -/

/-- `process` prunes the parameter store at `minReq = min (oldest window height) (maxHeightCertified + 1)`;
lookups at or above `minReq` are unchanged (the newest entry `≤ minReq` and everything above is kept). -/
theorem C02_params_stable (s : State) (h : Header) (s' : State) (hp : process s h = .ok s') (k : Nat)
    (hk : min ((s'.infos.getLast?.map (·.height)).getD 0) (s'.mhc + 1) ≤ k) :
    getParams s' k = getParams s k ∧ getKeys s' k = getKeys s k := by
  obtain ⟨_, _, _, _, _, _, _, hpar, hkeys⟩ := process_facts hp
  unfold getParams getKeys
  rw [hpar, hkeys, lookupLE_prune _ hk, lookupLE_prune _ hk]
  exact ⟨rfl, rfl⟩

/-- in particular for the height of every block in the new window -/
theorem C02_params_stable_window (s : State) (h : Header) (s' : State) (hp : process s h = .ok s')
    (hs : s'.infos.Pairwise (fun a b => b.height < a.height)) (b : BlockInfo) (hb : b ∈ s'.infos) :
    getParams s' b.height = getParams s b.height := by
  refine (C02_params_stable s h s' hp b.height ?_).1
  cases hl : s'.infos.getLast? with
  | none => simp
  | some o =>
    have := SortedDesc.getLast_le hs o hl b hb
    simp only [Option.map_some, Option.getD_some]
    omega

/-- `setParams` only adds (or replaces) the entry at `currentHeight + 1`: lookups at heights
`≤ currentHeight` are unchanged. -/
theorem C02_params_stable_setParams (s : State) (pc ct : Nat) (vs : List Validator) (s' : State)
    (hp : setParams s pc ct vs = .ok s') (k : Nat) (hk : k ≤ curHeight s) :
    getParams s' k = getParams s k := setParams_getParams hp hk

theorem C02_params_stable_setKeys (s : State) (g : List Bytes) (k : Nat) :
    getParams (setKeys s g) k = getParams s k := rfl

/-- non-vacuity: block 13 of the example prunes the parameters of height 1 (keys `[5, 1]` become `[5]`),
`minReq` is 5, and the entry removed was in use below `minReq` -/
example : C02isOk (process (C02exState 13) (C02exHdr 13 [0x0a] (some 10))) = true ∧
    (C02exState 13).params.map (·.1) = [5, 1] ∧ (C02exState 14).params.map (·.1) = [5] ∧
    min (((C02exState 14).infos.getLast?.map (·.height)).getD 0) ((C02exState 14).mhc + 1) = 5 ∧
    getParams (C02exState 14) 4 ≠ getParams (C02exState 13) 4 ∧
    getParams (C02exState 14) 5 = getParams (C02exState 13) 5 := by
  decide +kernel

/-- non-vacuity for `setParams`: event 5 of the example adds parameters at height 5 -/
example : curHeight (C02exState 4) = 4 ∧ (C02exState 4).params.map (·.1) = [1] ∧
    (C02exState 5).params.map (·.1) = [5, 1] ∧
    getParams (C02exState 5) 4 = getParams (C02exState 4) 4 ∧
    getParams (C02exState 5) 5 ≠ getParams (C02exState 4) 5 := by
  decide +kernel

/-! ## 5. maxHeightPrevoted and maxHeightPrecommited never decrease -/

/-- The invariant tying the two heights to the window. For prevotes: `mhp` is at least the height of
every window block whose prevote weight reaches the prevote threshold of its height, and `mhp` is
either below the whole window or itself the height of such a block. Likewise for precommits. -/
def C02HeightsInv (s : State) : Prop :=
  HInvL (getParams s) (·.prevoteWeight) (·.prevoteThreshold) s.infos s.mhp ∧
  HInvL (getParams s) (·.precommitWeight) (·.precommitThreshold) s.infos s.mhpc

/-- the header extends the tip; the first block after genesis lies above the genesis heights -/
def C02Next (s : State) (h : Header) : Prop :=
  match s.infos with
  | [] => s.mhp < h.height ∧ s.mhpc < h.height
  | n :: _ => h.height = n.height + 1

instance (s : State) (h : Header) : Decidable (C02Next s h) := by
  unfold C02Next; split <;> infer_instance

private theorem next_head {s : State} {h : Header} (hn : C02Next s h) :
    ∀ t, s.infos.head? = some t → h.height = t.height + 1 := by
  intro t ht
  unfold C02Next at hn
  split at hn
  · rename_i h0; simp [h0] at ht
  · rename_i n rest h0
    simp [h0] at ht; subst ht; exact hn

private theorem next_above {s : State} {h : Header} (hw : C02WindowOk s) (hn : C02Next s h) :
    ∀ b ∈ s.infos, b.height < h.height := by
  intro b hb
  have hs := C02_window_sorted s hw
  unfold C02Next at hn
  split at hn
  · rename_i h0; rw [h0] at hb; cases hb
  · rename_i n rest h0
    rw [h0] at hb hs
    rcases List.mem_cons.1 hb with rfl | hb
    · omega
    · have := (List.pairwise_cons.1 hs).1 b hb; omega

private theorem next_above_m {s : State} {h : Header} {w : BlockInfo → Nat} {thr : Params → Nat} {m : Nat}
    (habove : ∀ b ∈ s.infos, b.height < h.height) (hempty : s.infos = [] → m < h.height)
    (hi : HInvL (getParams s) w thr s.infos m) : m < h.height := by
  cases h0 : s.infos with
  | nil => exact hempty h0
  | cons n rest =>
    rcases hi.2 with hall | ⟨b, hb, hbm, _⟩
    · have h1 := hall n (by simp [h0])
      have h2 := habove n (by simp [h0])
      omega
    · have := habove b hb; omega

private theorem heights_step {s : State} {h : Header} {s' : State} (hp : process s h = .ok s')
    (hw : C02WindowOk s) (hn : C02Next s h) (hi : C02HeightsInv s) :
    C02HeightsInv s' ∧ s.mhp ≤ s'.mhp ∧ s.mhpc ≤ s'.mhpc := by
  have hw' := C02_window_shape s h s' hp hw (next_head hn)
  have hs := C02_window_sorted s hw
  have hs' := C02_window_sorted s' hw'
  have hg := C02_params_stable_window s h s' hp hs'
  have habove := next_above hw hn
  obtain ⟨k, _, hrel, _, ⟨p, hpv, hmhp⟩, ⟨pc, hpc, hmhpc⟩, _⟩ := process_facts hp
  have hm1 : s.mhp < h.height := next_above_m habove (fun h0 => by
    unfold C02Next at hn; rw [h0] at hn; exact hn.1) hi.1
  have hm2 : s.mhpc < h.height := next_above_m habove (fun h0 => by
    unfold C02Next at hn; rw [h0] at hn; exact hn.2) hi.2
  have r1 := HInvL_step (g' := getParams s') (new := newInfo h) (k := k) hs hi.1 habove hm1
    (All2.imp (fun a b (h : Ruv (getParams s) a b) => ⟨h.1.1.1, h.1.2.1⟩) hrel)
    (firstWith_spec s _ _ _ _ hpv hs') hg
  have r2 := HInvL_step (g' := getParams s') (new := newInfo h) (k := k) hs hi.2 habove hm2
    (All2.imp (fun a b (h : Ruv (getParams s) a b) => ⟨h.1.1.1, h.1.2.2⟩) hrel)
    (firstWith_spec s _ _ _ _ hpc hs') hg
  rw [← hmhp] at r1
  rw [← hmhpc] at r2
  exact ⟨⟨r1.1, r2.1⟩, r1.2, r2.2⟩

/-- `C02HeightsInv` is preserved by processing the next block. -/
theorem C02_heights_inv_preserved (s : State) (h : Header) (s' : State) (hp : process s h = .ok s')
    (hw : C02WindowOk s) (hn : C02Next s h) (hi : C02HeightsInv s) : C02HeightsInv s' :=
  (heights_step hp hw hn hi).1

/-- maxHeightPrevoted and maxHeightPrecommited never decrease when the next block is processed.
(No extra hypothesis on parameter lookups is needed: `process` fails when a lookup it needs fails.) -/
theorem C02_heights_monotone (s : State) (h : Header) (s' : State) (hp : process s h = .ok s')
    (hw : C02WindowOk s) (hn : C02Next s h) (hi : C02HeightsInv s) : s.mhp ≤ s'.mhp ∧ s.mhpc ≤ s'.mhpc :=
  (heights_step hp hw hn hi).2

def C02cexState : State :=
  { batchSize := 3, mhp := 50, mhpc := 50, mhc := 0,
    infos := [{ height := 10, gen := [0x0b], mhg := 0, mhp := 0 }],
    active := [⟨[0x0a], 0, 0⟩],
    params := [(0, ⟨1, 1, 1, [⟨[0x0a], 1⟩]⟩)] }

/-- The invariant `C02HeightsInv` cannot be dropped: in a (unreachable) state whose `mhp = 50` is not
backed by the window `[10]`, processing block 11 — which reaches the prevote threshold at once with a
single validator — sets `mhp` to 11. Window shape and `h.height = tip + 1` hold. -/
theorem C02_heights_monotone_counterexample :
    ∃ (s : State) (h : Header) (s' : State), process s h = .ok s' ∧ C02WindowOk s ∧ C02Next s h ∧
      s'.mhp < s.mhp := by
  let s0 : State := C02cexState
  let h : Header := ⟨11, [0x0a], 0, 0, none⟩
  have hv : (match process s0 h with | .ok s' => some s'.mhp | .error _ => none) = some 11 := by decide +kernel
  cases hp : process s0 h with
  | error e => rw [hp] at hv; cases hv
  | ok s' =>
    rw [hp] at hv
    simp only [Option.some.injEq] at hv
    refine ⟨s0, h, s', hp, by decide +kernel, by decide +kernel, ?_⟩
    rw [hv]; decide

private theorem heights_setParams {s s' : State} {pc ct : Nat} {vs : List Validator}
    (hp : setParams s pc ct vs = .ok s') (hw : C02WindowOk s) (hi : C02HeightsInv s) : C02HeightsInv s' := by
  obtain ⟨h1, _, h3, h4, _⟩ := setParams_facts hp
  have hs := C02_window_sorted s hw
  have hg : ∀ b ∈ s.infos, getParams s' b.height = getParams s b.height :=
    fun b hb => setParams_getParams hp (SortedDesc.le_curHeight hs b hb)
  unfold C02HeightsInv
  rw [h1, h3, h4]
  exact ⟨HInvL.congr hg hi.1, HInvL.congr hg hi.2⟩

/-- `setParams` / `setKeys` preserve the invariant and do not move the heights. -/
theorem C02_heights_inv_setParams (s : State) (pc ct : Nat) (vs : List Validator) (s' : State)
    (hp : setParams s pc ct vs = .ok s') (hw : C02WindowOk s) (hi : C02HeightsInv s) :
    C02HeightsInv s' ∧ s'.mhp = s.mhp ∧ s'.mhpc = s.mhpc := by
  obtain ⟨_, _, h3, h4, _⟩ := setParams_facts hp
  exact ⟨heights_setParams hp hw hi, h3, h4⟩

/-- an event sequence in which every block event extends the tip of the state it is applied to
(rejected blocks leave the state, hence the tip, unchanged) -/
def C02ChainOk (s : State) : List C02Ev → Prop
  | [] => True
  | .block h :: rest => C02Next s h ∧ C02ChainOk (C02step s (.block h)) rest
  | e :: rest => C02ChainOk (C02step s e) rest

def C02decChainOk : (s : State) → (evs : List C02Ev) → Decidable (C02ChainOk s evs)
  | _, [] => isTrue trivial
  | s, .block h :: rest =>
    match (inferInstance : Decidable (C02Next s h)), C02decChainOk (C02step s (.block h)) rest with
    | isTrue h1, isTrue h2 => isTrue ⟨h1, h2⟩
    | isFalse h1, _ => isFalse fun h => h1 h.1
    | _, isFalse h2 => isFalse fun h => h2 h.2
  | s, .setParams pc ct vs :: rest => C02decChainOk (C02step s (.setParams pc ct vs)) rest
  | s, .setKeys g :: rest => C02decChainOk (C02step s (.setKeys g)) rest

instance (s : State) (evs : List C02Ev) : Decidable (C02ChainOk s evs) := C02decChainOk s evs

theorem C02_chainOk_append (s : State) (a b : List C02Ev) :
    C02ChainOk s (a ++ b) ↔ C02ChainOk s a ∧ C02ChainOk (C02run s a) b := by
  induction a generalizing s with
  | nil => simp [C02ChainOk, C02run]
  | cons e a ih =>
    cases e with
    | block h => simp only [List.cons_append, C02ChainOk, C02run, List.foldl_cons, ih, and_assoc]
    | setParams pc ct vs => simp only [List.cons_append, C02ChainOk, C02run, List.foldl_cons, ih]
    | setKeys g => simp only [List.cons_append, C02ChainOk, C02run, List.foldl_cons, ih]

/-- one event preserves window shape and heights invariant and does not lower the heights -/
private theorem good_step {s : State} {e : C02Ev} (hw : C02WindowOk s) (hi : C02HeightsInv s)
    (hn : ∀ h, e = .block h → C02Next s h) :
    C02WindowOk (C02step s e) ∧ C02HeightsInv (C02step s e) ∧ s.mhp ≤ (C02step s e).mhp ∧
      s.mhpc ≤ (C02step s e).mhpc := by
  cases e with
  | block h =>
    simp only [C02step]
    split
    · rename_i s' hp
      have hn' := hn h rfl
      have := heights_step hp hw hn' hi
      exact ⟨C02_window_shape s h s' hp hw (next_head hn'), this.1, this.2.1, this.2.2⟩
    · exact ⟨hw, hi, Nat.le_refl _, Nat.le_refl _⟩
  | setParams pc ct vs =>
    simp only [C02step]
    split
    · rename_i s' hp
      obtain ⟨h1, h2, h3⟩ := C02_heights_inv_setParams s pc ct vs s' hp hw hi
      exact ⟨(C02_window_shape_setParams s pc ct vs s' hp).2 hw, h1, by omega, by omega⟩
    · exact ⟨hw, hi, Nat.le_refl _, Nat.le_refl _⟩
  | setKeys g => exact ⟨hw, hi, Nat.le_refl _, Nat.le_refl _⟩

/-- Along any sequence of events whose blocks extend the tip, the window keeps its shape, the
heights invariant holds, and maxHeightPrevoted / maxHeightPrecommited never decrease. -/
theorem C02_heights_monotone_chain (s : State) (evs : List C02Ev) (hw : C02WindowOk s) (hi : C02HeightsInv s)
    (hc : C02ChainOk s evs) :
    C02WindowOk (C02run s evs) ∧ C02HeightsInv (C02run s evs) ∧ s.mhp ≤ (C02run s evs).mhp ∧
      s.mhpc ≤ (C02run s evs).mhpc := by
  induction evs generalizing s with
  | nil => exact ⟨hw, hi, Nat.le_refl _, Nat.le_refl _⟩
  | cons e evs ih =>
    have hstep : C02ChainOk (C02step s e) evs ∧ ∀ h, e = .block h → C02Next s h := by
      cases e with
      | block h => exact ⟨hc.2, fun h' he => by cases he; exact hc.1⟩
      | setParams pc ct vs => exact ⟨hc, fun h' he => by cases he⟩
      | setKeys g => exact ⟨hc, fun h' he => by cases he⟩
    obtain ⟨g1, g2, g3, g4⟩ := good_step hw hi hstep.2
    obtain ⟨i1, i2, i3, i4⟩ := ih (C02step s e) g1 g2 hstep.1
    simp only [C02run, List.foldl_cons] at i1 i2 i3 i4 ⊢
    exact ⟨i1, i2, by omega, by omega⟩

/-- the heights after any prefix are below the heights after the whole sequence -/
theorem C02_heights_monotone_prefix (s : State) (a b : List C02Ev) (hw : C02WindowOk s) (hi : C02HeightsInv s)
    (hc : C02ChainOk s (a ++ b)) :
    (C02run s a).mhp ≤ (C02run s (a ++ b)).mhp ∧ (C02run s a).mhpc ≤ (C02run s (a ++ b)).mhpc := by
  obtain ⟨ha, hb⟩ := (C02_chainOk_append s a b).1 hc
  obtain ⟨h1, h2, _, _⟩ := C02_heights_monotone_chain s a hw hi ha
  obtain ⟨_, _, h3, h4⟩ := C02_heights_monotone_chain (C02run s a) b h1 h2 hb
  rw [C02_run_append]
  exact ⟨h3, h4⟩

/-- the genesis state satisfies the invariants -/
theorem C02_genesis_good (batchSize genesisHeight : Nat) :
    C02WindowOk (initGenesis batchSize genesisHeight) ∧ C02HeightsInv (initGenesis batchSize genesisHeight) := by
  refine ⟨trivial, ⟨?_, Or.inl ?_⟩, ⟨?_, Or.inl ?_⟩⟩ <;> (intro b hb; cases hb)

/-- From genesis, finality heights never fall below the genesis height and never regress. -/
theorem C02_heights_monotone_from_genesis (batchSize genesisHeight : Nat) (a b : List C02Ev)
    (hc : C02ChainOk (initGenesis batchSize genesisHeight) (a ++ b)) :
    genesisHeight ≤ (C02run (initGenesis batchSize genesisHeight) a).mhpc ∧
    (C02run (initGenesis batchSize genesisHeight) a).mhp ≤ (C02run (initGenesis batchSize genesisHeight) (a ++ b)).mhp ∧
    (C02run (initGenesis batchSize genesisHeight) a).mhpc ≤ (C02run (initGenesis batchSize genesisHeight) (a ++ b)).mhpc := by
  obtain ⟨hw, hi⟩ := C02_genesis_good batchSize genesisHeight
  have h1 := C02_heights_monotone_prefix _ a b hw hi hc
  have h2 := C02_heights_monotone_chain _ a hw hi ((C02_chainOk_append _ a b).1 hc).1
  exact ⟨h2.2.2.2, h1.1, h1.2⟩

example : C02ChainOk C02exInit C02exEvents ∧ C02WindowOk C02exInit ∧
    (C02exState 4).mhp = 2 ∧ (C02exState 4).mhpc = 0 ∧ (C02exState 16).mhp = 13 ∧ (C02exState 16).mhpc = 10 := by
  decide +kernel

/-! ## 6. maxHeightPrecommited ≤ maxHeightPrevoted -/

/-- a block only carries precommit weight if it has prevote quorum, and every stored precommit
threshold is positive (`SetBFTParameters` enforces `precommitThreshold ≥ ⌊W/3⌋ + 1`) -/
def C02PrecommitInv (s : State) : Prop :=
  (∀ b ∈ s.infos, 0 < b.precommitWeight → PvQ (getParams s) b) ∧
  (∀ e ∈ s.params, 1 ≤ e.2.precommitThreshold)

private theorem getParams_mem {s : State} {k : Nat} {p : Params} (h : getParams s k = some p) :
    ∃ e ∈ s.params, e.2 = p := by
  unfold getParams at h
  cases hl : lookupLE s.params k with
  | none => rw [hl] at h; cases h
  | some e =>
    rw [hl] at h
    simp only [Option.map_some, Option.some.injEq] at h
    exact ⟨e, (lookupLE_some hl).2.1, h⟩

private theorem precommit_step {s : State} {h : Header} {s' : State} (hp : process s h = .ok s')
    (hw : C02WindowOk s) (hn : C02Next s h) (hpi : C02PrecommitInv s) :
    C02PrecommitInv s' ∧ ∀ b ∈ s'.infos, 0 < b.precommitWeight → PvQ (getParams s) b := by
  have hw' := C02_window_shape s h s' hp hw (next_head hn)
  have hs' := C02_window_sorted s' hw'
  have hg := C02_params_stable_window s h s' hp hs'
  obtain ⟨k, _, hrel, _, _, _, _, hpar, _⟩ := process_facts hp
  have hmid : ∀ b' ∈ s'.infos, 0 < b'.precommitWeight → PvQ (getParams s) b' := by
    intro b' hb' hpos
    obtain ⟨a, ha, hab⟩ := All2.mem_right hrel b' hb'
    by_cases hlt : a.precommitWeight < b'.precommitWeight
    · exact Quorum.mono hab.1.1.1 hab.1.2.1 (hab.2 hlt)
    · have hle := hab.1.2.2
      have hapos : 0 < a.precommitWeight := by omega
      rcases List.mem_cons.1 ha with rfl | ha
      · simp [newInfo] at hapos
      · exact Quorum.mono hab.1.1.1 hab.1.2.1 (hpi.1 a (List.mem_of_mem_take ha) hapos)
  refine ⟨⟨fun b hb hpos => (Quorum.congr (hg b hb)).2 (hmid b hb hpos), ?_⟩, hmid⟩
  intro e he
  rw [hpar] at he
  exact hpi.2 e (prune_subset _ _ e he)

/-- `C02PrecommitInv` is preserved by processing the next block. -/
theorem C02_precommit_inv_preserved (s : State) (h : Header) (s' : State) (hp : process s h = .ok s')
    (hw : C02WindowOk s) (hn : C02Next s h) (hpi : C02PrecommitInv s) : C02PrecommitInv s' :=
  (precommit_step hp hw hn hpi).1

/-- maxHeightPrecommited ≤ maxHeightPrevoted is preserved: the highest block with precommit quorum
carries precommit weight, hence has prevote quorum, hence lies at or below the new maxHeightPrevoted. -/
theorem C02_precommitted_le_prevoted (s : State) (h : Header) (s' : State) (hp : process s h = .ok s')
    (hw : C02WindowOk s) (hn : C02Next s h) (hi : C02HeightsInv s) (hpi : C02PrecommitInv s)
    (hle : s.mhpc ≤ s.mhp) : s'.mhpc ≤ s'.mhp := by
  have hw' := C02_window_shape s h s' hp hw (next_head hn)
  have hs' := C02_window_sorted s' hw'
  have hmono := (heights_step hp hw hn hi).2
  have hmid := (precommit_step hp hw hn hpi).2
  obtain ⟨k, _, _, _, ⟨p, hpv, hmhp⟩, ⟨pc, hpc, hmhpc⟩, _⟩ := process_facts hp
  have spv := firstWith_spec s _ _ _ _ hpv hs'
  have spc := firstWith_spec s _ _ _ _ hpc hs'
  cases pc with
  | none => simp only [Option.getD_none] at hmhpc; omega
  | some hq =>
    simp only [Option.getD_some] at hmhpc
    obtain ⟨⟨bq, hbq, hh, pp, hpp, hthr⟩, _⟩ := spc.2 hq rfl
    obtain ⟨e, he, hep⟩ := getParams_mem hpp
    have h1 := hpi.2 e he
    rw [hep] at h1
    have hpos : 0 < bq.precommitWeight := by
      have : pp.precommitThreshold ≤ bq.precommitWeight := hthr
      omega
    have hq1 := hmid bq hbq hpos
    cases p with
    | none => exact absurd hq1 (spv.1 rfl bq hbq)
    | some hq2 =>
      simp only [Option.getD_some] at hmhp
      have := (spv.2 hq2 rfl).2 bq hbq hq1
      omega

theorem C02_precommit_inv_setParams (s : State) (pc ct : Nat) (vs : List Validator) (s' : State)
    (hp : setParams s pc ct vs = .ok s') (hw : C02WindowOk s) (hpi : C02PrecommitInv s) : C02PrecommitInv s' := by
  obtain ⟨h1, _, _, _, _, _, hpar⟩ := setParams_facts hp
  have hs := C02_window_sorted s hw
  refine ⟨?_, ?_⟩
  · rw [h1]
    intro b hb hpos
    exact (Quorum.congr (setParams_getParams hp (SortedDesc.le_curHeight hs b hb))).2 (hpi.1 b hb hpos)
  · intro e he
    rcases hpar with hpar | ⟨p, hpar, hp1⟩
    · rw [hpar] at he; exact hpi.2 e he
    · rw [hpar] at he
      rcases List.mem_cons.1 he with rfl | he
      · exact hp1
      · exact hpi.2 e (List.mem_filter.1 he).1

/-- the full invariant of the BFT state -/
def C02Inv (s : State) : Prop :=
  C02WindowOk s ∧ C02HeightsInv s ∧ C02PrecommitInv s ∧ s.mhpc ≤ s.mhp

theorem C02_genesis_inv (batchSize genesisHeight : Nat) : C02Inv (initGenesis batchSize genesisHeight) := by
  obtain ⟨h1, h2⟩ := C02_genesis_good batchSize genesisHeight
  refine ⟨h1, h2, ⟨?_, ?_⟩, Nat.le_refl _⟩
  · intro b hb; cases hb
  · intro e he; cases he

/-- every event (blocks extending the tip) preserves the full invariant -/
theorem C02_inv_step (s : State) (e : C02Ev) (hinv : C02Inv s) (hn : ∀ h, e = .block h → C02Next s h) :
    C02Inv (C02step s e) := by
  obtain ⟨hw, hi, hpi, hle⟩ := hinv
  obtain ⟨g1, g2, _, _⟩ := good_step hw hi hn
  refine ⟨g1, g2, ?_⟩
  cases e with
  | block h =>
    simp only [C02step]
    split
    · rename_i s' hp
      exact ⟨C02_precommit_inv_preserved s h s' hp hw (hn h rfl) hpi,
        C02_precommitted_le_prevoted s h s' hp hw (hn h rfl) hi hpi hle⟩
    · exact ⟨hpi, hle⟩
  | setParams pc ct vs =>
    simp only [C02step]
    split
    · rename_i s' hp
      obtain ⟨_, _, h3, h4, _⟩ := setParams_facts hp
      exact ⟨C02_precommit_inv_setParams s pc ct vs s' hp hw hpi, by omega⟩
    · exact ⟨hpi, hle⟩
  | setKeys g => exact ⟨hpi, hle⟩

/-- the full invariant holds along every event sequence whose blocks extend the tip -/
theorem C02_inv_chain (s : State) (evs : List C02Ev) (hinv : C02Inv s) (hc : C02ChainOk s evs) :
    C02Inv (C02run s evs) := by
  induction evs generalizing s with
  | nil => exact hinv
  | cons e evs ih =>
    have hstep : C02ChainOk (C02step s e) evs ∧ ∀ h, e = .block h → C02Next s h := by
      cases e with
      | block h => exact ⟨hc.2, fun h' he => by cases he; exact hc.1⟩
      | setParams pc ct vs => exact ⟨hc, fun h' he => by cases he⟩
      | setKeys g => exact ⟨hc, fun h' he => by cases he⟩
    simp only [C02run, List.foldl_cons]
    exact ih (C02step s e) (C02_inv_step s e hinv hstep.2) hstep.1

/-- On every chain grown from genesis: genesis ≤ maxHeightPrecommited ≤ maxHeightPrevoted. -/
theorem C02_precommitted_le_prevoted_from_genesis (batchSize genesisHeight : Nat) (evs : List C02Ev)
    (hc : C02ChainOk (initGenesis batchSize genesisHeight) evs) :
    genesisHeight ≤ (C02run (initGenesis batchSize genesisHeight) evs).mhpc ∧
      (C02run (initGenesis batchSize genesisHeight) evs).mhpc ≤ (C02run (initGenesis batchSize genesisHeight) evs).mhp := by
  have h1 := C02_inv_chain _ evs (C02_genesis_inv batchSize genesisHeight) hc
  obtain ⟨hw, hi⟩ := C02_genesis_good batchSize genesisHeight
  have h2 := C02_heights_monotone_chain _ evs hw hi hc
  exact ⟨h2.2.2.2, h1.2.2.2⟩

/-! ## 7. Non-vacuity: finality advances on a concrete chain satisfying all hypotheses -/

/-- the example history from genesis: parameter setup, then `C02exEvents` -/
def C02exHistory : List C02Ev := .setParams 2 2 C02exVals :: C02exEvents

/-- The example history satisfies the hypothesis of the chain theorems, every block is accepted (the
tip reaches height 15), finality advances well above genesis (0), the window is full and slides, and
the parameters of height 1 are pruned once they are no longer needed. -/
theorem C02_example_finality_advances :
    C02ChainOk (initGenesis 3 0) C02exHistory ∧
    (List.range 17).map (fun n => ((C02exState n).mhp, (C02exState n).mhpc)) =
      [(0, 0), (0, 0), (0, 0), (1, 0), (2, 0), (2, 0), (3, 1), (4, 2), (5, 3), (6, 4), (7, 4), (8, 5), (9, 6),
       (10, 7), (11, 8), (12, 9), (13, 10)] ∧
    C02weights (C02exState 16) =
      [(15, 1, 0), (14, 2, 0), (13, 3, 0), (12, 3, 1), (11, 3, 2), (10, 3, 3), (9, 3, 3), (8, 3, 3), (7, 3, 3)] ∧
    (C02exState 16).mhc = 12 ∧ (C02exState 16).params.map (·.1) = [5] := by
  decide +kernel

/-- … hence all invariants hold in its final state (instantiating the chain theorems). -/
theorem C02_example_invariants :
    C02Inv (C02run (initGenesis 3 0) C02exHistory) ∧ (C02run (initGenesis 3 0) C02exHistory).mhp = 13 ∧
      (C02run (initGenesis 3 0) C02exHistory).mhpc = 10 :=
  ⟨C02_inv_chain _ _ (C02_genesis_inv 3 0) C02_example_finality_advances.1, by decide +kernel, by decide +kernel⟩

/-- every single block of the example is accepted and satisfies the hypotheses of the per-block theorems -/
example : (List.range 16).all (fun n =>
    match C02exEvents[n]? with
    | some (.block h) => C02isOk (process (C02exState n) h) && decide (C02Next (C02exState n) h) &&
        decide (C02WindowOk (C02exState n))
    | _ => true) = true := by
  decide +kernel

/-- a single step of the example instantiating the per-block theorems: all hypotheses of
`C02_heights_monotone` and `C02_precommitted_le_prevoted` hold before block 13, the block is
accepted, and both heights strictly increase -/
example : ∃ s', process (C02exState 13) (C02exHdr 13 [0x0a] (some 10)) = .ok s' ∧
    C02Next (C02exState 13) (C02exHdr 13 [0x0a] (some 10)) ∧ C02Inv (C02exState 13) ∧
    (C02exState 13).mhp < s'.mhp ∧ (C02exState 13).mhpc < s'.mhpc ∧ s'.mhpc ≤ s'.mhp := by
  have hinv : C02Inv (C02exState 13) :=
    C02_inv_chain (initGenesis 3 0) (.setParams 2 2 C02exVals :: C02exEvents.take 13) (C02_genesis_inv 3 0)
      (by decide +kernel)
  have hn : C02Next (C02exState 13) (C02exHdr 13 [0x0a] (some 10)) := by decide +kernel
  have hv : (match process (C02exState 13) (C02exHdr 13 [0x0a] (some 10)) with
      | .ok s' => some (s'.mhp, s'.mhpc) | .error _ => none) = some (11, 8) := by decide +kernel
  have h0 : (C02exState 13).mhp = 10 ∧ (C02exState 13).mhpc = 7 := by decide +kernel
  cases hp : process (C02exState 13) (C02exHdr 13 [0x0a] (some 10)) with
  | error e => rw [hp] at hv; cases hv
  | ok s' =>
    rw [hp] at hv
    simp only [Option.some.injEq, Prod.mk.injEq] at hv
    refine ⟨s', rfl, hn, hinv, by omega, by omega, ?_⟩
    exact C02_precommitted_le_prevoted _ _ s' hp hinv.1 hn hinv.2.1 hinv.2.2.1 hinv.2.2.2
