/-
C20 — a value handed out of a lock-protected structure does not share memory with it.

(B) Obligations over the table REGENERATED from the Go source by tools/aliasgen on every check run
    (`Gen/Alias.lean`): for every method of blockCache, certificate.Pool, EventEmitter, diffdb.Database
    (the lock-protected types) and of the DataAccess / Chain facades, every result that can carry memory
    is classified by who owns what the caller receives — `fresh` / `ext` / `param` (the structure keeps
    no access path to it), `record` (a pointer to a shared record: not judged), `view` (a field of the
    receiver, a reslice / element of one, or a local derived from one, followed through calls such as
    Select -> SingleCommits.GetUntil), `unknown`. No result is a view, at the level of the returned
    slice / map (shallow) or of the slices reachable through records built for the result (deep) — with
    one benign exception (`benignViews`) and one listed defect (`knownDeepViews`: the value bytes of the
    entries returned by diffdb Range / Iterate and of the Diff returned by Commit). The classification is
    spelled out method by method, so a new method or a changed classification breaks a named theorem.
(A) Generic theorem over the interleaving semantics of `Model/Locks.lean`: if every region a goroutine
    accesses outside of the lock discipline is OWNED by it (allocated for a result handed to it: the
    `fresh` class) then, together with the lockset discipline for everything else, no reachable state has
    two goroutines about to perform conflicting accesses — for any number of goroutines and any schedule.
(C) Counterexample for the view class (the shape of a Select that returns a prefix of the pool's own
    array): the owner's read after the unlock and the next Select's in-place sort under the lock are
    simultaneously enabled.

What links (B) to (A) is the meaning of the classes (trusted: tools/aliasgen): a `fresh` result names
regions no other goroutine has an access path to, a `view` result names a guarded region. Pointers to
records kept in the structure (*Block, *BlockHeader, *SingleCommit) are shared by design and are not
judged (class `record`); the harness oracle checks that they are not modified after hand-out.
-/
import LiskVerif.Lemmas.LocksAlias
import LiskVerif.Gen.Alias

open LiskVerif LiskVerif.Locks LiskVerif.Alias

namespace C20.Alias

/-- justified exceptions (benign views): `Chain.ChainID` returns the `chainID` field of `Chain`, which is
not lock-protected and is never written after `NewChain` (`C20_alias_chain_id_never_written`). -/
def benignViews : List (String × Nat) := [("Chain.ChainID", 0)]

/-- DEFECT (not benign; harness signatures c20-alias-diffdb-{iterate,range}-value-shared-with-store and
c20-alias-diffdb-commit-diff-shared-with-store, fix: fixes/C20-diffdb-handout-copies.patch): the entries
returned by diffdb `Range` / `Iterate` carry the staged value bytes of the cache itself and the `Diff`
returned by `Commit` the `init` bytes (`Get` copies). For these results the deep class may be `view`; every
other clause below applies to them. Once the fix is in /repo the deep classes become `ext` / `ext` /
`fresh`: empty this list and replace the three `none` of `C20_alias_guarded_classification` by
`some .ext`, `some .ext`, `some .fresh`. -/
def knownDeepViews : List (String × Nat) :=
  [("Database.Range", 0), ("Database.Iterate", 0), ("Database.Commit", 0)]

def rowOk (r : Row) : Bool :=
  (r.shallow.owned && r.deep != .record &&
      (r.deep.owned || (r.deep == .view && knownDeepViews.contains (r.name, r.result))))
    || benignViews.contains (r.name, r.result)

/-- (method, result, shallow class, deep class — `none` for the results listed in `knownDeepViews`) -/
def summaryOf (r : Row) : String × Nat × Cls × Option Cls :=
  (r.name, r.result, r.shallow, if knownDeepViews.contains (r.name, r.result) then none else some r.deep)

end C20.Alias

/-! ## (B) obligations over the regenerated table -/

/-- **No view escapes**: no method of the C20 types returns memory the structure keeps an access path to
(quantified over the regenerated table: methods added to the types are covered automatically), except
the justified benign view and the deep class of the three results of the listed defect. -/
theorem C20_alias_no_view_escapes : Gen.Alias.table.all C20.Alias.rowOk = true := by
  decide +kernel

/-- no result was classified through a construct the classifier does not understand -/
theorem C20_alias_no_unknown_construct :
    Gen.Alias.table.all (fun r => r.shallow != .unknown && r.deep != .unknown) = true := by
  decide +kernel

/-- the lock-protected types, method by method: (method, result, shallow class, deep class) -/
theorem C20_alias_guarded_classification :
    (Gen.Alias.table.filter (·.guarded)).map C20.Alias.summaryOf =
      [("blockCache.last", 0, .record, some .fresh),
       ("blockCache.get", 0, .record, some .fresh),
       ("blockCache.getByHeight", 0, .record, some .fresh),
       ("blockCache.pop", 0, .record, some .fresh),
       ("Pool.Select", 0, .fresh, some .fresh),
       ("Pool.Get", 0, .fresh, some .fresh),
       ("EventEmitter.Subscribe", 0, .record, some .fresh),
       ("Database.WithPrefix", 0, .record, some .fresh),
       ("Database.Get", 0, .fresh, some .fresh),
       ("Database.Range", 0, .fresh, none),
       ("Database.Iterate", 0, .fresh, none),
       ("Database.Commit", 0, .record, none),
       ("Database.getKey", 0, .fresh, some .fresh),
       ("Database.mergeSortLimit", 0, .fresh, some .param)] := by
  decide +kernel

/-- the facades that hand the cached chain data out -/
theorem C20_alias_facade_classification :
    (Gen.Alias.table.filter (fun r => !r.guarded)).map C20.Alias.summaryOf =
      [("DataAccess.CachedLastBlock", 0, .record, some .fresh),
       ("DataAccess.GetBlockHeader", 0, .record, some .ext),
       ("DataAccess.GetBlockHeaders", 0, .fresh, some .ext),
       ("DataAccess.GetBlockHeadersByHeights", 0, .fresh, some .ext),
       ("DataAccess.GetBlockHeaderByHeight", 0, .record, some .ext),
       ("DataAccess.GetLastBlockHeader", 0, .record, some .fresh),
       ("DataAccess.GetBlock", 0, .record, some .ext),
       ("DataAccess.GetLastBlock", 0, .record, some .fresh),
       ("DataAccess.GetBlockByHeight", 0, .record, some .ext),
       ("DataAccess.GetBlocksBetweenHeight", 0, .fresh, some .ext),
       ("DataAccess.GetTransaction", 0, .record, some .fresh),
       ("DataAccess.GetTransactions", 0, .fresh, some .fresh),
       ("DataAccess.GetTempBlocks", 0, .fresh, some .ext),
       ("DataAccess.GetEvents", 0, .fresh, some .fresh),
       ("DataAccess.getBlock", 0, .record, some .ext),
       ("DataAccess.getBlockHeader", 0, .record, some .ext),
       ("DataAccess.getTransactions", 0, .fresh, some .fresh),
       ("DataAccess.getBlockAssets", 0, .fresh, some .fresh),
       ("DataAccess.getTransaction", 0, .record, some .fresh),
       ("DataAccess.getLastBlock", 0, .record, some .ext),
       ("Chain.LastBlock", 0, .record, some .fresh),
       ("Chain.GetLastNBlocks", 0, .fresh, some .ext),
       ("Chain.ChainID", 0, .view, some .fresh),
       ("Chain.DataAccess", 0, .record, some .fresh)] := by
  decide +kernel

/-- the certificate pool: what `Select` and `Get` return is allocated for the caller (the selection the
gossip loop publishes outside of the pool lock and passes to `Upgrade` afterwards) -/
theorem C20_alias_pool_results_fresh :
    (Gen.Alias.table.filter (fun r => r.name == "Pool.Select" || r.name == "Pool.Get")).map
      (fun r => (r.name, r.shallow, r.deep)) = [("Pool.Select", .fresh, .fresh), ("Pool.Get", .fresh, .fresh)] := by
  decide +kernel

/-- the staged store: `Get` returns a copy, and the slices / records returned by `Range` / `Iterate` /
`Commit` themselves are allocated for the caller (for what is reachable through them see `knownDeepViews`) -/
theorem C20_alias_diffdb_results_not_shared :
    (Gen.Alias.table.filter (fun r => r.name == "Database.Get")).map (fun r => (r.shallow, r.deep)) =
      [(.fresh, .fresh)] ∧
    (Gen.Alias.table.filter (fun r => r.name == "Database.Range" || r.name == "Database.Iterate" ||
        r.name == "Database.Commit")).all (fun r => r.shallow.owned) = true := by
  decide +kernel

/-- the justification of the benign view: no statement of the package writes `Chain.chainID` (it is set by
the composite literal of `NewChain` only) -/
theorem C20_alias_chain_id_never_written :
    Gen.Alias.fieldWrites.filter (fun w => w.1 == "Chain.chainID") = [] := by
  decide +kernel

/-! ## (A) generic theorem -/

/-- **Fresh results never race.** Goroutine `k` runs `ps[k]`. Every access of every goroutine is either
to a region it owns (`own x = some k`: the memory of a result that was allocated for it — class `fresh`)
or obeys the lockset discipline of the guard assignment `g` (reads under the guard, writes under the
guard held exclusively). Then in no reachable state two distinct goroutines are about to perform
conflicting accesses: in particular no access to a handed-out result after the unlock conflicts with an
access made under the lock. -/
theorem C20_alias_fresh_results_race_free (g : List (String × String)) (own : Owner) (ps : List Path)
    (h : ∀ (k : Nat) (p : Path), ps[k]? = some p → pathLsOwned g own k p = true)
    (s : State) (hr : Reachable (initState ps) s) (i j : Nat) : raceAt s i j = false :=
  race_free_owned g own ps h s hr i j

/-- with no owned regions the criterion is the lockset criterion (4) of `Model/Locks.lean` -/
theorem C20_alias_owned_criterion_extends_lockset (g : List (String × String)) (k : Nat) (o : Obs) :
    obsLsOwned g (fun _ => none) k o = obsLockset g o := by
  obtain ⟨h, a⟩ := o
  cases a <;> rfl

/-! ## (C) the view class -/

namespace C20.Alias

def guards : List (String × String) := [("Pool.nonGossiped", "Pool.mutex"), ("Pool.gossiped", "Pool.mutex")]

/-- a selector whose `Select` returned a VIEW of the pool's array: after the unlock it reads the array -/
def selectorView : Path :=
  [.acq "Pool.mutex", .write "Pool.nonGossiped", .read "Pool.nonGossiped", .rel "Pool.mutex",
   .read "Pool.nonGossiped"]

/-- a selector whose `Select` returned a FRESH slice: it is filled under the lock and read afterwards -/
def selectorFresh : Path :=
  [.acq "Pool.mutex", .write "Pool.nonGossiped", .read "Pool.nonGossiped", .write "result#0",
   .rel "Pool.mutex", .read "result#0"]

/-- the next `Select` (another goroutine, or the next gossip round): sorts the array in place -/
def nextSelect : Path :=
  [.acq "Pool.mutex", .write "Pool.nonGossiped", .rel "Pool.mutex"]

def ownFresh : Owner := fun x => if x == "result#0" then some 0 else none

end C20.Alias

open C20.Alias in
/-- **Counterexample (view).** The owner of a view and the next `Select`: after the schedule below the
owner is about to read the array outside of the lock while the other goroutine, holding the lock, is about
to write it — a data race; and the view path violates the criterion whoever owns what. -/
theorem C20_alias_view_result_races :
    (∃ st, run (initState [selectorView, nextSelect]) [0, 0, 0, 0, 0, 1, 1] = some st ∧ raceAt st 0 1 = true) ∧
    pathLsOwned guards (fun _ => none) 0 selectorView = false := by
  refine ⟨⟨_, rfl, ?_⟩, ?_⟩ <;> decide

open C20.Alias in
/-- the same program with a fresh result satisfies the hypotheses of the generic theorem (non-vacuity),
so no schedule of it has a race -/
theorem C20_alias_fresh_result_program_ok :
    (∀ (k : Nat) (p : Path), [selectorFresh, nextSelect][k]? = some p → pathLsOwned guards ownFresh k p = true) ∧
    ∀ st, Reachable (initState [selectorFresh, nextSelect]) st → ∀ i j, raceAt st i j = false := by
  have h : ∀ (k : Nat) (p : Path), [selectorFresh, nextSelect][k]? = some p →
      pathLsOwned guards ownFresh k p = true := by
    intro k p hk
    match k, hk with
    | 0, hk => simp only [List.getElem?_cons_zero, Option.some.injEq] at hk; subst hk; decide
    | 1, hk => simp only [List.getElem?_cons_succ, List.getElem?_cons_zero, Option.some.injEq] at hk; subst hk; decide
    | (n + 2), hk => simp at hk
  exact ⟨h, fun st hr i j => C20_alias_fresh_results_race_free guards ownFresh _ h st hr i j⟩

/-! ## non-vacuity -/

/-- the generic theorem is not vacuous: a state of the fresh-result program reached by a real
interleaving in which the owner reads its result while the other goroutine writes the pool under the lock -/
example : ∃ st, Reachable (initState [C20.Alias.selectorFresh, C20.Alias.nextSelect]) st ∧
    st[0]?.map (·.prog) = some [.read "result#0"] ∧
    st[1]?.map (·.prog) = some [.write "Pool.nonGossiped", .rel "Pool.mutex"] :=
  ⟨_, ⟨[0, 0, 0, 0, 0, 0, 1, 1], rfl⟩, by decide⟩

/-- the table is not empty and contains the pool's selection -/
example : (Gen.Alias.table.filter (fun r => r.name == "Pool.Select")).length = 1 := by decide +kernel

/-- `rowOk` rejects a view: the row aliasgen produces for a `Select` that returns a prefix of the pool's
array -/
example : C20.Alias.rowOk ⟨"Pool.Select", 0, "certificate.SingleCommits", true, true, .view, .fresh,
    "nonGossiped via SingleCommits.GetUntil"⟩ = false := by decide
