/-
C15 (clause "generated blocks are valid") — composition of the generator model with the block
verification model, and the no-self-contradiction clause at full strength.

The two models use different state records: the generator model (`Model/Generator.lean`, part 2)
works on `GState` (tip height, chain maxHeightPrevoted, generator database), the verification model
(`Model/Verify.lean`, C03) on `Node` (tip, consensus store `BFT.State`, configuration with the
verifier's clock).  `C15gstate` is the explicit correspondence; `C15forge` assembles the block the
way `Generator.forge` / `initBlockHeader` / `sealBlock` do, from
  * the header the generator model prepares (`Generator.mkHeader`: height, generator address,
    maxHeightGenerated from the generator database, maxHeightPrevoted of the node),
  * the payload the generator model selects (`Generator.select`),
  * what `forge` reads from its environment (`C15Forge`: the two clock reads, the enabled keys,
    the result of `GetAggregateCommit`, the pool, the application's verdicts, the size limit) and
  * the facts the verifier will establish when it replays the block (`C15Replay`: the answers of the
    application behind the ABI, root / static-validity facts),
and aborts where `forge` returns without a block.  No model is changed.

Main results
* `C15_forged_accept_iff`      the forged block is accepted by `Block.Validate` + `processValidated` of
                               the SAME node state iff the environment conditions `C15EnvOK` hold —
                               every condition is therefore necessary (given the others) and together
                               they are sufficient; header rules that need no condition (version,
                               height, previousBlockID, maxHeightPrevoted, signature length, the vote
                               update and `getABIConsensus` succeeding, `validatorsHash`, admissibility
                               of a validator change) hold by construction;
* `C15_verifier_contradiction_rule`  the verifier's contradiction rule in terms of the C07 specification;
* `C15_forged_block_accepted`  sufficiency from natural hypotheses `C15Healthy` (clock in the slot,
                               registered key, deterministic application, limits agree) + generator
                               database covers the own blocks of the BFT window;
* `C15_own_blocks_covered`     the database hypothesis follows from the generator model for EVERY
                               history of forge / delete / switch / restart / crash (fixed rule);
* `C15_chain_invariant_preserved` / `_reachable` / `_genesis` / `_window_on_chain`
                               the chain hypotheses hold in every node state reached by accepted blocks;
* `C15_forged_block_accepted_after_history`  the three composed;
* `C15_accepted_commit_valid`, `C15_aggregate_commit_from_pool_valid`, `C15_healthy_aggregate_commit_of_pool`
                               the aggregate-commit hypothesis follows from C06 (`GetAggregateCommit` of a
                               pool satisfying the pool invariant), through the view `C15CertView`;
* `C15_correspondence_commutes`  `C15gstate` commutes with `forge v applied` / `processValidated`;
* `C15_forged_block_accepted_with_validator_change`  … also when the application answers
                               `AfterTransactionsExecute` with a validator / threshold change
                               (`C15forge` models the generator after
                               /verif/fixes/C15-generator-validator-update.patch: the update is applied
                               to the dry-run store before `sealBlock` hashes the parameters of height+1);
* `C15forgeOrig`, `C15_cx_validator_change_rejected`, `C15_forge_orig_eq_of_no_change`
                               the ORIGINAL generator dropped the update: its block is rejected by the own
                               node (`validatorsHash`; confirmed on the real generator + verifier); without
                               an update both versions forge the same block;
* `C15_cx_*`                   concrete counterexamples: each environment hypothesis dropped gives a
                               forged block the node rejects;
* `C15_contradiction_iff` / `C15_no_self_contradiction_pairwise` / `C15_contradiction_only_on_worse_tip` /
  `C15_reforge_same_tip_contradicts`
                               no-self-contradiction without the global hypothesis of
                               `C15_no_self_contradiction` (per pair, exact, and its necessity).
-/
import LiskVerif.Props.C03
import LiskVerif.Props.C06_EndToEnd
import LiskVerif.Props.C02_Inv
import LiskVerif.Props.C15
import LiskVerif.Lemmas.GeneratorAccept

open LiskVerif LiskVerif.Verify LiskVerif.Generator LiskVerif.GenAccept

/-! ## the correspondence and the assembly of the block -/

/-- the generator model's view of a node of the verification model whose generator database is `db` -/
def C15gstate (n : Node) (db : List (Nat × Info)) : GState :=
  { height := n.tipHeight, mhp := n.bft.mhp, infos := db }

/-- what `Generator.forge` reads from its environment -/
structure C15Forge where
  /-- validators (indices of the generator model) whose keys are enabled on this node -/
  enabled : List Nat
  /-- the generator database (`GeneratorInfo` per validator) -/
  db : List (Nat × Info)
  /-- `time.Now()` read by `forge` (used by `shouldForge` and `Generators.AtTimestamp`) -/
  clockSlot : Nat
  /-- `time.Now()` read again by `initBlockHeader` (the header timestamp) -/
  clockHeader : Nat
  /-- result of `consensus.GetAggregateCommit()` (`none` = error), with the fact about its signature -/
  ac : Option AC
  /-- `pool.GetProcessable()` -/
  pool : List Tx
  /-- verdict of VerifyTransaction + ExecuteTransaction during generation -/
  ok : List Tx → Tx → Bool
  /-- what `selectTransactionsByFee` + `limitTransactionsWithSize` returned (see `C15Selection`) -/
  selected : List Tx
  /-- `Genesis.MaxTransactionsSize` as the generator reads it -/
  maxSize : Nat
  /-- ideal signature: public key belonging to the enabled private key of a validator -/
  signerKey : Nat → Bytes
  /-- ideal signature: generator key registered on chain for an address -/
  registeredKey : Bytes → Bytes

/-- what the verifier finds when it replays the block: answers of the application behind the ABI and
facts about pure functions (roots, static validity), as in `Verify.Cand` -/
structure C15Replay where
  id : Bytes
  /-- `Transaction.Validate` -/
  txStatic : Tx → Bool
  /-- verdicts of VerifyTransaction / ExecuteTransaction for a transaction replayed after a prefix -/
  verdict : List Tx → Tx → TxV × TxV
  abiInit : Bool := true
  abiVerifyAssets : Bool := true
  abiBefore : Bool := true
  abiAfter : Bool := true
  assets : AssetsV := .ok
  txRootOK : Bool := true
  assetRootOK : Bool := true
  eventRootOK : Bool := true
  commitOK : Bool := true
  nEvents : Nat := 0
  /-- the parameter update `AfterTransactionsExecute` answers with — during generation and on replay
  (the original generator ignored it: `C15forgeOrig`) -/
  change : Option Change := none

/-- the validator `forge` generates for: the generator of the slot of `clockSlot` at height tip+1,
if its key is enabled (`none`: `forge` returns without a block) -/
def C15slotValidator (addr : Nat → Bytes) (n : Node) (f : C15Forge) : Option Nat :=
  match BFT.getKeys n.bft (n.tipHeight + 1) with
  | none => none
  | some gens =>
    match generatorAt n.cfg gens f.clockSlot with
    | none => none
    | some g => f.enabled.find? (fun v => addr v = g)

/-- the block of validator `v` before `validatorsHash` is known: header fields of `initBlockHeader`
(through `Generator.mkHeader`), the selected payload, Ed25519 signature (64 bytes) by the
enabled key -/
def C15sealed (addr : Nat → Bytes) (n : Node) (f : C15Forge) (r : C15Replay) (v : Nat) (ac : AC) : Cand :=
  let h := mkHeader addr (C15gstate n f.db) v
  let txs := f.selected
  { version := 2, height := h.height, timestamp := f.clockHeader, prevID := n.tipID,
    gen := h.generatorAddress, id := r.id, mhp := h.maxHeightPrevoted, mhg := h.maxHeightGenerated,
    ac := ac, sigLen := 64, sigOK := decide (f.signerKey v = f.registeredKey (addr v)),
    txStatic := txs.map r.txStatic, txRootOK := r.txRootOK, assets := r.assets,
    assetRootOK := r.assetRootOK, payloadSize := (txs.map (·.size)).sum,
    abiInit := r.abiInit, abiVerifyAssets := r.abiVerifyAssets, abiBefore := r.abiBefore,
    abiAfter := r.abiAfter, txs := replayTxs r.verdict [] txs, change := r.change, vhOK := true,
    nEvents := r.nEvents, eventRootOK := r.eventRootOK, commitOK := r.commitOK }

/-- the fact "validatorsHash matches": `sealBlock` hashes (`vh`) the parameters `p` it finds for
height+1 in its dry-run store; the verifier compares with the parameters of height+1 after applying
the application's parameter update `change` to the store `s1` (vote update applied) -/
def C15vhOK (vh : BFT.Params → Bytes) (s1 : BFT.State) (change : Option Change) (height : Nat)
    (p : BFT.Params) : Bool :=
  match applyChange s1 change with
  | none => true
  | some s2 =>
    match BFT.getParams s2 (height + 1) with
    | none => true
    | some p2 => decide (vh p2 = vh p)

/-- the part of `Generator.forge` up to `abi.BeforeTransactionsExecute`: validator, aggregate
commit, the block before `validatorsHash` is known, and the dry-run consensus store after the vote
update (`none` where the Go function returns without a block) -/
def C15prepare (addr : Nat → Bytes) (n : Node) (f : C15Forge) (r : C15Replay) :
    Option (Nat × AC × BFT.State) :=
  match C15slotValidator addr n f with
  | none => none
  | some v =>
    match f.ac with
    | none => none                                   -- GetAggregateCommit failed
    | some ac =>
      let b := C15sealed addr n f r v ac
      match storeAfterBFT n b with
      | none => none                                 -- BFTBeforeTransactionsExecute failed
      | some s1 => if consensusInfoOK s1 b then some (v, ac, s1) else none   -- getABIConsensus failed

/-- `Generator.forge` on node `n` (`none` where the Go function returns without a block), with
/verif/fixes/C15-generator-validator-update.patch: `AfterTransactionsExecute` applies the
application's parameter update to the dry-run store (`SetBFTParameters` + `SetGeneratorKeys`, as the
block execution does), and `sealBlock` hashes the parameters of height+1 it finds THERE. -/
def C15forge (addr : Nat → Bytes) (vh : BFT.Params → Bytes) (n : Node) (f : C15Forge) (r : C15Replay) :
    Option Cand :=
  match C15prepare addr n f r with
  | none => none
  | some (v, ac, s1) =>
    let b := C15sealed addr n f r v ac
    match applyChange s1 r.change with
    | none => none                                   -- AfterTransactionsExecute: SetBFTParameters failed
    | some s2 =>
      match BFT.getParams s2 (b.height + 1) with
      | none => none                                 -- sealBlock: GetBFTParameters(height+1) failed
      | some p => some { b with vhOK := C15vhOK vh s1 r.change b.height p }

/-- the ORIGINAL code (before the patch): the generator drops the parameter update of
`AfterTransactionsExecute`; `sealBlock` hashes the parameters of height+1 WITHOUT it -/
def C15forgeOrig (addr : Nat → Bytes) (vh : BFT.Params → Bytes) (n : Node) (f : C15Forge) (r : C15Replay) :
    Option Cand :=
  match C15prepare addr n f r with
  | none => none
  | some (v, ac, s1) =>
    let b := C15sealed addr n f r v ac
    match BFT.getParams s1 (b.height + 1) with
    | none => none
    | some p => some { b with vhOK := C15vhOK vh s1 r.change b.height p }

/-- a block info of the BFT window as a header of the contradiction check -/
def C15infoHdr (b : BFT.BlockInfo) : Hdr :=
  { height := b.height, generatorAddress := b.gen, maxHeightGenerated := b.mhg, maxHeightPrevoted := b.mhp }

/-! ## the exact environment conditions -/

/-- The conditions on the environment under which the block forged for validator `v` is accepted.
Nothing is required for: version, height, previousBlockID, maxHeightPrevoted, signature length,
success of the vote update and of `getABIConsensus`, admissibility of a validator / threshold change
answered by the application and `validatorsHash` (they hold by construction). -/
structure C15EnvOK (addr : Nat → Bytes) (n : Node) (f : C15Forge) (r : C15Replay) (v : Nat) (b : Cand) : Prop where
  /-- ids are 32 bytes, addresses 20 bytes -/
  idLengths : n.tipID.length = 32 ∧ (addr v).length = 20
  /-- the header timestamp lies in a later slot than the tip … -/
  slotLater : slotOf n.cfg n.tipTimestamp < slotOf n.cfg f.clockHeader
  /-- … and not in a slot after the one of the verifier's clock -/
  notFuture : slotOf n.cfg f.clockHeader ≤ slotOf n.cfg n.cfg.now
  /-- the second clock read selects the same generator as the first -/
  sameGenerator : ∀ gens, BFT.getKeys n.bft (n.tipHeight + 1) = some gens →
    generatorAt n.cfg gens f.clockHeader = generatorAt n.cfg gens f.clockSlot
  /-- the enabled key is the registered generator key of the address -/
  keyRegistered : f.signerKey v = f.registeredKey (addr v)
  /-- the validator's most recent block in the BFT window and the new header are legitimate
  successors one way or the other -/
  noContradiction : ∀ b0, n.bft.infos.find? (·.gen = addr v) = some b0 →
    C07LegitSucc (C15infoHdr b0) (mkHeader addr (C15gstate n f.db) v) ∨
    C07LegitSucc (mkHeader addr (C15gstate n f.db) v) (C15infoHdr b0)
  /-- what `GetAggregateCommit` returned is a valid aggregate commit for this node -/
  aggregateCommit : ∀ a, f.ac = some a → ACValid n.cfg.acBound n a
  /-- the selected payload fits the limit the verifier applies -/
  payloadSize : (f.selected.map (·.size)).sum ≤ n.cfg.maxTxLen
  /-- the selected transactions are statically valid -/
  static : ∀ t ∈ f.selected, r.txStatic t = true
  /-- replayed by the verifier, every selected transaction is verified Ok and executes without
  error / Invalid -/
  replay : ∀ p ∈ replayTxs r.verdict [] f.selected,
    p.1 = TxV.ok ∧ p.2 ≠ TxV.error ∧ p.2 ≠ TxV.invalid
  /-- the application answers the block-level calls, roots and state root are reproduced -/
  application : r.abiInit = true ∧ r.abiVerifyAssets = true ∧ r.abiBefore = true ∧ r.abiAfter = true ∧
    r.assets = AssetsV.ok ∧ r.txRootOK = true ∧ r.assetRootOK = true ∧ r.eventRootOK = true ∧
    r.commitOK = true ∧ r.nEvents ≤ maxEventsPerBlock

/-! ## unpacking `C15forge` -/

theorem C15_slotValidator_some {addr : Nat → Bytes} {n : Node} {f : C15Forge} {v : Nat}
    (h : C15slotValidator addr n f = some v) :
    ∃ gens, BFT.getKeys n.bft (n.tipHeight + 1) = some gens ∧
      generatorAt n.cfg gens f.clockSlot = some (addr v) ∧ v ∈ f.enabled := by
  unfold C15slotValidator at h
  split at h
  · cases h
  · rename_i gens hk
    split at h
    · cases h
    · rename_i g hg
      have h1 := List.find?_some h
      have h2 := List.mem_of_find?_eq_some h
      simp only [decide_eq_true_eq] at h1
      exact ⟨gens, hk, by rw [hg, h1], h2⟩

theorem C15_prepare_some {addr : Nat → Bytes} {n : Node} {f : C15Forge} {r : C15Replay} {v : Nat} {ac : AC}
    {s1 : BFT.State} (h : C15prepare addr n f r = some (v, ac, s1)) :
    C15slotValidator addr n f = some v ∧ f.ac = some ac ∧
      storeAfterBFT n (C15sealed addr n f r v ac) = some s1 ∧
      consensusInfoOK s1 (C15sealed addr n f r v ac) = true := by
  unfold C15prepare at h
  split at h
  · cases h
  · rename_i v' hv
    split at h
    · cases h
    · rename_i ac' hac
      simp only at h
      split at h
      · cases h
      · rename_i s1' hs1
        split at h
        · rename_i hinfo
          simp only [Option.some.injEq, Prod.mk.injEq] at h
          obtain ⟨rfl, rfl, rfl⟩ := h
          exact ⟨hv, hac, hs1, hinfo⟩
        · cases h

theorem C15_forge_some {addr : Nat → Bytes} {vh : BFT.Params → Bytes} {n : Node} {f : C15Forge}
    {r : C15Replay} {b : Cand} (h : C15forge addr vh n f r = some b) :
    ∃ v ac s1 s2 p, C15slotValidator addr n f = some v ∧ f.ac = some ac ∧
      storeAfterBFT n (C15sealed addr n f r v ac) = some s1 ∧
      consensusInfoOK s1 (C15sealed addr n f r v ac) = true ∧
      applyChange s1 r.change = some s2 ∧
      BFT.getParams s2 (n.tipHeight + 1 + 1) = some p ∧
      b = { C15sealed addr n f r v ac with vhOK := C15vhOK vh s1 r.change (n.tipHeight + 1) p } := by
  unfold C15forge at h
  split at h
  · cases h
  · rename_i v ac s1 hprep
    obtain ⟨hv, hac, hs1, hinfo⟩ := C15_prepare_some hprep
    simp only at h
    split at h
    · cases h
    · rename_i s2 hs2
      split at h
      · cases h
      · rename_i p hp
        simp only [Option.some.injEq] at h
        exact ⟨v, ac, s1, s2, p, hv, hac, hs1, hinfo, hs2, hp, h.symm⟩

/-- the validator a forged block was generated for -/
theorem C15_forge_validator {addr : Nat → Bytes} {vh : BFT.Params → Bytes} {n : Node} {f : C15Forge}
    {r : C15Replay} {b : Cand} (h : C15forge addr vh n f r = some b) :
    ∃ v, C15slotValidator addr n f = some v ∧ b.gen = addr v := by
  obtain ⟨v, ac, s1, s2, p, hv, _, _, _, _, _, hb⟩ := C15_forge_some h
  exact ⟨v, hv, by rw [hb]; rfl⟩

/-! ## the contradiction rule of the verifier in terms of the LIP-0014 specification (C07) -/

/-- the header of a candidate block as the contradiction check sees it -/
def C15candHdr (b : Cand) : Hdr :=
  { height := b.height, generatorAddress := b.gen, maxHeightGenerated := b.mhg, maxHeightPrevoted := b.mhp }

/-- `IsHeaderContradictingChain` does not fire iff the generator has no block in the BFT window, or
its most recent one and the new header are legitimate successors one way or the other. -/
theorem C15_verifier_contradiction_rule (s : BFT.State) (b : Cand) :
    isContradicting s b = false ↔
      ∀ b0, s.infos.find? (·.gen = b.gen) = some b0 →
        C07LegitSucc (C15infoHdr b0) (C15candHdr b) ∨ C07LegitSucc (C15candHdr b) (C15infoHdr b0) := by
  unfold isContradicting BFT.contradicting
  have hg : (hdrOf b).gen = b.gen := rfl
  rw [hg]
  cases hf : s.infos.find? (·.gen = b.gen) with
  | none => simp
  | some b0 =>
    have hgen : (C15infoHdr b0).generatorAddress = (C15candHdr b).generatorAddress := by
      have := List.find?_some hf
      simp only [decide_eq_true_eq] at this
      exact this
    have := C07_spec (C15infoHdr b0) (C15candHdr b) hgen
    simp only [Option.some.injEq, forall_eq']
    exact this

/-! ## accepted iff the environment conditions hold -/

private theorem change_ok (vh : BFT.Params → Bytes) (n : Node) (b : Cand) (s1 s2 : BFT.State) (p : BFT.Params)
    (hs : storeAfterBFT n b = some s1) (hc : applyChange s1 b.change = some s2)
    (hp : BFT.getParams s2 (b.height + 1) = some p) :
    changeOK n b = true ∧ nextParamsOK n b = true ∧ C15vhOK vh s1 b.change b.height p = true := by
  refine ⟨?_, ?_, ?_⟩
  · unfold changeOK; rw [hs]; simp only; rw [hc]; rfl
  · unfold nextParamsOK storeAfterExec; rw [hs]; simp only; rw [hc]; simp only; rw [hp]; rfl
  · unfold C15vhOK; rw [hc]; simp only; rw [hp]; simp

/-- **Generated blocks are valid — exact form.**  The block `forge` produces for validator `v` on node
`n` is accepted by `Block.Validate` + `processValidated` of the same node (same consensus store, the
verifier's clock `n.cfg.now`) if and only if the environment conditions `C15EnvOK` hold. -/
theorem C15_forged_accept_iff (addr : Nat → Bytes) (vh : BFT.Params → Bytes) (n : Node) (f : C15Forge)
    (r : C15Replay) (v : Nat) (b : Cand) (hv : C15slotValidator addr n f = some v)
    (hb : C15forge addr vh n f r = some b) : accepts n b ↔ C15EnvOK addr n f r v b := by
  obtain ⟨v', ac, s1, s2, p, hv', hac, hs1, hinfo, hs2, hp, hbeq⟩ := C15_forge_some hb
  rw [hv] at hv'
  cases hv'
  obtain ⟨gens, hkeys, hgen, _⟩ := C15_slotValidator_some hv
  rw [accepts_iff]
  have hheight : b.height = n.tipHeight + 1 := by rw [hbeq]; rfl
  have hprev : b.prevID = n.tipID := by rw [hbeq]; rfl
  have hts : b.timestamp = f.clockHeader := by rw [hbeq]; rfl
  have hgenb : b.gen = addr v := by rw [hbeq]; rfl
  have hsigOK : b.sigOK = decide (f.signerKey v = f.registeredKey (addr v)) := by rw [hbeq]; rfl
  have hacb : b.ac = ac := by rw [hbeq]; rfl
  have hstatic : b.txStatic = f.selected.map r.txStatic := by rw [hbeq]; rfl
  have htxs : b.txs = replayTxs r.verdict [] f.selected := by rw [hbeq]; rfl
  have hpay : b.payloadSize = (f.selected.map (·.size)).sum := by rw [hbeq]; rfl
  have hchange : b.change = r.change := by rw [hbeq]; rfl
  have hvh : b.vhOK = C15vhOK vh s1 r.change (n.tipHeight + 1) p := by rw [hbeq]
  have hhdr : C15candHdr b = mkHeader addr (C15gstate n f.db) v := by rw [hbeq]; rfl
  have hstore : storeAfterBFT n b = some s1 := by rw [hbeq]; exact hs1
  have hinfo' : infoOKAfterBFT n b = true := by
    unfold infoOKAfterBFT; rw [hstore]; rw [hbeq]; exact hinfo
  constructor
  · intro hS
    refine
      { idLengths := ⟨by have := hS.lengths.1; rwa [hprev] at this, by have := hS.lengths.2.1; rwa [hgenb] at this⟩
        slotLater := by have := hS.slotLater; rwa [hts] at this
        notFuture := by have := hS.notFuture; rwa [hts] at this
        sameGenerator := ?_
        keyRegistered := by have := hS.signature; rw [hsigOK] at this; exact of_decide_eq_true this
        noContradiction := ?_
        aggregateCommit := ?_
        payloadSize := by have := hS.payloadSize; rwa [hpay] at this
        static := ?_
        replay := ?_
        application := ?_ }
    · intro gens' hk'
      rw [hkeys] at hk'
      cases hk'
      have := hS.generator
      unfold slotGenerator at this
      rw [hheight, hkeys] at this
      simp only at this
      rw [hts, hgenb] at this
      rw [this, hgen]
    · have := (C15_verifier_contradiction_rule n.bft b).mp hS.notContradicting
      rw [hhdr, hgenb] at this
      exact this
    · intro a ha
      rw [hac] at ha
      cases ha
      have := hS.aggregateCommit
      rwa [hacb] at this
    · intro t ht
      exact hS.transactionsStatic (r.txStatic t) (by rw [hstatic]; exact List.mem_map.mpr ⟨t, ht, rfl⟩)
    · intro q hq
      exact hS.executes.2.2.2.2.1 q (by rw [htxs]; exact hq)
    · obtain ⟨e1, e2, e3, e4, _, _, _, _, _, e10⟩ := hS.executes
      have h1 : b.abiInit = r.abiInit := by rw [hbeq]; rfl
      have h2 : b.abiVerifyAssets = r.abiVerifyAssets := by rw [hbeq]; rfl
      have h3 : b.abiBefore = r.abiBefore := by rw [hbeq]; rfl
      have h4 : b.abiAfter = r.abiAfter := by rw [hbeq]; rfl
      have h5 : b.assets = r.assets := by rw [hbeq]; rfl
      have h6 : b.txRootOK = r.txRootOK := by rw [hbeq]; rfl
      have h7 : b.assetRootOK = r.assetRootOK := by rw [hbeq]; rfl
      have h8 : b.eventRootOK = r.eventRootOK := by rw [hbeq]; rfl
      have h9 : b.commitOK = r.commitOK := by rw [hbeq]; rfl
      have h10 : b.nEvents = r.nEvents := by rw [hbeq]; rfl
      exact ⟨h1 ▸ e1, h2 ▸ e2, h3 ▸ e3, h4 ▸ e4, h5 ▸ hS.assets, h6 ▸ hS.transactionRoot, h7 ▸ hS.assetRoot,
        h8 ▸ hS.eventRoot, h9 ▸ hS.stateRoot, h10 ▸ e10⟩
  · intro hE
    obtain ⟨a1, a2, a3, a4, a5, a6, a7, a8, a9, a10⟩ := hE.application
    have hpc : changeOK n b = true ∧ nextParamsOK n b = true ∧ b.vhOK = true := by
      have := change_ok vh n b s1 s2 p hstore (by rw [hchange]; exact hs2) (by rw [hheight]; exact hp)
      refine ⟨this.1, this.2.1, ?_⟩
      rw [hvh, ← hchange, ← hheight]
      exact this.2.2
    refine
      { version := by rw [hbeq]; rfl
        height := hheight
        link := hprev
        lengths := ⟨by rw [hprev]; exact hE.idLengths.1, by rw [hgenb]; exact hE.idLengths.2, by rw [hbeq]; rfl⟩
        stateRootLength := by rw [hbeq]; rfl
        slotLater := by rw [hts]; exact hE.slotLater
        notFuture := by rw [hts]; exact hE.notFuture
        generator := ?_
        signature := by rw [hsigOK]; exact decide_eq_true hE.keyRegistered
        maxHeightPrevoted := by rw [hbeq]; rfl
        notContradicting := ?_
        aggregateCommit := by rw [hacb]; exact hE.aggregateCommit ac hac
        transactionRoot := by rw [hbeq]; exact a6
        assets := by rw [hbeq]; exact a5
        assetRoot := by rw [hbeq]; exact a7
        eventRoot := by rw [hbeq]; exact a8
        validatorsHash := hpc.2.2
        stateRoot := by rw [hbeq]; exact a9
        transactionsStatic := ?_
        payloadSize := by rw [hpay]; exact hE.payloadSize
        executes := ?_ }
    · unfold slotGenerator
      rw [hheight, hkeys]
      simp only
      rw [hts, hgenb, hE.sameGenerator gens hkeys, hgen]
    · apply (C15_verifier_contradiction_rule n.bft b).mpr
      rw [hhdr, hgenb]
      exact hE.noContradiction
    · intro x hx
      rw [hstatic] at hx
      obtain ⟨t, ht, rfl⟩ := List.mem_map.mp hx
      exact hE.static t ht
    · refine ⟨by rw [hbeq]; exact a1, by rw [hbeq]; exact a2, by rw [hbeq]; exact a3, by rw [hbeq]; exact a4,
        ?_, by rw [hstore]; rfl, hinfo', hpc.1, hpc.2.1, by rw [hbeq]; exact a10⟩
      intro q hq
      rw [htxs] at hq
      exact hE.replay q hq

/-! ## sufficiency from natural hypotheses -/

/-- The payload is a result of the selection loop of the generator model: the deterministic
function `Generator.select` (any pool), or — for a pool without duplicate entries — ANY possible
result `Generator.Run` of the heap-driven loop, whatever tie-break `heap.Pop` makes. -/
def C15Selection (f : C15Forge) : Prop :=
  f.selected = select f.ok f.maxSize f.pool ∨
  (f.pool.Nodup ∧ ∃ evs, Run f.ok f.maxSize (initGroups f.pool) 0 [] f.selected evs)

/-- what acceptance needs from the selection: the size bound, every pick was answered "ok" in the
state after the picks before it, and only pool transactions are picked -/
theorem C15_selection_facts (f : C15Forge) (h : C15Selection f) :
    (f.selected.map (·.size)).sum ≤ f.maxSize ∧ AllOk f.ok [] f.selected ∧ ∀ t ∈ f.selected, t ∈ f.pool := by
  rcases h with h | ⟨hnd, evs, hrun⟩
  · rw [h]
    exact ⟨select_size_le _ _ _, select_allOk _ _ _, select_subset _ _ _⟩
  · refine ⟨?_, run_allOk hrun, (C15_selection_from_pool _ _ _ _ _ hnd hrun).2⟩
    have := C15_selection_size_bound _ _ _ _ _ _ _ hrun (Nat.zero_le _)
    omega

/-- A healthy environment of one `forge` call (everything except the two hypotheses about the own
blocks in the BFT window, which are derived below from the generator model and from the chain
invariant). -/
structure C15Healthy (addr : Nat → Bytes) (n : Node) (f : C15Forge) (r : C15Replay) : Prop where
  /-- block ids are 32 bytes, the addresses of the enabled validators 20 bytes -/
  idLengths : n.tipID.length = 32 ∧ ∀ v ∈ f.enabled, (addr v).length = 20
  /-- the clock `forge` reads lies in a later slot than the tip (`shouldForge` tests `≠`; a clock that
  is not behind the tip's slot makes it `<`) -/
  clockAfterTip : slotOf n.cfg n.tipTimestamp < slotOf n.cfg f.clockSlot
  /-- the clock is still in that slot when `initBlockHeader` reads it again … -/
  sameSlot : slotOf n.cfg f.clockHeader = slotOf n.cfg f.clockSlot
  /-- … and the verifier's clock is not in an earlier slot -/
  verifierClock : slotOf n.cfg f.clockSlot ≤ slotOf n.cfg n.cfg.now
  /-- every enabled key is the generator key registered for its address -/
  keysRegistered : ∀ v ∈ f.enabled, f.signerKey v = f.registeredKey (addr v)
  /-- `GetAggregateCommit` returns a valid aggregate commit (C06; see
  `C15_aggregate_commit_from_pool_valid`) -/
  aggregateCommit : ∀ a, f.ac = some a → ACValid n.cfg.acBound n a
  /-- the payload is a result of the selection loop (any tie-break) -/
  selection : C15Selection f
  /-- generator and verifier use the same payload limit -/
  sizeLimit : f.maxSize ≤ n.cfg.maxTxLen
  /-- the pool only holds statically valid transactions -/
  poolStatic : ∀ t ∈ f.pool, r.txStatic t = true
  /-- the application is deterministic: what it accepted during generation it accepts on replay -/
  deterministic : ∀ acc t, f.ok acc t = true →
    (r.verdict acc t).1 = TxV.ok ∧ (r.verdict acc t).2 ≠ TxV.error ∧ (r.verdict acc t).2 ≠ TxV.invalid
  /-- the application answers the block-level calls; roots, events and state root are reproduced -/
  application : r.abiInit = true ∧ r.abiVerifyAssets = true ∧ r.abiBefore = true ∧ r.abiAfter = true ∧
    r.assets = AssetsV.ok ∧ r.txRootOK = true ∧ r.assetRootOK = true ∧ r.eventRootOK = true ∧
    r.commitOK = true ∧ r.nEvents ≤ maxEventsPerBlock

/-- **Generated blocks are valid.**  In a healthy environment, if the generator database covers the
validator's own blocks of the BFT window (`ownBlocks`: stored height ≥ their height and their
maxHeightGenerated) and the window lies on the node's chain (`chain`), every block `forge` produces is
accepted by the same node: all rules of `verifyBlock` / `Block.Validate` / `processValidated` hold. -/
theorem C15_forged_block_accepted (addr : Nat → Bytes) (vh : BFT.Params → Bytes) (n : Node) (f : C15Forge)
    (r : C15Replay) (b : Cand) (hh : C15Healthy addr n f r)
    (ownBlocks : ∀ v ∈ f.enabled, ∀ b0 ∈ n.bft.infos, b0.gen = addr v →
      b0.height ≤ (getInfo f.db v).height ∧ b0.mhg ≤ (getInfo f.db v).height)
    (chain : ∀ b0 ∈ n.bft.infos, b0.height ≤ n.tipHeight ∧ b0.mhp ≤ n.bft.mhp)
    (hb : C15forge addr vh n f r = some b) : accepts n b := by
  obtain ⟨v, hv, _⟩ := C15_forge_validator hb
  obtain ⟨gens, _, _, hen⟩ := C15_slotValidator_some hv
  obtain ⟨sel1, sel2, sel3⟩ := C15_selection_facts f hh.selection
  apply (C15_forged_accept_iff addr vh n f r v b hv hb).mpr
  refine
    { idLengths := ⟨hh.idLengths.1, hh.idLengths.2 v hen⟩
      slotLater := by rw [hh.sameSlot]; exact hh.clockAfterTip
      notFuture := by rw [hh.sameSlot]; exact hh.verifierClock
      sameGenerator := by intro gens _; unfold generatorAt; rw [hh.sameSlot]
      keyRegistered := hh.keysRegistered v hen
      noContradiction := ?_
      aggregateCommit := hh.aggregateCommit
      payloadSize := Nat.le_trans sel1 hh.sizeLimit
      static := fun t ht => hh.poolStatic t (sel3 t ht)
      replay := replayTxs_good f.ok r.verdict _ hh.deterministic _ _ sel2
      application := hh.application }
  intro b0 hf
  have hm := List.mem_of_find?_eq_some hf
  have hg := List.find?_some hf
  simp only [decide_eq_true_eq] at hg
  obtain ⟨o1, o2⟩ := ownBlocks v hen b0 hm hg
  obtain ⟨c1, c2⟩ := chain b0 hm
  left
  unfold C07LegitSucc
  simp only [C15infoHdr, mkHeader, C15gstate]
  omega

/-- **Generated blocks are valid — also when the application changes validators or thresholds.**
(Behaviour after /verif/fixes/C15-generator-validator-update.patch.)  In a healthy environment —
nothing is assumed about the parameter update `c` the application answers `AfterTransactionsExecute`
with — every block `forge` produces is accepted by the same node, and the node's consensus store
afterwards is the store after the vote update with `c` applied (`SetBFTParameters` +
`SetGeneratorKeys`): the `validatorsHash` the generator put into the header is the hash of the
parameters that are valid from the next height on.  (An inadmissible update makes
`AfterTransactionsExecute` fail in the generator: no block is produced.) -/
theorem C15_forged_block_accepted_with_validator_change (addr : Nat → Bytes) (vh : BFT.Params → Bytes)
    (n : Node) (f : C15Forge) (r : C15Replay) (b : Cand) (c : Change) (hc : r.change = some c)
    (hh : C15Healthy addr n f r)
    (ownBlocks : ∀ v ∈ f.enabled, ∀ b0 ∈ n.bft.infos, b0.gen = addr v →
      b0.height ≤ (getInfo f.db v).height ∧ b0.mhg ≤ (getInfo f.db v).height)
    (chain : ∀ b0 ∈ n.bft.infos, b0.height ≤ n.tipHeight ∧ b0.mhp ≤ n.bft.mhp)
    (hb : C15forge addr vh n f r = some b) :
    accepts n b ∧ b.change = some c ∧ b.vhOK = true ∧
    ∃ s1 s2, storeAfterBFT n b = some s1 ∧ applyChange s1 (some c) = some s2 ∧
      (applyBlock n b).1.bft = s2 := by
  have hacc := C15_forged_block_accepted addr vh n f r b hh ownBlocks chain hb
  obtain ⟨v, ac, s1, s2, p, _, _, hs1, _, hs2, _, hbeq⟩ := C15_forge_some hb
  have hchange : b.change = r.change := by rw [hbeq]; rfl
  have hstore : storeAfterBFT n b = some s1 := by rw [hbeq]; exact hs1
  obtain ⟨s2', hexec, hn'⟩ := C03_accept_effect n b hacc
  have hs2' : s2' = s2 := by
    unfold storeAfterExec at hexec
    rw [hstore, hchange] at hexec
    simp only at hexec
    rw [hs2] at hexec
    exact (Option.some.inj hexec).symm
  refine ⟨hacc, by rw [hchange, hc], ((accepts_iff n b).mp hacc).validatorsHash, s1, s2, hstore, ?_, ?_⟩
  · rw [← hc]; exact hs2
  · rw [← hs2']; exact hn'.2.2.2.1

/-- Where the application changes nothing, the original code and the patched code forge the same
block: everything proved about `C15forge` holds for the original generator on such inputs. -/
theorem C15_forge_orig_eq_of_no_change (addr : Nat → Bytes) (vh : BFT.Params → Bytes) (n : Node)
    (f : C15Forge) (r : C15Replay) (hc : r.change = none) :
    C15forgeOrig addr vh n f r = C15forge addr vh n f r := by
  unfold C15forgeOrig C15forge
  cases C15prepare addr n f r with
  | none => rfl
  | some x =>
    obtain ⟨v, ac, s1⟩ := x
    simp only [hc, applyChange]

/-! ### the generator database covers the own blocks: from the generator model, for every history -/

private def HistInv (st : GState) : Prop :=
  st.handedOn = st.persisted ∧
  ∀ v h, (v, h) ∈ st.persisted → h.maxHeightGenerated ≤ (getInfo st.infos v).height

private theorem histInv_step (addr : Nat → Bytes) (st : GState) (op : Op) (h : HistInv st) :
    HistInv (applyOp .fixed addr st op) := by
  have hmono := C15_stored_height_monotone addr st op
  cases op with
  | ext m => exact h
  | del k m => exact h
  | restart => exact h
  | forge w o m =>
    cases o with
    | crashedBeforeWrite => exact h
    | dropped =>
      refine ⟨by simp only [applyOp, h.1], ?_⟩
      intro v x hx
      simp only [applyOp, List.mem_append, List.mem_singleton, Prod.mk.injEq] at hx
      rcases hx with hx | ⟨rfl, rfl⟩
      · exact Nat.le_trans (h.2 v x hx) (hmono v)
      · exact hmono v
    | applied =>
      refine ⟨by simp only [applyOp, h.1], ?_⟩
      intro v x hx
      simp only [applyOp, List.mem_append, List.mem_singleton, Prod.mk.injEq] at hx
      rcases hx with hx | ⟨rfl, rfl⟩
      · exact Nat.le_trans (h.2 v x hx) (hmono v)
      · exact hmono v

private theorem histInv_run (addr : Nat → Bytes) (ops : List Op) (st : GState) (h : HistInv st) :
    HistInv (run .fixed addr st ops) := by
  induction ops generalizing st with
  | nil => exact h
  | cons op r ih => exact ih _ (histInv_step addr st op h)

/-- After ANY history of forge / delete / chain switch / restart / crash (fixed update rule), the
generator database covers every header of validator `v` that was handed to consensus: the stored
height is at least its height and at least the maxHeightGenerated it reported.  (So the hypothesis
`ownBlocks` of `C15_forged_block_accepted` holds whenever the validator's blocks in the BFT window
were generated from this database.) -/
theorem C15_own_blocks_covered (addr : Nat → Bytes) (ops : List Op) (v : Nat) (h : Hdr)
    (hh : (v, h) ∈ (run .fixed addr {} ops).handedOn) :
    h.height ≤ (getInfo (run .fixed addr {} ops).infos v).height ∧
    h.maxHeightGenerated ≤ (getInfo (run .fixed addr {} ops).infos v).height := by
  have hinv := histInv_run addr ops {} ⟨rfl, fun _ _ hx => by cases hx⟩
  refine ⟨(C15_persisted_before_handoff addr ops v h hh).1, hinv.2 v h ?_⟩
  rw [← hinv.1]
  exact hh

/-! ### the BFT window lies on the node's chain: an invariant of every reachable node state -/

/-- Chain invariant of a node: the BFT window is consecutive (C02), the finality heights are tied to
it (C02), its newest entry is the tip, before the first block the genesis heights are not above the
tip, and no block of the window reports a larger maxHeightPrevoted than the node has now. -/
def C15ChainInv (n : Node) : Prop :=
  C02WindowOk n.bft ∧ C02HeightsInv n.bft ∧
  (∀ t, n.bft.infos.head? = some t → t.height = n.tipHeight) ∧
  (n.bft.infos = [] → n.bft.mhp ≤ n.tipHeight ∧ n.bft.mhpc ≤ n.tipHeight) ∧
  (∀ b ∈ n.bft.infos, b.mhp ≤ n.bft.mhp)

/-- the invariant provides the hypothesis `chain` of `C15_forged_block_accepted` -/
theorem C15_chain_invariant_window_on_chain (n : Node) (h : C15ChainInv n) :
    ∀ b0 ∈ n.bft.infos, b0.height ≤ n.tipHeight ∧ b0.mhp ≤ n.bft.mhp := by
  obtain ⟨hw, _, hhead, _, hmhp⟩ := h
  intro b0 hb0
  refine ⟨?_, hmhp b0 hb0⟩
  have hs := C02_window_sorted n.bft hw
  cases hi : n.bft.infos with
  | nil => rw [hi] at hb0; cases hb0
  | cons t rest =>
    rw [hi] at hb0 hs
    have ht := hhead t (by rw [hi]; rfl)
    rcases List.mem_cons.mp hb0 with rfl | hb
    · omega
    · have := (List.pairwise_cons.mp hs).1 b0 hb
      omega

/-- a node before its first block (empty window, genesis heights not above the tip) satisfies it -/
theorem C15_chain_invariant_genesis (n : Node) (h0 : n.bft.infos = [])
    (h1 : n.bft.mhp ≤ n.tipHeight) (h2 : n.bft.mhpc ≤ n.tipHeight) : C15ChainInv n := by
  refine ⟨?_, ⟨⟨?_, Or.inl ?_⟩, ⟨?_, Or.inl ?_⟩⟩, ?_, fun _ => ⟨h1, h2⟩, ?_⟩
  · unfold C02WindowOk; rw [h0]; trivial
  all_goals (rw [h0]; intro b hb; cases hb)

private theorem applyChange_keeps {s1 s2 : BFT.State} {c : Option Change} (h : applyChange s1 c = some s2)
    (hw : C02WindowOk s1) (hi : C02HeightsInv s1) :
    s2.infos = s1.infos ∧ s2.mhp = s1.mhp ∧ C02WindowOk s2 ∧ C02HeightsInv s2 := by
  cases c with
  | none =>
    simp only [applyChange, Option.some.injEq] at h
    subst h
    exact ⟨rfl, rfl, hw, hi⟩
  | some c =>
    simp only [applyChange] at h
    split at h
    · cases h
    · rename_i s' hp
      simp only [Option.some.injEq] at h
      subst h
      obtain ⟨e1, hw'⟩ := C02_window_shape_setParams s1 _ _ _ s' hp
      obtain ⟨hi', e2, _⟩ := C02_heights_inv_setParams s1 _ _ _ s' hp hw hi
      exact ⟨e1, e2, hw' hw, hi'⟩

/-- An accepted block preserves the chain invariant. -/
theorem C15_chain_invariant_preserved (n : Node) (b : Cand) (hinv : C15ChainInv n) (hacc : accepts n b) :
    C15ChainInv (applyBlock n b).1 := by
  obtain ⟨hw, hi, hhead, hempty, hmhp⟩ := hinv
  obtain ⟨s2, hs2, hnode⟩ := applyBlock_accepted_node n b hacc
  have hS := (accepts_iff n b).mp hacc
  rw [hnode]
  unfold storeAfterExec storeAfterBFT at hs2
  cases hp : BFT.process n.bft (hdrOf b) with
  | error e => rw [hp] at hs2; cases hs2
  | ok s1 =>
    rw [hp] at hs2
    simp only at hs2
    have hh : (hdrOf b).height = n.tipHeight + 1 := hS.height
    have hnext : C02Next n.bft (hdrOf b) := by
      unfold C02Next
      split
      · rename_i h0
        have := hempty h0
        omega
      · rename_i t rest h0
        have := hhead t (by rw [h0]; rfl)
        omega
    have hheadcond : ∀ t, n.bft.infos.head? = some t → (hdrOf b).height = t.height + 1 := by
      intro t ht
      have := hhead t ht
      omega
    have hw1 := C02_window_shape n.bft (hdrOf b) s1 hp hw hheadcond
    have hi1 := C02_heights_inv_preserved n.bft (hdrOf b) s1 hp hw hnext hi
    have hmono := (C02_heights_monotone n.bft (hdrOf b) s1 hp hw hnext hi).1
    obtain ⟨hall, n0, hn0, hmeta⟩ := C02_weights_monotone n.bft (hdrOf b) s1 hp
    obtain ⟨e1, e2, hw2, hi2⟩ := applyChange_keeps hs2 hw1 hi1
    have hbm : (hdrOf b).mhp = n.bft.mhp := hS.maxHeightPrevoted
    refine ⟨hw2, hi2, ?_, ?_, ?_⟩
    · intro t ht
      show t.height = b.height
      have : s2.infos.head? = some t := ht
      rw [e1, hn0] at this
      cases this
      have := hmeta.1
      simp only [BFT.newInfo] at this
      rw [← this]
      rfl
    · intro h0
      have : s2.infos = [] := h0
      rw [e1] at this
      rw [this] at hn0
      cases hn0
    · intro x hx
      have hx' : x ∈ s1.infos := by
        have : x ∈ s2.infos := hx
        rwa [e1] at this
      show x.mhp ≤ s2.mhp
      rw [e2]
      cases hl : s1.infos with
      | nil => rw [hl] at hx'; cases hx'
      | cons y rest =>
        rw [hl] at hx' hn0 hall
        simp only [List.head?_cons, Option.some.injEq] at hn0
        subst hn0
        rcases List.mem_cons.mp hx' with rfl | hxr
        · have := hmeta.2.2.2
          simp only [BFT.newInfo] at this
          omega
        · obtain ⟨a, ha, hle⟩ := BFT.All2.mem_right hall x hxr
          have := hmhp a (List.mem_of_mem_take ha)
          have := hle.1.2.2.2
          omega

/-- The chain invariant holds in every node state reached from a node satisfying it by offering any
sequence of blocks (rejected blocks change nothing, C03). -/
theorem C15_chain_invariant_reachable (bs : List Cand) (n : Node) (hinv : C15ChainInv n) :
    C15ChainInv (runAll n bs) := by
  induction bs generalizing n with
  | nil => exact hinv
  | cons b rest ih =>
    simp only [runAll]
    apply ih
    cases hr : (applyBlock n b).2 with
    | some e => rw [applyBlock_rejected_node n b e hr]; exact hinv
    | none => exact C15_chain_invariant_preserved n b hinv hr

/-- **Generated blocks are valid — composed with the generator model and the chain invariant.**
Node `n` is reachable (chain invariant), its generator database is the one the generator model
produces after ANY history `ops` of forge / delete / switch / restart / crash, and the blocks of the
enabled validators in the BFT window were generated from this database (handed to consensus by this
generator — the key is not used elsewhere).  Then, in a healthy environment, every block `forge`
produces is accepted by the same node. -/
theorem C15_forged_block_accepted_after_history (addr : Nat → Bytes) (vh : BFT.Params → Bytes) (n : Node)
    (f : C15Forge) (r : C15Replay) (b : Cand) (ops : List Op) (hh : C15Healthy addr n f r)
    (hinv : C15ChainInv n) (hdb : f.db = (run .fixed addr {} ops).infos)
    (hown : ∀ v ∈ f.enabled, ∀ b0 ∈ n.bft.infos, b0.gen = addr v →
      ∃ h, (v, h) ∈ (run .fixed addr {} ops).handedOn ∧ h.height = b0.height ∧
        h.maxHeightGenerated = b0.mhg)
    (hb : C15forge addr vh n f r = some b) : accepts n b := by
  apply C15_forged_block_accepted addr vh n f r b hh ?_ (C15_chain_invariant_window_on_chain n hinv) hb
  intro v hv b0 hb0 hg
  obtain ⟨h, hmem, e1, e2⟩ := hown v hv b0 hb0 hg
  have := C15_own_blocks_covered addr ops v h hmem
  rw [hdb, ← e1, ← e2]
  exact this

/-! ### the aggregate commit: from the certificate model (C06) -/

/-- the facts the verification model needs about an aggregate commit of the certificate model
(`Model/Cert.lean`): byte lengths (only emptiness matters: number of bits, 96-byte BLS signature or
nothing) and whether the weighted aggregate signature check passes -/
def C15acFacts (st : Cert.State) (a : Cert.AggCommit) : AC :=
  { height := a.height
    bitsLen := a.bits.length
    sigLen := if a.sig.isSome then 96 else 0
    sigOK := match a.sig with
      | some sig => decide (Cert.verifyCertificate st a sig = Cert.Verdict.accept)
      | none => false }

/-- the chain state the certificate code reads (`Cert.State`) is a view of the node -/
structure C15CertView (n : Node) (st : Cert.State) : Prop where
  mhc : st.mhc = n.bft.mhc
  mhpc : st.mhpc = n.bft.mhpc
  /-- `GetBlockHeaderByHeight` finds blocks of the node's chain only: nothing above the tip -/
  blocks : ∀ h hd, st.blockAt h = some hd → h ≤ n.tipHeight
  /-- both views of the BFT parameter store have the same activation heights -/
  paramKeys : ∀ k, (∃ p, (k, p) ∈ st.params) ↔ (∃ p, (k, p) ∈ n.bft.params)

/-- An aggregate commit accepted by the certificate model's `verifyAggregateCommit` satisfies the
aggregate-commit rule of the verification model for the corresponding node. -/
theorem C15_accepted_commit_valid (n : Node) (st : Cert.State) (a : Cert.AggCommit)
    (hview : C15CertView n st) (hacc : Cert.verifyAggregateCommit st a = Cert.Verdict.accept) :
    ACValid n.cfg.acBound n (C15acFacts st a) := by
  cases he : a.isEmpty with
  | true =>
    left
    have hh := (C06_empty_commit_only_at_mhc st a hacc).mp he
    simp only [Cert.AggCommit.isEmpty, Bool.and_eq_true, List.isEmpty_iff, Option.isNone_iff_eq_none] at he
    refine ⟨?_, ?_, ?_⟩
    · simp [C15acFacts, he.1]
    · simp [C15acFacts, he.2]
    · show a.height = n.bft.mhc
      rw [hh, hview.mhc]
  | false =>
    right
    obtain ⟨h1, h2, h3, hd, p, _, _, hblock, hparams, _⟩ := C06_verify_sound st a hacc he
    -- the parts `C06_verify_sound` does not state: non-empty bitmap, the certificate check itself
    have hmore : ∃ sig, a.sig = some sig ∧ a.bits.isEmpty = false ∧
        Cert.verifyCertificate st a sig = Cert.Verdict.accept := by
      unfold Cert.verifyAggregateCommit at hacc
      split at hacc
      · rename_i h; rw [h.1] at he; cases he
      · split at hacc
        · cases hacc
        · rename_i sig hsig
          split at hacc
          · cases hacc
          · rename_i hb
            split at hacc
            · cases hacc
            · split at hacc
              · cases hacc
              · split at hacc
                · split at hacc
                  · cases hacc
                  · exact ⟨sig, hsig, by simpa using hb, hacc⟩
                · exact ⟨sig, hsig, by simpa using hb, hacc⟩
    obtain ⟨sig, hsig, hbits, hcert⟩ := hmore
    refine ⟨⟨?_, ?_⟩, ?_, ?_, ?_, ?_, ?_, ?_⟩
    · show a.bits.length ≠ 0
      cases hb : a.bits with
      | nil => rw [hb] at hbits; cases hbits
      | cons _ _ => simp
    · simp [C15acFacts, hsig]
    · show n.bft.mhc < a.height
      rw [← hview.mhc]; exact h1
    · show a.height ≤ n.bft.mhpc
      rw [← hview.mhpc]; exact h2
    · show nextBoundViolated n.cfg.acBound n.bft a.height = false
      unfold nextBoundViolated
      cases n.cfg.acBound with
      | false => rfl
      | true =>
        simp only [Bool.true_and]
        split
        · rename_i k hk
          obtain ⟨k1, k2⟩ := nextHeightParams_mem hk
          obtain ⟨⟨kk, pp⟩, hmem, hkk⟩ := List.mem_map.mp k2
          simp only at hkk
          subst hkk
          obtain ⟨p', hp'⟩ := (hview.paramKeys kk).mpr ⟨pp, hmem⟩
          have := h3 (kk, p') hp' (by simp only; rw [hview.mhc]; exact k1)
          simp only at this
          simp only [decide_eq_false_iff_not]
          omega
        · rfl
    · show a.height ≤ n.tipHeight
      exact hview.blocks _ _ hblock
    · show (BFT.getParams n.bft a.height).isSome = true
      obtain ⟨k, hk, hle⟩ := Cert.getParams_mem hparams
      obtain ⟨p', hp'⟩ := (hview.paramKeys k).mp ⟨p, hk⟩
      unfold BFT.getParams
      rw [Option.isSome_map]
      exact lookupLE_isSome n.bft.params a.height (k, p') hp' hle
    · simp [C15acFacts, hsig, hcert]

/-- **The aggregate commit of a generated block is valid** (composition with C06): what
`GetAggregateCommit` assembles from a pool satisfying the pool invariant — which every pool reached
by gossip, `Certify` and the pool operations does (`C06_reachable_pool_invariant`) — satisfies the
aggregate-commit rule of the verification model on the corresponding node; this discharges the
hypothesis `aggregateCommit` of `C15Healthy`. -/
theorem C15_aggregate_commit_from_pool_valid (n : Node) (st : Cert.State) (ctx : Cert.BlockCtx)
    (pool : Cert.Pool) (a : Cert.AggCommit) (hview : C15CertView n st) (hwf : Cert.StoreWf st.params)
    (hcons : Cert.Consistent st ctx) (hinv : Cert.PoolInv ctx st.chainId pool)
    (hg : Cert.getAggregateCommit st pool = Cert.GacResult.ok a) :
    ACValid n.cfg.acBound n (C15acFacts st a) :=
  C15_accepted_commit_valid n st a hview (C06_assembled_accepted st ctx pool a hwf hcons hinv hg)

/-- what `initBlockHeader` obtains from `GetAggregateCommit` over chain state `st` and pool `pool`
(`none`: error or panic — `forge` returns without a block) -/
def C15acOfPool (st : Cert.State) (pool : Cert.Pool) : Option AC :=
  match Cert.getAggregateCommit st pool with
  | .ok a => some (C15acFacts st a)
  | _ => none

/-- the field `aggregateCommit` of `C15Healthy`, from the certificate pool invariant (C06) -/
theorem C15_healthy_aggregate_commit_of_pool (n : Node) (f : C15Forge) (st : Cert.State)
    (ctx : Cert.BlockCtx) (pool : Cert.Pool) (hac : f.ac = C15acOfPool st pool) (hview : C15CertView n st)
    (hwf : Cert.StoreWf st.params) (hcons : Cert.Consistent st ctx) (hinv : Cert.PoolInv ctx st.chainId pool) :
    ∀ a, f.ac = some a → ACValid n.cfg.acBound n a := by
  intro a ha
  rw [hac] at ha
  unfold C15acOfPool at ha
  split at ha
  · rename_i a' hg
    cases ha
    exact C15_aggregate_commit_from_pool_valid n st ctx pool a' hview hwf hcons hinv hg
  · cases ha

/-! ## a generator never contradicts itself — without the global fork-choice hypothesis -/

private theorem honest_run_address (g : Bytes) : ∀ (steps : List (Nat × Nat)) (s : C07Gen),
    ∀ x ∈ C07Gen.run g s steps, x.generatorAddress = g := by
  intro steps
  induction steps with
  | nil => intro s x hx; simp [C07Gen.run] at hx
  | cons st r ih =>
    intro s x hx
    obtain ⟨h, p⟩ := st
    simp only [C07Gen.run, List.mem_cons] at hx
    rcases hx with rfl | hx
    · rfl
    · exact ih _ x hx

/-- every header validator `v` signs carries its address -/
theorem C15_headers_carry_address (addr : Nat → Bytes) (ops : List Op) (v : Nat) :
    ∀ x ∈ headersOf v (run .fixed addr {} ops).persisted, x.generatorAddress = addr v := by
  rw [C15_refines_honest_generator]
  exact honest_run_address (addr v) _ _

/-- **Exact characterisation, no hypothesis on the history.**  For every sequence of forge / delete /
chain switch / restart / crash (fixed update rule) and any two headers `e` (signed earlier) and `l`
(signed later) of one validator: they do NOT contradict iff the later one was generated on a tip
that is better in the fork-choice order (larger maxHeightPrevoted, or equal and larger height — a
better but shorter chain included), or `e` could legitimately have been signed after `l`.
The `maxHeightGenerated` clauses never cause a contradiction — restarts, crashes and dropped blocks
included; only the node's tip movement can. -/
theorem C15_contradiction_iff (addr : Nat → Bytes) (ops : List Op) (v : Nat) :
    (headersOf v (run .fixed addr {} ops).persisted).Pairwise (fun e l =>
      Gen.areDistinctHeadersContradicting e l = false ↔
        (C07Better e.maxHeightPrevoted e.height l.maxHeightPrevoted l.height ∨ C07LegitSucc l e)) := by
  have hcl := C15_max_height_generated_clauses addr ops v
  have hadr := C15_headers_carry_address addr ops v
  refine List.Pairwise.imp_of_mem ?_ hcl
  intro e l he hl hc
  rw [C07_spec e l (by rw [hadr e he, hadr l hl])]
  have : C07LegitSucc e l ↔ C07Better e.maxHeightPrevoted e.height l.maxHeightPrevoted l.height := by
    unfold C07LegitSucc C07Better
    omega
  rw [this]

/-- **No self-contradiction, pairwise.**  Whenever the later of two headers of a validator was
generated on a better tip than the earlier one, the two do not contradict (in either order) — for
every history, whatever happened between or around them.  (`C15_no_self_contradiction` needs the
fork-choice condition for ALL forging steps of the history to conclude anything; this version
needs it only for the pair in question.) -/
theorem C15_no_self_contradiction_pairwise (addr : Nat → Bytes) (ops : List Op) (v : Nat) :
    (headersOf v (run .fixed addr {} ops).persisted).Pairwise (fun e l =>
      C07Better e.maxHeightPrevoted e.height l.maxHeightPrevoted l.height →
        Gen.areDistinctHeadersContradicting e l = false ∧ Gen.areDistinctHeadersContradicting l e = false) := by
  refine List.Pairwise.imp ?_ (C15_contradiction_iff addr ops v)
  intro e l h hb
  have := h.mpr (Or.inl hb)
  exact ⟨this, by rw [← C07_symmetric]; exact this⟩

/-- … and conversely a contradiction between an earlier and a later header of one validator always
means that the later header was generated on a tip that is NOT better than the earlier one's. -/
theorem C15_contradiction_only_on_worse_tip (addr : Nat → Bytes) (ops : List Op) (v : Nat) :
    (headersOf v (run .fixed addr {} ops).persisted).Pairwise (fun e l =>
      Gen.areDistinctHeadersContradicting e l = true →
        ¬ C07Better e.maxHeightPrevoted e.height l.maxHeightPrevoted l.height) := by
  refine List.Pairwise.imp ?_ (C15_no_self_contradiction_pairwise addr ops v)
  intro e l h hc hb
  rw [(h hb).1] at hc
  cases hc

/-- The fork-choice condition cannot be dropped, also with the fixed rule: a block whose info
reached the generator database but which was never applied (the process died after the write, or
`AddInternal` found the process queue full) followed — after a restart — by forging again on the
SAME tip gives two headers at the same height with the same maxHeightPrevoted: they contradict. -/
theorem C15_reforge_same_tip_contradicts :
    let addr : Nat → Bytes := fun v => [UInt8.ofNat v]
    let hs := headersOf 1 (run .fixed addr {} [.ext 0, .forge 1 .dropped 0, .restart, .forge 1 .applied 0]).persisted
    hs.map (fun h => (h.height, h.maxHeightGenerated, h.maxHeightPrevoted)) = [(2, 0, 0), (2, 2, 0)] ∧
    ∃ a ∈ hs, ∃ b ∈ hs, Gen.areDistinctHeadersContradicting a b = true := by
  refine ⟨by decide, ?_⟩
  exact ⟨{ height := 2, generatorAddress := [1], maxHeightGenerated := 0, maxHeightPrevoted := 0 }, by decide,
    { height := 2, generatorAddress := [1], maxHeightGenerated := 2, maxHeightPrevoted := 0 }, by decide, by decide⟩

/-! ## a concrete node: non-vacuity, and every environment hypothesis is needed -/

/-- two validators, addresses 20 × 0x01 and 20 × 0x02 -/
def C15xAddr (v : Nat) : Bytes := List.replicate 20 (UInt8.ofNat (v + 1))
def C15xBid (k : Nat) : Bytes := List.replicate 32 (UInt8.ofNat k)

/-- stand-in for `ValidatorsHash`: addresses, weights and the certificate threshold, unhashed -/
def C15xVh (p : BFT.Params) : Bytes :=
  p.validators.flatMap (fun v => v.address ++ [UInt8.ofNat v.weight]) ++ [UInt8.ofNat p.certificateThreshold]

/-- the consensus store after the genesis block: both validators with weight 1, thresholds 2 -/
def C15xBFT : BFT.State :=
  match BFT.setParams (BFT.initGenesis 2 0) 2 2 [⟨C15xAddr 0, 1⟩, ⟨C15xAddr 1, 1⟩] with
  | .ok s => BFT.setKeys s [C15xAddr 0, C15xAddr 1]
  | .error _ => BFT.initGenesis 2 0

/-- genesis at t = 1000, 10-second slots, payload limit 1000 bytes; `now` is the verifier's clock -/
def C15xCfg (now : Nat) : Config := { genesisTimestamp := 1000, blockTime := 10, now := now, maxTxLen := 1000 }

def C15xNode (now : Nat) : Node :=
  { cfg := C15xCfg now, tipHeight := 0, tipID := C15xBid 0, tipTimestamp := 1000, chain := [(0, C15xBid 0)],
    bft := C15xBFT, finalized := 0 }

/-- sender 7: nonces 0 (600 bytes) and 1 (verification fails); sender 8: nonce 0 (300 bytes) -/
def C15xPool : List Tx :=
  [ { id := 0, sender := 7, nonce := 0, fee := 6000, size := 600 },
    { id := 1, sender := 8, nonce := 0, fee := 900, size := 300 },
    { id := 2, sender := 7, nonce := 1, fee := 5000, size := 50, vok := false } ]

/-- slot 1 (t ∈ [1010, 1020)) belongs to validator 1; both keys are enabled and registered; empty
generator database; `GetAggregateCommit` returns the empty commit at maxHeightCertified = 0 -/
def C15xForge : C15Forge :=
  { enabled := [0, 1], db := [], clockSlot := 1015, clockHeader := 1016,
    ac := some { height := 0, bitsLen := 0, sigLen := 0, sigOK := false },
    pool := C15xPool, ok := okMock, selected := select okMock 1000 C15xPool, maxSize := 1000,
    signerKey := fun v => [UInt8.ofNat (v + 1)], registeredKey := fun a => a.take 1 }

/-- a deterministic application: the replay verdicts are the ones of generation -/
def C15xReplay : C15Replay :=
  { id := C15xBid 1, txStatic := fun _ => true,
    verdict := fun _ t => (if t.vok then TxV.ok else TxV.invalid, if t.eok then TxV.ok else TxV.invalid) }

/-- verdict of the node on the forged block: `none` = nothing forged, `some none` = accepted -/
def C15xVerdict (n : Node) (f : C15Forge) (r : C15Replay) : Option (Option Err) :=
  (C15forge C15xAddr C15xVh n f r).map fun b => (applyBlock n b).2

/-- non-vacuity of `C15_forged_accept_iff` / `C15_forged_block_accepted`: validator 1 forges a block
with two transactions (900 bytes) in slot 1 and the node accepts it -/
example : C15slotValidator C15xAddr (C15xNode 1017) C15xForge = some 1 ∧
    (C15forge C15xAddr C15xVh (C15xNode 1017) C15xForge C15xReplay).map
      (fun b => [b.height, b.mhg, b.mhp, b.timestamp, b.payloadSize, b.txs.length]) =
      some [1, 0, 0, 1016, 900, 2] ∧
    (C15forge C15xAddr C15xVh (C15xNode 1017) C15xForge C15xReplay).map (·.gen) = some (C15xAddr 1) ∧
    C15xVerdict (C15xNode 1017) C15xForge C15xReplay = some none := by
  decide +kernel

/-- the hypotheses of `C15_forged_block_accepted` are satisfiable: the environment above is healthy,
the window is empty and the node satisfies the chain invariant -/
example : C15Healthy C15xAddr (C15xNode 1017) C15xForge C15xReplay ∧ C15ChainInv (C15xNode 1017) := by
  refine ⟨?_, C15_chain_invariant_genesis _ (by decide +kernel) (by decide +kernel) (by decide +kernel)⟩
  refine
    { idLengths := by decide +kernel
      clockAfterTip := by decide +kernel
      sameSlot := by decide +kernel
      verifierClock := by decide +kernel
      keysRegistered := by decide +kernel
      aggregateCommit := ?_
      selection := Or.inl rfl
      sizeLimit := by decide +kernel
      poolStatic := fun _ _ => rfl
      deterministic := ?_
      application := by decide +kernel }
  · intro a ha
    cases ha
    left
    decide +kernel
  · intro acc t h
    simp only [C15xForge, okMock, Bool.and_eq_true] at h
    simp [C15xReplay, h.1, h.2]

/-- the node after validator 1's block of slot 1 -/
def C15xNode1 (now : Nat) : Node :=
  match C15forge C15xAddr C15xVh (C15xNode 1017) C15xForge C15xReplay with
  | some b => { (applyBlock (C15xNode 1017) b).1 with cfg := C15xCfg now }
  | none => C15xNode now

/-- forging in slot 3 (validator 1 again) with generator database `db` and an empty pool -/
def C15xForge3 (db : List (Nat × Info)) : C15Forge :=
  { C15xForge with db := db, clockSlot := 1035, clockHeader := 1035, pool := [], selected := [] }

/-- non-vacuity of `C15_forged_block_accepted_after_history`: with the database the generator model
writes (`forge 1 applied`), validator 1's next block (height 2, maxHeightGenerated 1) is accepted
although its block of height 1 is in the BFT window -/
example : (C15xNode1 1036).tipHeight = 1 ∧ (C15xNode1 1036).bft.infos.map (fun i => (i.height, i.gen)) = [(1, C15xAddr 1)] ∧
    (run .fixed C15xAddr {} [.forge 1 .applied 0]).handedOn.map (fun p => (p.1, p.2.height, p.2.maxHeightGenerated)) = [(1, 1, 0)] ∧
    C15xVerdict (C15xNode1 1036) (C15xForge3 (run .fixed C15xAddr {} [.forge 1 .applied 0]).infos)
      { C15xReplay with id := C15xBid 2 } = some none := by
  decide +kernel

/-- Hypothesis `ownBlocks` is needed: the same forge with a LOST generator database (empty) reports
maxHeightGenerated 0, contradicts the validator's block of height 1 and is rejected by the own node. -/
theorem C15_cx_generator_database_lost :
    C15xVerdict (C15xNode1 1036) (C15xForge3 []) { C15xReplay with id := C15xBid 2 } = some (some Err.contradicting) := by
  decide +kernel

/-- Hypothesis `sameSlot` is needed: `forge` picks the generator with its first clock read (slot 1,
validator 1); if the clock has moved to slot 2 when `initBlockHeader` reads it again, the header
timestamp belongs to validator 0's slot and the node rejects the block. -/
theorem C15_cx_second_clock_read_in_next_slot :
    C15xVerdict (C15xNode 1021) { C15xForge with clockSlot := 1019, clockHeader := 1020 } C15xReplay =
      some (some Err.generator) := by
  decide +kernel

/-- Hypothesis `verifierClock` is needed (clock read by the verifier in an earlier slot). -/
theorem C15_cx_verifier_clock_behind :
    C15xVerdict (C15xNode 1005) C15xForge C15xReplay = some (some Err.future) := by
  decide +kernel

/-- Hypothesis `clockAfterTip` is needed: `shouldForge` only tests that the current slot DIFFERS from
the tip's slot; with a clock behind the tip (tip in slot 3, clock in slot 1) a block is forged and
rejected. -/
theorem C15_cx_clock_behind_tip :
    C15xVerdict { C15xNode 1017 with tipTimestamp := 1030 } C15xForge C15xReplay = some (some Err.pastSlot) := by
  decide +kernel

/-- Hypothesis `keysRegistered` is needed. -/
theorem C15_cx_unregistered_key :
    C15xVerdict (C15xNode 1017) { C15xForge with signerKey := fun _ => [99] } C15xReplay =
      some (some Err.signature) := by
  decide +kernel

/-- Hypothesis `aggregateCommit` is needed. -/
theorem C15_cx_invalid_aggregate_commit :
    C15xVerdict (C15xNode 1017)
      { C15xForge with ac := some { height := 5, bitsLen := 1, sigLen := 96, sigOK := true } } C15xReplay =
      some (some Err.acHigh) := by
  decide +kernel

/-- Hypothesis `sizeLimit` is needed: a generator limit above the verifier's limit. -/
theorem C15_cx_size_limits_differ :
    C15xVerdict { C15xNode 1017 with cfg := { C15xCfg 1017 with maxTxLen := 800 } } C15xForge C15xReplay =
      some (some Err.payloadSize) := by
  decide +kernel

/-- Hypothesis `poolStatic` is needed. -/
theorem C15_cx_statically_invalid_pool_transaction :
    C15xVerdict (C15xNode 1017) C15xForge { C15xReplay with txStatic := fun t => t.id != 1 } =
      some (some Err.txStatic) := by
  decide +kernel

/-- Hypothesis `deterministic` is needed: the application rejects on replay what it accepted during
generation. -/
theorem C15_cx_nondeterministic_application :
    C15xVerdict (C15xNode 1017) C15xForge
      { C15xReplay with verdict := fun _ t => (if t.id = 1 then TxV.invalid else TxV.ok, TxV.ok) } =
      some (some Err.txVerify) := by
  decide +kernel

/-- Hypothesis `application` is needed (here: the state root is not reproduced). -/
theorem C15_cx_state_root_not_reproduced :
    C15xVerdict (C15xNode 1017) C15xForge { C15xReplay with commitOK := false } = some (some Err.commit) := by
  decide +kernel

/-- new weights 2 and 1 -/
def C15xChange (w0 : Nat) : Change :=
  { precommit := 2, cert := 2, validators := [⟨C15xAddr 0, w0⟩, ⟨C15xAddr 1, 1⟩],
    generators := [C15xAddr 0, C15xAddr 1] }

/-- verdict of the node on the block the ORIGINAL generator (before
/verif/fixes/C15-generator-validator-update.patch) forges -/
def C15xVerdictOrig (n : Node) (f : C15Forge) (r : C15Replay) : Option (Option Err) :=
  (C15forgeOrig C15xAddr C15xVh n f r).map fun b => (applyBlock n b).2

/-- **The original generator ignores the validator update** (defect repaired by
/verif/fixes/C15-generator-validator-update.patch; confirmed on the real generator + verifier): when
the application answers `AfterTransactionsExecute` with new validator weights (admissible: weights 2
and 1, thresholds 2), the verifier applies them and expects `validatorsHash` to be the hash of the
NEW parameters of height+1; the original `sealBlock` hashed the parameters it found without the
update.  The node rejects its own block … -/
theorem C15_cx_validator_change_rejected :
    C15xVerdictOrig (C15xNode 1017) C15xForge { C15xReplay with change := some (C15xChange 2) } =
      some (some Err.validatorsHash) := by
  decide +kernel

/-- … while the patched generator's block for the same input is accepted, and the node's parameters
of height 2 are then the changed ones (sorted by address, descending: weights 1 and 2). -/
theorem C15_validator_change_accepted_example :
    C15xVerdict (C15xNode 1017) C15xForge { C15xReplay with change := some (C15xChange 2) } = some none ∧
    (C15forge C15xAddr C15xVh (C15xNode 1017) C15xForge { C15xReplay with change := some (C15xChange 2) }).map
      (fun b => ((BFT.getParams (applyBlock (C15xNode 1017) b).1.bft 2).map
        (fun p => p.validators.map (·.weight)))) = some (some [1, 2]) := by
  decide +kernel

/-- For the original code an update that leaves the parameters as they are was harmless, … -/
example :
    C15xVerdictOrig (C15xNode 1017) C15xForge { C15xReplay with change := some (C15xChange 1) } = some none := by
  decide +kernel

/-- non-vacuity of `C15_aggregate_commit_from_pool_valid` / `C15_accepted_commit_valid`: the chain
state of the C06 example (height 5 precommitted, nothing certified, parameters from height 1) is a
view of a node with tip 10, and the aggregate of three commits for height 5 gives a valid
aggregate-commit fact record -/
example : ∃ a, Cert.getAggregateCommit C06cxState
      (C06run Cert.Pool.empty
        [⟨C06cxState, .gossip [⟨true, 105, 5, 1, Cert.sign 20 ⟨1, 105⟩⟩, ⟨true, 105, 5, 3, Cert.sign 40 ⟨1, 105⟩⟩,
          ⟨true, 105, 5, 2, Cert.sign 30 ⟨1, 105⟩⟩]⟩]) = Cert.GacResult.ok a ∧
    (C15acFacts C06cxState a).height = 5 ∧ (C15acFacts C06cxState a).sigOK = true ∧
    (C15acFacts C06cxState a).bitsLen = 8 := ⟨_, rfl, by decide, by decide, by decide⟩

/-! ## the correspondence commutes with a step of either model -/

/-- When the node accepts the block forged for validator `v`, the generator model's step
`forge v applied` on the corresponding `GState` lands on the `GState` corresponding to the node
after `processValidated` (with the generator database `forge` wrote): `C15gstate` is a simulation
between the verification model and part 2 of the generator model, so the histories `ops` of
`C15_forged_block_accepted_after_history` are histories of the node. -/
theorem C15_correspondence_commutes (addr : Nat → Bytes) (vh : BFT.Params → Bytes) (n : Node) (f : C15Forge)
    (r : C15Replay) (v : Nat) (b : Cand) (hv : C15slotValidator addr n f = some v)
    (hb : C15forge addr vh n f r = some b) (hacc : accepts n b) :
    let n' := (applyBlock n b).1
    let st' := applyOp .fixed addr (C15gstate n f.db) (.forge v .applied n'.bft.mhp)
    st'.height = n'.tipHeight ∧ st'.mhp = n'.bft.mhp ∧
    st'.infos = setInfo f.db v (nextInfo .fixed (mkHeader addr (C15gstate n f.db) v)) ∧
    C15gstate n' st'.infos = { st' with persisted := [], handedOn := [] } ∧
    st'.handedOn = [(v, C15candHdr b)] := by
  obtain ⟨s2, _, hn'⟩ := C03_accept_effect n b hacc
  obtain ⟨v', ac, s1, s2', p, hv', _, _, _, _, _, hbeq⟩ := C15_forge_some hb
  rw [hv] at hv'
  cases hv'
  have hheight : b.height = n.tipHeight + 1 := by rw [hbeq]; rfl
  have hhdr : C15candHdr b = mkHeader addr (C15gstate n f.db) v := by rw [hbeq]; rfl
  simp only at hn' ⊢
  refine ⟨?_, rfl, rfl, ?_, ?_⟩
  · rw [hn'.1, hheight]; rfl
  · simp only [C15gstate, applyOp]
    rw [hn'.1, hheight]
  · rw [hhdr]; rfl

instance C15decC07Better (a b c d : Nat) : Decidable (C07Better a b c d) := by unfold C07Better; infer_instance

/-- non-vacuity of `C15_no_self_contradiction_pairwise` / `C15_contradiction_iff`: in the history of
`C15counterOps` (forge at 10, switch to a better shorter chain, forge at 8, restart, forge at 9) the
validator signs three headers and every later one is on a better tip than every earlier one -/
example :
    let hs := headersOf 0 (run .fixed (fun v => [UInt8.ofNat v]) {} C15counterOps).persisted
    hs.length = 3 ∧
    hs.Pairwise (fun e l => C07Better e.maxHeightPrevoted e.height l.maxHeightPrevoted l.height) := by
  decide

/-- non-vacuity of the second branch of `C15Selection`: with two heads of equal fee priority the
other tie-break of `heap.Pop` gives a payload different from `Generator.select`; it is covered too -/
example :
    let pool : List Tx := [{ id := 0, sender := 1, nonce := 0, fee := 100, size := 100 },
                           { id := 1, sender := 2, nonce := 0, fee := 100, size := 100 }]
    let f : C15Forge := { C15xForge with pool := pool, selected := pool.reverse }
    C15Selection f ∧ f.selected ≠ select f.ok f.maxSize f.pool := by
  refine ⟨Or.inr ⟨by decide, ?_⟩, by decide⟩
  exact C15_checkSel_sound 1000 _ _ (by decide) (by decide)
