/-
C14 — the binary heaps of the transaction pool and of the block generator (Go `container/heap` over
pkg/txpool/heap.go `NonceMinHeap` / `FeeMinHeap` / `FeeMaxHeap` and pkg/generator `FeePriorityTransactions`).

`Model/GoHeap.lean` is a line-by-line transcription of `container/heap` (tied to the real package by the
differential harness LIBHEAP).  Here, for ALL arrays and any comparison `less` that is asymmetric and negatively
transitive (a strict weak order; asymmetry follows from irreflexivity + transitivity, `C14_heap_asym_of_irr_trans`):

1. multiset: `up`, `down`, `init`, `fix` permute the array, `push` adds one element, `pop` / `remove` take one
   out (the root resp. the element at position `i`); the panics are exactly the out-of-range cases;
2. invariant: `init` establishes it, `push`, `pop`, `remove i`, `fix i` (after any replacement of element `i`)
   keep it;
3. minimum: the root of a heap is a minimum, `pop` returns it, `drain` (heap sort) is sorted and a permutation;
4. instances: `<` / `>` on `Nat`, and the fee min heap in the terms of the pool model (`TxPool.minPrio`).

This justifies the abstraction of Model/TxPool.lean / Model/Generator.lean: a heap = a multiset of which only a
minimum is read.
-/
import LiskVerif.Lemmas.GoHeap
import LiskVerif.Model.TxPool

open LiskVerif LiskVerif.GoHeap

/-! ## hypotheses on `less` -/

/-- irreflexive + transitive gives asymmetric -/
theorem C14_heap_asym_of_irr_trans {α : Type} (less : α → α → Bool) (hirr : ∀ x, less x x = false)
    (htr : ∀ x y z, less x y = true → less y z = true → less x z = true) :
    ∀ x y, less x y = true → less y x = false := by
  intro x y h
  cases h2 : less y x with
  | false => rfl
  | true => have := htr x y x h h2; rw [hirr] at this; cases this

/-! ## 1. multiset -/

theorem C14_heap_up_perm {α : Type} (less : α → α → Bool) (a : Array α) (j : Nat) :
    (up less a j).toList.Perm a.toList := upF_perm less j a j

theorem C14_heap_down_perm {α : Type} (less : α → α → Bool) (a : Array α) (i n : Nat) :
    (down less a i n).1.toList.Perm a.toList := downF_perm less n a i n

theorem C14_heap_init_perm {α : Type} (less : α → α → Bool) (a : Array α) :
    (init less a).toList.Perm a.toList := foldl_down_perm less a.size _ a

theorem C14_heap_push_perm {α : Type} (less : α → α → Bool) (a : Array α) (x : α) :
    (push less a x).toList.Perm (a.toList ++ [x]) := by
  have := upF_perm less a.size (a.push x) a.size
  simpa [push, up] using this

theorem C14_heap_fix_perm {α : Type} (less : α → α → Bool) (a a' : Array α) (i : Nat)
    (h : fix less a i = some a') : a'.toList.Perm a.toList := by
  unfold fix at h
  split at h
  · split at h
    · cases h; exact List.Perm.refl _
    · cases h
  · simp only at h
    split at h
    · cases h; exact downF_perm less _ a i _
    · cases h; exact (upF_perm less _ _ _).trans (downF_perm less _ a i _)

/-- `Fix` panics exactly for an index outside the heap, except `Fix(h, 0)` on the empty heap -/
theorem C14_heap_fix_none_iff {α : Type} (less : α → α → Bool) (a : Array α) (i : Nat) :
    fix less a i = none ↔ (a.size ≤ i ∧ i ≠ 0) := by
  unfold fix
  split
  · split <;> simp <;> omega
  · simp only
    split <;> simp <;> omega

private theorem pop_tail {α : Type} (a2 : Array α) (r : Array α × α)
    (h : (match a2.back? with | some x => some (a2.pop, x) | none => none) = some r) :
    a2.back? = some r.2 ∧ r.1 = a2.pop := by
  split at h
  · rename_i x hb; cases h; exact ⟨hb, rfl⟩
  · cases h

private theorem pop_tail_none {α : Type} (a2 : Array α) (hs : 0 < a2.size) :
    (match a2.back? with | some x => some (a2.pop, x) | none => none) ≠ none := by
  split
  · simp
  · rename_i hb
    have := Array.back?_eq_none_iff.mp hb
    subst this; simp at hs

/-- `Pop` panics exactly on the empty heap -/
theorem C14_heap_pop_none_iff {α : Type} (less : α → α → Bool) (a : Array α) :
    pop less a = none ↔ a.size = 0 := by
  unfold pop
  split
  · simp [*]
  · rename_i h
    simp only [h, iff_false]
    apply pop_tail_none
    simp only [down]; rw [downF_size]; simp; omega

theorem C14_heap_pop_perm {α : Type} (less : α → α → Bool) (a a' : Array α) (x : α)
    (h : pop less a = some (a', x)) : (x :: a'.toList).Perm a.toList := by
  unfold pop at h
  split at h
  · cases h
  · obtain ⟨hb, hp⟩ := pop_tail _ _ h
    simp only at hb hp
    have h1 := back_pop_toList _ _ hb
    have h2 := (downF_perm less (a.size - 1) (a.swapIfInBounds 0 (a.size - 1)) 0 (a.size - 1)).trans
      (swap_perm a 0 (a.size - 1))
    simp only [down] at h1 hp
    rw [h1, ← hp] at h2
    exact (List.perm_append_comm (l₁ := [x])).trans h2

/-- `Pop` returns the element that was at the root -/
theorem C14_heap_pop_root {α : Type} (less : α → α → Bool) (a a' : Array α) (x : α)
    (h : pop less a = some (a', x)) : a[0]? = some x := by
  unfold pop at h
  split at h
  · cases h
  · rename_i hs
    obtain ⟨hb, _⟩ := pop_tail _ _ h
    simp only [down, Array.back?_eq_getElem?] at hb
    rw [downF_size, Array.size_swapIfInBounds, downF_frame less _ _ _ _ (by simp) _ (Nat.le_refl _),
      get_swap a (by omega) (by omega), sw_right] at hb
    exact hb

private theorem remove_a2_perm {α : Type} (less : α → α → Bool) (a : Array α) (i : Nat) :
    (if a.size - 1 ≠ i then
        if (down less (a.swapIfInBounds i (a.size - 1)) i (a.size - 1)).2 = true then
          (down less (a.swapIfInBounds i (a.size - 1)) i (a.size - 1)).1
        else up less (down less (a.swapIfInBounds i (a.size - 1)) i (a.size - 1)).1 i
      else a).toList.Perm a.toList := by
  split
  · split
    · exact (downF_perm less _ _ _ _).trans (swap_perm a _ _)
    · exact (upF_perm less _ _ _).trans ((downF_perm less _ _ _ _).trans (swap_perm a _ _))
  · exact List.Perm.refl _

/-- `Remove` panics exactly for an index outside the heap -/
theorem C14_heap_remove_none_iff {α : Type} (less : α → α → Bool) (a : Array α) (i : Nat) :
    remove less a i = none ↔ a.size ≤ i := by
  unfold remove
  split
  · simp [*]
  · rename_i h
    have : ¬ a.size ≤ i := by omega
    simp only [this, iff_false]
    apply pop_tail_none
    have hsz := (remove_a2_perm less a i).length_eq
    simp only [Array.length_toList] at hsz
    simp only [ne_eq] at hsz ⊢
    rw [hsz]; omega

theorem C14_heap_remove_perm {α : Type} (less : α → α → Bool) (a a' : Array α) (i : Nat) (x : α)
    (h : remove less a i = some (a', x)) : (x :: a'.toList).Perm a.toList := by
  unfold remove at h
  split at h
  · cases h
  · obtain ⟨hb, hp⟩ := pop_tail _ _ h
    simp only at hb hp
    have h1 := back_pop_toList _ _ hb
    have h2 := remove_a2_perm less a i
    rw [h1, ← hp] at h2
    exact (List.perm_append_comm (l₁ := [x])).trans h2

/-- `Remove(h, i)` returns the element that was at position `i` -/
theorem C14_heap_remove_elem {α : Type} (less : α → α → Bool) (a a' : Array α) (i : Nat) (x : α)
    (h : remove less a i = some (a', x)) : a[i]? = some x := by
  unfold remove at h
  split at h
  · cases h
  · rename_i hs
    obtain ⟨hb, _⟩ := pop_tail _ _ h
    simp only [Array.back?_eq_getElem?] at hb
    split at hb
    · rename_i hne
      have hfr : ∀ b : Array α, b.size = a.size → b[a.size - 1]? = a[i]? →
          (downF less (a.size - 1) b i (a.size - 1)).1[a.size - 1]? = a[i]? := by
        intro b hbs hbe
        rw [downF_frame less _ _ _ _ (by omega) _ (Nat.le_refl _)]; exact hbe
      have h0 : (a.swapIfInBounds i (a.size - 1))[a.size - 1]? = a[i]? := by
        rw [get_swap a (by omega) (by omega), sw_right]
      split at hb
      · simp only [down] at hb
        rw [downF_size, Array.size_swapIfInBounds, hfr _ (by simp) h0] at hb
        exact hb
      · simp only [down, up] at hb
        rw [upF_size, downF_size, Array.size_swapIfInBounds,
          upF_frame less _ _ _ (by rw [downF_size]; simp; omega) _ (by omega), hfr _ (by simp) h0] at hb
        exact hb
    · rename_i hne
      have : a.size - 1 = i := by omega
      rw [this] at hb; exact hb

/-! ## 2. invariant -/

/-- the Bool invariant of the model in Prop form: no child is `less` than its parent -/
theorem C14_heap_isHeap_iff {α : Type} (less : α → α → Bool) (a : Array α) :
    isHeap less a = true ↔ ∀ k, 0 < k → k < a.size → lessAt less a k ((k - 1) / 2) = false :=
  isHeapUpTo_iff less a a.size

/-- `heap.Init` establishes the invariant for every array -/
theorem C14_heap_init_isHeap {α : Type} (less : α → α → Bool)
    (hasym : ∀ x y, less x y = true → less y x = false)
    (hneg : ∀ x y z, less x z = true → less x y = true ∨ less y z = true) (a : Array α) :
    isHeap less (init less a) = true := by
  have hs : (init less a).size = a.size := by
    have := (C14_heap_init_perm less a).length_eq
    simpa using this
  unfold isHeap
  rw [isHeapUpTo_iff, hs, heapN_iff_from]
  apply init_loop ⟨hasym, hneg⟩ a.size (a.size / 2) a rfl
  intro k h1 h2 h3
  omega

theorem C14_heap_push_isHeap {α : Type} (less : α → α → Bool)
    (hasym : ∀ x y, less x y = true → less y x = false)
    (hneg : ∀ x y z, less x z = true → less x y = true ∨ less y z = true) (a : Array α) (x : α)
    (hh : isHeap less a = true) : isHeap less (push less a x) = true := by
  unfold isHeap at *
  rw [isHeapUpTo_iff] at *
  unfold push up
  rw [upF_size, Array.size_push]
  apply upF_heap ⟨hasym, hneg⟩ _ _ _ _ (by simp) (by omega) (Nat.le_refl _)
  constructor
  · intro k h1 h2 h3
    rw [lessAt_congr less a (a.push x) _ _ (by rw [Array.getElem?_push, if_neg h3])
      (by rw [Array.getElem?_push, if_neg (by omega)])]
    exact hh k h1 (by omega)
  · intro k h1 h2 h3 h4
    omega

theorem C14_heap_pop_isHeap {α : Type} (less : α → α → Bool)
    (hasym : ∀ x y, less x y = true → less y x = false)
    (hneg : ∀ x y z, less x z = true → less x y = true ∨ less y z = true) (a a' : Array α) (x : α)
    (hh : isHeap less a = true) (h : pop less a = some (a', x)) : isHeap less a' = true := by
  unfold isHeap at *
  rw [isHeapUpTo_iff] at *
  unfold pop at h
  split at h
  · cases h
  · rename_i hs
    obtain ⟨_, hp⟩ := pop_tail _ _ h
    simp only [down] at hp
    rw [hp]
    apply heapN_pop
    rw [downF_size, Array.size_swapIfInBounds, heapN_iff_from]
    apply downF_heap ⟨hasym, hneg⟩ _ _ _ _ _ (by simp) (by omega)
    constructor
    · intro k h1 h2 _ h4
      rw [lessAt_swap less a (by omega) (by omega), sw_ne (by omega) (by omega), sw_ne h4 (by omega)]
      exact hh k h1 (by omega)
    · intro k h1 h2 h3 h4
      omega

theorem C14_heap_remove_isHeap {α : Type} (less : α → α → Bool)
    (hasym : ∀ x y, less x y = true → less y x = false)
    (hneg : ∀ x y z, less x z = true → less x y = true ∨ less y z = true) (a a' : Array α) (i : Nat) (x : α)
    (hh : isHeap less a = true) (h : remove less a i = some (a', x)) : isHeap less a' = true := by
  unfold isHeap at *
  rw [isHeapUpTo_iff] at *
  unfold remove at h
  split at h
  · cases h
  · rename_i hs
    obtain ⟨_, hp⟩ := pop_tail _ _ h
    simp only at hp
    rw [hp]
    apply heapN_pop
    have hsz := (remove_a2_perm less a i).length_eq
    simp only [Array.length_toList] at hsz
    simp only [ne_eq] at hsz ⊢
    rw [hsz]
    split
    · rename_i hne
      exact fix_heap ⟨hasym, hneg⟩ a (a.swapIfInBounds i (a.size - 1)) (a.size - 1) i (by omega) (by simp)
        (by omega) (fun k h1 h2 => by rw [get_swap a (by omega) (by omega), sw_ne h2 (by omega)])
        (heapN_mono hh (by omega))
    · exact heapN_mono hh (by omega)

/-- `heap.Fix(h, i)` after an ARBITRARY replacement of element `i` of a heap -/
theorem C14_heap_fix_isHeap {α : Type} (less : α → α → Bool)
    (hasym : ∀ x y, less x y = true → less y x = false)
    (hneg : ∀ x y z, less x z = true → less x y = true ∨ less y z = true) (a a' : Array α) (i : Nat) (e : α)
    (hh : isHeap less a = true) (h : fix less (a.setIfInBounds i e) i = some a') : isHeap less a' = true := by
  have hsz := (C14_heap_fix_perm less _ _ _ h).length_eq
  simp only [Array.length_toList, Array.size_setIfInBounds] at hsz
  unfold isHeap at *
  rw [isHeapUpTo_iff] at *
  rw [hsz]
  unfold fix at h
  split at h
  · rename_i hs
    simp only [Array.size_setIfInBounds] at hs
    split at h
    · cases h
      intro k h1 h2
      omega
    · cases h
  · rename_i hs
    simp only [Array.size_setIfInBounds, ge_iff_le, Nat.not_le] at hs
    have := fix_heap ⟨hasym, hneg⟩ a (a.setIfInBounds i e) a.size i (Nat.le_refl _) (by simp) hs
      (fun k h1 h2 => by rw [Array.getElem?_setIfInBounds, if_neg (by omega)]) hh
    simp only [Array.size_setIfInBounds] at h
    split at h <;> rename_i hf <;> simp only [hf] at this <;> cases h <;> simpa using this

/-! ## 3. minimum -/

/-- the root of a heap is a minimum -/
theorem C14_heap_root_min {α : Type} (less : α → α → Bool)
    (hasym : ∀ x y, less x y = true → less y x = false)
    (hneg : ∀ x y z, less x z = true → less x y = true ∨ less y z = true) (a : Array α) (x : α)
    (hh : isHeap less a = true) (h0 : a[0]? = some x) : ∀ y ∈ a.toList, less y x = false := by
  unfold isHeap at hh
  rw [isHeapUpTo_iff] at hh
  intro y hy
  obtain ⟨k, hk, rfl⟩ := List.getElem_of_mem hy
  simp only [Array.length_toList] at hk
  have := heapN_root ⟨hasym, hneg⟩ a a.size (Nat.le_refl _) hh k hk
  unfold lessAt at this
  rw [h0] at this
  simpa [hk] using this

/-- `Pop` returns a minimum of the heap: nothing in the heap before (hence nothing left) is `less` -/
theorem C14_heap_pop_min {α : Type} (less : α → α → Bool)
    (hasym : ∀ x y, less x y = true → less y x = false)
    (hneg : ∀ x y z, less x z = true → less x y = true ∨ less y z = true) (a a' : Array α) (x : α)
    (hh : isHeap less a = true) (h : pop less a = some (a', x)) :
    (∀ y ∈ a.toList, less y x = false) ∧ (∀ y ∈ a'.toList, less y x = false) := by
  have h1 := C14_heap_root_min less hasym hneg a x hh (C14_heap_pop_root less a a' x h)
  refine ⟨h1, fun y hy => h1 y ?_⟩
  exact (C14_heap_pop_perm less a a' x h).subset (List.mem_cons_of_mem _ hy)

private theorem drainF_spec {α : Type} (less : α → α → Bool)
    (hasym : ∀ x y, less x y = true → less y x = false)
    (hneg : ∀ x y z, less x z = true → less x y = true ∨ less y z = true) (f : Nat) (a : Array α)
    (hf : a.size = f) (hh : isHeap less a = true) :
    (drainF less f a).Perm a.toList ∧ (drainF less f a).Pairwise (fun x y => less y x = false) := by
  induction f generalizing a with
  | zero =>
    have : a = #[] := Array.size_eq_zero_iff.mp hf
    subst this
    simp [drainF]
  | succ f ih =>
    simp only [drainF]
    split
    · rename_i hp
      rw [C14_heap_pop_none_iff] at hp
      omega
    · rename_i a' x hp
      have hperm := C14_heap_pop_perm less a a' x hp
      have hsz := hperm.length_eq
      simp only [List.length_cons, Array.length_toList] at hsz
      have ih' := ih a' (by omega) (C14_heap_pop_isHeap less hasym hneg a a' x hh hp)
      have hmin := (C14_heap_pop_min less hasym hneg a a' x hh hp).2
      constructor
      · exact (List.Perm.cons x ih'.1).trans hperm
      · rw [List.pairwise_cons]
        exact ⟨fun y hy => hmin y (ih'.1.subset hy), ih'.2⟩

/-- heap sort: popping a heap until it is empty yields all its elements -/
theorem C14_heap_drain_perm {α : Type} (less : α → α → Bool)
    (hasym : ∀ x y, less x y = true → less y x = false)
    (hneg : ∀ x y z, less x z = true → less x y = true ∨ less y z = true) (a : Array α)
    (hh : isHeap less a = true) : (drain less a).Perm a.toList :=
  (drainF_spec less hasym hneg a.size a rfl hh).1

/-- heap sort: … in sorted order (no later element is `less` than an earlier one) -/
theorem C14_heap_drain_sorted {α : Type} (less : α → α → Bool)
    (hasym : ∀ x y, less x y = true → less y x = false)
    (hneg : ∀ x y z, less x z = true → less x y = true ∨ less y z = true) (a : Array α)
    (hh : isHeap less a = true) : (drain less a).Pairwise (fun x y => less y x = false) :=
  (drainF_spec less hasym hneg a.size a rfl hh).2

/-- heap sort of an arbitrary array: `Init` then drain -/
theorem C14_heap_sort {α : Type} (less : α → α → Bool)
    (hasym : ∀ x y, less x y = true → less y x = false)
    (hneg : ∀ x y z, less x z = true → less x y = true ∨ less y z = true) (a : Array α) :
    (drain less (init less a)).Perm a.toList ∧
      (drain less (init less a)).Pairwise (fun x y => less y x = false) :=
  ⟨(C14_heap_drain_perm less hasym hneg _ (C14_heap_init_isHeap less hasym hneg a)).trans
      (C14_heap_init_perm less a),
    C14_heap_drain_sorted less hasym hneg _ (C14_heap_init_isHeap less hasym hneg a)⟩

/-! ## 4. instances -/

/-- comparison through a `Nat` key with `<` (NonceMinHeap: key = nonce; FeeMinHeap: key = fee priority) -/
theorem C14_heap_min_order {α : Type} (key : α → Nat) :
    (∀ x y : α, decide (key x < key y) = true → decide (key y < key x) = false) ∧
    (∀ x y z : α, decide (key x < key z) = true →
      decide (key x < key y) = true ∨ decide (key y < key z) = true) := by
  constructor
  · intro x y h; simp at *; omega
  · intro x y z h; simp at *; omega

/-- comparison through a `Nat` key with `>` (FeeMaxHeap, FeePriorityTransactions) -/
theorem C14_heap_max_order {α : Type} (key : α → Nat) :
    (∀ x y : α, decide (key x > key y) = true → decide (key y > key x) = false) ∧
    (∀ x y z : α, decide (key x > key z) = true →
      decide (key x > key y) = true ∨ decide (key y > key z) = true) := by
  constructor
  · intro x y h; simp at *; omega
  · intro x y z h; simp at *; omega

/-- `Less` of pkg/txpool/heap.go `FeeMinHeap` on the transactions of the pool model -/
def C14_feeMinLess (x y : TxPool.Tx) : Bool := decide (x.prio < y.prio)

/-- `Less` of `FeeMaxHeap` / `FeePriorityTransactions` -/
def C14_feeMaxLess (x y : TxPool.Tx) : Bool := decide (x.prio > y.prio)

private theorem minPrio_mem (l : List TxPool.Tx) (m : Nat) (h : TxPool.minPrio l = some m) :
    ∃ y ∈ l, y.prio = m := by
  induction l generalizing m with
  | nil => simp [TxPool.minPrio] at h
  | cons u r ih =>
    simp only [TxPool.minPrio] at h
    cases hr : TxPool.minPrio r with
    | none => rw [hr] at h; simp at h; exact ⟨u, List.mem_cons_self, h⟩
    | some m' =>
      rw [hr] at h
      simp only [Option.some.injEq] at h
      obtain ⟨y, hy, hym⟩ := ih m' hr
      by_cases hlt : u.prio < m'
      · rw [if_pos hlt] at h; exact ⟨u, List.mem_cons_self, h⟩
      · rw [if_neg hlt] at h; exact ⟨y, List.mem_cons_of_mem _ hy, by omega⟩

private theorem minPrio_of_min (l : List TxPool.Tx) (x : TxPool.Tx) (hx : x ∈ l)
    (hmin : ∀ y ∈ l, x.prio ≤ y.prio) : TxPool.minPrio l = some x.prio := by
  induction l with
  | nil => cases hx
  | cons t r ih =>
    simp only [TxPool.minPrio]
    have ht := hmin t (List.mem_cons_self)
    rcases List.mem_cons.mp hx with rfl | hxr
    · cases hr : TxPool.minPrio r with
      | none => rfl
      | some m =>
        simp only
        split
        · rfl
        · -- m is the priority of some element of r
          have := minPrio_mem r m hr
          obtain ⟨y, hy, hym⟩ := this
          have := hmin y (List.mem_cons_of_mem _ hy)
          congr 1; omega
    · rw [ih hxr (fun y hy => hmin y (List.mem_cons_of_mem _ hy))]
      simp only
      split
      · congr 1; omega
      · rfl

/-- the pool model's abstraction of the fee min heap: the element evicted by `heap.Pop` of a `FeeMinHeap` has
the minimal fee priority of the multiset (`TxPool.minPrio`), and the remaining multiset is the old one minus it -/
theorem C14_heap_feeMin_pop_minPrio (a a' : Array TxPool.Tx) (x : TxPool.Tx)
    (hh : isHeap C14_feeMinLess a = true) (h : pop C14_feeMinLess a = some (a', x)) :
    TxPool.minPrio a.toList = some x.prio ∧ (x :: a'.toList).Perm a.toList ∧
      isHeap C14_feeMinLess a' = true := by
  have ho := C14_heap_min_order TxPool.Tx.prio
  have hp := C14_heap_pop_perm _ a a' x h
  refine ⟨?_, hp, C14_heap_pop_isHeap _ ho.1 ho.2 a a' x hh h⟩
  apply minPrio_of_min _ x (hp.subset List.mem_cons_self)
  intro y hy
  have := (C14_heap_pop_min _ ho.1 ho.2 a a' x hh h).1 y hy
  simp at this
  exact this

/-- the generator's `heap.Pop` of `FeePriorityTransactions` (and the pool's `FeeMaxHeap`) yields a transaction of
maximal fee priority -/
theorem C14_heap_feeMax_pop_max (a a' : Array TxPool.Tx) (x : TxPool.Tx)
    (hh : isHeap C14_feeMaxLess a = true) (h : pop C14_feeMaxLess a = some (a', x)) :
    (∀ y ∈ a.toList, y.prio ≤ x.prio) ∧ (x :: a'.toList).Perm a.toList ∧ isHeap C14_feeMaxLess a' = true := by
  have ho := C14_heap_max_order TxPool.Tx.prio
  refine ⟨?_, C14_heap_pop_perm _ a a' x h, C14_heap_pop_isHeap _ ho.1 ho.2 a a' x hh h⟩
  intro y hy
  have := (C14_heap_pop_min _ ho.1 ho.2 a a' x hh h).1 y hy
  simp at this
  exact this

/-! ## non-vacuity -/

private def natLt (x y : Nat) : Bool := decide (x < y)
private def natGt (x y : Nat) : Bool := decide (x > y)

example : isHeap natLt #[5, 3, 8, 1, 9, 2] = false := by decide
example : init natLt #[5, 3, 8, 1, 9, 2] = #[1, 3, 2, 5, 9, 8] := by decide
example : isHeap natLt (init natLt #[5, 3, 8, 1, 9, 2]) = true := by decide
example : push natLt #[1, 3, 2, 5, 9, 8] 0 = #[0, 3, 1, 5, 9, 8, 2] := by decide
example : pop natLt #[1, 3, 2, 5, 9, 8] = some (#[2, 3, 8, 5, 9], 1) := by decide
example : pop natLt (#[] : Array Nat) = none := by decide
example : remove natLt #[1, 3, 2, 5, 9, 8] 1 = some (#[1, 5, 2, 8, 9], 3) := by decide
example : remove natLt #[1, 3, 2, 5, 9, 8] 6 = none := by decide
example : fix natLt (#[1, 3, 2, 5, 9, 8].setIfInBounds 0 7) 0 = some #[2, 3, 7, 5, 9, 8] := by decide
example : fix natLt (#[1, 3, 2, 5, 9, 8].setIfInBounds 4 0) 4 = some #[0, 1, 2, 5, 3, 8] := by decide
example : fix natLt (#[] : Array Nat) 0 = some #[] := by decide
example : fix natLt #[1, 2] 2 = none := by decide
example : drain natLt (init natLt #[5, 3, 8, 1, 9, 2, 3]) = [1, 2, 3, 3, 5, 8, 9] := by decide
example : drain natGt (init natGt #[5, 3, 8, 1, 9, 2, 3]) = [9, 8, 5, 3, 3, 2, 1] := by decide
/-- the hypotheses are satisfiable (and `≤` would not do: it is not asymmetric) -/
example : (∀ x y, natLt x y = true → natLt y x = false) ∧
    (∀ x y z, natLt x z = true → natLt x y = true ∨ natLt y z = true) := C14_heap_min_order id
example : ¬ (∀ x y : Nat, decide (x ≤ y) = true → decide (y ≤ x) = false) := fun h => by
  have := h 0 0; simp at this
example : isHeap C14_feeMinLess #[⟨1, 1, 0, 10, 5⟩, ⟨2, 2, 0, 30, 5⟩, ⟨3, 3, 0, 20, 5⟩] = true := by decide
example : (pop C14_feeMinLess #[⟨1, 1, 0, 10, 5⟩, ⟨2, 2, 0, 30, 5⟩, ⟨3, 3, 0, 20, 5⟩]).map (·.2.prio) = some 2 := by
  decide
