/-
C14 — tie of `Model/TxPool.lean` to the Go source: the integer decisions of pkg/txpool are
REGENERATED from the Go source on every run by tools/fngen (typed translation,
`LiskVerif/Gen/Fns2.lean`) with the exact semantics of `uint64` (wrap modulo 2^64) and `int`:

* fee.go `calculateFeePriority`: `tx.Fee / uint64(tx.Size())` (`Gen.calculateFeePriority`; `none` = the
  division panics);
* txlist.go `addressTransactions.Add`: the replacement rule
  `incomingTx.Fee < existingTx.Fee || incomingTx.Fee-existingTx.Fee < a.minReplacementFeeDifference`
  (`Gen.txReplacementRejected`), the per-account limit `len(a.nonces)+1 > a.maxSize`
  (`Gen.txAccountFull`) and `incomingTx.Nonce > maxNonce` (`Gen.txNonceAboveMax`);
* txpool.go `TransactionPool.Add`: the entrance rule (`Gen.txBelowEntrance`), the rejection when the
  pool is full (`Gen.txTooCheapWhenFull`) and the eviction trigger (`Gen.txPoolFull`).

The model works on unbounded naturals; the theorems state the ranges (fees and fee differences are
`uint64`, list lengths and limits are non-negative `int`s).
-/
import LiskVerif.Model.TxPool
import LiskVerif.Lemmas.GenInt

open LiskVerif LiskVerif.TxPool

/-! ### fee priority -/

/-- **`calculateFeePriority` = `Tx.prio`** for every transaction of positive size (below 2^63 bytes) -/
theorem C14_gen_fee_priority_eq (t : Tx) (h0 : 0 < t.size) (h1 : t.size < 9223372036854775808) :
    Gen.calculateFeePriority t.fee (t.size : Int) = some t.prio := by
  unfold Gen.calculateFeePriority Tx.prio
  rw [Gen.toNat_emod64 (by omega)]
  have : ¬ t.size = 0 := by omega
  simp [this]

/-- a transaction of size 0 makes the Go code panic (the model's `Tx.prio` is 0 there); every
`Init`-ed transaction has positive size -/
theorem C14_gen_fee_priority_panics (fee : Nat) : Gen.calculateFeePriority fee 0 = none := by
  unfold Gen.calculateFeePriority
  simp

/-! ### sender list: replacement and per-account limit -/

/-- the regenerated replacement rule (with its wrapping `uint64` subtraction behind the `<` guard) is
the model's `fee < old.fee + minFeeDiff`, for all `uint64` fees and differences -/
theorem C14_gen_replacement_eq (inc old d : Nat) (hi : inc < 2 ^ 64) (ho : old < 2 ^ 64) :
    Gen.txReplacementRejected inc old d = decide (inc < old + d) := by
  unfold Gen.txReplacementRejected
  by_cases h : inc < old
  · have : inc < old + d := by omega
    simp [h, this]
  · have h2 : (inc + 18446744073709551616 - old) % 18446744073709551616 = inc - old := by omega
    rw [h2]
    by_cases h3 : inc < old + d
    · have : inc - old < d := by omega
      simp [h, h3, this]
    · have : ¬ (inc - old < d) := by omega
      simp [h, h3, this]

/-- the regenerated per-account limit test is the model's `length + 1 > maxPerAcct` -/
theorem C14_gen_account_full_eq (n m : Nat) (hn : n < 9223372036854775807) :
    Gen.txAccountFull (n : Int) (m : Int) = decide (n + 1 > m) := by
  unfold Gen.txAccountFull
  rw [Gen.i64_eq (by omega) (by omega)]
  by_cases h : n + 1 > m
  · have : ((n : Int) + 1 > (m : Int)) := by omega
    simp [h, this]
  · have : ¬ ((n : Int) + 1 > (m : Int)) := by omega
    simp [h, this]

/-- **`Acct.add` is the regenerated decisions** around the list updates -/
theorem C14_gen_acct_add_eq (cfg : Cfg) (a : Acct) (tx : Tx)
    (hf : tx.fee < 2 ^ 64) (hold : ∀ old, a.get tx.nonce = some old → old.fee < 2 ^ 64)
    (hlen : a.txs.length < 9223372036854775807) :
    a.add cfg tx =
      match a.get tx.nonce with
      | some old =>
        if Gen.txReplacementRejected tx.fee old.fee cfg.minFeeDiff = true then (a, false, none)
        else ({ txs := tx :: a.txs.filter (fun x => x.nonce != tx.nonce), proc := demote a.proc tx.nonce }, true, some old)
      | none =>
        if Gen.txAccountFull (a.txs.length : Int) (cfg.maxPerAcct : Int) = true then
          let mx := a.maxNonce
          if Gen.txNonceAboveMax tx.nonce mx = true then (a, false, none)
          else
            let r := a.remove mx
            ({ r.1 with txs := tx :: r.1.txs }, true, r.2)
        else ({ a with txs := tx :: a.txs }, true, none) := by
  unfold Acct.add
  cases hg : a.get tx.nonce with
  | some old =>
    simp only [C14_gen_replacement_eq tx.fee old.fee cfg.minFeeDiff hf (hold old hg), decide_eq_true_eq]
  | none =>
    simp only [C14_gen_account_full_eq a.txs.length cfg.maxPerAcct hlen, decide_eq_true_eq,
      Gen.txNonceAboveMax]

/-! ### pool: entrance, full pool -/

theorem C14_gen_below_entrance_eq (prio minEntrance : Nat) :
    Gen.txBelowEntrance prio minEntrance = decide (prio < minEntrance) := rfl

/-- the regenerated eviction trigger is `TxPool.isFull` -/
theorem C14_gen_pool_full_eq (cfg : Cfg) (p : Pool) :
    Gen.txPoolFull (p.all.length : Int) (cfg.maxTx : Int) = isFull cfg p := by
  unfold Gen.txPoolFull isFull
  by_cases h : p.all.length ≥ cfg.maxTx
  · have : ((p.all.length : Int) ≥ (cfg.maxTx : Int)) := by omega
    simp [h, this]
  · have : ¬ ((p.all.length : Int) ≥ (cfg.maxTx : Int)) := by omega
    simp [h, this]

/-- the regenerated rejection rule of a full pool is `isFull && tooCheap`: `lowestFeePriorityTx` is
the root of the fee min-heap, i.e. `minPrio` of the model's heap -/
theorem C14_gen_too_cheap_eq (cfg : Cfg) (p : Pool) (tx : Tx) :
    Gen.txTooCheapWhenFull (p.all.length : Int) (cfg.maxTx : Int) (minPrio p.heap).isSome tx.prio
      ((minPrio p.heap).getD 0) = (isFull cfg p && tooCheap p.heap tx) := by
  unfold Gen.txTooCheapWhenFull
  have h := C14_gen_pool_full_eq cfg p
  unfold Gen.txPoolFull at h
  rw [h]
  unfold tooCheap
  cases minPrio p.heap <;> simp

/-- **`TxPool.add` is the regenerated decisions** around the pool updates -/
theorem C14_gen_add_eq (cfg : Cfg) (p : Pool) (tx : Tx) (v : Verdict) (pubOk : Bool) (tie : Nat) :
    add cfg p tx v pubOk tie =
      if p.all.any (fun t => t.id == tx.id) then (p, false)
      else if Gen.txBelowEntrance tx.prio cfg.minEntrance = true then (p, false)
      else if Gen.txTooCheapWhenFull (p.all.length : Int) (cfg.maxTx : Int) (minPrio p.heap).isSome tx.prio
          ((minPrio p.heap).getD 0) = true then (p, false)
      else if v == Verdict.invalid then (p, false)
      else addCore cfg (if Gen.txPoolFull (p.all.length : Int) (cfg.maxTx : Int) = true then evict p tie else p) tx pubOk := by
  unfold add
  rw [C14_gen_too_cheap_eq, C14_gen_pool_full_eq, C14_gen_below_entrance_eq]
  simp only [decide_eq_true_eq]

/-! ### non-vacuity -/

example : Gen.calculateFeePriority 1000 100 = some 10 ∧ Gen.calculateFeePriority 999 100 = some 9 ∧
    Gen.txReplacementRejected 100 100 10 = true ∧ Gen.txReplacementRejected 110 100 10 = false ∧
    Gen.txReplacementRejected 90 100 0 = true ∧ Gen.txAccountFull 63 64 = false ∧ Gen.txAccountFull 64 64 = true ∧
    Gen.txBelowEntrance 9 10 = true ∧ Gen.txTooCheapWhenFull 10 10 true 5 5 = true ∧
    Gen.txTooCheapWhenFull 10 10 true 6 5 = false ∧ Gen.txTooCheapWhenFull 9 10 true 5 5 = false ∧
    Gen.txPoolFull 10 10 = true := by decide +kernel

example : Gen.calculateFeePriority 1000 100 = some (Tx.prio ⟨1, 1, 0, 1000, 100⟩) :=
  C14_gen_fee_priority_eq ⟨1, 1, 0, 1000, 100⟩ (by decide) (by decide)
