/-
C04 — "the block ID served for every finalized height stays the same forever", the ID side.

A header arrives as bytes `b` (gossip, sync, RPC); the header decoder is LENIENT (a spare byte after the last field,
a default-valued field left out: several byte strings decode to one header, Props/C08_Nested.lean); the database
stores the canonical serialisation `enc h` and every header read back from it gets its ID from those stored bytes.
`blockchain.NewBlockHeader` computes the ID as `H (enc (dec b))`.

* `C04_canon_id_stable_across_reload` — with that rule the ID computed on arrival equals the ID computed when the
  header is read back from the database, for EVERY accepted encoding: cache, database after eviction and database
  after a restart serve one ID.
* `C04_canon_id_received_bytes_changes` — with the ID taken from the bytes as received (`H b`, seeded change
  C04-19) and a collision-free `H`, every non-canonical accepted encoding gets an ID that changes on reload.
Tie: the harness delivers a third of the blocks of the C04SERVED histories non-canonically encoded (ParseBlock
nc=1) and checks every accessor, plus `c04-served-id-not-hash-of-header`.
-/
import LiskVerif.Model.Util

open LiskVerif

section
variable {Hdr : Type}

/-- `NewBlockHeader`: decode, then hash the canonical serialisation -/
def C04_newHeaderID (dec : Bytes → Option Hdr) (enc : Hdr → Bytes) (H : Bytes → Bytes) (b : Bytes) : Option Bytes :=
  (dec b).map fun h => H (enc h)

/-- the seeded variant: hash the bytes as received -/
def C04_newHeaderIDReceived (dec : Bytes → Option Hdr) (H : Bytes → Bytes) (b : Bytes) : Option Bytes :=
  (dec b).map fun _ => H b

theorem C04_canon_id_stable_across_reload (dec : Bytes → Option Hdr) (enc : Hdr → Bytes) (H : Bytes → Bytes)
    (hrt : ∀ h, dec (enc h) = some h) (b : Bytes) (h : Hdr) (hb : dec b = some h) :
    C04_newHeaderID dec enc H (enc h) = C04_newHeaderID dec enc H b := by
  simp [C04_newHeaderID, hrt, hb]

/-- every accepted encoding of one header gets the same ID -/
theorem C04_canon_id_of_header_only (dec : Bytes → Option Hdr) (enc : Hdr → Bytes) (H : Bytes → Bytes)
    (b b' : Bytes) (h : Hdr) (hb : dec b = some h) (hb' : dec b' = some h) :
    C04_newHeaderID dec enc H b = C04_newHeaderID dec enc H b' := by
  simp [C04_newHeaderID, hb, hb']

theorem C04_canon_id_received_bytes_changes (dec : Bytes → Option Hdr) (enc : Hdr → Bytes) (H : Bytes → Bytes)
    (hinj : ∀ x y, H x = H y → x = y) (hrt : ∀ h, dec (enc h) = some h)
    (b : Bytes) (h : Hdr) (hb : dec b = some h) (hnc : b ≠ enc h) :
    C04_newHeaderIDReceived dec H (enc h) ≠ C04_newHeaderIDReceived dec H b := by
  simp only [C04_newHeaderIDReceived, hrt, hb, Option.map_some, ne_eq, Option.some.injEq]
  intro he
  exact hnc (hinj _ _ he).symm

end

/-- Non-vacuity: a decoder that ignores one trailing zero byte accepts two encodings of the header `[1]`. -/
example :
    let dec : Bytes → Option Bytes := fun b => if b.getLast? = some 0 then some b.dropLast else some b
    let enc : Bytes → Bytes := id
    dec [1, 0] = some [1] ∧ dec (enc [1]) = some [1] ∧ ([1, 0] : Bytes) ≠ enc [1] := by decide
