/-
C19 — realistic scale and failure geometry (misses C19-13 / C19-14).

**Scale.** The handler of `getHighestCommonBlock` refuses a request by its SHAPE only: no ids, or an
id that is not 32 bytes long.  Both conditions are REGENERATED from pkg/consensus/sync/sync.go on
every run (`Gen.hcbRequestRejected`, `Gen.hcbIDRejected`; tools/fngen), and so are the numbers of
heights the two synchronisers ask for: `Gen.fastCommonNum` — the last argument of the
`getLastHeights` call of `fastSyncer.getCommonBlock` (`len(ctx.CurrentValidators)*2`) — and
`Gen.blockCommonNum` — the last argument of the `getHeightWithGap` call of
`blockSyncer.getCommonBlockHeader` (`10`).

* `C19_gen_hcb_guard_eq`, `C19_gen_hcb_ban_iff`: the regenerated shape conditions are exactly the ban
  conditions of `Model.handleHighestCommon` (no upper bound on the number of ids).
* `C19_gen_request_sizes_eq`: the regenerated request sizes are the ones of `Model.fastSync` /
  `Model.commonSearch` (`2n`, `10`).
* `C19_honest_request_accepted`: for EVERY number of validators `n ≥ 1` and EVERY own chain (any tip
  height) the request the fast synchroniser builds carries `min (tip+1) (2n-1)` ids of its own blocks,
  passes the regenerated shape conditions and is not answered with a ban by the handler over any
  responder chain; `C19_honest_block_request_accepted`: the same for every request of the block
  synchroniser's search (1 to 9 ids).
* `C19_gen_hcb_accepts_main_net_sizes`: every size `1 … 2·103-1` passes the regenerated count
  condition; `C19_main_net_request_size`: 205 ids are reached with 103 validators on a chain of at
  least 205 blocks — a handler bound below 205 refuses an honest request.

**Failure geometry.** `C19_fast_sync_failure_restores_all_geometries`: for every requester chain that
is valid for the processor, every peer behaviour and every position of the failing block, when applying
the downloaded blocks finalizes nothing new, ANY error of the fast synchroniser leaves exactly the
original chain — in particular when the common block is the requester's tip (nothing was moved to the
temp table) and blocks of the peer were applied before the failing one (`C19_fast_sync_only_behind`,
no hypothesis about the temp table); the examples evaluate the six cells
{only behind, own fork} × {first, middle, last downloaded block fails}.
-/
import LiskVerif.Props.C19
import LiskVerif.Lemmas.GenInt

open LiskVerif LiskVerif.Sync

/-! ## 1. The regenerated shape conditions of the handler -/

/-- the handler accepts the SHAPE of a request whose ids have the byte lengths `lens`: neither the
regenerated count condition nor the regenerated id-length condition fires -/
def C19genShapeAccepted (lens : List Nat) : Bool :=
  !(Gen.hcbRequestRejected (lens.length : Int)) && lens.all (fun l => !(Gen.hcbIDRejected (l : Int)))

/-- the regenerated conditions: refused iff there is no id or an id is not 32 bytes long — whatever the
number of ids -/
theorem C19_gen_hcb_guard_eq (lens : List Nat) :
    C19genShapeAccepted lens = (!lens.isEmpty && lens.all (fun l => l == 32)) := by
  unfold C19genShapeAccepted Gen.hcbRequestRejected Gen.hcbIDRejected
  have h1 : decide ((lens.length : Int) = 0) = lens.isEmpty := by
    cases lens with
    | nil => rfl
    | cons a r =>
      simp only [List.length_cons, List.isEmpty_cons]
      apply decide_eq_false
      omega
  rw [h1]
  congr 1
  apply List.all_congr rfl
  intro l
  by_cases h : l = 32
  · subst h; rfl
  · have h2 : ¬ ((l : Int) = 32) := by omega
    simp [h, h2]

/-- every request size of a network with up to 103 validators passes the regenerated count condition -/
theorem C19_gen_hcb_accepts_main_net_sizes (k : Nat) (h1 : 1 ≤ k) (_h2 : k ≤ 2 * 103 - 1) :
    Gen.hcbRequestRejected (k : Int) = false := by
  unfold Gen.hcbRequestRejected
  apply decide_eq_false
  omega

section Handler
variable {ι : Type} [DecidableEq ι]

/-- **the model handler bans exactly the shapes the regenerated conditions refuse** (`len` is the byte
length of an id; the driver's `okLen` is `len i == 32`) -/
theorem C19_gen_hcb_ban_iff (len : ι → Nat) (c : List (Blk ι)) (ids : List ι) :
    handleHighestCommon (fun i => len i == 32) c (some ids) = .ban ↔
      C19genShapeAccepted (ids.map len) = false := by
  rw [C19_gen_hcb_guard_eq]
  cases ids with
  | nil => simp [handleHighestCommon]
  | cons a r =>
    have hall : ((a :: r).map len).all (fun l => l == 32) = (a :: r).all (fun i => len i == 32) := by
      rw [List.all_map]; rfl
    simp only [List.map_cons, List.isEmpty_cons, Bool.not_false, Bool.true_and]
    rw [← List.map_cons, hall]
    simp only [handleHighestCommon]
    cases hok : (a :: r).all (fun i => len i == 32) with
    | false => simp
    | true =>
      simp only [if_true]
      constructor
      · intro h
        split at h
        · cases h
        · split at h <;> cases h
      · intro h; cases h

end Handler

/-! ## 2. The regenerated request sizes of the synchronisers -/

/-- the fast synchroniser asks `getLastHeights` for `2n` (the model's `2 * n`), the block synchroniser
asks `getHeightWithGap` for `10` -/
theorem C19_gen_request_sizes_eq :
    (∀ n : Nat, n < 4611686018427387904 → (Gen.fastCommonNum (n : Int)).toNat = 2 * n) ∧
    Gen.blockCommonNum.toNat = 10 := by
  refine ⟨?_, rfl⟩
  intro n hn
  unfold Gen.fastCommonNum
  rw [Gen.i64_eq (by omega) (by omega)]
  omega

section Requests
variable {ι : Type} [DecidableEq ι]

/-- the request of `fastSyncer.getCommonBlock` for `n` current validators on the own chain `q`
(`Model.fastSync` / `Model.fastCommon` start with it), with the regenerated number of heights -/
def C19fastRequest (n : Nat) (q : List (Blk ι)) : List ι :=
  idsAt q (getLastHeights (q.length - 1) (Gen.fastCommonNum (n : Int)).toNat)

/-- a request of `blockSyncer.getCommonBlockHeader` (`Model.commonSearch`): round length `n`, finalized
height `fin`, sampling from `start`, with the regenerated number of heights -/
def C19blockRequest (n fin start : Nat) (q : List (Blk ι)) : List ι :=
  idsAt q (getHeightWithGap start fin n Gen.blockCommonNum.toNat)

omit [DecidableEq ι] in
private theorem idsAt_of_lt (q : List (Blk ι)) (hs : List Nat) (h : ∀ x ∈ hs, x < q.length) :
    (idsAt q hs).length = hs.length ∧ ∀ i ∈ idsAt q hs, ∃ b ∈ q, b.id = i := by
  induction hs with
  | nil => exact ⟨rfl, fun i hi => by cases hi⟩
  | cons a r ih =>
    have ha : a < q.length := h a List.mem_cons_self
    obtain ⟨ih1, ih2⟩ := ih (fun x hx => h x (List.mem_cons_of_mem _ hx))
    have hget : q[a]? = some q[a] := List.getElem?_eq_getElem ha
    have hcons : idsAt q (a :: r) = q[a].id :: idsAt q r := by
      unfold idsAt
      rw [List.filterMap_cons, hget]
      rfl
    rw [hcons]
    refine ⟨by simp [ih1], ?_⟩
    intro i hi
    rcases List.mem_cons.mp hi with rfl | hi'
    · exact ⟨q[a], List.getElem_mem ha, rfl⟩
    · exact ih2 i hi'

private theorem accepted_of_own (len : ι → Nat) (q : List (Blk ι)) (hlen : ∀ b ∈ q, len b.id = 32)
    (ids : List ι) (hne : ids ≠ []) (hown : ∀ i ∈ ids, ∃ b ∈ q, b.id = i) (p : List (Blk ι)) :
    C19genShapeAccepted (ids.map len) = true ∧
      handleHighestCommon (fun i => len i == 32) p (some ids) ≠ .ban := by
  have hacc : C19genShapeAccepted (ids.map len) = true := by
    rw [C19_gen_hcb_guard_eq]
    have h1 : (ids.map len).isEmpty = false := by
      cases ids with
      | nil => exact absurd rfl hne
      | cons a r => rfl
    rw [h1]
    simp only [Bool.not_false, Bool.true_and, List.all_map, List.all_eq_true]
    intro i hi
    obtain ⟨b, hb, hbi⟩ := hown i hi
    simp [Function.comp, ← hbi, hlen b hb]
  refine ⟨hacc, ?_⟩
  intro hban
  have := (C19_gen_hcb_ban_iff len p ids).mp hban
  rw [hacc] at this
  cases this

/-- **An honest fast synchroniser's request is never refused.**  For every number of validators
`n ≥ 1`, every own chain `q` (any tip height; ids of 32 bytes) and every responder chain `p`: the
request carries the ids of `min (tip+1) (2n-1)` own blocks, passes the regenerated shape conditions of
the handler and is not answered with a ban. -/
theorem C19_honest_request_accepted (len : ι → Nat) (n : Nat) (hn : 1 ≤ n) (hn2 : n ≤ 2147483648)
    (q : List (Blk ι)) (hq : q ≠ []) (hql : q.length ≤ two32) (hlen : ∀ b ∈ q, len b.id = 32)
    (p : List (Blk ι)) :
    (C19fastRequest n q).length = min q.length (2 * n - 1) ∧
    C19genShapeAccepted ((C19fastRequest n q).map len) = true ∧
    handleHighestCommon (fun i => len i == 32) p (some (C19fastRequest n q)) ≠ .ban := by
  have hpos : 0 < q.length := List.length_pos_iff.mpr hq
  have hnum : (Gen.fastCommonNum (n : Int)).toNat = 2 * n := C19_gen_request_sizes_eq.1 n (by omega)
  have hlast := C19_heights_arith.2.1 (q.length - 1) (2 * n) (by unfold two32 at *; omega) (by unfold two32; omega)
  have hall : ∀ x ∈ getLastHeights (q.length - 1) (2 * n), x < q.length := by
    intro x hx
    rw [hlast] at hx
    obtain ⟨j, _, hj⟩ := List.mem_map.mp hx
    omega
  obtain ⟨h1, h2⟩ := idsAt_of_lt q _ hall
  have hlenreq : (C19fastRequest n q).length = min q.length (2 * n - 1) := by
    unfold C19fastRequest
    rw [hnum, h1, hlast, List.length_map, List.length_range]
    omega
  have hne : C19fastRequest n q ≠ [] := by
    intro h
    rw [h] at hlenreq
    simp only [List.length_nil] at hlenreq
    omega
  have hown : ∀ i ∈ C19fastRequest n q, ∃ b ∈ q, b.id = i := by
    unfold C19fastRequest; rw [hnum]; exact h2
  exact ⟨hlenreq, accepted_of_own len q hlen _ hne hown p⟩

/-- **… nor is a request of the block synchroniser's search**: sampling from any height `start` of the
own chain down to any finalized height `fin` of it with any round length, the request carries between
one and nine ids of own blocks and is not answered with a ban. -/
theorem C19_honest_block_request_accepted (len : ι → Nat) (n fin start : Nat) (q : List (Blk ι))
    (hs : start < q.length) (hf : fin < q.length) (hql : q.length ≤ two32) (hno : fin + 10 * n < two32)
    (hlen : ∀ b ∈ q, len b.id = 32) (p : List (Blk ι)) :
    1 ≤ (C19blockRequest n fin start q).length ∧ (C19blockRequest n fin start q).length ≤ 9 ∧
    C19genShapeAccepted ((C19blockRequest n fin start q).map len) = true ∧
    handleHighestCommon (fun i => len i == 32) p (some (C19blockRequest n fin start q)) ≠ .ban := by
  have hnum : Gen.blockCommonNum.toNat = 10 := C19_gen_request_sizes_eq.2
  obtain ⟨hle, hgt, hmem⟩ := C19_heights_arith.1 start fin n 10 (by omega) hno
  have hall : ∀ x ∈ getHeightWithGap start fin n 10, x < q.length := by
    intro x hx
    have := (hmem x hx).2
    omega
  obtain ⟨h1, h2⟩ := idsAt_of_lt q _ hall
  have hcount : 1 ≤ (getHeightWithGap start fin n 10).length ∧ (getHeightWithGap start fin n 10).length ≤ 9 := by
    by_cases hsf : start ≤ fin
    · rw [hle hsf]; simp
    · obtain ⟨k, hk, hlist, _, hstop⟩ := hgt (by omega)
      rw [hlist, List.length_map, List.length_range]
      refine ⟨?_, by omega⟩
      cases k with
      | zero =>
        have := hstop (by omega)
        omega
      | succ k' => omega
  have hlenreq : (C19blockRequest n fin start q).length = (getHeightWithGap start fin n 10).length := by
    unfold C19blockRequest; rw [hnum, h1]
  have hne : C19blockRequest n fin start q ≠ [] := by
    intro h
    rw [h] at hlenreq
    simp only [List.length_nil] at hlenreq
    omega
  have hown : ∀ i ∈ C19blockRequest n fin start q, ∃ b ∈ q, b.id = i := by
    unfold C19blockRequest; rw [hnum]; exact h2
  exact ⟨by omega, by omega, accepted_of_own len q hlen _ hne hown p⟩

/-- with 103 validators and an own chain of at least 205 blocks the request carries exactly
`2·103-1 = 205` ids: any handler bound below 205 would refuse an honest request -/
theorem C19_main_net_request_size (q : List (Blk ι)) (hq : 205 ≤ q.length) (hql : q.length ≤ two32)
    (len : ι → Nat) (hlen : ∀ b ∈ q, len b.id = 32) :
    (C19fastRequest 103 q).length = 205 := by
  have hne : q ≠ [] := by intro h; rw [h] at hq; simp at hq
  rw [(C19_honest_request_accepted len 103 (by omega) (by omega) q hne hql hlen []).1]
  omega

end Requests

/-- non-vacuity: chain of 300 blocks with 32-byte ids (`len := fun _ => 32`), 103 validators -/
example : (C19fastRequest 103 ((List.range 300).map fun h => ({ id := h, prev := h - 1, height := h } : Blk Nat))).length = 205 :=
  C19_main_net_request_size _ (by simp) (by simp [two32]) (fun _ => 32) (fun _ _ => rfl)

/-! ## 3. Failure geometry of the fast synchroniser -/

section Geometry
variable {ι : Type} [DecidableEq ι]

/-- **Every failure of the fast synchroniser restores the original chain, in every geometry.**  The
requester chain `q` is valid for the processor and applying downloaded blocks finalizes nothing above
the finalized height the round started with.  Then for EVERY peer behaviour — whatever common block it
names (the requester's tip: the requester was only behind and nothing goes to the temp table, or a
block below the tip: own fork), however many of its blocks are applied before one fails (none: the
first downloaded block fails; some: a middle or the last one) and whichever request fails — a round
that ends with an error leaves exactly `q`; and when the error is a block the processor refused, the
peer is banned and the temp table is empty. -/
theorem C19_fast_sync_failure_restores_all_geometries (applies : List (Blk ι) → Blk ι → Bool)
    (finAfter : List (Blk ι) → Nat) (n fin : Nat) (q : List (Blk ι)) (target : Blk ι) (peer : Peer ι)
    (hv : ValidChain applies q) (hfa : ∀ c, finAfter c ≤ fin) :
    ((fastSync applies finAfter n fin q target peer).err ≠ none →
      (fastSync applies finAfter n fin q target peer).chain = q) ∧
    ((fastSync applies finAfter n fin q target peer).err = some .applyFailed →
      (fastSync applies finAfter n fin q target peer).banned = true ∧
      (fastSync applies finAfter n fin q target peer).temp = []) := by
  obtain ⟨h1, h2, h3⟩ := C19_fast_sync_failure_restores applies finAfter n fin q target peer
  refine ⟨?_, fun h => (h1 h).2⟩
  intro hne
  cases herr : (fastSync applies finAfter n fin q target peer).err with
  | none => exact absurd herr hne
  | some e =>
    apply h2 e herr
    intro he
    subst he
    exact h3 hfa hv herr

end Geometry

/-! ### The six cells {only behind, own fork} × {first, middle, last block fails}, evaluated

Chains over `Nat` ids: block `h` of the common part has id `h`, the requester's own blocks have ids
`100+h`, the peer's blocks ids `200+h`.  The peer is honest over its chain; the processor refuses the
block with id `bad` (and anything that does not extend the tip). -/

def C19gBlk (id prev h : Nat) : Blk Nat := { id := id, prev := prev, height := h }

/-- common part: heights 0..3 -/
def C19gCom : List (Blk Nat) := [C19gBlk 0 0 0, C19gBlk 1 0 1, C19gBlk 2 1 2, C19gBlk 3 2 3]
/-- the peer's chain: the common part and five blocks of its own -/
def C19gPeer : List (Blk Nat) :=
  C19gCom ++ [C19gBlk 204 3 4, C19gBlk 205 204 5, C19gBlk 206 205 6, C19gBlk 207 206 7, C19gBlk 208 207 8]
/-- requester with an own fork of two blocks -/
def C19gFork : List (Blk Nat) := C19gCom ++ [C19gBlk 104 3 4, C19gBlk 105 104 5]

def C19gApplies (bad : Nat) (c : List (Blk Nat)) (x : Blk Nat) : Bool :=
  x.height == c.length && (match c.getLast? with | some t => t.id == x.prev | none => false) && x.id != bad

/-- one round of fast sync (4 validators, finalized height 1) towards the peer's tip; the result as
(chain ids, temp ids, banned, error) -/
def C19gRun (q : List (Blk Nat)) (bad : Nat) : List Nat × List Nat × Bool × Option SyncErr :=
  let o := fastSync (C19gApplies bad) (fun _ => 0) 4 1 q (C19gBlk 208 207 8) (honest C19gPeer 0)
  (o.chain.map (·.id), o.temp.map (·.id), o.banned, o.err)

-- only behind (the common block is the requester's tip, empty temp table): first / middle / last block fails
example : C19gRun C19gCom 204 = ([0, 1, 2, 3], [], true, some .applyFailed) := by decide
example : C19gRun C19gCom 206 = ([0, 1, 2, 3], [], true, some .applyFailed) := by decide
example : C19gRun C19gCom 208 = ([0, 1, 2, 3], [], true, some .applyFailed) := by decide
-- own fork of two blocks: first / middle / last block fails
example : C19gRun C19gFork 204 = ([0, 1, 2, 3, 104, 105], [], true, some .applyFailed) := by decide
example : C19gRun C19gFork 206 = ([0, 1, 2, 3, 104, 105], [], true, some .applyFailed) := by decide
example : C19gRun C19gFork 208 = ([0, 1, 2, 3, 104, 105], [], true, some .applyFailed) := by decide
-- no failure: both end on the peer's chain
example : C19gRun C19gCom 999 = ([0, 1, 2, 3, 204, 205, 206, 207, 208], [], false, none) := by decide
example : C19gRun C19gFork 999 = ([0, 1, 2, 3, 204, 205, 206, 207, 208], [], false, none) := by decide

/-- **the only-behind geometry, stated on its own**: the common block named by the peer is the
requester's tip, `k ≥ 1` downloaded blocks were applied and the next one is refused — the result is the
original chain, NOT the original chain extended by the `k` applied blocks (an implementation of
`restoreBlocks` that returns early on an empty temp table leaves `q ++ applied`). -/
theorem C19_fast_sync_only_behind (applies : List (Blk Nat) → Blk Nat → Bool)
    (finAfter : List (Blk Nat) → Nat) (n fin : Nat) (q : List (Blk Nat)) (target : Blk Nat) (peer : Peer Nat)
    (hv : ValidChain applies q) (hfa : ∀ c, finAfter c ≤ fin)
    (herr : (fastSync applies finAfter n fin q target peer).err = some .applyFailed) :
    (fastSync applies finAfter n fin q target peer).chain = q ∧
    (fastSync applies finAfter n fin q target peer).temp = [] ∧
    (fastSync applies finAfter n fin q target peer).banned = true := by
  obtain ⟨h1, h2⟩ := C19_fast_sync_failure_restores_all_geometries applies finAfter n fin q target peer hv hfa
  exact ⟨h1 (by rw [herr]; simp), (h2 herr).2, (h2 herr).1⟩

/-- … and it is not vacuous: in the evaluated only-behind run two blocks of the peer were applied
before block 206 was refused, and the result is still the original chain -/
example : (C19gRun C19gCom 206).1 = C19gCom.map (·.id) := by decide
