/-
C14 — the pool invariant under operations INTERLEAVED into an operation that drops the pool lock.

pkg/txpool has exactly two places where a pool operation is in progress while no pool or list lock is
held (everything else — `Add` including its verifier call and `conn.Publish`, `Remove`, the getters —
runs under the pool mutex from beginning to end, see `Props/C14_Locks.lean`):

* `reorg` (the periodic promotion): each per-sender goroutine takes `GetPromotable()` /
  `GetProcessables()` (a snapshot), then calls the application through `verifyTransactions` WITHOUT a
  lock, then applies the verdicts with `list.Promote(batch)` and `t.remove(id)`;
* `onTransactionAnnoucement`: asks the application without a lock, then calls `Add`.

`Model/TxPoolSplit.lean` models both with the window made explicit: `reorgSplit cfg v p inner` is a
promotion round on pool `p` with the operations `inner` (ANY list of add / remove / block-applied /
block-reverted / nested promotion operations) executed after all snapshots were taken and before any
verdict is applied; it keeps track of sender lists that were unregistered (and possibly re-created) in the
window, on which the goroutine's `Promote` works on an orphan.  The harness runs exactly this schedule on
the real pool (op `reorgx`: the scripted verifier holds every goroutine in its first call until the
inner operations are done) and diffs the result with the compiled model.

Theorems (all for every configuration with limits ≥ 1, every verifier, every inner operation list):
* `C14_reorg_split_preserves_inv` — the split round preserves `C14Inv`;
* `C14_announce_split_preserves_inv` — so does an announcement with operations in its window;
* `C14_inv_all_interleaved` — hence `C14Inv` holds after every history built from plain operations,
  split rounds and split announcements (`runX`), with its consequences `C14_interleaved_indexes_agree`,
  `C14_interleaved_bounded`, `C14_interleaved_processable_gapfree`, `C14_interleaved_no_panic`;
* `C14_reorg_split_nil` — with an empty window the split round is the sequential round of `Model/TxPool`
  (same pool), so the earlier theorems about `reorg` are the special case;
* `C14_promote_recheck_sequentially_redundant` — the continuity re-check of the fixed `Promote` never fires
  for a batch that was selected from the current list, i.e. the fix does not change sequential behaviour.

FINDING (fixed by /verif/fixes/C14-promote-stale-batch.patch): `C14_finding_window_gap_original` — with
the `Promote` of the source before the fix (which re-checks only that every batch transaction is still the
one stored at its nonce), replacing or removing a transaction INSIDE the processable run during the window
shortens that run, and the stale batch is appended behind the hole: processable nonces `[0, 3, 4]`.
`C14_window_no_gap_fixed` is the same history with the fixed `Promote`.

The two seeded regressions this file was written against are refuted on the model as well:
`C14_cx_promote_skip_gap` (a `Promote` that skips vanished batch members instead of abandoning the batch)
and `C14_cx_remove_by_nonce_disagree` (dropping the invalid suffix from the sender list by nonce instead of
by id) both break `C14Inv`-clauses on concrete interleavings.
-/
import LiskVerif.Lemmas.TxPoolSplit

open LiskVerif LiskVerif.TxPool

/-- **The promotion round with ANY operations interleaved into its verification window preserves the
invariant** (fixed `Promote`). -/
theorem C14_reorg_split_preserves_inv (cfg : Cfg) (hmax : 1 ≤ cfg.maxTx) (hper : 1 ≤ cfg.maxPerAcct)
    (v : Nat → Verdict) (p : Pool) (h : C14Inv cfg p) (inner : List Op) :
    C14Inv cfg (reorgSplit cfg v p inner) := reorgSplit_inv hmax hper h v inner

/-- Phase 2 alone is safe from ANY invariant state, for any snapshot whose promotable nonces form a run, and
whether or not the goroutine's list object is still the registered one — the fact the theorem above rests
on: nothing that happened in the window has to be assumed. -/
theorem C14_reorg_apply_preserves_inv (cfg : Cfg) (v : Nat → Verdict) (alive : Bool) (p : Pool) (h : C14Inv cfg p)
    (sn : Snap) (hrun : ∃ first m, sn.prom.map (·.nonce) = List.range' first m) :
    C14Inv cfg (reorgApply Acct.promoteChecked v alive p sn) := reorgApply_inv h v alive sn hrun

/-- An announcement from a peer with operations in the window between its verifier call and its `Add`. -/
theorem C14_announce_split_preserves_inv (cfg : Cfg) (hmax : 1 ≤ cfg.maxTx) (hper : 1 ≤ cfg.maxPerAcct)
    (p : Pool) (h : C14Inv cfg p) (x : AddArg) (inner : List Op) :
    C14Inv cfg (announceSplit cfg p x inner) := announceSplit_inv hmax hper h x inner

/-- Hence the invariant holds after every history with interleaved operations. -/
theorem C14_inv_all_interleaved (cfg : Cfg) (hmax : 1 ≤ cfg.maxTx) (hper : 1 ≤ cfg.maxPerAcct) (ops : List OpX) :
    C14Inv cfg (runX cfg ops) := runX_inv hmax hper ops

/-- With an empty window the split round is the sequential round. -/
theorem C14_reorg_split_nil (cfg : Cfg) (v : Nat → Verdict) (p : Pool) (h : C14Inv cfg p) :
    reorgSplit cfg v p [] = reorg v p := reorgSplit_nil h v

/-- The continuity re-check added to `Promote` never fires on the sequential path: for every prefix of
what is promotable now the fixed and the original `Promote` agree. -/
theorem C14_promote_recheck_sequentially_redundant (a : Acct) (k : Nat) :
    a.promoteChecked (a.promotable.take k) = a.promote (a.promotable.take k) := promoteChecked_promotable a k

/-- The indexes agree after every interleaved history. -/
theorem C14_interleaved_indexes_agree (cfg : Cfg) (hmax : 1 ≤ cfg.maxTx) (hper : 1 ≤ cfg.maxPerAcct)
    (ops : List OpX) :
    let p := runX cfg ops
    (∀ t ∈ p.all, ∃ a, findAcct p.accts t.sender = some a ∧ a.get t.nonce = some t) ∧
    (∀ e ∈ p.accts, e.2.txs ≠ [] ∧ ∀ t ∈ e.2.txs, t ∈ p.all ∧ t.sender = e.1 ∧ e.2.get t.nonce = some t) ∧
    (p.accts.map (·.1)).Nodup ∧ (p.all.map (·.id)).Nodup ∧ p.heap.Perm p.all := by
  intro p
  have h : C14Inv cfg p := runX_inv hmax hper ops
  refine ⟨?_, ?_, h.acctsNodup, h.allNodup, h.heapPerm⟩
  · intro t ht
    obtain ⟨a, ha, hta⟩ := h.allInAcct t ht
    exact ⟨a, findAcct_of_mem h.acctsNodup ha, get_of_mem (h.acctOk _ ha).nodup hta⟩
  · intro e he
    have hai := h.acctOk e he
    exact ⟨hai.nonempty, fun t ht => ⟨h.acctInAll e he t ht, hai.sender t ht, get_of_mem hai.nodup ht⟩⟩

/-- Sizes stay within the limits after every interleaved history. -/
theorem C14_interleaved_bounded (cfg : Cfg) (hmax : 1 ≤ cfg.maxTx) (hper : 1 ≤ cfg.maxPerAcct) (ops : List OpX) :
    (runX cfg ops).all.length ≤ cfg.maxTx ∧ ∀ e ∈ (runX cfg ops).accts, e.2.txs.length ≤ cfg.maxPerAcct := by
  have h : C14Inv cfg (runX cfg ops) := runX_inv hmax hper ops
  exact ⟨h.bounded, fun e he => (h.acctOk e he).bound⟩

/-- Each sender's processable set is a strictly ascending run without gaps, held by the list, after every
interleaved history. -/
theorem C14_interleaved_processable_gapfree (cfg : Cfg) (hmax : 1 ≤ cfg.maxTx) (hper : 1 ≤ cfg.maxPerAcct)
    (ops : List OpX) :
    ∀ e ∈ (runX cfg ops).accts,
      e.2.proc.Pairwise (· < ·) ∧
      (∀ x ∈ e.2.proc, ∀ y ∈ e.2.proc, ∀ z, x ≤ z → z ≤ y → z ∈ e.2.proc) ∧
      (∀ n ∈ e.2.proc, ∃ t, e.2.get n = some t) := by
  intro e he
  have hai := (runX_inv hmax hper ops).acctOk e he
  refine ⟨hai.gapfree.1, hai.gapfree.2, ?_⟩
  intro n hn
  obtain ⟨t, ht, htn⟩ := hai.procIn n hn
  obtain ⟨t', ht'⟩ := get_isSome_of_mem ht
  exact ⟨t', htn ▸ ht'⟩

/-- No nil-list dereference in `removeLocked` after any interleaved history. -/
theorem C14_interleaved_no_panic (cfg : Cfg) (hmax : 1 ≤ cfg.maxTx) (hper : 1 ≤ cfg.maxPerAcct) (ops : List OpX) :
    (runX cfg ops).fault = false := (runX_inv hmax hper ops).noFault

/-! ### the finding, and the seeded regressions, on concrete interleavings -/

namespace C14X

def cfg : Cfg := { maxTx := 8, maxPerAcct := 8, minFeeDiff := 10, minEntrance := 0 }
def tx (id nonce fee : Nat) : Tx := { id := id, sender := 1, nonce := nonce, fee := fee, size := 100 }
def arg (t : Tx) : AddArg := { tx := t, v := .ok, pubOk := true, tie := 0 }
def allOk : Nat → Verdict := fun _ => .ok

/-- nonces 0,1,2 processable, 3,4 pooled behind them -/
def base : Pool :=
  run cfg [.add (arg (tx 10 0 1000)), .add (arg (tx 11 1 1000)), .add (arg (tx 12 2 1000)), .reorg allOk,
           .add (arg (tx 13 3 1000)), .add (arg (tx 14 4 1000))]

/-- in the window: nonce 1 is replaced by a better paying transaction -/
def replace1 : List Op := [.add (arg (tx 21 1 5000))]

/-- C14-5: a `Promote` that skips batch members which vanished instead of abandoning the batch -/
def promoteSkip (a : Acct) (txs : List Tx) : Acct :=
  let keep := txs.filter (fun t => match a.get t.nonce with | some e => e.id == t.id | none => false)
  if keep.isEmpty then a else { a with proc := sortUniq (a.proc ++ keep.map (·.nonce)) }

/-- nonces 0..3 pooled, nothing processable yet -/
def fresh : Pool :=
  run cfg [.add (arg (tx 10 0 1000)), .add (arg (tx 11 1 1000)), .add (arg (tx 12 2 1000)), .add (arg (tx 13 3 1000))]

/-- C14-6: phase 2 dropping the invalid suffix from the sender list by NONCE (and from `allTransactions`
by id) -/
def removeByNonce (p : Pool) (t : Tx) : Pool :=
  let all' := p.all.filter (fun x => x.id != t.id)
  match findAcct p.accts t.sender with
  | none => { p with all := all', heap := all' }
  | some a =>
    let a' := (a.remove t.nonce).1
    { p with all := all', heap := all',
             accts := if a'.txs.isEmpty then delAcct p.accts t.sender else setAcct p.accts t.sender a' }

end C14X

open C14X in
/-- FINDING (source before fix C14-promote-stale-batch): a replacement inside the processable run during the
verification window leaves the processable set `[0, 3, 4]` — nonces 1 and 2 are pooled but not processable. -/
theorem C14_finding_window_gap_original :
    (reorgSplitOrig cfg allOk base replace1).accts.map (fun e => (e.2.sortedNonces, e.2.proc)) =
      [([0, 1, 2, 3, 4], [0, 3, 4])] := by decide

open C14X in
/-- the same interleaving with the fixed `Promote`: the stale batch is abandoned; the next round promotes
the whole run again -/
theorem C14_window_no_gap_fixed :
    (reorgSplit cfg allOk base replace1).accts.map (fun e => e.2.proc) = [[0]] ∧
    (reorg allOk (reorgSplit cfg allOk base replace1)).accts.map (fun e => e.2.proc) = [[0, 1, 2, 3, 4]] := by
  decide

open C14X in
/-- seeded regression C14-5 on the model: nonce 2 of the batch `0..3` is removed in the window; skipping it
promotes 3 behind the hole. -/
theorem C14_cx_promote_skip_gap :
    (reorgSplitWith promoteSkip cfg allOk fresh [.remove 12]).accts.map (fun e => e.2.proc) = [[0, 1, 3]] ∧
    (reorgSplit cfg allOk fresh [.remove 12]).accts.map (fun e => e.2.proc) = [[]] := by decide

open C14X in
/-- seeded regression C14-6 on the model: nonce 1 is invalid, nonce 2 is replaced in the window; removing the
suffix by nonce throws the NEW transaction out of the list but leaves it in `allTransactions`, while the
code's removal by id keeps the three indexes in agreement. -/
theorem C14_cx_remove_by_nonce_disagree :
    let v : Nat → Verdict := fun id => if id = 11 then .invalid else .ok
    let q := applyOp cfg fresh (.add (arg (tx 22 2 5000)))
    let bad := [tx 11 1 1000, tx 12 2 1000, tx 13 3 1000].foldl removeByNonce q
    (bad.all.map (·.id) = [22, 10] ∧ bad.accts.map (fun e => e.2.txs.map (·.id)) = [[10]]) ∧
    (let good := reorgSplit cfg v fresh [.add (arg (tx 22 2 5000))]
     good.all.map (·.id) = [22, 10] ∧ good.accts.map (fun e => e.2.txs.map (·.id)) = [[22, 10]]) := by
  decide

/-! ### non-vacuity -/

open C14X in
example : C14Inv cfg base := run_inv (by decide) (by decide) _

open C14X in
/-- a window that unregisters the sender's list and re-creates it: the goroutine promotes on the orphan, the
re-added transactions stay unprocessable (and are promoted by the next round) -/
example :
    let one : Pool := run cfg [.add (arg (tx 10 0 1000))]
    (reorgSplit cfg allOk one [.remove 10, .add (arg (tx 10 0 1000))]).accts.map (fun e => e.2.proc) = [[]] ∧
    (reorgSplit cfg allOk one []).accts.map (fun e => e.2.proc) = [[0]] := by decide

open C14X in
/-- an invalid verdict at nonce 2 while nonce 0 is removed in the window: the batch `[0, 1]` is abandoned (its
first member is gone), the invalid suffix `[2, 3]` is dropped -/
example :
    let v : Nat → Verdict := fun id => if id = 12 then .invalid else .ok
    let q := reorgSplit cfg v fresh [.remove 10]
    q.all.map (·.id) = [11] ∧ q.accts.map (fun e => e.2.proc) = [[]] := by decide

open C14X in
example : (runX cfg [.plain (.add (arg (tx 10 0 1000))), .annx (arg (tx 11 1 1000)) [.remove 10],
    .reorgx allOk [.add (arg (tx 10 0 1000))]]).accts.map (fun e => e.2.proc) = [[1]] := by decide
