/-
C08 — strings that are NOT in NFC form (`LiskVerif.Model.Codec`, NFC a parameter of the model).

`Writer.WriteString` writes the NORMAL FORM of the string: key, then the byte length of the normal
form, then the normal form. For a string whose normal form has another byte length (e + U+0301,
U+2126, U+0958, Hangul jamo …) a length prefix taken from the string itself does not describe the
payload that follows it.

* `C08_nfc_string_field_length_is_of_normal_form`
        the encoding of a string field is key ++ varint(|nfc s|) ++ nfc s — every s, every nfc function,
        every table, whatever surrounds the field
* `C08_nfc_normalize_idempotent`     the two laws of NFC used below give idempotence
* `C08_nfc_string_field_roundtrip`   reading such a field back (lenient or strict) returns nfc s and
                                     stops exactly behind it, under the two laws
                                     `normal (nfc s)` and `normal s → nfc s = s`
* `C08_nfc_roundtrip_flat`           whole flat structs with ARBITRARY strings: Decode / DecodeStrict of
                                     Encode returns the value with every string normalised
* `C08_nfc_roundtrip_all_schemas`    the same for every regenerated struct at any nesting depth
* `C08_nfc_transaction_roundtrip`, `C08_nfc_transaction_id_stable`, `C08_nfc_blockAsset_roundtrip`
                                     spelled out for blockchain.Transaction / blockchain.BlockAsset
* `C08_nfc_length_from_raw_string_differs`
                                     a writer that takes the length from s itself never produces the
                                     right bytes when |nfc s| ≠ |s|
* `C08_nfc_length_from_raw_string_counterexample`, `C08_nfc_length_from_raw_string_longer_counterexample`
                                     … and the decoders mis-parse (lenient: another string, following
                                     field lost) or reject (strict; both when more follows) its output

The harness side is the pseudo-property C08NFC (harness/c08/nfc.go, Driver/CodecNFC.lean): the model
runs with `nfc` instantiated by the table raw ↦ nfc that x/text computed for the generated strings.
-/
import LiskVerif.Lemmas.CodecNested
import LiskVerif.Props.C08
import LiskVerif.Props.C08_Nested

open LiskVerif LiskVerif.Codec LiskVerif.Gen

/-! ### the wire format of a string field -/

/-- **The length prefix of a string field is the byte length of the normal form**: for every string
`s`, every NFC function, every table, every field number and whatever fields follow, `Encode` writes
key, `varint |nfc s|`, `nfc s`. -/
theorem C08_nfc_string_field_length_is_of_normal_form (t : Table) (nfc : NFC) (fuel num : Nat)
    (st : Bool) (s : Bytes) (fs : List Field) (vs : List Value) :
    encodeFields t nfc fuel (⟨num, .string, st⟩ :: fs) (.bytes s :: vs) =
      writeKey 2 num ++ putUvarint (nfc.normalize s).length ++ nfc.normalize s ++
        encodeFields t nfc fuel fs vs := by
  rw [encodeFields_cons]
  simp only [encField, writeBytes, List.append_assoc]

/-- the two laws of `norm.NFC` the round trip of strings relies on: a normal form is normal, and a
normal string is its own normal form -/
structure C08NFCLaws (nfc : NFC) : Prop where
  normal_normalize : ∀ b, nfc.normal (nfc.normalize b) = true
  fix : ∀ b, nfc.normal b = true → nfc.normalize b = b

theorem C08_nfc_normalize_idempotent (nfc : NFC) (h : C08NFCLaws nfc) (b : Bytes) :
    nfc.normalize (nfc.normalize b) = nfc.normalize b :=
  h.fix _ (h.normal_normalize b)

/-- **Round trip of one string field**: a reader standing before key ++ varint |nfc s| ++ nfc s
(followed by the end or a later field) reads — leniently or strictly — the string `nfc s` and stops
exactly behind the payload. -/
theorem C08_nfc_string_field_roundtrip (t : Table) (nfc : NFC) (hlaw : C08NFCLaws nfc)
    (fuel num : Nat) (st : Bool) (s tail : Bytes) (r : Reader)
    (hnum : num * 8 + 2 < 2 ^ 64) (hu : utf8Valid (nfc.normalize s) = true)
    (hl : (nfc.normalize s).length < 2 ^ 63) (ht : TailOK num tail)
    (h : r.Holds (writeKey 2 num ++ putUvarint (nfc.normalize s).length ++ nfc.normalize s ++ tail)) :
    decodeField t nfc (fuel + 1) ⟨num, .string, st⟩ r =
      .ok (.bytes (nfc.normalize s),
        r.adv (writeKey 2 num ++ putUvarint (nfc.normalize s).length ++ nfc.normalize s).length) := by
  have hid := C08_nfc_normalize_idempotent nfc hlaw s
  have henc : encField t nfc 0 ⟨num, .string, st⟩ (.bytes (nfc.normalize s)) =
      writeKey 2 num ++ putUvarint (nfc.normalize s).length ++ nfc.normalize s := by
    simp only [encField, writeBytes, hid, List.append_assoc]
  have hty : typedVal nfc (Field.kind ⟨num, .string, st⟩) (.bytes (nfc.normalize s)) = true := by
    simp only [typedVal, Bool.and_eq_true, decide_eq_true_eq]
    exact ⟨⟨⟨hl, hu⟩, hlaw.normal_normalize s⟩, hid⟩
  have := decodeField_put t nfc 0 fuel ⟨num, .string, st⟩ (.bytes (nfc.normalize s)) r tail rfl hnum
    hty (fun hk => by simp at hk) ht (by rw [henc]; exact h)
  rw [henc] at this
  exact this

/-! ### whole structs with arbitrary strings -/

/-- like `C08TypedVal`, but a string only has to HAVE a valid normal form shorter than 2^63 bytes — it
need not be normal itself -/
def C08RawTypedVal (nfc : NFC) : Kind → Value → Bool
  | .string, .bytes b => decide ((nfc.normalize b).length < 2 ^ 63) && utf8Valid (nfc.normalize b)
  | k, v => C08TypedVal nfc k v

def C08RawTyped (nfc : NFC) : List Field → List Value → Bool
  | [], [] => true
  | f :: fs, v :: vs => C08RawTypedVal nfc f.kind v && C08RawTyped nfc fs vs
  | _, _ => false

private theorem C08rawTyped_norm (t : Table) (nfc : NFC) (hlaw : C08NFCLaws nfc) :
    ∀ (fs : List Field) (vs : List Value), C08RawTyped nfc fs vs = true →
      C08Typed nfc fs (C08NormDeep t nfc 0 fs vs) = true := by
  intro fs
  induction fs with
  | nil => intro vs h; cases vs with
    | nil => rfl
    | cons _ _ => simp [C08RawTyped] at h
  | cons f fs ih =>
    intro vs h
    cases vs with
    | nil => simp [C08RawTyped] at h
    | cons v vs =>
      simp only [C08RawTyped, Bool.and_eq_true] at h
      have ih' := ih vs h.2
      unfold C08NormDeep at ih' ⊢
      simp only [normWith, C08Typed, Bool.and_eq_true]
      refine ⟨?_, ih'⟩
      obtain ⟨num, kind, st⟩ := f
      have h1 := h.1
      simp only at h1 ⊢
      cases kind <;> cases v <;>
        first
        | (simpa [C08RawTypedVal, normValDeep] using h1)
        | (simp only [C08RawTypedVal, Bool.and_eq_true, decide_eq_true_eq] at h1
           simp only [normValDeep, C08TypedVal, Bool.and_eq_true, decide_eq_true_eq]
           exact ⟨⟨⟨h1.1, h1.2⟩, hlaw.normal_normalize _⟩, C08_nfc_normalize_idempotent nfc hlaw _⟩)

/-- **Round trip of flat structs with arbitrary strings** (any table, any NFC function obeying the two
laws): both decoders accept `Encode(v)` and return `v` with every string replaced by its normal form. -/
theorem C08_nfc_roundtrip_flat (t : Table) (nfc : NFC) (hlaw : C08NFCLaws nfc) (s : Schema)
    (vals : List Value) (hs : C08Flat s = true) (hv : C08RawTyped nfc s.enc vals = true)
    (hlen : C08NoUints s = true ∨ (encode t nfc s vals).length < 2 ^ 63) :
    decode t nfc s (encode t nfc s vals) = .ok (C08NormDeep t nfc 0 s.enc vals) ∧
    decodeStrict t nfc s (encode t nfc s vals) = .ok (C08NormDeep t nfc 0 s.enc vals) := by
  have e : encode t nfc s (C08NormDeep t nfc 0 s.enc vals) = encode t nfc s vals :=
    encode_norm t nfc (C08_nfc_normalize_idempotent nfc hlaw) s 0 vals
  have := C08_roundtrip_flat t nfc s (C08NormDeep t nfc 0 s.enc vals) hs
    (C08rawTyped_norm t nfc hlaw s.enc vals hv) (by rw [e]; exact hlen)
  rw [e] at this
  exact this

/-- … and re-encoding what was decoded gives the same bytes, hence the same hash: IDs computed over a
value with raw strings are the IDs of the decoded value. -/
theorem C08_nfc_reencode_stable_flat (t : Table) (nfc : NFC) (hlaw : C08NFCLaws nfc) (s : Schema)
    (vals vals' : List Value) (hs : C08Flat s = true) (hv : C08RawTyped nfc s.enc vals = true)
    (hlen : C08NoUints s = true ∨ (encode t nfc s vals).length < 2 ^ 63) (hash : Bytes → Bytes)
    (h : decode t nfc s (encode t nfc s vals) = .ok vals' ∨
      decodeStrict t nfc s (encode t nfc s vals) = .ok vals') :
    hash (encode t nfc s vals') = hash (encode t nfc s vals) := by
  obtain ⟨h1, h2⟩ := C08_nfc_roundtrip_flat t nfc hlaw s vals hs hv hlen
  have e : encode t nfc s (C08NormDeep t nfc 0 s.enc vals) = encode t nfc s vals :=
    encode_norm t nfc (C08_nfc_normalize_idempotent nfc hlaw) s 0 vals
  rcases h with h | h
  · rw [h1] at h; injection h with h; rw [← h, e]
  · rw [h2] at h; injection h with h; rw [← h, e]

/-- **Every regenerated struct, any nesting depth**: if the normalised value tree is well-typed,
decoding the encoding of the raw tree returns the normalised tree (the two laws give the idempotence
`C08_roundtrip_nested_nfc` asks for). -/
theorem C08_nfc_roundtrip_all_schemas (nfc : NFC) (hlaw : C08NFCLaws nfc) (s : Schema)
    (hs : s ∈ allSchemas) (d : Nat) (vals : List Value)
    (hv : C08TypedDeep allSchemas nfc d s.enc (C08NormDeep allSchemas nfc d s.enc vals) = true)
    (hlen : (encode allSchemas nfc s vals).length < 2 ^ 63) :
    decode allSchemas nfc s (encode allSchemas nfc s vals) =
      .ok (C08NormDeep allSchemas nfc d s.enc vals) ∧
    decodeStrict allSchemas nfc s (encode allSchemas nfc s vals) =
      .ok (C08NormDeep allSchemas nfc d s.enc vals) :=
  C08_roundtrip_nested_nfc allSchemas C09rank nfc C08_allSchemas_deepWF
    (C08_nfc_normalize_idempotent nfc hlaw) s hs d vals hv hlen

/-! ### blockchain.Transaction and blockchain.BlockAsset -/

private theorem C08nfc_find {name : String} {e d st : List Field}
    (h : (allSchemas.find name).map (fun s => (s.enc, s.dec, s.decStrict)) = some (e, d, st))
    {s : Schema} (hs : allSchemas.find name = some s) :
    s.enc = e ∧ s.dec = d ∧ s.decStrict = st := by
  rw [hs] at h
  simp only [Option.map_some, Option.some.injEq, Prod.mk.injEq] at h
  exact h

private theorem C08nfc_tx_flat {s : Schema} (hs : allSchemas.find "blockchain.Transaction" = some s) :
    C08Flat s = true ∧ C08NoUints s = true := by
  obtain ⟨h1, h2, h3⟩ := C08nfc_find C08_transaction_schema hs
  unfold C08Flat C08NoUints
  rw [h1, h2, h3]
  decide

private theorem C08nfc_asset_flat {s : Schema} (hs : allSchemas.find "blockchain.BlockAsset" = some s) :
    C08Flat s = true ∧ C08NoUints s = true := by
  obtain ⟨h1, h2, h3⟩ := C08nfc_find C08_blockAsset_schema hs
  unfold C08Flat C08NoUints
  rw [h1, h2, h3]
  decide

/-- **Transaction round trip with arbitrary module / command strings**: whatever valid strings the
two names are (normal or not, normal form shorter, longer or as long), `Decode` and `DecodeStrict` of
`Encode` return the transaction with the two names normalised. -/
theorem C08_nfc_transaction_roundtrip (nfc : NFC) (hlaw : C08NFCLaws nfc) (s : Schema)
    (hs : allSchemas.find "blockchain.Transaction" = some s)
    (module command : Bytes) (nonce fee : Nat) (senderPublicKey params : Bytes) (signatures : List Bytes)
    (hm : utf8Valid (nfc.normalize module) = true) (hml : (nfc.normalize module).length < 2 ^ 63)
    (hc : utf8Valid (nfc.normalize command) = true) (hcl : (nfc.normalize command).length < 2 ^ 63)
    (hn : nonce < 2 ^ 64) (hf : fee < 2 ^ 64)
    (hk : senderPublicKey.length < 2 ^ 63) (hp : params.length < 2 ^ 63)
    (hsig : ∀ x ∈ signatures, x.length < 2 ^ 63) :
    let vals := [.bytes module, .bytes command, .uint nonce, .uint fee, .bytes senderPublicKey,
      .bytes params, .bytesArr signatures]
    let normal := [.bytes (nfc.normalize module), .bytes (nfc.normalize command), .uint nonce, .uint fee,
      .bytes senderPublicKey, .bytes params, .bytesArr signatures]
    decode allSchemas nfc s (encode allSchemas nfc s vals) = .ok normal ∧
    decodeStrict allSchemas nfc s (encode allSchemas nfc s vals) = .ok normal := by
  intro vals normal
  obtain ⟨hflat, hnu⟩ := C08nfc_tx_flat hs
  have he := (C08nfc_find C08_transaction_schema hs).1
  have hv : C08RawTyped nfc s.enc vals = true := by
    rw [he]
    simp only [vals, C08txFields, C08RawTyped, C08RawTypedVal, C08TypedVal, Bool.and_eq_true,
      decide_eq_true_eq, List.all_eq_true, hm, hc]
    exact ⟨⟨hml, trivial⟩, ⟨hcl, trivial⟩, hn, hf, hk, hp, hsig, trivial⟩
  have := C08_nfc_roundtrip_flat allSchemas nfc hlaw s vals hflat hv (Or.inl hnu)
  have hn' : C08NormDeep allSchemas nfc 0 s.enc vals = normal := by
    rw [he]; rfl
  rw [hn'] at this
  exact this

/-- **The transaction ID does not depend on whether the names were normalised**: the hash of the
encoding of the raw transaction is the hash of the encoding of what the decoders return for it. -/
theorem C08_nfc_transaction_id_stable (nfc : NFC) (hlaw : C08NFCLaws nfc) (s : Schema)
    (hs : allSchemas.find "blockchain.Transaction" = some s) (hash : Bytes → Bytes)
    (module command : Bytes) (nonce fee : Nat) (senderPublicKey params : Bytes) (signatures : List Bytes)
    (hm : utf8Valid (nfc.normalize module) = true) (hml : (nfc.normalize module).length < 2 ^ 63)
    (hc : utf8Valid (nfc.normalize command) = true) (hcl : (nfc.normalize command).length < 2 ^ 63)
    (hn : nonce < 2 ^ 64) (hf : fee < 2 ^ 64)
    (hk : senderPublicKey.length < 2 ^ 63) (hp : params.length < 2 ^ 63)
    (hsig : ∀ x ∈ signatures, x.length < 2 ^ 63) (vals' : List Value)
    (h : decodeStrict allSchemas nfc s (encode allSchemas nfc s
      [.bytes module, .bytes command, .uint nonce, .uint fee, .bytes senderPublicKey, .bytes params,
       .bytesArr signatures]) = .ok vals') :
    hash (encode allSchemas nfc s vals') = hash (encode allSchemas nfc s
      [.bytes module, .bytes command, .uint nonce, .uint fee, .bytes senderPublicKey, .bytes params,
       .bytesArr signatures]) := by
  obtain ⟨hflat, hnu⟩ := C08nfc_tx_flat hs
  have he := (C08nfc_find C08_transaction_schema hs).1
  refine C08_nfc_reencode_stable_flat allSchemas nfc hlaw s _ vals' hflat ?_ (Or.inl hnu) hash (Or.inr h)
  rw [he]
  simp only [C08txFields, C08RawTyped, C08RawTypedVal, C08TypedVal, Bool.and_eq_true,
    decide_eq_true_eq, List.all_eq_true, hm, hc]
  exact ⟨⟨hml, trivial⟩, ⟨hcl, trivial⟩, hn, hf, hk, hp, hsig, trivial⟩

/-- the same for a block asset (module name: string, data: bytes) -/
theorem C08_nfc_blockAsset_roundtrip (nfc : NFC) (hlaw : C08NFCLaws nfc) (s : Schema)
    (hs : allSchemas.find "blockchain.BlockAsset" = some s) (module data : Bytes)
    (hm : utf8Valid (nfc.normalize module) = true) (hml : (nfc.normalize module).length < 2 ^ 63)
    (hd : data.length < 2 ^ 63) :
    decode allSchemas nfc s (encode allSchemas nfc s [.bytes module, .bytes data]) =
      .ok [.bytes (nfc.normalize module), .bytes data] ∧
    decodeStrict allSchemas nfc s (encode allSchemas nfc s [.bytes module, .bytes data]) =
      .ok [.bytes (nfc.normalize module), .bytes data] := by
  obtain ⟨hflat, hnu⟩ := C08nfc_asset_flat hs
  have he := (C08nfc_find C08_blockAsset_schema hs).1
  have hv : C08RawTyped nfc s.enc [.bytes module, .bytes data] = true := by
    rw [he]
    simp only [C08assetFields, C08RawTyped, C08RawTypedVal, C08TypedVal, Bool.and_eq_true,
      decide_eq_true_eq, hm]
    exact ⟨⟨hml, trivial⟩, hd, trivial⟩
  have := C08_nfc_roundtrip_flat allSchemas nfc hlaw s _ hflat hv (Or.inl hnu)
  have hn' : C08NormDeep allSchemas nfc 0 s.enc [.bytes module, .bytes data] =
      [.bytes (nfc.normalize module), .bytes data] := by
    rw [he]; rfl
  rw [hn'] at this
  exact this

/-! ### a writer that takes the length from the string itself -/

/-- the writer of the defect class: key, the byte length of the string AS GIVEN, then the normal form -/
def C08badWriteString (nfc : NFC) (num : Nat) (s : Bytes) : Bytes :=
  writeKey 2 num ++ putUvarint s.length ++ nfc.normalize s

/-- **Such a writer is wrong for every string whose normal form has another byte length**: its output
differs from the encoding of the string field (`C08_nfc_string_field_length_is_of_normal_form`). -/
theorem C08_nfc_length_from_raw_string_differs (nfc : NFC) (num : Nat) (s : Bytes)
    (hs : s.length < 2 ^ 64) (hn : (nfc.normalize s).length < 2 ^ 64)
    (hne : (nfc.normalize s).length ≠ s.length) :
    C08badWriteString nfc num s ≠
      writeKey 2 num ++ putUvarint (nfc.normalize s).length ++ nfc.normalize s := by
  intro h
  unfold C08badWriteString at h
  have h1 := List.append_cancel_right h
  have h2 := List.append_cancel_left h1
  exact hne (C08_varint_injective _ _ hn hs h2.symm)

/-- a fragment of NFC: e + U+0301 COMBINING ACUTE ACCENT (65 CC 81) ↦ U+00E9 (C3 A9), and
U+0344 (CD 84) ↦ U+0308 U+0301 (CC 88 CC 81); every other string is left alone -/
def C08fragmentNFC : NFC :=
  { normal := fun b => b != [0x65, 0xCC, 0x81] && b != [0xCD, 0x84],
    normalize := fun b =>
      if b = [0x65, 0xCC, 0x81] then [0xC3, 0xA9]
      else if b = [0xCD, 0x84] then [0xCC, 0x88, 0xCC, 0x81] else b }

theorem C08_nfc_fragment_laws : C08NFCLaws C08fragmentNFC := by
  constructor
  · intro b
    simp only [C08fragmentNFC]
    by_cases h1 : b = [0x65, 0xCC, 0x81]
    · simp [h1]
    · by_cases h2 : b = [0xCD, 0x84]
      · simp [h2]
      · simp [h1, h2]
  · intro b h
    simp only [C08fragmentNFC, Bool.and_eq_true, bne_iff_ne, ne_eq] at h ⊢
    simp [h.1, h.2]

/-- **Shorter normal form.** Block asset with module name e + U+0301 (3 bytes, normal form 2 bytes)
and empty data, written with the length of the raw string: the lenient decoder silently returns
ANOTHER module name (the normal form plus the key byte of the next field) and loses the data field,
the strict decoder rejects the bytes; with one byte of data both reject. The right encoding
round-trips. -/
theorem C08_nfc_length_from_raw_string_counterexample (s : Schema)
    (hs : allSchemas.find "blockchain.BlockAsset" = some s) :
    let nfc := C08fragmentNFC
    let name : Bytes := [0x65, 0xCC, 0x81]
    let bad (data : Bytes) : Bytes := C08badWriteString nfc 1 name ++ writeKey 2 2 ++ writeBytes data
    (nfc.normalize name).length ≠ name.length ∧
    bad [] = [0x0a, 3, 0xC3, 0xA9, 0x12, 0] ∧
    encode allSchemas nfc s [.bytes name, .bytes []] = [0x0a, 2, 0xC3, 0xA9, 0x12, 0] ∧
    decode allSchemas nfc s (bad []) = .ok [.bytes [0xC3, 0xA9, 0x12], .bytes []] ∧
    decodeStrict allSchemas nfc s (bad []) = .error .unexpectedFieldNumber ∧
    decode allSchemas nfc s (bad [7]) = .error .invalidData ∧
    decodeStrict allSchemas nfc s (bad [7]) = .error .invalidData ∧
    decodeStrict allSchemas nfc s (encode allSchemas nfc s [.bytes name, .bytes []]) =
      .ok [.bytes [0xC3, 0xA9], .bytes []] := by
  intro nfc name bad
  obtain ⟨he, hd, hst⟩ := C08nfc_find C08_blockAsset_schema hs
  have hb0 : bad [] = [0x0a, 3, 0xC3, 0xA9, 0x12, 0] := by
    simp [bad, name, nfc, C08badWriteString, C08fragmentNFC, writeKey, writeBytes, putUvarint_lt]
  have hb7 : bad [7] = [0x0a, 3, 0xC3, 0xA9, 0x12, 1, 7] := by
    simp [bad, name, nfc, C08badWriteString, C08fragmentNFC, writeKey, writeBytes, putUvarint_lt]
  have henc : encode allSchemas nfc s [.bytes name, .bytes []] = [0x0a, 2, 0xC3, 0xA9, 0x12, 0] := by
    simp [name, nfc, encode, he, C08assetFields, encodeFields, writeKey, writeBytes, putUvarint_lt,
      C08fragmentNFC]
  refine ⟨by decide, hb0, henc, ?_, ?_, ?_, ?_, ?_⟩
  · rw [hb0, decode_fields _ _ _ _ _ hd]; exact okEqb_sound (by decide +kernel)
  · rw [hb0, decodeStrict_fields _ _ _ _ _ hst]; exact errEqb_sound (by decide +kernel)
  · rw [hb7, decode_fields _ _ _ _ _ hd]; exact errEqb_sound (by decide +kernel)
  · rw [hb7, decodeStrict_fields _ _ _ _ _ hst]; exact errEqb_sound (by decide +kernel)
  · rw [henc, decodeStrict_fields _ _ _ _ _ hst]; exact okEqb_sound (by decide +kernel)

/-- **Longer normal form.** Module name U+0344 (2 bytes, normal form 4 bytes) written with the length
of the raw string: the decoders read half of the normal form as the name and fail on the rest. -/
theorem C08_nfc_length_from_raw_string_longer_counterexample (s : Schema)
    (hs : allSchemas.find "blockchain.BlockAsset" = some s) :
    let nfc := C08fragmentNFC
    let name : Bytes := [0xCD, 0x84]
    let bad : Bytes := C08badWriteString nfc 1 name ++ writeKey 2 2 ++ writeBytes []
    (nfc.normalize name).length ≠ name.length ∧
    bad = [0x0a, 2, 0xCC, 0x88, 0xCC, 0x81, 0x12, 0] ∧
    decode allSchemas nfc s bad = .error .invalidData ∧
    decodeStrict allSchemas nfc s bad = .error .invalidData ∧
    decodeStrict allSchemas nfc s (encode allSchemas nfc s [.bytes name, .bytes []]) =
      .ok [.bytes [0xCC, 0x88, 0xCC, 0x81], .bytes []] := by
  intro nfc name bad
  obtain ⟨he, hd, hst⟩ := C08nfc_find C08_blockAsset_schema hs
  have hb : bad = [0x0a, 2, 0xCC, 0x88, 0xCC, 0x81, 0x12, 0] := by
    simp [bad, name, nfc, C08badWriteString, C08fragmentNFC, writeKey, writeBytes, putUvarint_lt]
  have henc : encode allSchemas nfc s [.bytes name, .bytes []] =
      [0x0a, 4, 0xCC, 0x88, 0xCC, 0x81, 0x12, 0] := by
    simp [name, nfc, encode, he, C08assetFields, encodeFields, writeKey, writeBytes, putUvarint_lt,
      C08fragmentNFC]
  refine ⟨by decide, hb, ?_, ?_, ?_⟩
  · rw [hb, decode_fields _ _ _ _ _ hd]; exact errEqb_sound (by decide +kernel)
  · rw [hb, decodeStrict_fields _ _ _ _ _ hst]; exact errEqb_sound (by decide +kernel)
  · rw [henc, decodeStrict_fields _ _ _ _ _ hst]; exact okEqb_sound (by decide +kernel)

/-! ### non-vacuity -/

/-- `C08_nfc_string_field_length_is_of_normal_form` on a concrete transaction head: module e + U+0301 -/
example : encodeFields allSchemas C08fragmentNFC 8 (C08txFields false)
    [.bytes [0x65, 0xCC, 0x81], .bytes [0x63], .uint 1, .uint 2, .bytes [], .bytes [], .bytesArr []] =
    [0x0a, 2, 0xC3, 0xA9, 0x12, 1, 0x63, 0x18, 1, 0x20, 2, 0x2a, 0, 0x32, 0] := by
  rw [C08txFields, C08_nfc_string_field_length_is_of_normal_form]
  simp [encodeFields, writeKey, writeBytes, putUvarint_lt, C08fragmentNFC]

/-- `C08_nfc_blockAsset_roundtrip` / `C08_nfc_roundtrip_flat` with the fragment: the decoded name is é -/
example (s : Schema) (hs : allSchemas.find "blockchain.BlockAsset" = some s) :
    decodeStrict allSchemas C08fragmentNFC s
      (encode allSchemas C08fragmentNFC s [.bytes [0x65, 0xCC, 0x81], .bytes [5]]) =
      .ok [.bytes [0xC3, 0xA9], .bytes [5]] :=
  (C08_nfc_blockAsset_roundtrip C08fragmentNFC C08_nfc_fragment_laws s hs [0x65, 0xCC, 0x81] [5]
    (by decide) (by decide) (by decide)).2

/-- `C08_nfc_transaction_roundtrip`: names e + U+0301 and U+0344 -/
example (s : Schema) (hs : allSchemas.find "blockchain.Transaction" = some s) :
    decode allSchemas C08fragmentNFC s (encode allSchemas C08fragmentNFC s
      [.bytes [0x65, 0xCC, 0x81], .bytes [0xCD, 0x84], .uint 7, .uint 9, .bytes [1], .bytes [], .bytesArr [[2]]]) =
      .ok [.bytes [0xC3, 0xA9], .bytes [0xCC, 0x88, 0xCC, 0x81], .uint 7, .uint 9, .bytes [1], .bytes [],
        .bytesArr [[2]]] :=
  (C08_nfc_transaction_roundtrip C08fragmentNFC C08_nfc_fragment_laws s hs [0x65, 0xCC, 0x81] [0xCD, 0x84]
    7 9 [1] [] [[2]] (by decide) (by decide) (by decide) (by decide) (by decide) (by decide) (by decide)
    (by decide) (by simp)).1

/-- `C08_nfc_string_field_roundtrip`: a reader over key ++ 02 ++ é reads é -/
example : decodeField allSchemas C08fragmentNFC 1 ⟨1, .string, true⟩ (Reader.new [0x0a, 2, 0xC3, 0xA9]) =
    .ok (.bytes [0xC3, 0xA9], (Reader.new [0x0a, 2, 0xC3, 0xA9]).adv 4) := by
  have h := C08_nfc_string_field_roundtrip allSchemas C08fragmentNFC C08_nfc_fragment_laws 0 1 true
    [0x65, 0xCC, 0x81] [] (Reader.new [0x0a, 2, 0xC3, 0xA9]) (by decide) (by decide) (by decide)
    (Or.inl rfl)
    (by
      have : writeKey 2 1 ++ putUvarint (C08fragmentNFC.normalize [0x65, 0xCC, 0x81]).length ++
          C08fragmentNFC.normalize [0x65, 0xCC, 0x81] ++ [] = [0x0a, 2, 0xC3, 0xA9] := by
        simp [writeKey, putUvarint_lt, C08fragmentNFC]
      rw [this]; exact Reader.Holds.new _)
  simpa [writeKey, putUvarint_lt, C08fragmentNFC] using h

/-- `C08_nfc_length_from_raw_string_differs` applies to the fragment -/
example : C08badWriteString C08fragmentNFC 1 [0x65, 0xCC, 0x81] ≠
    writeKey 2 1 ++ putUvarint (C08fragmentNFC.normalize [0x65, 0xCC, 0x81]).length ++
      C08fragmentNFC.normalize [0x65, 0xCC, 0x81] :=
  C08_nfc_length_from_raw_string_differs C08fragmentNFC 1 _ (by decide) (by decide) (by decide)
