/-
C03 — a rejected (or merely staged) block leaves nothing behind in component memory that changes the verdict on a
later block (tie A + the reason).

Props/C03.lean proves for the model that a block is accepted iff it satisfies every rule (`C03_accept_iff_spec`)
and that a rejected block leaves the state untouched (`C03_reject_no_change`).  There the verdict is a FUNCTION of
(state, block): the model has no place where a candidate could leave anything.  The real acceptance path runs
through objects that live across blocks — `liskbft.Module` with its `API` (every getter of the validatorsHash check,
of the aggregate-commit check and of the generator's `sealBlock` is a method of the one `API` object created by
`NewModule`), `consensus.Executer`, `blockchain.Chain` — and these getters are called on STAGED stores:
`processValidated` reads `GetBFTParameters(consensusStore, height+1)` right after `abi.Execute` staged the block's
parameters, pkg/generator does the same for its own candidate.  A store that is dropped cannot take a struct field
with it.  The model's theorems carry over to the behaviour of the node only if the getters compute from the store
they are handed.

Part 1 (semantics, all machines and candidate sequences; the generic machine of Props/C05_NoCache.lean): if the
persistent effect of offering a block does not depend on the component memory (`ReadsPersistedOnly`), then after ANY
sequence of rejected blocks and of candidates computed on dropped stores the persistent state and the chain are
what they were and the verdict on every next block is the verdict of a fresh node on the same persistent state; with
deletions restoring the state (`DeleteInverts`) also after any history before them.  A toy `GetBFTParameters` that
memoizes by the height the parameters are stored at — the persistent state is left exactly as it was by every
rejected block — accepts the block that carries the REJECTED block's validatorsHash and refuses the right one.

Part 2 (tie A): tools/compgen regenerates `Gen/CompState.lean` from the source on every check run; the theorems
state the exact field, method, write and initialiser tables of `liskbft.API` / `liskbft.Endpoint`, who holds a
reference to the BFT module, and that the package has no package-level memo: a memo field (with or without its
mutex), a helper method that fills it, a write to a receiver field outside `init`, a package-level map breaks a
named theorem.  Model-free counterpart on the real node: harness/c03/memo.go (C03MEMO).
-/
import LiskVerif.Props.C05_NoCache

/-! ## Part 1: rejected candidates leave no trace in the verdict -/

namespace LiskVerif.NoHidden

variable {P H B : Type}

/-- every step of the sequence is a block the node rejects, or a candidate computed on a store that is dropped -/
def allRejected (m : Machine P H B) : NodeSt P H B → List (Hist B) → Prop
  | _, [] => True
  | w, x :: t =>
    (match x with
     | .block b => (m.apply w.p w.h b).1 = none
     | .candidate _ => True
     | .delete => False
     | .restart => False) ∧ allRejected m (hstep m w x) t

private theorem hrun_cons (m : Machine P H B) (w : NodeSt P H B) (x : Hist B) (t : List (Hist B)) :
    hrun m w (x :: t) = hrun m (hstep m w x) t := rfl

private theorem hrun_append (m : Machine P H B) (w : NodeSt P H B) (a b : List (Hist B)) :
    hrun m w (a ++ b) = hrun m (hrun m w a) b := by
  unfold hrun; exact List.foldl_append

theorem rejected_keep_state (m : Machine P H B) (xs : List (Hist B)) :
    ∀ w : NodeSt P H B, allRejected m w xs → (hrun m w xs).p = w.p ∧ (hrun m w xs).kept = w.kept := by
  induction xs with
  | nil => intro w _; exact ⟨rfl, rfl⟩
  | cons x t ih =>
    intro w hx
    rw [hrun_cons]
    obtain ⟨h1, h2⟩ := hx
    have hs : (hstep m w x).p = w.p ∧ (hstep m w x).kept = w.kept := by
      cases x with
      | block b =>
        have h1' : (m.apply w.p w.h b).1 = none := h1
        simp [hstep, h1']
      | candidate b => exact ⟨rfl, rfl⟩
      | delete => exact h1.elim
      | restart => exact h1.elim
    obtain ⟨ihp, ihk⟩ := ih (hstep m w x) h2
    exact ⟨ihp.trans hs.1, ihk.trans hs.2⟩

end LiskVerif.NoHidden

open LiskVerif LiskVerif.NoHidden

/-- **Rejected blocks change nothing — including the verdict on the next block.**  If the verdict reads only
(store, block), then after ANY sequence of rejected blocks and of candidates computed on dropped stores (forged by
the node itself) the persistent state and the chain are unchanged, and every next block gets the verdict a node with
fresh objects gives on the same persistent state — with the same resulting state. -/
theorem C03_rejected_candidates_leave_no_trace {P H B : Type} (m : Machine P H B) (hro : ReadsPersistedOnly m)
    (w : NodeSt P H B) (xs : List (Hist B)) (hx : allRejected m w xs) :
    (hrun m w xs).p = w.p ∧ (hrun m w xs).kept = w.kept ∧
    ∀ b, (m.apply (hrun m w xs).p (hrun m w xs).h b).1 = (m.apply w.p m.h0 b).1 := by
  obtain ⟨hp, hk⟩ := rejected_keep_state m xs w hx
  refine ⟨hp, hk, fun b => ?_⟩
  rw [hp]
  exact hro.1 _ _ _ b

/-- the same after any history (blocks applied and rejected, tips deleted, restarts) followed by rejected
candidates: the verdict on the next block is the verdict of the FRESH node that was given only the chain — a node
that never saw any of the rejected candidates. -/
theorem C03_verdict_equals_fresh_node {P H B : Type} (m : Machine P H B) (Inv : P → Prop)
    (hro : ReadsPersistedOnly m) (hdi : DeleteInverts m Inv) (p0 : P) (hI : Inv p0) (hs xs : List (Hist B))
    (hx : allRejected m (hrun m (hinit m p0) hs) xs) (b : B) :
    (hrun m (hinit m p0) (hs ++ xs)).kept = (hrun m (hinit m p0) hs).kept ∧
    (m.apply (hrun m (hinit m p0) (hs ++ xs)).p (hrun m (hinit m p0) (hs ++ xs)).h b).1 =
      (m.apply (fresh m p0 (hrun m (hinit m p0) hs).kept).1 (fresh m p0 (hrun m (hinit m p0) hs).kept).2 b).1 := by
  have hk : (hrun m (hinit m p0) (hs ++ xs)).kept = (hrun m (hinit m p0) hs).kept := by
    rw [hrun_append]; exact (rejected_keep_state m xs _ hx).2
  refine ⟨hk, ?_⟩
  have h := (C05_no_hidden_state_confluent m Inv hro hdi p0 hI (hs ++ xs)).2.2 b
  rw [hk] at h
  exact h

/-! ### the defect class: a getter that memoizes by height what it read from a staged store -/

namespace LiskVerif.NoHidden.MemoToy

/-- persistent state: the BFT parameters stored for each height, newest first.  A block `(change, vhash)` executes to
`change` — staged as the parameters of the next height — and is valid iff its header field `vhash` is what
`GetBFTParameters(stagedStore, height+1)` returns (the validatorsHash check of `processValidated`). -/
def honest : Machine (List Nat) Unit (Nat × Nat) where
  apply p _ b := (if b.1 = b.2 then some (b.1 :: p) else none, ())
  delete p _ := (p.tail, ())
  h0 := ()

/-- `GetBFTParameters` with a memo keyed by the height the parameters are stored at: "decoded once, never again".
The first lookup at a key — also one made on a store that is dropped afterwards — decides every later one. -/
def memo : Machine (List Nat) (List (Nat × Nat)) (Nat × Nat) where
  apply p h b :=
    let key := p.length + 1
    let read := match h.lookup key with | some v => v | none => b.1
    (if read = b.2 then some (b.1 :: p) else none,
     if (h.lookup key).isSome then h else (key, read) :: h)
  delete p h := (p.tail, h)
  h0 := []

/-- X: executes to 7, wrong validatorsHash (rejected after execution) -/
def received : List (Hist (Nat × Nat)) := [.block (7, 0)]
/-- X: the node's own candidate for this height, computed on a store that is dropped -/
def forged : List (Hist (Nat × Nat)) := [.candidate (7, 7)]

end LiskVerif.NoHidden.MemoToy

open LiskVerif.NoHidden.MemoToy in
/-- **THE DEFECT CLASS.**  With the height-keyed memo every rejected block leaves the persistent state exactly as it
was, yet after X (received and rejected, or forged on a dropped store) the block F = (8, 7) — it executes to 8 and
carries the validatorsHash of X's outcome — is APPENDED (the store then holds parameters that contradict the header)
and the right block Y = (8, 8) is refused; a fresh node on the same state refuses F and accepts Y. -/
theorem C03_height_keyed_memo_counterexample :
    ¬ ReadsPersistedOnly memo ∧
    allRejected memo (hinit memo [1]) received ∧ allRejected memo (hinit memo [1]) forged ∧
    (∀ xs ∈ [received, forged],
      (let w := hrun memo (hinit memo [1]) xs
       w.p = [1] ∧ w.kept = [] ∧
       (memo.apply w.p w.h (8, 7)).1 = some [8, 1] ∧ (memo.apply [1] memo.h0 (8, 7)).1 = none ∧
       (memo.apply w.p w.h (8, 8)).1 = none ∧ (memo.apply [1] memo.h0 (8, 8)).1 = some [8, 1])) := by
  refine ⟨?_, ⟨by decide, trivial⟩, ⟨trivial, trivial⟩, by decide⟩
  intro hro
  have := hro.1 [1] [(2, 7)] [] (8, 7)
  revert this
  decide

open LiskVerif.NoHidden.MemoToy in
/-- non-vacuity of `C03_rejected_candidates_leave_no_trace`: the honest getter satisfies the hypothesis, both
sequences are sequences of rejected candidates, and afterwards F is refused and Y accepted -/
example :
    ReadsPersistedOnly honest ∧
    allRejected honest (hinit honest [1]) [.block (7, 0)] ∧ allRejected honest (hinit honest [1]) [.candidate (7, 7)] ∧
    (honest.apply (hrun honest (hinit honest [1]) [.block (7, 0), .candidate (7, 7)]).p () (8, 7)).1 = none ∧
    (honest.apply (hrun honest (hinit honest [1]) [.block (7, 0), .candidate (7, 7)]).p () (8, 8)).1 = some [8, 1] :=
  ⟨readsPersistedOnly_of_subsingleton honest, ⟨by decide, trivial⟩, ⟨trivial, trivial⟩, by decide, by decide⟩

/-! ## Part 2: every getter of the BFT API is a function of the store it is handed (regenerated facts) -/

open LiskVerif.Gen.CompState

/-- **`liskbft.API` and `liskbft.Endpoint` have exactly the fields they have today**: the module id and the batch
size, plain values.  A memo of decoded parameters (and the mutex guarding it) would be a new field. -/
theorem C03_bft_api_fields_exact :
    fieldsOf "consensus/liskbft" "API" = [("moduleID", "uint32", "basic"), ("batchSize", "int", "basic")] ∧
    fieldsOf "consensus/liskbft" "Endpoint" = [("moduleID", "uint32", "basic")] ∧
    (fields.filter (fun f => f.pkg == "consensus/liskbft" && (f.strct == "API" || f.strct == "Endpoint") &&
      !plainKind f.kind)) = [] := by decide +kernel

/-- **no method of `API` / `Endpoint` writes a receiver field** except the two `init` called once by `Module.Init`;
no composite literal initialises a field (`NewModule` creates both objects empty); no field is handed to a callee
and no address of a field is taken.  So every getter is a function of its arguments — the store it is handed. -/
theorem C03_bft_api_never_written :
    writesOf "consensus/liskbft" "API" = [("API.init", "moduleID", "assign"), ("API.init", "batchSize", "assign")] ∧
    writesOf "consensus/liskbft" "Endpoint" = [("Endpoint.init", "moduleID", "assign")] ∧
    initsOf "consensus/liskbft" "API" = [] ∧ initsOf "consensus/liskbft" "Endpoint" = [] ∧
    (passes.filter (fun p => p.pkg == "consensus/liskbft")) = [] ∧
    (writes.filter (fun w => w.pkg == "consensus/liskbft" && (w.how == "addr" || w.how == "addr-nested" || w.how == "assign-all"))) = [] := by
  decide +kernel

/-- the exact method tables of `API` and `Endpoint`, all on pointer receivers of the one object: the getters used by
`verifyBlock`, `verifyAggregateCommit`, the validatorsHash check and `sealBlock`.  A helper that fills a memo
(`decodeParams`, `cache…`) is a new row. -/
theorem C03_bft_api_methods_exact :
    ((methods.filter (fun m => m.pkg == "consensus/liskbft" && m.strct == "API")).map (fun m => (m.name, m.ptr))) =
      [("init", true), ("AreHeadersContradicting", true), ("IsHeaderContradictingChain", true),
       ("ExistBFTParameters", true), ("GetBFTParameters", true), ("GetBFTHeights", true),
       ("ImpliesMaximalPrevotes", true), ("NextHeightBFTParameters", true), ("SetBFTParameters", true),
       ("SetGeneratorKeys", true), ("GetGeneratorKeys", true), ("HeaderHasPriority", true), ("GetValidator", true),
       ("GetCurrentValidators", true)] ∧
    ((methods.filter (fun m => m.pkg == "consensus/liskbft" && m.strct == "Endpoint")).map (fun m => (m.name, m.ptr))) =
      [("init", true), ("Get", true)] := by decide +kernel

/-- **who can reach the BFT module from the acceptance path**: the struct fields of the three packages whose type
mentions the module or its API — the executer, the per-block state executers and the commit judge, all holding the
ONE object `NewExecuter` creates (`C05_constructor_calls_exact`); none of them holds a decoded parameter set
(`BFTParams`) or a parameter cache. -/
theorem C03_bft_module_holders_exact :
    ((fields.filter (fun f => mentions f.typ "liskbft.Module" || mentions f.typ "liskbft.API")).map
      (fun f => (f.pkg, f.strct, f.name, f.typ))) =
      [("consensus", "stateExecuter", "bft", "*liskbft.Module"),
       ("consensus", "genesisStateExecuter", "bft", "*liskbft.Module"),
       ("consensus", "commitDiscard", "bftAPI", "*liskbft.API"),
       ("consensus", "Executer", "liskBFT", "*liskbft.Module")] ∧
    (fields.filter (fun f => isComponent f.pkg f.strct && f.strct != "bftParamsCache" &&
      (mentions f.typ "BFTParams" || mentions f.typ "bftParamsCache"))) = [] := by decide +kernel

/-- **no package-level memo in pkg/consensus/liskbft**: its package-level variables are three store prefixes, the
empty key and two sentinel errors, and no function of the three packages writes a package-level variable. -/
theorem C03_bft_no_package_level_memo :
    ((globals.filter (fun g => g.pkg == "consensus/liskbft")).map (fun g => (g.name, g.kind))) =
      [("storePrefixBFTParams", "basic"), ("storePrefixGeneratorKeys", "basic"), ("storePrefixBFTVotes", "basic"),
       ("emptyKey", "slice"), ("ErrBFTParamsNotFound", "call"), ("ErrGeneratorKeysNotFound", "call")] ∧
    (globals.filter (fun g => g.kind == "map" || g.kind == "pointer" || g.kind == "struct")) = [] ∧
    globalWrites = [] := by decide +kernel
