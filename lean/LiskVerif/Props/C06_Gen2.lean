/-
C06 — second tie of `Model/Cert.lean` to the Go source (the first is Props/C06_Gen.lean): the
integer helpers of the certificate pool and of the single-commit handling are REGENERATED from the Go
source on every run by tools/fngen (typed translation, `LiskVerif/Gen/Fns2.lean`) with the exact
semantics of `uint32` (wrap modulo 2^32) and `int`:

* `CommitRangeStored`, `GetMinStoredHeight` (pkg/consensus/certificate/certificate.go);
* `Pool.Select`: `max := 0; if maxHeightPrecommited > CommitRangeStored { max = … - … }` (pool.go);
* `validAggregationBitsLength` (pkg/crypto/bls.go): `len(aggregationBits) == (len(keysList)+7)/8`;
* `Bits.read` / `Bits.write` (pkg/crypto/bls.go): the bit index `i % 8`, the bit test
  `(b[byteIndex]>>bitIndex)%2 == 1` and the mask `1 << bitIndex`;
* `Executer.singleCommitValidator` (pkg/consensus/certificate.go): the discard conditions 2 and 3;
* the cleanup closure of `Executer.broadcastCertificate`: both conditions and the height `h+1`;
* `Executer.GetAggregateCommit`: `nextHeight = ints.Min(heightNextBFTParams-1, maxHeightPrecommited)`.

The model uses unbounded naturals with truncated subtraction; heights are `uint32` in the code. The
theorems hold for every `uint32` height except where stated (`h + 1` must not wrap).
-/
import LiskVerif.Lemmas.Cert
import LiskVerif.Lemmas.GenInt

open LiskVerif LiskVerif.Cert

/-! ### constants, GetMinStoredHeight, Pool.Select -/

theorem C06_gen2_commit_range_stored : Gen.commitRangeStored = Cert.commitRangeStored := rfl

/-- **`GetMinStoredHeight` = `Cert.minStoredHeight`** (saturating subtraction) for every `uint32` -/
theorem C06_gen2_min_stored_height_eq (m : Nat) (h : m < 4294967296) :
    Gen.getMinStoredHeight m = minStoredHeight m := by
  unfold Gen.getMinStoredHeight minStoredHeight Cert.commitRangeStored
  by_cases h1 : m < 100
  · simp [h1]; omega
  · simp only [h1, decide_false, Bool.false_eq_true, ↓reduceIte]; omega

/-- the regenerated `max` of `Pool.Select` -/
theorem C06_gen2_select_max_eq (m : Nat) (h : m < 4294967296) :
    Gen.poolSelectMax m = if m > Cert.commitRangeStored then m - Cert.commitRangeStored else 0 := by
  unfold Gen.poolSelectMax Cert.commitRangeStored
  by_cases h1 : m > 100
  · simp only [h1, decide_true, ↓reduceIte]; omega
  · simp [h1]

/-- **`Pool.select` with the regenerated `max`** -/
theorem C06_gen2_select_eq (p : Pool) (mhpc limit : Nat) (h : mhpc < 4294967296) :
    p.select mhpc limit =
      (let max := Gen.poolSelectMax mhpc
       let ng := isort heightLe p.nonGossiped
       let r1 := getUntil ng max
       if r1.length ≥ limit then (⟨ng, p.gossiped⟩, r1.take limit)
       else
         let g := isort heightLe p.gossiped
         let r2 := r1 ++ getUntil g max
         if r2.length ≥ limit then (⟨ng, g⟩, r2.take limit)
         else
           let r3 := r2 ++ getLargest ng.reverse (limit - r2.length) true []
           if r3.length ≥ limit then (⟨ng, g⟩, r3.take limit)
           else
             let r4 := r3 ++ getLargest ng.reverse (limit - r3.length) false []
             if r4.length ≥ limit then (⟨ng, g⟩, r4.take limit) else (⟨ng, g⟩, r4)) := by
  rw [C06_gen2_select_max_eq mhpc h]
  rfl

/-! ### validAggregationBitsLength -/

/-- the regenerated length check is `nBytes = byteLen nKeys` -/
theorem C06_gen2_valid_bits_length_eq (nBytes nKeys : Nat) (h : nKeys < 9223372036854775800) :
    Gen.validAggregationBitsLength (nBytes : Int) (nKeys : Int) = decide (nBytes = byteLen nKeys) := by
  unfold Gen.validAggregationBitsLength byteLen
  rw [Gen.i64_eq (x := (nKeys : Int) + 7) (by omega) (by omega)]
  have h1 : Int.tdiv ((nKeys : Int) + 7) 8 = (((nKeys + 7) / 8 : Nat) : Int) := by
    rw [Int.tdiv_eq_ediv_of_nonneg (by omega)]
    omega
  rw [h1, Gen.i64_eq (by omega) (by omega)]
  by_cases h2 : nBytes = (nKeys + 7) / 8
  · simp [h2]
  · simp only [h2, decide_false, decide_eq_false_iff_not]
    omega

private theorem ofBytes_length : ∀ bs : Bytes, (Bits.ofBytes bs).length = 8 * bs.length
  | [] => rfl
  | b :: r => by
    have : Bits.ofBytes (b :: r) = bitsOfByte b ++ Bits.ofBytes r := by simp [Bits.ofBytes]
    rw [this, List.length_append, ofBytes_length r]
    simp [bitsOfByte]
    omega

/-- **the length guard of `Cert.verifyWeighted`** (on the bits of a byte string) fails exactly when the
regenerated `validAggregationBitsLength` returns false -/
theorem C06_gen2_verify_weighted_guard (bs : Bytes) (keys : List Nat) (h : keys.length < 9223372036854775800) :
    ((Bits.ofBytes bs).length ≠ 8 * byteLen keys.length) ↔
      Gen.validAggregationBitsLength (bs.length : Int) (keys.length : Int) = false := by
  rw [C06_gen2_valid_bits_length_eq _ _ h, ofBytes_length]
  simp only [decide_eq_false_iff_not, ne_eq]
  omega

/-! ### Bits.read / Bits.write (pkg/crypto/bls.go) -/

/-- the bit index `i % 8` of `Bits.read` and `Bits.write` (the byte index is computed in float64 and
is not translated) -/
theorem C06_gen2_bits_bit_index_eq (i : Nat) :
    Gen.bitsReadBitIndex (i : Int) = ((i % 8 : Nat) : Int) ∧ Gen.bitsWriteBitIndex (i : Int) = ((i % 8 : Nat) : Int) := by
  unfold Gen.bitsReadBitIndex Gen.bitsWriteBitIndex
  rw [Int.tmod_eq_emod_of_nonneg (by omega)]
  omega

/-- **`Bits.read` tests bit `j` of the byte as `Cert.bitsOfByte` lists it** (least significant first) -/
theorem C06_gen2_bits_read_eq (x : UInt8) (j : Nat) (hj : j < 8) :
    Gen.bitsReadBit x.toNat (j : Int) = some ((bitsOfByte x).getD j false) := by
  have aux : ∀ n < 256, ∀ j < 8, Gen.bitsReadBit n ((j : Nat) : Int) =
      some (([0, 1, 2, 3, 4, 5, 6, 7].map (fun j => (n / 2 ^ j) % 2 == 1)).getD j false) := by
    decide +kernel
  exact aux x.toNat x.toNat_lt j hj

/-- **`Bits.write` sets the bit with the weight `2^j` that `Cert.byteOfBits` gives position `j`** -/
theorem C06_gen2_bits_write_mask_eq (j : Nat) (hj : j < 8) :
    Gen.bitsWriteMask (j : Int) = some (2 ^ j) ∧
    byteOfBits ((List.replicate j false ++ [true]) ++ List.replicate (7 - j) false) = UInt8.ofNat (2 ^ j) := by
  have : ∀ j < 8, Gen.bitsWriteMask ((j : Nat) : Int) = some (2 ^ j) ∧
      byteOfBits ((List.replicate j false ++ [true]) ++ List.replicate (7 - j) false) = UInt8.ofNat (2 ^ j) := by
    decide +kernel
  exact this j hj

/-! ### singleCommitValidator, broadcastCertificate -/

/-- the regenerated discard conditions 2 and 3 of `singleCommitValidator` in terms of the model -/
theorem C06_gen2_scv_conditions_eq (height removal mhpc : Nat) (e : Bool) (hm : mhpc < 4294967296) :
    Gen.scvBelowRemoval height removal = decide (height ≤ removal) ∧
    Gen.scvOutsideRange height mhpc e =
      ((decide (height < minStoredHeight mhpc) || decide (height > mhpc)) && !e) := by
  unfold Gen.scvBelowRemoval Gen.scvOutsideRange
  rw [C06_gen2_min_stored_height_eq mhpc hm]
  exact ⟨rfl, rfl⟩

/-- **`Cert.scvOne` with the regenerated conditions** (steps 2 and 3 of the loop body of
`singleCommitValidator`) -/
theorem C06_gen2_scvOne_eq (st : State) (pool : Pool) (m : Incoming) (hm : st.mhpc < 4294967296) :
    scvOne st pool m =
      if !m.wf then (pool, some .reject)
      else if pool.has m.commit then (pool, none)
      else
        match st.blockAt st.mhpc with
        | none => (pool, some .ignore)
        | some fin =>
          if Gen.scvBelowRemoval m.height fin.acHeight = true then (pool, none)
          else if Gen.scvOutsideRange m.height st.mhpc (existParams st.params (m.height + 1)) = true
          then (pool, none)
          else
            match st.blockAt m.height with
            | none => (pool, some .ignore)
            | some hd =>
              if hd.id ≠ m.block then (pool, none)
              else
                match getParams st.params m.height with
                | none => (pool, some .ignore)
                | some p =>
                  match findValidator p.validators m.signer with
                  | none => (pool, some .reject)
                  | some v =>
                    if !verifySingle v.key (certMsg st hd) m.sig then (pool, some .reject)
                    else (pool.add m.commit, none) := by
  have e1 : ∀ a b, (Gen.scvBelowRemoval a b = true) = (a ≤ b) := by
    intro a b; unfold Gen.scvBelowRemoval; simp
  have e2 : ∀ a e, Gen.scvOutsideRange a st.mhpc e =
      ((decide (a < minStoredHeight st.mhpc) || decide (a > st.mhpc)) && !e) :=
    fun a e => (C06_gen2_scv_conditions_eq a 0 st.mhpc e hm).2
  unfold scvOne
  simp only [e1, e2]
  rfl

/-- **`Cert.cleanupKeep` is the regenerated closure of `broadcastCertificate`**: keep unless the
first or the second regenerated condition holds; the parameters are looked up at the regenerated
height `h+1` (no wrap for `h < 2^32 - 1`) -/
theorem C06_gen2_cleanup_keep_eq (st : State) (removal h : Nat) (hm : st.mhpc < 4294967296)
    (hh : h + 1 < 4294967296) :
    cleanupKeep st removal h =
      (!(Gen.cleanupBelowRemoval h removal) &&
       !(Gen.cleanupOutsideRange h st.mhpc (existParams st.params (Gen.cleanupParamsHeight h)))) := by
  unfold cleanupKeep Gen.cleanupBelowRemoval Gen.cleanupOutsideRange Gen.cleanupParamsHeight
  rw [C06_gen2_min_stored_height_eq st.mhpc hm, Nat.mod_eq_of_lt hh]
  by_cases h1 : h ≤ removal
  · simp [h1]
  · simp only [h1, ↓reduceIte, decide_false, Bool.not_false, Bool.true_and]
    cases hc : (!(decide (h ≥ minStoredHeight st.mhpc) && decide (h ≤ st.mhpc)) &&
        !existParams st.params (h + 1)) <;> simp [hc]

/-- at `h = 2^32 - 1` the Go closure asks for the parameters of height 0 (`h+1` wraps), the model for
height 2^32; block heights that large are not reachable -/
theorem C06_gen2_cleanup_height_wraps : Gen.cleanupParamsHeight 4294967295 = 0 := by decide +kernel

/-! ### GetAggregateCommit -/

/-- **`Cert.gacStart` with the regenerated `ints.Min(heightNextBFTParams-1, maxHeightPrecommited)`**,
for `uint32` heights (`heightNextBFTParams ≥ 1` because it is above `maxHeightCertified`) -/
theorem C06_gen2_gac_start_eq (st : State)
    (hu : ∀ nh, nextHeightParams st.params (st.mhc + 1) = some nh → nh < 4294967296) :
    gacStart st =
      match nextHeightParams st.params (st.mhc + 1) with
      | some nh => Gen.gacNextHeight nh st.mhpc
      | none => st.mhpc := by
  unfold gacStart
  cases hn : nextHeightParams st.params (st.mhc + 1) with
  | none => rfl
  | some nh =>
    have h1 := (nextHeightParams_some hn).1
    have h2 := hu nh hn
    unfold Gen.gacNextHeight
    have : (nh + 4294967296 - 1) % 4294967296 = nh - 1 := by omega
    simp only [this]

/-! ### non-vacuity -/

example : Gen.getMinStoredHeight 99 = 0 ∧ Gen.getMinStoredHeight 100 = 0 ∧ Gen.getMinStoredHeight 250 = 150 ∧
    Gen.poolSelectMax 100 = 0 ∧ Gen.poolSelectMax 101 = 1 ∧
    Gen.validAggregationBitsLength 2 9 = true ∧ Gen.validAggregationBitsLength 1 9 = false ∧
    Gen.validAggregationBitsLength 1 8 = true ∧ Gen.validAggregationBitsLength 0 0 = true ∧
    Gen.scvBelowRemoval 5 5 = true ∧ Gen.scvOutsideRange 49 150 false = true ∧ Gen.scvOutsideRange 50 150 false = false ∧
    Gen.scvOutsideRange 151 150 false = true ∧ Gen.scvOutsideRange 151 150 true = false ∧
    Gen.cleanupOutsideRange 49 150 false = true ∧ Gen.cleanupOutsideRange 50 150 false = false ∧
    Gen.gacNextHeight 20 15 = 15 ∧ Gen.gacNextHeight 20 30 = 19 ∧
    Gen.bitsReadBit 5 0 = some true ∧ Gen.bitsReadBit 5 1 = some false ∧ Gen.bitsReadBit 5 (-1) = none ∧
    Gen.bitsWriteMask 3 = some 8 ∧ Gen.bitsReadBitIndex 11 = 3 := by decide +kernel
