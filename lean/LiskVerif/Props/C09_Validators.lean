/-
C09 — the stateless front of every network-facing validator and handler returns a verdict for every
byte string: no input makes the decode-then-validate prefix of `blockValidator`,
`transactionValidator`, `singleCommitValidator`, the gossip envelope, `onRequest` (+ the sync RPC
handlers' request checks) or `onResponse` reach a panic. All of it is a corollary of the codec
theorem `C09_decode_all_network_schemas_no_panic` (Props/C09_Codec.lean): the validators only compose
decoders of structs of the regenerated table and total length / order checks.

Also here: the bounds guard `Bits.read` needs (`C09_bits_read_guarded`, and that it is necessary),
and nil-safety of the fixed JSON RPC handlers `postBlock` / `postTransaction`
(`C09_endpoints_nil_safe`), with the unfixed handlers as counterexamples.
-/
import LiskVerif.Model.Validators
import LiskVerif.Props.C09_Codec

open LiskVerif LiskVerif.Codec LiskVerif.Gen LiskVerif.Validators

/-! ### decoding a struct of the table by name -/

private theorem find_mem {t : Table} {name : String} {s : Schema} (h : t.find name = some s) : s ∈ t := by
  unfold Table.find at h
  exact List.mem_of_find?_eq_some h

/-- `decodeNamed` on the regenerated table never panics, provided the name is in the table -/
theorem C09_decodeNamed_no_panic (nfc : NFC) (strict : Bool) (name : String)
    (hn : (allSchemas.find name).isSome = true) (data : Bytes) :
    decodeNamed allSchemas nfc strict name data ≠ .error .panic := by
  unfold decodeNamed
  cases hf : allSchemas.find name with
  | none => rw [hf] at hn; cases hn
  | some s =>
    have h := C09_decode_all_schemas_no_panic_any_nfc nfc s (find_mem hf) data
    cases strict
    · simpa using h.1
    · simpa using h.2

private theorem mapDecode_no_panic (nfc : NFC) (strict : Bool) (name : String)
    (hn : (allSchemas.find name).isSome = true) (l : List Bytes) :
    mapDecode allSchemas nfc strict name l ≠ .error .panic := by
  induction l with
  | nil => simp [mapDecode]
  | cons b rest ih =>
    have hb := C09_decodeNamed_no_panic nfc strict name hn b
    unfold mapDecode
    split
    · rename_i e he
      intro hc
      injection hc with hc
      rw [hc] at he
      exact hb he
    · split
      · rename_i e he
        intro hc
        injection hc with hc
        rw [hc] at he
        exact ih he
      · intro hc
        cases hc

/-! the struct names the validators use are in the regenerated table (re-checked on every build) -/

private theorem has_RawBlock : (allSchemas.find "blockchain.RawBlock").isSome = true := by decide +kernel
private theorem has_BlockHeader : (allSchemas.find "blockchain.BlockHeader").isSome = true := by decide +kernel
private theorem has_BlockAsset : (allSchemas.find "blockchain.BlockAsset").isSome = true := by decide +kernel
private theorem has_Transaction : (allSchemas.find "blockchain.Transaction").isSome = true := by decide +kernel
private theorem has_Commits : (allSchemas.find "consensus.EventPostSingleCommits").isSome = true := by decide +kernel
private theorem has_Message : (allSchemas.find "p2p.Message").isSome = true := by decide +kernel
private theorem has_Request : (allSchemas.find "p2p.Request").isSome = true := by decide +kernel
private theorem has_Response : (allSchemas.find "p2p.responseMsg").isSome = true := by decide +kernel
private theorem has_CommonBlock : (allSchemas.find "sync.GetHighestCommonBlockRequest").isSome = true := by decide +kernel
private theorem has_BlocksFromID : (allSchemas.find "sync.GetBlocksFromIDRequest").isSome = true := by decide +kernel

/-! ### blocks -/

/-- `blockchain.NewBlock` (envelope, header, every asset, every transaction) never panics -/
theorem C09_new_block_no_panic (nfc : NFC) (data : Bytes) :
    newBlock allSchemas nfc data ≠ .error .panic := by
  unfold newBlock
  split
  · rename_i e he
    intro hc
    injection hc with hc
    rw [hc] at he
    exact C09_decodeNamed_no_panic nfc true _ has_RawBlock data he
  · split
    · rename_i e he
      intro hc
      injection hc with hc
      rw [hc] at he
      exact C09_decodeNamed_no_panic nfc false _ has_BlockHeader _ he
    · split
      · rename_i e he
        intro hc
        injection hc with hc
        rw [hc] at he
        exact mapDecode_no_panic nfc true _ has_BlockAsset _ he
      · split
        · rename_i e he
          intro hc
          injection hc with hc
          rw [hc] at he
          exact mapDecode_no_panic nfc true _ has_Transaction _ he
        · intro hc
          cases hc

/-- The gossip validator of blocks returns `accept` or `reject` for every payload, for every hash
function: decoding the RawBlock, then the header, each asset and each transaction never panics, and
`Block.Validate` is a total check. -/
theorem C09_block_validator_total (nfc : NFC) (H : Bytes → Bytes) (data : Bytes) :
    blockValidator allSchemas nfc H data = .accept ∨ blockValidator allSchemas nfc H data = .reject := by
  have hnb := C09_new_block_no_panic nfc data
  unfold blockValidator
  split
  · rename_i he
    exact absurd he hnb
  · exact Or.inr rfl
  · split
    · exact Or.inl rfl
    · exact Or.inr rfl

/-! ### transactions, single commits -/

theorem C09_transaction_validator_total (nfc : NFC) (data : Bytes) :
    transactionValidator allSchemas nfc data = .accept ∨
      transactionValidator allSchemas nfc data = .reject := by
  unfold transactionValidator
  split
  · exact Or.inr rfl
  · split
    · rename_i he
      exact absurd he (C09_decodeNamed_no_panic nfc true _ has_Transaction data)
    · exact Or.inr rfl
    · split
      · exact Or.inl rfl
      · exact Or.inr rfl

/-- the front of `singleCommitValidator` (strict decode of the message, `Validate` of the first commit)
never panics and never accepts -/
theorem C09_commits_prefix_total (nfc : NFC) (data : Bytes) :
    commitsPrefix allSchemas nfc data ≠ .panic := by
  unfold commitsPrefix
  split
  · rename_i he
    exact absurd he (C09_decodeNamed_no_panic nfc true _ has_Commits data)
  · intro hc; cases hc
  · split
    · intro hc; cases hc
    · split <;> (intro hc; cases hc)

/-! ### envelopes -/

/-- the `p2p.Message` envelope in front of a validator adds no panic: if the inner validator never
answers `pn`, neither does the composition -/
theorem C09_gossip_total {α : Type} (nfc : NFC) (rj pn : α) (v : Bytes → α) (hrj : rj ≠ pn)
    (hv : ∀ b, v b ≠ pn) (raw : Bytes) : gossip allSchemas nfc rj pn v raw ≠ pn := by
  unfold gossip
  split
  · rename_i he
    exact absurd he (C09_decodeNamed_no_panic nfc false _ has_Message raw)
  · exact hrj
  · exact hv _

/-- block gossip end to end: pubsub bytes → envelope → `blockValidator` -/
theorem C09_block_gossip_total (nfc : NFC) (H : Bytes → Bytes) (raw : Bytes) :
    gossip allSchemas nfc Verdict.reject Verdict.panic (blockValidator allSchemas nfc H) raw ≠ .panic := by
  apply C09_gossip_total
  · intro h; cases h
  · intro b
    cases C09_block_validator_total nfc H b with
    | inl h => rw [h]; intro hc; cases hc
    | inr h => rw [h]; intro hc; cases hc

theorem C09_transaction_gossip_total (nfc : NFC) (raw : Bytes) :
    gossip allSchemas nfc Verdict.reject Verdict.panic (transactionValidator allSchemas nfc) raw ≠ .panic := by
  apply C09_gossip_total
  · intro h; cases h
  · intro b
    cases C09_transaction_validator_total nfc b with
    | inl h => rw [h]; intro hc; cases hc
    | inr h => rw [h]; intro hc; cases hc

theorem C09_commits_gossip_total (nfc : NFC) (raw : Bytes) :
    gossip allSchemas nfc CommitsPrefix.reject CommitsPrefix.panic (commitsPrefix allSchemas nfc) raw ≠ .panic := by
  apply C09_gossip_total
  · intro h; cases h
  · exact C09_commits_prefix_total nfc

/-- `onRequest` with the engine's four RPC handlers: every stream content is answered by `ban` or
`serve` -/
theorem C09_request_total (nfc : NFC) (raw : Bytes) :
    requestVerdict allSchemas nfc raw = .ban ∨ requestVerdict allSchemas nfc raw = .serve := by
  unfold requestVerdict
  split
  · rename_i he
    exact absurd he (C09_decodeNamed_no_panic nfc false _ has_Request raw)
  · exact Or.inl rfl
  · simp only []
    split
    · exact Or.inr rfl
    · split
      · split
        · rename_i he
          exact absurd he (C09_decodeNamed_no_panic nfc false _ has_CommonBlock _)
        · exact Or.inl rfl
        · split
          · exact Or.inl rfl
          · split
            · exact Or.inr rfl
            · exact Or.inl rfl
      · split
        · split
          · rename_i he
            exact absurd he (C09_decodeNamed_no_panic nfc false _ has_BlocksFromID _)
          · exact Or.inl rfl
          · split
            · exact Or.inr rfl
            · exact Or.inl rfl
        · exact Or.inl rfl

theorem C09_response_total (nfc : NFC) (raw : Bytes) :
    responseVerdict allSchemas nfc raw = .ban ∨ responseVerdict allSchemas nfc raw = .serve := by
  unfold responseVerdict
  split
  · rename_i he
    exact absurd he (C09_decodeNamed_no_panic nfc false _ has_Response raw)
  · exact Or.inl rfl
  · split
    · exact Or.inr rfl
    · exact Or.inl rfl

/-- all validators at once (the statement DESIGN.md calls `C09_validators_total`) -/
theorem C09_validators_total (nfc : NFC) (H : Bytes → Bytes) (b : Bytes) :
    blockValidator allSchemas nfc H b ≠ .panic ∧ transactionValidator allSchemas nfc b ≠ .panic ∧
    commitsPrefix allSchemas nfc b ≠ .panic ∧ requestVerdict allSchemas nfc b ≠ .panic ∧
    responseVerdict allSchemas nfc b ≠ .panic := by
  refine ⟨?_, ?_, C09_commits_prefix_total nfc b, ?_, ?_⟩
  · cases C09_block_validator_total nfc H b with
    | inl h => rw [h]; intro hc; cases hc
    | inr h => rw [h]; intro hc; cases hc
  · cases C09_transaction_validator_total nfc b with
    | inl h => rw [h]; intro hc; cases hc
    | inr h => rw [h]; intro hc; cases hc
  · cases C09_request_total nfc b with
    | inl h => rw [h]; intro hc; cases hc
    | inr h => rw [h]; intro hc; cases hc
  · cases C09_response_total nfc b with
    | inl h => rw [h]; intro hc; cases hc
    | inr h => rw [h]; intro hc; cases hc

/-! ### aggregation bitmaps -/

/-- With a bitmap of ⌈n/8⌉ bytes every index below `n` is in range: `Bits.read(i)` does not panic. -/
theorem C09_bits_read_guarded (bits : Bytes) (n i : Nat) (hlen : bits.length = (n + 7) / 8) (hi : i < n) :
    (bitsRead bits i).isSome = true := by
  unfold bitsRead
  have hlt : i / 8 < bits.length := by omega
  rw [List.getElem?_eq_getElem hlt]
  rfl

/-- … and `Bits.write(i, v)` neither, and it keeps the length -/
theorem C09_bits_write_guarded (bits : Bytes) (n i : Nat) (v : Bool) (hlen : bits.length = (n + 7) / 8)
    (hi : i < n) : ∃ b', bitsWrite bits i v = some b' ∧ b'.length = bits.length := by
  unfold bitsWrite
  have hlt : i / 8 < bits.length := by omega
  rw [List.getElem?_eq_getElem hlt]
  exact ⟨_, rfl, by simp⟩

/-- The guard is necessary: a bitmap shorter than ⌈n/8⌉ bytes makes `read` panic for some index below
`n` (the last one). This is the crash of the unguarded `BLSVerifyAggSig` / `BLSVerifyWeightedAggSig`
on a block whose aggregate commit carries a short bitmap. -/
theorem C09_bits_read_short_panics (bits : Bytes) (n : Nat) (hlen : bits.length < (n + 7) / 8) :
    ∃ i, i < n ∧ bitsRead bits i = none := by
  refine ⟨n - 1, by omega, ?_⟩
  unfold bitsRead
  have : bits.length ≤ (n - 1) / 8 := by omega
  rw [List.getElem?_eq_none this]

private theorem selectSigners_some (keys : List Bytes) (bits : Bytes) (weights : List Nat)
    (hb : bits.length = (keys.length + 7) / 8) (hw : weights.length = keys.length) (k : Nat)
    (hk : k ≤ keys.length) : (selectSigners keys bits weights k).isSome = true := by
  induction k with
  | zero => rfl
  | succ i ih =>
    have hi : i < keys.length := by omega
    have ih' := ih (by omega)
    unfold selectSigners
    cases hs : selectSigners keys bits weights i with
    | none => rw [hs] at ih'; cases ih'
    | some p =>
      obtain ⟨ks, w⟩ := p
      have hr := C09_bits_read_guarded bits keys.length i hb hi
      cases hrd : bitsRead bits i with
      | none => rw [hrd] at hr; cases hr
      | some bit =>
        cases bit
        · rfl
        · have h1 : keys[i]? = some keys[i] := List.getElem?_eq_getElem hi
          have h2 : weights[i]? = some (weights[i]'(by omega)) := List.getElem?_eq_getElem (by omega)
          simp only [h1, h2]
          rfl

/-- The guarded front of the aggregate signature verification (bitmap of exactly ⌈n/8⌉ bytes, one
weight per key — the check the C06 fix puts in front of the loop) never panics, for any keys, bitmap
and weights. -/
theorem C09_agg_sig_front_no_panic (keys : List Bytes) (bits : Bytes) (weights : List Nat) :
    (aggSigFront keys bits weights).isSome = true := by
  unfold aggSigFront
  split
  · rfl
  · rename_i hg
    have hb : bits.length = (keys.length + 7) / 8 := by
      by_cases h : bits.length = (keys.length + 7) / 8
      · exact h
      · exact absurd (Or.inl h) hg
    have hw : weights.length = keys.length := by
      by_cases h : weights.length = keys.length
      · exact h
      · exact absurd (Or.inr h) hg
    have := selectSigners_some keys bits weights hb hw keys.length (Nat.le_refl _)
    cases hs : selectSigners keys bits weights keys.length with
    | none => rw [hs] at this; cases this
    | some r => rfl

/-! ### JSON RPC endpoints -/

private theorem derefAll_ok {α : Type} (l : List (Ptr α)) (h : l.all Option.isSome = true) :
    derefAll l = .ok () := by
  induction l with
  | nil => rfl
  | cons p rest ih =>
    simp only [List.all_cons, Bool.and_eq_true] at h
    cases p with
    | none => cases h.1
    | some a => simp only [derefAll, deref]; exact ih h.2

/-- The fixed handlers check every pointer they (and the block processing behind `postBlock`)
dereference: for every request record — any subset of `block`, `header`, `aggregateCommit`, any
transaction or asset entry `null` — the outcome is an error or a result, never a nil dereference. -/
theorem C09_endpoints_nil_safe :
    (∀ r : PostBlockReq, postBlock r ≠ .panic) ∧ (∀ r : PostTxReq, postTx r ≠ .panic) := by
  constructor
  · intro r
    unfold postBlock
    split
    · rename_i hv
      unfold validatePostedBlock at hv
      cases hb : r.block with
      | none => rw [hb] at hv; cases hv
      | some b =>
        rw [hb] at hv
        simp only [] at hv
        cases hh : b.header with
        | none => rw [hh] at hv; cases hv
        | some h =>
          rw [hh] at hv
          simp only [Bool.and_eq_true] at hv
          obtain ⟨⟨hac, htx⟩, has⟩ := hv
          cases hc : h.aggregateCommit with
          | none => rw [hc] at hac; cases hac
          | some u =>
            have : postBlockDerefs r = .ok () := by
              unfold postBlockDerefs
              simp only [hb, hh, hc, deref, bind, Except.bind, derefAll_ok _ htx, derefAll_ok _ has, pure,
                Except.pure]
            unfold postBlockUnchecked
            rw [this]
            intro hcontra
            cases hcontra
    · intro hc
      cases hc
  · intro r
    unfold postTx
    split
    · rename_i hs
      cases ht : r.transaction with
      | none => rw [ht] at hs; cases hs
      | some u =>
        unfold postTxUnchecked
        simp only [ht, deref, bind, Except.bind, pure, Except.pure, toOut]
        intro hc
        cases hc
    · intro hc
      cases hc

/-! ### non-vacuity and counterexamples -/

/-- the unfixed handlers crash on params `{}` / `{"block":{}}` / a block without `aggregateCommit` /
a `null` transaction entry, and `postTransaction` on `{}` -/
example : postBlockUnchecked ⟨none⟩ = .panic ∧ postBlockUnchecked ⟨some ⟨none, [], []⟩⟩ = .panic ∧
    postBlockUnchecked ⟨some ⟨some ⟨none⟩, [], []⟩⟩ = .panic ∧
    postBlockUnchecked ⟨some ⟨some ⟨some ()⟩, [some (), none], []⟩⟩ = .panic ∧
    postTxUnchecked ⟨none⟩ = .panic := by decide

/-- the fixed handlers answer them with an error, and a complete request goes through -/
example : postBlock ⟨none⟩ = .error ∧ postBlock ⟨some ⟨some ⟨none⟩, [], []⟩⟩ = .error ∧
    postBlock ⟨some ⟨some ⟨some ()⟩, [some ()], [some ()]⟩⟩ = .ok ∧ postTx ⟨none⟩ = .error ∧
    postTx ⟨some ()⟩ = .ok := by decide

/-- bitmaps: 9 validators need 2 bytes; with 1 byte index 8 is out of range, with 2 bytes it is read -/
example : bitsRead [0xff] 8 = none ∧ bitsRead [0xff, 0x01] 8 = some true ∧ bitsRead [0xff, 0x01] 9 = some false ∧
    aggSigFront [[1], [2], [3], [4], [5], [6], [7], [8], [9]] [0xff] [1, 1, 1, 1, 1, 1, 1, 1, 1] = some none ∧
    selectSigners [[1], [2], [3], [4], [5], [6], [7], [8], [9]] [0xff] [1, 1, 1, 1, 1, 1, 1, 1, 1] 9 = none ∧
    aggSigFront [[1], [2]] [0x02] [5, 7] = some (some ([[2]], 7)) := by decide

/-- the validators are not trivially rejecting: the empty payload is an (empty, hence invalid) block,
a well formed request for the last block is served, an unknown procedure is banned -/
example : transactionValidator allSchemas asciiNFC [] = .reject ∧
    commitsPrefix allSchemas asciiNFC [] = .empty ∧
    requestVerdict allSchemas asciiNFC
      ([0x0a, 0x01, 0x61, 0x12, 0x0c] ++ "getLastBlock".toUTF8.toList) = .serve ∧
    requestVerdict allSchemas asciiNFC ([0x0a, 0x01, 0x61, 0x12, 0x01, 0x78]) = .ban ∧
    requestVerdict allSchemas asciiNFC [0x0a, 0x05, 0x61] = .ban := by
  decide +kernel

/-- a block header cut after the key of field 12 inside a RawBlock is rejected (it crashed the reader
before the `readBool` fix), for any hash function -/
example (H : Bytes → Bytes) : blockValidator allSchemas asciiNFC H [0x0a, 0x01, 0x60] = .reject := by
  have h : newBlock allSchemas asciiNFC [0x0a, 0x01, 0x60] = .error .invalidData := by
    have := (C09_isError_iff (α := Block) Err.invalidData (newBlock allSchemas asciiNFC [0x0a, 0x01, 0x60])).mp
    exact this (by decide +kernel)
  unfold blockValidator
  rw [h]
