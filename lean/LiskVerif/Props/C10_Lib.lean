/-
C10 (library part) — the helpers of `pkg/collection` that the sparse Merkle tree relies on:
proof bitmaps (`FromBools` / `ToBools` / `IsBitSet`), the sorted query batch (`Sort`, `IsSorted`,
`Unique`, `BinarySearch`, `Insert`), and `Reverse`, `CommonPrefix`, `Equal`, `FindIndex`.
Model: `LiskVerif/Model/Collection.lean` (tied to the Go code by the LIBCOLL correspondence
harness).  Helper lemmas: `LiskVerif/Lemmas/Collection.lean`.
-/
import LiskVerif.Lemmas.Collection

open LiskVerif LiskVerif.Collection

/-! ### FromBools / ToBools -/

theorem C10_lib_fromBools_length (l : List Bool) : (fromBools l).length = (l.length + 7) / 8 :=
  fromBools_length l

theorem C10_lib_toBools_length (b : Bytes) : (toBools b).length = 8 * b.length := toBools_length b

/-- `ToBools(FromBools(l))` = `l` with `(8 - len(l) % 8) % 8` `false` values IN FRONT (the code pads
on the left, so that a bitmap keeps its value as a big-endian number). -/
theorem C10_lib_toBools_fromBools (l : List Bool) :
    toBools (fromBools l) = List.replicate ((8 - l.length % 8) % 8) false ++ l :=
  toBools_fromBools l

/-- without padding when the length is a multiple of 8 -/
theorem C10_lib_toBools_fromBools_mul8 (l : List Bool) (h : l.length % 8 = 0) :
    toBools (fromBools l) = l := by
  rw [C10_lib_toBools_fromBools, h]; rfl

/-- `FromBools(ToBools(b)) = b` for every byte string. -/
theorem C10_lib_fromBools_toBools (b : Bytes) : fromBools (toBools b) = b := fromBools_toBools b

/-- `FromBools` is injective on lists of one length … -/
theorem C10_lib_fromBools_inj (l l' : List Bool) (hl : l.length = l'.length)
    (h : fromBools l = fromBools l') : l = l' := by
  have := congrArg toBools h
  rw [C10_lib_toBools_fromBools, C10_lib_toBools_fromBools, hl] at this
  exact List.append_cancel_left this

/-- … and leading `false` values do not change the result, so it is NOT injective across lengths
(callers strip / ignore the leading `false` values: `stripPrefixFalse`). -/
theorem C10_lib_fromBools_leading_false (l : List Bool) (k : Nat) :
    toBools (fromBools (List.replicate k false ++ l)) =
      List.replicate ((8 - (k + l.length) % 8) % 8 + k) false ++ l := by
  rw [C10_lib_toBools_fromBools, ← List.append_assoc, List.replicate_append_replicate]
  simp

theorem C10_lib_fromBools_not_injective : fromBools [true] = fromBools [false, true] := by decide

/-! ### IsBitSet -/

/-- Go's truncated division / remainder by 8 in terms of the floor versions `omega` understands -/
private theorem tdiv8 (i : Int) :
    (0 ≤ i → i.tdiv 8 = i / 8 ∧ i.tmod 8 = i % 8) ∧
    (i < 0 → i.tdiv 8 = -((-i) / 8) ∧ i.tmod 8 = -((-i) % 8)) := by
  constructor
  · intro h; exact ⟨Int.tdiv_eq_ediv_of_nonneg h, Int.tmod_eq_emod_of_nonneg h⟩
  · intro h
    have hn : 0 ≤ -i := by omega
    have e : i = -(-i) := by omega
    constructor
    · conv => lhs; rw [e, Int.neg_tdiv, Int.tdiv_eq_ediv_of_nonneg hn]
    · conv => lhs; rw [e, Int.neg_tmod, Int.tmod_eq_emod_of_nonneg hn]

/-- `IsBitSet(bits, i)` is element `i` of `ToBools(bits)` for `0 <= i < 8*len(bits)` … -/
theorem C10_lib_isBitSet_spec (bits : Bytes) (i : Nat) (h : i < 8 * bits.length) :
    ∃ v, (toBools bits)[i]? = some v ∧ isBitSet bits (i : Int) = .ok v := by
  have ht := (tdiv8 (i : Int)).1 (by omega)
  have hq : (i : Int).tdiv 8 = ((i / 8 : Nat) : Int) := by omega
  have hr : (i : Int).tmod 8 = ((i % 8 : Nat) : Int) := by omega
  have hlt : i / 8 < bits.length := by omega
  refine ⟨bitAt bits i, by rw [toBools_getElem?]; simp [h], ?_⟩
  unfold isBitSet
  simp only [hq, hr]
  have h1 : ¬ (((i / 8 : Nat) : Int) < 0) := by omega
  have h2 : ¬ (((i % 8 : Nat) : Int) < 0) := by omega
  simp only [h1, if_false, Int.toNat_natCast, List.getElem?_eq_getElem hlt, h2]
  simp [bitAt, List.getElem?_eq_getElem hlt]

/-- … and panics exactly outside this range (negative indices included). -/
theorem C10_lib_isBitSet_panics_iff (bits : Bytes) (i : Int) :
    (∃ e, isBitSet bits i = .error e) ↔ (i < 0 ∨ i ≥ 8 * bits.length) := by
  unfold isBitSet
  have ht := tdiv8 i
  by_cases hneg : i < 0
  · have ht' := ht.2 hneg
    simp only [hneg, true_or, iff_true]
    by_cases hq : i.tdiv 8 < 0
    · simp [hq]
    · simp only [hq, if_false]
      cases hb : bits[(i.tdiv 8).toNat]? with
      | none => simp
      | some x =>
        have : i.tmod 8 < 0 := by omega
        simp [this]
  · have ht' := ht.1 (by omega)
    have hq : ¬ (i.tdiv 8 < 0) := by omega
    have hr : ¬ (i.tmod 8 < 0) := by omega
    simp only [hq, if_false, hneg, false_or]
    by_cases hlt : (i.tdiv 8).toNat < bits.length
    · rw [List.getElem?_eq_getElem hlt]
      simp only [hr, if_false]
      constructor
      · rintro ⟨e, he⟩; cases he
      · intro h; omega
    · rw [List.getElem?_eq_none (by omega)]
      constructor
      · intro _; omega
      · intro _; exact ⟨_, rfl⟩

/-! ### Sort / IsSorted -/

/-- `Sort` yields an ascending (`bytes.Compare <= 0`) list … -/
theorem C10_lib_sort_sorted (l : List Bytes) :
    (bytesSort l).Pairwise (fun a b => ble a b = true) :=
  isort_pairwise ble ble_trans (fun a b => by simpa using ble_total a b) l

/-- … that is a permutation of the input. -/
theorem C10_lib_sort_perm (l : List Bytes) : (bytesSort l).Perm l := isort_perm ble l

/-- ANY sorted permutation of the input is the model's result: the outcome of `Sort` does not depend
on the (unstable) algorithm `sort.Sort` uses, so modelling it by insertion sort loses nothing. -/
theorem C10_lib_sort_unique (l r : List Bytes) (hp : r.Perm l)
    (hs : r.Pairwise (fun a b => ble a b = true)) : r = bytesSort l :=
  sorted_perm_eq ble ble_antisymm r (bytesSort l) (hp.trans (C10_lib_sort_perm l).symm) hs
    (C10_lib_sort_sorted l)

theorem C10_lib_isSorted_iff (l : List Bytes) :
    bytesIsSorted l = true ↔ l.Pairwise (fun a b => ble a b = true) := bytesIsSorted_iff l

theorem C10_lib_sort_isSorted (l : List Bytes) : bytesIsSorted (bytesSort l) = true :=
  (bytesIsSorted_iff _).mpr (C10_lib_sort_sorted l)

/-- `Sort` is idempotent, and the identity on sorted input. -/
theorem C10_lib_sort_of_sorted (l : List Bytes) (h : bytesIsSorted l = true) : bytesSort l = l :=
  (C10_lib_sort_unique l l (List.Perm.refl l) ((bytesIsSorted_iff l).mp h)).symm

theorem C10_lib_sort_idem (l : List Bytes) : bytesSort (bytesSort l) = bytesSort l :=
  C10_lib_sort_of_sorted _ (C10_lib_sort_isSorted l)

/-- the order is total on keys that are prefixes of one another (different lengths): the shorter key
sorts first -/
theorem C10_lib_sort_prefix_keys (p s : Bytes) (hs : s ≠ []) : bcmp p (p ++ s) = .lt := by
  induction p with
  | nil => cases s with
    | nil => exact absurd rfl hs
    | cons _ _ => rfl
  | cons c p ih => simp [bcmp, UInt8.lt_irrefl, ih]

/-! ### Unique / IsUnique -/

/-- What `Unique` returns (in the canonical order of the model): exactly the members of the input,
each once — ALL duplicates are dropped, adjacent or not. -/
theorem C10_lib_unique_spec (l : List Bytes) : IsUniqueOf l (bytesUnique l) := by
  constructor
  · exact (isort_perm ble (dedup l)).nodup_iff.mpr (nodup_dedup l)
  · intro x; unfold bytesUnique; rw [mem_isort, mem_dedup]

/-- the canonical order is strictly ascending -/
theorem C10_lib_unique_sorted (l : List Bytes) :
    (bytesUnique l).Pairwise (fun a b => blt a b = true) := by
  have hs : (bytesUnique l).Pairwise (fun a b => ble a b = true) :=
    isort_pairwise ble ble_trans (fun a b => by simpa using ble_total a b) _
  have hn := (C10_lib_unique_spec l).1
  have := hs.and hn
  refine this.imp ?_
  intro a b ⟨hle, hne⟩
  unfold ble at hle; unfold blt
  cases h : bcmp a b
  · rfl
  · exact absurd ((bcmp_eq_iff a b).mp h) hne
  · simp [h] at hle

/-- The real `Unique` ranges over a Go map, so its result is SOME list satisfying `IsUniqueOf`;
every such list is a permutation of the model's result (and sorting it gives the model's result). -/
theorem C10_lib_unique_any_result (l r : List Bytes) (h : IsUniqueOf l r) :
    r.Perm (bytesUnique l) ∧ bytesSort r = bytesUnique l := by
  have hp : r.Perm (bytesUnique l) :=
    perm_of_nodup_mem r (bytesUnique l) h.1 (C10_lib_unique_spec l).1
      (fun x => by rw [h.2 x, (C10_lib_unique_spec l).2 x])
  refine ⟨hp, (C10_lib_sort_unique r (bytesUnique l) hp.symm ?_).symm⟩
  exact isort_pairwise ble ble_trans (fun a b => by simpa using ble_total a b) _

theorem C10_lib_unique_idem (l : List Bytes) : bytesUnique (bytesUnique l) = bytesUnique l := by
  have h := C10_lib_unique_spec l
  exact ((C10_lib_unique_any_result (bytesUnique l) (bytesUnique l)
    ⟨h.1, fun _ => Iff.rfl⟩).2).symm.trans
    (C10_lib_sort_of_sorted _ ((bytesIsSorted_iff _).mpr
      (isort_pairwise ble ble_trans (fun a b => by simpa using ble_total a b) _)))

/-- `IsUnique(l)` iff `l` has no duplicates -/
theorem C10_lib_isUnique_iff (l : List Bytes) : bytesIsUnique l = true ↔ l.Nodup := by
  unfold bytesIsUnique bytesUnique
  rw [beq_iff_eq, (isort_perm ble (dedup l)).length_eq]
  exact dedup_length_eq_iff l

/-! ### BinarySearch -/

/-- For EVERY predicate: `BinarySearch` does not panic, its result `r` is in `[0, len]`, the element
at `r` (if any) satisfies the predicate and the element before it (if any) does not. -/
theorem C10_lib_binarySearch_boundary {α : Type} (list : List α) (less : α → Bool) :
    ∃ r : Nat, binarySearch list less = .ok (r : Int) ∧ r ≤ list.length ∧
      (∀ x, list[r]? = some x → less x = true) ∧
      (∀ x, 0 < r → list[r - 1]? = some x → less x = false) :=
  binarySearch_boundary list less

/-- On a monotone predicate (`false … false true … true` along the list) the result is the LEAST
index whose element satisfies it (`len` if there is none): everything before it fails the predicate,
everything from it on satisfies it. -/
theorem C10_lib_binarySearch_least {α : Type} (list : List α) (less : α → Bool)
    (mono : ∀ (i j : Nat) (x y : α), i ≤ j → list[i]? = some x → list[j]? = some y → less x = true → less y = true) :
    ∃ r : Nat, binarySearch list less = .ok (r : Int) ∧ r ≤ list.length ∧
      (∀ i x, i < r → list[i]? = some x → less x = false) ∧
      (∀ i x, r ≤ i → list[i]? = some x → less x = true) := by
  obtain ⟨r, e, hr, h1, h2⟩ := binarySearch_boundary list less
  refine ⟨r, e, hr, ?_, ?_⟩
  · intro i x hi hx
    cases hless : less x with
    | false => rfl
    | true =>
      have hlt : r - 1 < list.length := by omega
      have := mono i (r - 1) x list[r - 1] (by omega) hx (List.getElem?_eq_getElem hlt) hless
      rw [h2 _ (by omega) (List.getElem?_eq_getElem hlt)] at this
      cases this
  · intro i x hi hx
    have hlt : r < list.length := by
      apply Classical.byContradiction; intro hn
      rw [List.getElem?_eq_none (by omega)] at hx; cases hx
    exact mono r i list[r] x hi (List.getElem?_eq_getElem hlt) hx (h1 _ (List.getElem?_eq_getElem hlt))

/-- hence it equals the number of leading elements failing the predicate -/
theorem C10_lib_binarySearch_eq_takeWhile {α : Type} (list : List α) (less : α → Bool)
    (mono : ∀ (i j : Nat) (x y : α), i ≤ j → list[i]? = some x → list[j]? = some y → less x = true → less y = true) :
    binarySearch list less = .ok ((list.takeWhile (fun x => !less x)).length : Int) := by
  obtain ⟨r, e, hr, h1, h2⟩ := C10_lib_binarySearch_least list less mono
  rw [e]
  congr 2
  -- the first `r` elements fail, the next one (if any) passes
  have hsplit : list = list.take r ++ list.drop r := (List.take_append_drop r list).symm
  have hall : ∀ x ∈ list.take r, (!less x) = true := by
    intro x hx
    obtain ⟨i, hi, rfl⟩ := List.getElem_of_mem hx
    have hi' : i < r := by simp at hi; omega
    rw [List.getElem_take]
    simp [h1 i _ hi' (List.getElem?_eq_getElem (by simp at hi; omega))]
  rw [hsplit, List.takeWhile_append_of_pos hall]
  cases hd : list.drop r with
  | nil => simp; omega
  | cons y t =>
    have hy : list[r]? = some y := by
      have := congrArg (fun l => l[0]?) hd
      simpa using this
    have : less y = true := h2 r y (Nat.le_refl _) hy
    simp [this]; omega

/-- a predicate that is not monotone still gives a boundary, but not the least index -/
theorem C10_lib_binarySearch_not_monotone :
    binarySearch [1, 0, 0, 0, 0] (fun x => x == (1 : Nat)) = .ok 5 := by decide

/-! ### Insert -/

/-- `Insert(list, i, v)` for `0 <= i <= len`: a new list of length `len+1` with `v` at index `i`, the
elements before `i` unchanged and the elements from `i` on shifted by one (`i = len` appends). -/
theorem C10_lib_insert_spec {α : Type} (list : List α) (i : Nat) (h : i ≤ list.length) (v : α) :
    ∃ r, insert list (i : Int) v = .ok r ∧ r.length = list.length + 1 ∧ r[i]? = some v ∧
      (∀ j, j < i → r[j]? = list[j]?) ∧ (∀ j, i ≤ j → r[j + 1]? = list[j]?) := by
  refine ⟨_, insert_ok list i h v, ?_, ?_, ?_, ?_⟩
  · simp; omega
  · rw [List.getElem?_append_right (by simp; omega)]
    simp [Nat.min_eq_left h]
  · intro j hj
    rw [List.getElem?_append_left (by simp; omega), List.getElem?_take]
    simp [hj]
  · intro j hj
    rw [List.getElem?_append_right (by simp; omega)]
    simp only [List.length_take, Nat.min_eq_left h]
    have : j + 1 - i = (j - i) + 1 := by omega
    rw [this, List.getElem?_cons_succ, List.getElem?_drop]
    congr 1; omega

/-- beyond the ends (`i < 0` or `i > len`) `Insert` panics (index out of range) -/
theorem C10_lib_insert_panics_iff {α : Type} (list : List α) (index : Int) (v : α) :
    (∃ e, insert list index v = .error e) ↔ (index < 0 ∨ index > list.length) :=
  insert_panics list index v

theorem C10_lib_insert_at_len {α : Type} (list : List α) (v : α) :
    insert list (list.length : Int) v = .ok (list ++ [v]) := by
  rw [insert_ok list list.length (Nat.le_refl _) v]; simp

/-- The SMT batch pattern: inserting `x` at the `BinarySearch` point of "x sorts before the element"
into a sorted list keeps the list sorted. -/
theorem C10_lib_insert_at_search_sorted (l : List Bytes) (x : Bytes)
    (hs : l.Pairwise (fun a b => ble a b = true)) :
    ∃ (i : Nat) (r : List Bytes), binarySearch l (fun v => blt x v) = .ok (i : Int) ∧
      insert l (i : Int) x = .ok r ∧ r.Pairwise (fun a b => ble a b = true) ∧ r.Perm (x :: l) := by
  have mono : ∀ (i j : Nat) (a b : Bytes), i ≤ j → l[i]? = some a → l[j]? = some b →
      (fun v => blt x v) a = true → (fun v => blt x v) b = true := by
    intro i j a b hij ha hb hlt
    rcases Nat.lt_or_ge i j with hlt' | hge
    · have hj : j < l.length := by
        apply Classical.byContradiction; intro hn
        rw [List.getElem?_eq_none (by omega)] at hb; cases hb
      have hi : i < l.length := by omega
      rw [List.getElem?_eq_getElem hi] at ha; cases ha
      rw [List.getElem?_eq_getElem hj] at hb; cases hb
      have hab : ble l[i] l[j] = true := List.pairwise_iff_getElem.mp hs i j hi hj hlt'
      simp only [blt, beq_iff_eq] at hlt ⊢
      unfold ble at hab
      cases hc : bcmp l[i] l[j]
      · exact bcmp_lt_trans _ _ _ hlt hc
      · rw [← (bcmp_eq_iff _ _).mp hc]; exact hlt
      · simp [hc] at hab
    · have : i = j := by omega
      subst this; rw [ha] at hb; cases hb; exact hlt
  obtain ⟨i, e, hi, h1, h2⟩ := C10_lib_binarySearch_least l (fun v => blt x v) mono
  refine ⟨i, _, e, insert_ok l i hi x, ?_, ?_⟩
  · -- sortedness of take i ++ x :: drop i
    have hsplit : l = l.take i ++ l.drop i := (List.take_append_drop i l).symm
    rw [hsplit] at hs
    have hs' := List.pairwise_append.mp hs
    refine List.pairwise_append.mpr ⟨hs'.1, List.pairwise_cons.mpr ⟨?_, hs'.2.1⟩, ?_⟩
    · intro b hb
      obtain ⟨k, hk, rfl⟩ := List.getElem_of_mem hb
      rw [List.getElem_drop]
      have hk' : i + k < l.length := by simp at hk; omega
      have := h2 (i + k) _ (by omega) (List.getElem?_eq_getElem hk')
      simp only [blt, beq_iff_eq] at this
      simp [ble, this]
    · intro a ha b hb
      rcases List.mem_cons.mp hb with rfl | hb
      · obtain ⟨k, hk, rfl⟩ := List.getElem_of_mem ha
        rw [List.getElem_take]
        have hk' : k < i := by simp at hk; omega
        have := h1 k _ hk' (List.getElem?_eq_getElem (by omega))
        rw [← ble_iff_not_blt]; simp [this]
      · exact hs'.2.2 a ha b hb
  · have hsplit : l = l.take i ++ l.drop i := (List.take_append_drop i l).symm
    exact (List.perm_middle).trans (List.Perm.cons x (by rw [← hsplit]))

/-! ### Reverse -/

/-- the swap loop of `Reverse` computes the reversed list -/
theorem C10_lib_reverse_eq {α : Type} (l : List α) : reverse l = l.reverse := reverse_eq l

theorem C10_lib_reverse_involutive {α : Type} (l : List α) : reverse (reverse l) = l := by
  rw [reverse_eq, reverse_eq, List.reverse_reverse]

theorem C10_lib_reverse_getElem {α : Type} (l : List α) (i : Nat) (h : i < l.length) :
    (reverse l)[i]? = l[l.length - 1 - i]? := by
  rw [reverse_eq, List.getElem?_reverse h]

theorem C10_lib_bytesReverse_eq (b : Bytes) : bytesReverse b = b.reverse := bytesReverse_eq b

/-! ### CommonPrefix -/

/-- `CommonPrefix(a, b)` is a prefix of both lists … -/
theorem C10_lib_commonPrefix_prefix {α : Type} [DecidableEq α] (a b : List α) :
    commonPrefix a b <+: a ∧ commonPrefix a b <+: b := by
  rw [commonPrefix_eq_lcp]
  exact ⟨lcp_prefix_left a b, by rw [lcp_comm]; exact lcp_prefix_left b a⟩

/-- … and the LONGEST one: every common prefix is a prefix of it, -/
theorem C10_lib_commonPrefix_longest {α : Type} [DecidableEq α] (p a b : List α)
    (ha : p <+: a) (hb : p <+: b) : p <+: commonPrefix a b := by
  rw [commonPrefix_eq_lcp]; exact lcp_greatest p a b ha hb

/-- the elements just after it (if both lists continue) differ. -/
theorem C10_lib_commonPrefix_maximal {α : Type} [DecidableEq α] (a b : List α) (x y : α)
    (ha : a[(commonPrefix a b).length]? = some x) (hb : b[(commonPrefix a b).length]? = some y) :
    x ≠ y := by
  rw [commonPrefix_eq_lcp] at ha hb; exact lcp_maximal a b x y ha hb

theorem C10_lib_commonPrefix_comm {α : Type} [DecidableEq α] (a b : List α) :
    commonPrefix a b = commonPrefix b a := by
  rw [commonPrefix_eq_lcp, commonPrefix_eq_lcp, lcp_comm]

/-! ### Equal -/

/-- `Equal(a, b)` iff the two slices have the same elements in the same order.  (The model has one
empty list: Go's `Equal(nil, []T{})` is `true` as well — the code only compares `len` and elements.) -/
theorem C10_lib_equal_iff {α : Type} [DecidableEq α] (a b : List α) : equal a b = true ↔ a = b :=
  equal_iff a b

/-! ### FindIndex / Find -/

/-- `FindIndex` returns `-1` iff no element satisfies the predicate, otherwise the FIRST index whose
element does. -/
theorem C10_lib_findIndex_spec {α : Type} (l : List α) (p : α → Bool) :
    (findIndex l p = -1 ∧ ∀ x ∈ l, p x = false) ∨
    (∃ k, ∃ hk : k < l.length, findIndex l p = (k : Int) ∧ p l[k] = true ∧
      ∀ j, ∀ hj : j < k, p (l[j]'(by omega)) = false) := by
  have := findIndexFrom_spec p 0 l
  simpa [findIndex] using this

theorem C10_lib_findIndex_neg_iff {α : Type} (l : List α) (p : α → Bool) :
    findIndex l p = -1 ↔ ∀ x ∈ l, p x = false := by
  rcases C10_lib_findIndex_spec l p with ⟨h1, h2⟩ | ⟨k, hk, h1, h2, _⟩
  · exact ⟨fun _ => h2, fun _ => h1⟩
  · constructor
    · intro h; rw [h1] at h; omega
    · intro h; rw [h _ (List.getElem_mem hk)] at h2; cases h2

/-- `Find` returns the first element satisfying the predicate, the zero value if there is none -/
theorem C10_lib_find_spec {α : Type} (zero : α) (l : List α) (p : α → Bool) :
    find zero l p = (l.find? p).getD zero := by
  induction l with
  | nil => rfl
  | cons v r ih =>
    simp only [find, List.find?_cons]
    cases p v <;> simp [ih]

/-! ### non-vacuity -/

example : fromBools [true, false, true] = [0x05] := by decide
example : toBools (fromBools [true, false, true]) = [false, false, false, false, false, true, false, true] := by
  decide
example : fromBools (toBools [0xa5, 0x01]) = [0xa5, 0x01] := C10_lib_fromBools_toBools _
example : fromBools [true, false, false, false, false, false, false, false, true] = [0x01, 0x01] := by decide
example : isBitSet [0xff, 0x00, 0x01] 23 = .ok true := by decide
example : isBitSet [0xff, 0x00, 0x01] 24 = .error .indexOutOfRange := by decide
example : isBitSet [0xff] (-1) = .error .negativeShift := by decide
example : isBitSet [0xff] (-8) = .error .indexOutOfRange := by decide
example : bytesSort [[2], [1, 0], [], [1]] = [[], [1], [1, 0], [2]] := by decide
example : bytesIsSorted [[], [1], [1, 0], [2]] = true := by decide
example : bytesIsSorted [[1, 0], [1]] = false := by decide
example : bytesUnique [[2], [1], [2], [1], [2]] = [[1], [2]] := by decide
example : bytesIsUnique [[2], [1], [2]] = false := by decide
example : binarySearch [1, 3, 5, 7] (fun x => decide (x ≥ (4 : Nat))) = .ok 2 := by decide
example : binarySearch ([] : List Nat) (fun _ => true) = .ok 0 := by decide
example : insert [1, 2, 3] 1 (9 : Nat) = .ok [1, 9, 2, 3] := by decide
example : insert [1, 2, 3] 3 (9 : Nat) = .ok [1, 2, 3, 9] := by decide
example : insert [1, 2, 3] 4 (9 : Nat) = .error .indexOutOfRange := by decide
example : insert [1, 2, 3] (-1) (9 : Nat) = .error .indexOutOfRange := by decide
example : reverse [1, 2, 3, 4, 5] = [5, 4, 3, 2, (1 : Nat)] := by decide
example : commonPrefix [1, 2, 3] [1, 2, 4, (5 : Nat)] = [1, 2] := by decide
example : equal [1, 2] [1, (2 : Nat)] = true ∧ equal [1] [1, (2 : Nat)] = false := by decide
example : findIndex [5, 6, 7, 6] (fun x => x == (6 : Nat)) = 1 := by decide
example : findIndex [5, 6, 7] (fun x => x == (9 : Nat)) = -1 := by decide
