/-
C13 / restart — tie A for the start-up path.  `Gen/Wiring.lean` is REGENERATED from /repo on every run by
tools/wiregen (go/ast): configuration defaults, every composite-literal field and receiver-field assignment
of the constructors / Init methods, and every call of `Engine.Start` / `Engine.init` / `Executer.Init` … in
source order with its lexical context.  The node harness (harness/node `start`) re-enacts this sequence by
hand; the theorems below state that the REAL `Engine.Start` has the order the restart theorems of C13 / C04 /
C16 assume (`Model/Crash.lean` restart = reopen the database, `Chain.Init`, clear the application contexts,
`Executer.Init` (which finds or processes the genesis block and reloads the cache), then `ABI.Init` with the
engine's tip).  A reordered, dropped, duplicated or now-conditional step breaks a named theorem.
-/
import LiskVerif.Lemmas.Wire

open LiskVerif LiskVerif.Wire

/-- every function of the extraction list still exists in the source -/
theorem C13_wire_no_function_missing : missing = [] := by decide +kernel

/-- defaults are inserted and the genesis block is read and initialised before any component is built -/
theorem C13_wire_config_then_genesis_then_components :
    before "Engine.Start" "e.config.InsertDefault" "config.ReadGenesisBlock" = true ∧
    before "Engine.Start" "config.ReadGenesisBlock" "genesisBlock.Init" = true ∧
    before "Engine.Start" "genesisBlock.Init" "e.init" = true ∧
    unconditional "Engine.Start" "e.config.InsertDefault" = true ∧
    unconditional "Engine.Start" "genesisBlock.Init" = true ∧
    unconditional "Engine.Start" "e.init" = true := by decide +kernel

/-- the restart order: components built, chain bound to the opened database, application contexts
cleared, consensus initialised (genesis / cache reload), then pool and generator, and only then the
application is told the tip -/
theorem C13_wire_restart_order :
    before "Engine.Start" "e.init" "e.chain.Init" = true ∧
    before "Engine.Start" "e.chain.Init" "e.abi.Clear" = true ∧
    before "Engine.Start" "e.abi.Clear" "e.consensusExec.Init" = true ∧
    before "Engine.Start" "e.consensusExec.Init" "e.transactionPool.Init" = true ∧
    before "Engine.Start" "e.transactionPool.Init" "e.generator.Init" = true ∧
    before "Engine.Start" "e.generator.Init" "e.abi.Init" = true := by decide +kernel

/-- none of these steps is conditional or inside a loop -/
theorem C13_wire_restart_steps_unconditional :
    (["e.chain.Init", "e.abi.Clear", "e.consensusExec.Init", "e.transactionPool.Init", "e.generator.Init",
      "e.abi.Init"].all (unconditional "Engine.Start")) = true := by decide +kernel

/-- every goroutine (`p2pConn.Start`, `consensusExec.Start`, `transactionPool.Start`, `generator.Start`, the
RPC server, the event pump) is started only after the last Init returned: no block can be processed,
forged or served before the chain, the BFT store and the generator information are loaded -/
theorem C13_wire_goroutines_after_init :
    allAsyncAfter "Engine.Start" "e.generator.Init" = true ∧
    ((asyncCalls "Engine.Start").map (·.callee)).filter (fun c => c.endsWith ".Start" || c == "e.handleEvents" || c == "e.server.ListenAndServe")
      = ["e.p2pConn.Start", "e.consensusExec.Start", "e.transactionPool.Start", "e.generator.Start",
         "e.server.ListenAndServe", "e.handleEvents"] := by decide +kernel

/-- chain, consensus and pool share the ONE blockchain database handle opened by `Start` -/
theorem C13_wire_one_blockchain_db :
    argsOf "Engine.Start" "e.chain.Init" = some ["genesisBlock", "blockchainDB"] ∧
    wired "Engine.Start" "consensus.ExecuterInitParam" "Database" "blockchainDB" = true ∧
    wired "Engine.Start" "consensus.ExecuterInitParam" "GenesisBlock" "genesisBlock" = true ∧
    wired "Engine.Start" "recv" "blockchainDB" "blockchainDB" = true ∧
    wired "Engine.Start" "generator.GeneratorInitParams" "BlockchainDB" "e.blockchainDB" = true ∧
    wired "Executer.Init" "recv" "database" "param.Database" = true ∧
    wired "Chain.Init" "recv" "database" "db" = true := by decide +kernel

/-- `Executer.Init` sets the BFT window up before it looks for the genesis block, and decides
"fresh or restart" through `GenesisBlockExist` on the given genesis block -/
theorem C13_wire_executer_init_order :
    before "Executer.Init" "c.liskBFT.Init" "c.chain.GenesisBlockExist" = true ∧
    argsOf "Executer.Init" "c.chain.GenesisBlockExist" = some ["param.GenesisBlock"] ∧
    argsOf "Executer.Init" "c.liskBFT.Init" = some ["c.batchSize"] := by decide +kernel

example : (syncCalls "Engine.Start").length > 20 := by decide +kernel
