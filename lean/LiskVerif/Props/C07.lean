/-
C07 — Header contradiction and fork-choice classification follow LIP-0014.

All theorems are about the definitions REGENERATED from the Go source on every run
(`LiskVerif.Gen.*`, produced by tools/fngen), so a change to
`contradiction.AreDistinctHeadersContradicting`, the `forkChoice` predicates,
`API.HeaderHasPriority` or the predicate order of `Executer.process` changes the proof obligations.
-/
import LiskVerif.Gen.Fns
import LiskVerif.Lemmas.Tactics

open LiskVerif LiskVerif.Gen

/-- `l` may legitimately follow `e` for a generator that reports its largest generated height and
only moves to chains preferred by fork choice. -/
def C07LegitSucc (e l : Hdr) : Prop :=
  e.height ≤ l.maxHeightGenerated ∧ e.maxHeightGenerated ≤ l.maxHeightGenerated ∧
  e.maxHeightPrevoted ≤ l.maxHeightPrevoted ∧
  (e.maxHeightPrevoted = l.maxHeightPrevoted → e.height < l.height)

instance (e l : Hdr) : Decidable (C07LegitSucc e l) := by unfold C07LegitSucc; infer_instance

/-- Contradiction is a symmetric relation. -/
theorem C07_symmetric (a b : Hdr) :
    areDistinctHeadersContradicting a b = areDistinctHeadersContradicting b a := by
  unfold areDistinctHeadersContradicting
  decide_fn

/-- Headers by different generators never contradict. -/
theorem C07_diff_generator_never (a b : Hdr) (h : a.generatorAddress ≠ b.generatorAddress) :
    areDistinctHeadersContradicting a b = false := by
  unfold areDistinctHeadersContradicting
  have h' : ¬ b.generatorAddress = a.generatorAddress := fun x => h x.symm
  decide_fn

/-- Two headers of one generator do NOT contradict exactly when one of them is a legitimate
successor of the other. -/
theorem C07_spec (a b : Hdr) (h : a.generatorAddress = b.generatorAddress) :
    areDistinctHeadersContradicting a b = false ↔ (C07LegitSucc a b ∨ C07LegitSucc b a) := by
  unfold areDistinctHeadersContradicting C07LegitSucc
  have h' : b.generatorAddress = a.generatorAddress := h.symm
  decide_fn

/-- The three causes of a contradiction, for the pair ordered as the code orders it
(`e` before `l` by (maxHeightGenerated, maxHeightPrevoted, height)):
double forging / not moving forward on equal maxHeightPrevoted, violating the own
maxHeightGenerated, or building on a chain with lower maxHeightPrevoted. -/
theorem C07_three_causes (e l : Hdr) (h : e.generatorAddress = l.generatorAddress)
    (hord : e.maxHeightGenerated < l.maxHeightGenerated ∨
      (e.maxHeightGenerated = l.maxHeightGenerated ∧ e.maxHeightPrevoted < l.maxHeightPrevoted) ∨
      (e.maxHeightGenerated = l.maxHeightGenerated ∧ e.maxHeightPrevoted = l.maxHeightPrevoted ∧
        e.height ≤ l.height)) :
    areDistinctHeadersContradicting e l = true ↔
      ((e.maxHeightPrevoted = l.maxHeightPrevoted ∧ l.height ≤ e.height) ∨
       l.maxHeightGenerated < e.height ∨ l.maxHeightPrevoted < e.maxHeightPrevoted) := by
  unfold areDistinctHeadersContradicting
  have h' : l.generatorAddress = e.generatorAddress := h.symm
  decide_fn

/-- `C07LegitSucc` is transitive: a generator's headers form a chain. -/
theorem C07_legit_trans (a b c : Hdr) (h1 : C07LegitSucc a b) (h2 : C07LegitSucc b c) :
    C07LegitSucc a c := by
  unfold C07LegitSucc at *
  omega

/-- A generator that follows the protocol is never flagged: if its headers, in signing order, are
each a legitimate successor of all earlier ones, no two of them contradict. -/
theorem C07_protocol_follower_never_flagged (hs : List Hdr) (g : Bytes)
    (hgen : ∀ x ∈ hs, x.generatorAddress = g) (hon : hs.Pairwise C07LegitSucc) :
    hs.Pairwise (fun a b => areDistinctHeadersContradicting a b = false ∧
      areDistinctHeadersContradicting b a = false) := by
  induction hs with
  | nil => exact List.Pairwise.nil
  | cons x r ih =>
    have hp := List.pairwise_cons.mp hon
    refine List.pairwise_cons.mpr ⟨?_, ih (fun y hy => hgen y (List.mem_cons_of_mem _ hy)) hp.2⟩
    intro y hy
    have hxy : x.generatorAddress = y.generatorAddress := by
      rw [hgen x List.mem_cons_self, hgen y (List.mem_cons_of_mem _ hy)]
    have := (C07_spec x y hxy).mpr (Or.inl (hp.1 y hy))
    exact ⟨this, by rw [← C07_symmetric]; exact this⟩

/-- The honest generator of LIP-0014: it remembers the largest height it generated; each new header
reports it, and is built on a tip that fork choice prefers to the previous one
(larger maxHeightPrevoted, or equal and larger height). -/
structure C07Gen where
  maxGen : Nat := 0
  lastMhp : Nat := 0
  lastHeight : Nat := 0

/-- one forging step at `height` on a chain whose maxHeightPrevoted is `mhp` -/
def C07Gen.forge (s : C07Gen) (g : Bytes) (height mhp : Nat) : C07Gen × Hdr :=
  ({ maxGen := max s.maxGen height, lastMhp := mhp, lastHeight := height },
   { height := height, generatorAddress := g, maxHeightGenerated := s.maxGen, maxHeightPrevoted := mhp })

def C07Gen.allowed (s : C07Gen) (height mhp : Nat) : Prop :=
  s.lastMhp < mhp ∨ (s.lastMhp = mhp ∧ s.lastHeight < height)

/-- run of the honest generator over a list of (height, mhp) forging opportunities -/
def C07Gen.run (g : Bytes) : C07Gen → List (Nat × Nat) → List Hdr
  | _, [] => []
  | s, (h, p) :: r => (s.forge g h p).2 :: C07Gen.run g (s.forge g h p).1 r

def C07Gen.allowedAll : C07Gen → List (Nat × Nat) → Prop
  | _, [] => True
  | s, (h, p) :: r => s.allowed h p ∧ C07Gen.allowedAll (s.forge (g := []) h p).1 r

private theorem gen_forge_state (s : C07Gen) (g g' : Bytes) (h p : Nat) :
    (s.forge g h p).1 = (s.forge g' h p).1 := rfl

/-- every header produced later by the honest generator legitimately succeeds a header `x` that the
state already accounts for -/
private theorem gen_run_succ (g : Bytes) (x : Hdr) : ∀ (steps : List (Nat × Nat)) (s : C07Gen),
    C07Gen.allowedAll s steps → x.height ≤ s.maxGen → x.maxHeightGenerated ≤ s.maxGen →
    (x.maxHeightPrevoted < s.lastMhp ∨ (x.maxHeightPrevoted = s.lastMhp ∧ x.height ≤ s.lastHeight)) →
    ∀ y ∈ C07Gen.run g s steps, C07LegitSucc x y := by
  intro steps
  induction steps with
  | nil => intro s _ _ _ _ y hy; simp [C07Gen.run] at hy
  | cons st r ih =>
    intro s hall h1 h2 h3 y hy
    obtain ⟨h, p⟩ := st
    simp only [C07Gen.run, List.mem_cons] at hy
    simp only [C07Gen.allowedAll] at hall
    rcases hy with rfl | hy
    · unfold C07LegitSucc C07Gen.forge
      unfold C07Gen.allowed at hall
      simp only
      omega
    · apply ih (s.forge g h p).1 (by rw [gen_forge_state s g [] h p]; exact hall.2) _ _ _ y hy
      · simp only [C07Gen.forge]; omega
      · simp only [C07Gen.forge]; omega
      · simp only [C07Gen.forge]
        have := hall.1
        unfold C07Gen.allowed at this
        omega

/-- The honest generator's headers are pairwise legitimate successors, hence (previous theorem)
never flagged as contradicting — for every sequence of forging opportunities, including forging at
a lower height after switching to a better, shorter chain. -/
theorem C07_honest_generator_chain (g : Bytes) (steps : List (Nat × Nat)) (s : C07Gen)
    (hall : C07Gen.allowedAll s steps) : (C07Gen.run g s steps).Pairwise C07LegitSucc := by
  induction steps generalizing s with
  | nil => exact List.Pairwise.nil
  | cons st r ih =>
    obtain ⟨h, p⟩ := st
    simp only [C07Gen.run]
    simp only [C07Gen.allowedAll] at hall
    refine List.pairwise_cons.mpr ⟨?_, ih _ (by rw [gen_forge_state s g [] h p]; exact hall.2)⟩
    apply gen_run_succ g _ r (s.forge g h p).1 (by rw [gen_forge_state s g [] h p]; exact hall.2)
    · simp [C07Gen.forge]; omega
    · simp [C07Gen.forge]; omega
    · simp [C07Gen.forge]

/-- Detection inside the window: `BFTVotes.contradicting` compares a new header only with the most
recent header of the same generator. If the generator's headers already on the chain (oldest
first) form a legitimate chain and the new header `y` extends the chain (larger height, chain
maxHeightPrevoted not smaller), then `y` contradicting ANY of them implies `y` contradicts the most
recent one — so the single comparison flags it. -/
theorem C07_window_detection (xs : List Hdr) (last y : Hdr)
    (hgen : ∀ x ∈ xs ++ [last], x.generatorAddress = y.generatorAddress)
    (hchain : (xs ++ [last]).Pairwise C07LegitSucc)
    (hh : last.height < y.height) (hp : last.maxHeightPrevoted ≤ y.maxHeightPrevoted)
    (x : Hdr) (hx : x ∈ xs ++ [last]) (hc : areDistinctHeadersContradicting x y = true) :
    areDistinctHeadersContradicting last y = true := by
  cases hl : areDistinctHeadersContradicting last y with
  | true => rfl
  | false =>
    exfalso
    have hlast : last ∈ xs ++ [last] := by simp
    have hs := (C07_spec last y (hgen last hlast)).mp hl
    have hly : C07LegitSucc last y := by
      rcases hs with h1 | h1
      · exact h1
      · unfold C07LegitSucc at h1; omega
    have hxl : x = last ∨ C07LegitSucc x last := by
      rw [List.mem_append] at hx
      rcases hx with hx | hx
      · right
        exact (List.pairwise_append.mp hchain).2.2 x hx last (by simp)
      · left; simpa using hx
    have hxy : C07LegitSucc x y := by
      rcases hxl with rfl | h1
      · exact hly
      · exact C07_legit_trans x last y h1 hly
    have := (C07_spec x y (hgen x hx)).mpr (Or.inl hxy)
    rw [this] at hc
    cases hc

/-! ### fork-choice classification -/

/-- LIP-0014 order on (maxHeightPrevoted, height) -/
def C07Better (mhp h mhp' h' : Nat) : Prop := mhp < mhp' ∨ (mhp = mhp' ∧ h < h')

theorem C07_different_chain_iff (lm m lh h : Nat) :
    isDifferentChain lm m lh h = true ↔ C07Better lm lh m h := by
  unfold isDifferentChain C07Better
  simp
  omega

/-- the predicate order used by `Executer.process` -/
theorem C07_process_order :
    processOrder = ["IsIdenticalBlock", "IsValidBlock", "IsDoubleForging", "IsTieBreak", "IsDifferentChain"] := rfl

inductive C07Class | identical | extendsTip | doubleForging | tieBreak | betterChain | discard
deriving DecidableEq, Repr

/-- classification of an incoming block, in the order of `process` -/
def C07classify (c : FC) : C07Class :=
  if fcIsIdenticalBlock c then .identical
  else if fcIsValidBlock c then .extendsTip
  else if fcIsDoubleForging c then .doubleForging
  else if fcIsTieBreak c then .tieBreak
  else if fcIsDifferentChain c then .betterChain
  else .discard

/-- An incoming block is classified as a better chain exactly when it is not identical, does not
extend the tip, is not a duplicate-height special case, and is larger in the LIP-0014 order. -/
theorem C07_classification_better (c : FC) :
    C07classify c = .betterChain ↔
      (c.lastHeader.id ≠ c.currentHeader.id ∧ fcIsValidBlock c = false ∧
       C07Better c.lastHeader.maxHeightPrevoted c.lastHeader.height
         c.currentHeader.maxHeightPrevoted c.currentHeader.height) := by
  unfold C07classify
  have hdc := C07_different_chain_iff c.lastHeader.maxHeightPrevoted c.currentHeader.maxHeightPrevoted
    c.lastHeader.height c.currentHeader.height
  have hdup : C07Better c.lastHeader.maxHeightPrevoted c.lastHeader.height
      c.currentHeader.maxHeightPrevoted c.currentHeader.height → fcIsDuplicateBlock c = false := by
    unfold C07Better fcIsDuplicateBlock
    intro h
    simp
    omega
  by_cases h1 : fcIsIdenticalBlock c = true
  · simp [h1]; unfold fcIsIdenticalBlock at h1; simp at h1; intro h; exact absurd h1 h
  · by_cases h2 : fcIsValidBlock c = true
    · simp [h1, h2]
    · have h1' : c.lastHeader.id ≠ c.currentHeader.id := by
        unfold fcIsIdenticalBlock at h1; simpa using h1
      by_cases hb : C07Better c.lastHeader.maxHeightPrevoted c.lastHeader.height
          c.currentHeader.maxHeightPrevoted c.currentHeader.height
      · have h3 : fcIsDoubleForging c = false := by unfold fcIsDoubleForging; simp [hdup hb]
        have h4 : fcIsTieBreak c = false := by unfold fcIsTieBreak; simp [hdup hb]
        have h5 : fcIsDifferentChain c = true := by unfold fcIsDifferentChain; exact hdc.mpr hb
        simp [h1, h2, h3, h4, h5, h1', hb]
      · have h5 : fcIsDifferentChain c = false := by
          unfold fcIsDifferentChain
          cases h : isDifferentChain c.lastHeader.maxHeightPrevoted c.currentHeader.maxHeightPrevoted
            c.lastHeader.height c.currentHeader.height with
          | false => rfl
          | true => exact absurd (hdc.mp h) hb
        simp [h1, h2, h5, hb]
        split <;> (try split) <;> simp

/-- A block that is neither identical, extending, a duplicate-height case, nor better is discarded. -/
theorem C07_classification_discard (c : FC) (h1 : fcIsIdenticalBlock c = false)
    (h2 : fcIsValidBlock c = false) (h3 : fcIsDuplicateBlock c = false)
    (h4 : ¬ C07Better c.lastHeader.maxHeightPrevoted c.lastHeader.height
      c.currentHeader.maxHeightPrevoted c.currentHeader.height) :
    C07classify c = .discard := by
  unfold C07classify
  have hdc := C07_different_chain_iff c.lastHeader.maxHeightPrevoted c.currentHeader.maxHeightPrevoted
    c.lastHeader.height c.currentHeader.height
  have h5 : fcIsDifferentChain c = false := by
    unfold fcIsDifferentChain
    cases h : isDifferentChain c.lastHeader.maxHeightPrevoted c.currentHeader.maxHeightPrevoted
      c.lastHeader.height c.currentHeader.height with
    | false => rfl
    | true => exact absurd (hdc.mp h) h4
  have h6 : fcIsDoubleForging c = false := by unfold fcIsDoubleForging; simp [h3]
  have h7 : fcIsTieBreak c = false := by unfold fcIsTieBreak; simp [h3]
  simp [h1, h2, h5, h6, h7]

/-- Double forging and tie break only concern a block at the same height, with the same
maxHeightPrevoted and the same parent as the tip. -/
theorem C07_duplicate_cases (c : FC) (h : C07classify c = .doubleForging ∨ C07classify c = .tieBreak) :
    c.lastHeader.height = c.currentHeader.height ∧
    c.lastHeader.maxHeightPrevoted = c.currentHeader.maxHeightPrevoted ∧
    c.lastHeader.previousBlockID = c.currentHeader.previousBlockID := by
  have : fcIsDuplicateBlock c = true := by
    unfold C07classify at h
    by_cases hd : fcIsDuplicateBlock c = true
    · exact hd
    · have h6 : fcIsDoubleForging c = false := by unfold fcIsDoubleForging; simp [hd]
      have h7 : fcIsTieBreak c = false := by unfold fcIsTieBreak; simp [hd]
      simp [h6, h7] at h
      rcases h with h | h <;> (split at h <;> (try split at h) <;> (try split at h) <;> simp at h)
  unfold fcIsDuplicateBlock at this
  simpa [and_assoc] using this

/-- `HeaderHasPriority` (used when generating) is the same LIP-0014 order. -/
theorem C07_header_priority_order (hd : Hdr) (height mhp mhg : Nat) (hv : hd.version ≠ 0) :
    headerHasPriority hd height mhp mhg = true ↔
      C07Better mhp height hd.maxHeightPrevoted hd.height := by
  unfold headerHasPriority C07Better
  simp [hv]

/-! ### non-vacuity -/

private def hA : Hdr := { height := 10, generatorAddress := [1], maxHeightGenerated := 5, maxHeightPrevoted := 3 }
private def hB : Hdr := { height := 8, generatorAddress := [1], maxHeightGenerated := 10, maxHeightPrevoted := 4 }
private def hC : Hdr := { height := 9, generatorAddress := [1], maxHeightGenerated := 8, maxHeightPrevoted := 4 }

example : C07LegitSucc hA hB := by decide
example : areDistinctHeadersContradicting hA hB = false := by decide
-- reporting the LAST generated height (8) instead of the largest (10) contradicts the header at 10
example : areDistinctHeadersContradicting hA hC = true := by decide
example : (C07Gen.run [1] {} [(10, 3), (8, 4), (9, 4)]).map (·.maxHeightGenerated) = [0, 10, 10] := by decide
