/-
C03 (gap closing) — rejected blocks change nothing for every rule and every prefix of rules;
every single alteration of a valid successor is rejected; rejected blocks are invisible in any
history; the chain only holds blocks offered as valid, over operation lists with deletions and
restarts; the signed message separates chains.

Part 1 is about `LiskVerif.Verify` (Model/Verify.lean: `Block.Validate`, `verifyBlock`,
`verifyAggregateCommit`, `Execute`, `processValidated`), part 2 about `LiskVerif.Node`
(Model/Node.lean: `Executer.process` with its fork-choice glue, `processValidated` + `AddBlock`,
`deleteBlock`, `PrepareCache`), part 3 about the message of `ValidateBlockSignature`.

* `C03_reject_any_prefix`      : for EVERY position of the rule list — whatever prefix of rules the
  block passes — failing the next rule returns that rule's error and the node unchanged.
* `C03_apply_dichotomy`        : a block is either `SpecValid` and the result is exactly `addBlock` on
  the staged store after execution, or not `SpecValid` and the result is the unchanged node + error.
* `C03_single_alteration_rejected` : from a valid successor, altering the version, the height, the
  previous-block link, the timestamp (not later / future / slot of another generator), the signer,
  maxHeightPrevoted, the signature (validity or length), the aggregate commit, any of the five
  roots/hashes, the assets, the payload (a statically invalid transaction, the size, a
  transaction the application rejects) or the event count gives a block that is rejected with the
  node unchanged.
* `C03_history_rejected_invisible`, `C03_history_state`: over ANY list of offered blocks the final
  node is the node reached by the accepted blocks alone; chain, events, finalized height are
  determined by them; `C03_history_chain_linked`: tip = head of the chain, heights consecutive.
* `C03_ops_chain_only_valid`   : over ANY list of `apply` / `deleteTip` / `restart` / `process` /
  `clearTemp` operations (interleaved deletions and restarts, tie-break replacements and their
  reverts) every block of the resulting chain was on the chain before or was offered with all
  validity flags set, as successor (height + 1, previous-block link) of the tip of that moment.
* `C03_signed_message_injective`: tag ‖ chainID ‖ signingBytes determines chain ID and signing bytes
  for chain IDs of one length (counterexample without), hence — with `C03_signing_bytes_injective`
  — chain ID and every signed header field.
-/
import LiskVerif.Props.C03
import LiskVerif.Lemmas.NodeTrans
import LiskVerif.Lemmas.NodeExample

open LiskVerif

/-! ## Part 1 — the acceptance path (`LiskVerif.Verify`) -/

section VerifyPart
open LiskVerif.Verify

/-- **Rejected ⇒ unchanged, for every rule and every prefix of rules passed.** Split the rule list
(all ~40 rules in code order, `checkList`) at ANY position: if every rule before it holds and the
rule at it fails, `Block.Validate` + `processValidated` return exactly that rule's error and the node
(chain, tip, consensus store, finalized height, published events) exactly as it was — no matter
how much of the staged execution (vote update, transactions, parameter change) already ran. -/
theorem C03_reject_any_prefix (n : Node) (b : Cand) (pre post : List (Err × Bool)) (e : Err)
    (hsplit : checkList n b = pre ++ (e, false) :: post) (hpre : ∀ p ∈ pre, p.2 = true) :
    applyBlock n b = (n, some e) := by
  have h2 : (applyBlock n b).2 = some e :=
    (C03_first_failure_characterisation n b e).mpr ⟨pre, post, hsplit, hpre⟩
  have h1 := C03_reject_leaves_state n b e h2
  exact Prod.ext h1 h2

/-- … and conversely every rejection is of this form. -/
theorem C03_reject_iff_some_rule_fails (n : Node) (b : Cand) :
    (∃ e, applyBlock n b = (n, some e)) ↔ ∃ p ∈ checkList n b, p.2 = false := by
  constructor
  · rintro ⟨e, h⟩
    have h2 : (applyBlock n b).2 = some e := by rw [h]
    obtain ⟨pre, post, hs, _⟩ := (C03_first_failure_characterisation n b e).mp h2
    exact ⟨(e, false), by rw [hs]; simp, rfl⟩
  · rintro ⟨p, hp, hf⟩
    cases h : (applyBlock n b).2 with
    | some e => exact ⟨e, Prod.ext (C03_reject_leaves_state n b e h) h⟩
    | none =>
      rw [C03_first_failure_order, firstFailure_none_iff] at h
      rw [h p hp] at hf
      cases hf

/-- **Dichotomy.** Either the block satisfies every rule and the node afterwards is EXACTLY
`addBlock` of the staged consensus store after execution (all fields, including the tip's
timestamp and the publications), or it violates some rule and the result is the unchanged node with
an error. There is no third outcome. -/
theorem C03_apply_dichotomy (n : Node) (b : Cand) :
    (SpecValid n.cfg.acBound n b ∧
      ∃ s2, storeAfterExec n b = some s2 ∧ applyBlock n b = (addBlock n s2 b, none)) ∨
    (¬ SpecValid n.cfg.acBound n b ∧ ∃ e, applyBlock n b = (n, some e)) := by
  cases h : (applyBlock n b).2 with
  | none =>
    left
    refine ⟨(accepts_iff n b).mp h, ?_⟩
    obtain ⟨s2, h1, h2⟩ := applyBlock_accepted_node n b h
    exact ⟨s2, h1, Prod.ext h2 h⟩
  | some e =>
    right
    refine ⟨fun hs => ?_, e, Prod.ext (C03_reject_leaves_state n b e h) h⟩
    have := (accepts_iff n b).mpr hs
    unfold accepts at this
    rw [this] at h
    cases h

/-- a block that is not `SpecValid` is rejected and leaves the node unchanged -/
theorem C03_invalid_rejected (n : Node) (b : Cand) (h : ¬ SpecValid n.cfg.acBound n b) :
    ∃ e, applyBlock n b = (n, some e) := by
  rcases C03_apply_dichotomy n b with ⟨hs, _⟩ | ⟨_, he⟩
  · exact absurd hs h
  · exact he

/-- Single alterations of a block `b` (the property's quantifier). Facts the model does not compute
(signature validity, root equalities, static validity, application verdicts) are altered as facts.
An alteration of a signed header field keeps `sigOK` here, i.e. the block is re-signed by the
generator: the rule of the altered field itself must reject it. -/
inductive C03Altered (n : Node) (b : Cand) : Cand → Prop where
  | version (v : Nat) (h : v ≠ 2) : C03Altered n b { b with version := v }
  | height (k : Nat) (h : k ≠ b.height) : C03Altered n b { b with height := k }
  | previousBlockID (p : Bytes) (h : p ≠ b.prevID) : C03Altered n b { b with prevID := p }
  | timestampNotLater (t : Nat) (h : slotOf n.cfg t ≤ slotOf n.cfg n.tipTimestamp) :
      C03Altered n b { b with timestamp := t }
  | timestampFuture (t : Nat) (h : slotOf n.cfg t > slotOf n.cfg n.cfg.now) :
      C03Altered n b { b with timestamp := t }
  | timestampOtherSlot (t : Nat) (h : slotGenerator n n.bft { b with timestamp := t } ≠ some b.gen) :
      C03Altered n b { b with timestamp := t }
  | signer (g : Bytes) (h : g ≠ b.gen) : C03Altered n b { b with gen := g }
  | maxHeightPrevoted (m : Nat) (h : m ≠ b.mhp) : C03Altered n b { b with mhp := m }
  | maxHeightGeneratedContradicting (m : Nat) (h : isContradicting n.bft { b with mhg := m } = true) :
      C03Altered n b { b with mhg := m }
  | signatureInvalid : C03Altered n b { b with sigOK := false }
  | signatureLength (l : Nat) (h : l ≠ 64) : C03Altered n b { b with sigLen := l }
  | aggregateCommit (ac : AC) (h : ¬ ACValid n.cfg.acBound n ac) : C03Altered n b { b with ac := ac }
  | transactionRoot : C03Altered n b { b with txRootOK := false }
  | assetRoot : C03Altered n b { b with assetRootOK := false }
  | eventRoot : C03Altered n b { b with eventRootOK := false }
  | validatorsHash : C03Altered n b { b with vhOK := false }
  | stateRoot : C03Altered n b { b with commitOK := false }
  | assets (a : AssetsV) (h : a ≠ .ok) : C03Altered n b { b with assets := a }
  | payloadStatic (l : List Bool) (h : false ∈ l) : C03Altered n b { b with txStatic := l }
  | payloadSize (k : Nat) (h : k > n.cfg.maxTxLen) : C03Altered n b { b with payloadSize := k }
  | payloadVerdict (l : List (TxV × TxV)) (t : TxV × TxV) (ht : t ∈ l)
      (h : t.1 ≠ .ok ∨ t.2 = .error ∨ t.2 = .invalid) : C03Altered n b { b with txs := l }
  | eventCount (k : Nat) (h : k > maxEventsPerBlock) : C03Altered n b { b with nEvents := k }

/-- **Every single alteration of a valid successor is rejected, and the node is unchanged.** -/
theorem C03_single_alteration_rejected (n : Node) (b b' : Cand) (hv : SpecValid n.cfg.acBound n b)
    (ha : C03Altered n b b') : ∃ e, applyBlock n b' = (n, some e) := by
  apply C03_invalid_rejected
  intro hs
  cases ha with
  | version v h => exact h hs.version
  | height k h => exact h (by have := hs.height; have := hv.height; simp only at *; omega)
  | previousBlockID p h => exact h (by have := hs.link; have := hv.link; simp only at *; rw [‹p = n.tipID›, ‹b.prevID = n.tipID›])
  | timestampNotLater t h => have := hs.slotLater; simp only at this; omega
  | timestampFuture t h => have := hs.notFuture; simp only at this; omega
  | timestampOtherSlot t h => exact h hs.generator
  | signer g h =>
    have h1 : slotGenerator n n.bft { b with gen := g } = some g := hs.generator
    have h2 : slotGenerator n n.bft { b with gen := g } = slotGenerator n n.bft b := rfl
    rw [h2, hv.generator] at h1
    exact h (Option.some.inj h1).symm
  | maxHeightPrevoted m h =>
    have h1 : m = n.bft.mhp := hs.maxHeightPrevoted
    exact h (by rw [h1, hv.maxHeightPrevoted])
  | maxHeightGeneratedContradicting m h => have := hs.notContradicting; rw [h] at this; cases this
  | signatureInvalid => have := hs.signature; cases this
  | signatureLength l h => exact h hs.lengths.2.2
  | aggregateCommit ac h => exact h hs.aggregateCommit
  | transactionRoot => have := hs.transactionRoot; cases this
  | assetRoot => have := hs.assetRoot; cases this
  | eventRoot => have := hs.eventRoot; cases this
  | validatorsHash => have := hs.validatorsHash; cases this
  | stateRoot => have := hs.stateRoot; cases this
  | assets a h => exact h hs.assets
  | payloadStatic l h => have := hs.transactionsStatic false h; cases this
  | payloadSize k h => have := hs.payloadSize; simp only at this; omega
  | payloadVerdict l t ht h =>
    have := hs.executes.2.2.2.2.1 t ht
    rcases h with h | h | h
    · exact h this.1
    · exact this.2.1 h
    · exact this.2.2 h
  | eventCount k h => have := hs.executes.2.2.2.2.2.2.2.2.2; simp only at this; omega

/-! ### histories of offered blocks -/

/-- the blocks of a list of offered blocks that get accepted (each offered to the node the
previous ones produced) -/
def C03acceptedOf (n : Node) : List Cand → List Cand
  | [] => []
  | b :: r => (if (applyBlock n b).2 = none then [b] else []) ++ C03acceptedOf (applyBlock n b).1 r

/-- every block of the list is accepted when offered in turn -/
def C03AllAccepted (n : Node) : List Cand → Prop
  | [] => True
  | b :: r => SpecValid n.cfg.acBound n b ∧ C03AllAccepted (applyBlock n b).1 r

/-- **Rejected blocks are invisible.** For ANY list of offered blocks (valid, invalid, repeated,
in any order) the final node — chain, tip, consensus store, finalized height, published events —
is the node reached by offering only the accepted blocks, each of which satisfied every rule
against the state it was offered to. -/
theorem C03_history_rejected_invisible (bs : List Cand) (n : Node) :
    runAll n bs = runAll n (C03acceptedOf n bs) ∧ C03AllAccepted n (C03acceptedOf n bs) := by
  induction bs generalizing n with
  | nil => exact ⟨rfl, trivial⟩
  | cons b r ih =>
    cases h : (applyBlock n b).2 with
    | none =>
      have := ih (applyBlock n b).1
      simp only [C03acceptedOf, h, if_true, List.singleton_append, runAll, C03AllAccepted]
      exact ⟨this.1, (accepts_iff n b).mp h, this.2⟩
    | some e =>
      have hn := C03_reject_leaves_state n b e h
      have := ih n
      simp only [C03acceptedOf, h, runAll, hn]
      simpa using this

/-- What a history of accepted blocks produces: the chain grows by exactly these blocks (newest
first), the configuration is unchanged, the finalized height never decreases, and the published
events only grow. -/
theorem C03_history_state (bs : List Cand) (n : Node) (h : C03AllAccepted n bs) :
    (runAll n bs).chain = (bs.map fun b => (b.height, b.id)).reverse ++ n.chain ∧
    (runAll n bs).cfg = n.cfg ∧ n.finalized ≤ (runAll n bs).finalized ∧
    n.events <+: (runAll n bs).events := by
  induction bs generalizing n with
  | nil => exact ⟨by simp [runAll], rfl, Nat.le_refl _, List.prefix_refl _⟩
  | cons b r ih =>
    obtain ⟨hb, hr⟩ := h
    obtain ⟨s2, _, he⟩ := C03_accept_effect n b ((accepts_iff n b).mpr hb)
    obtain ⟨_, _, hc, _, hf, hcfg, hev⟩ := he
    obtain ⟨i1, i2, i3, i4⟩ := ih (applyBlock n b).1 hr
    refine ⟨?_, ?_, ?_, ?_⟩
    · simp only [runAll, i1, hc, List.map_cons, List.reverse_cons, List.append_assoc,
        List.singleton_append]
    · simp only [runAll, i2, hcfg]
    · simp only [runAll]; rw [hf] at i3; omega
    · simp only [runAll]
      refine List.IsPrefix.trans ?_ i4
      rw [hev]
      simp only [List.append_assoc]
      exact List.prefix_append _ _

/-- the chain index is linked: its head is the tip, heights are consecutive -/
def C03Linked : List (Nat × Bytes) → Prop
  | [] => True
  | [_] => True
  | a :: b :: r => a.1 = b.1 + 1 ∧ C03Linked (b :: r)

/-- Over any list of offered blocks: if the tip is the head of the chain index and the heights are
consecutive, they still are afterwards — nothing is ever inserted below the tip or with a gap. -/
theorem C03_history_chain_linked (bs : List Cand) (n : Node)
    (h : ∃ rest, n.chain = (n.tipHeight, n.tipID) :: rest ∧ C03Linked n.chain) :
    ∃ rest, (runAll n bs).chain = ((runAll n bs).tipHeight, (runAll n bs).tipID) :: rest ∧
      C03Linked (runAll n bs).chain := by
  induction bs generalizing n with
  | nil => exact h
  | cons b r ih =>
    simp only [runAll]
    apply ih
    rcases C03_apply_dichotomy n b with ⟨hs, s2, _, he⟩ | ⟨_, e, he⟩
    · rw [he]
      obtain ⟨rest, hc, hl⟩ := h
      refine ⟨n.chain, rfl, ?_⟩
      show C03Linked ((b.height, b.id) :: n.chain)
      rw [hc] at hl ⊢
      exact ⟨hs.height, hl⟩
    · rw [he]; exact h

end VerifyPart

/-! ## Part 2 — operation lists with deletions and restarts (`LiskVerif.Node`) -/

section NodePart
open LiskVerif.Node

/-- the block an operation offers with every validity flag set: `processValidated` called with a
block that passes all checks (`apply … valid = true`), or `process` given a block that passes
`Block.Validate` and all checks of `processValidated` -/
def C03OfferedValid : Op → Block → Prop
  | .apply b v _ _, blk => v = true ∧ blk = b
  | .process i, blk => i.staticValid = true ∧ i.valid = true ∧ blk = i.block
  | _, _ => False

/-- if the tip can be deleted it is the newest block of the (ghost) chain -/
private theorem tip_on_chain {cd : Codecs} {cfg : Cfg} {base : DiffDB.Store} {baseH : Nat} {s : St}
    {c : Chain} {tip : Block} {rest : List Block} (hR : Ref cd base baseH s c)
    (hc : s.cache = tip :: rest) (hd : (deleteTip cd cfg s false).2 = .ok) :
    ∃ e0 ∈ c, e0.1 = tip := by
  have hh := hR.cache.head tip (by rw [hc]; rfl)
  cases c with
  | nil =>
    exfalso
    obtain ⟨f, hf, h1, h2⟩ := hR.db.finOk
    simp only [tipH] at h2 hh
    unfold deleteTip at hd
    rw [hc] at hd
    simp only [hf] at hd
    rw [if_pos (by omega)] at hd
    cases hd
  | cons e0 c' =>
    obtain ⟨b0, x0⟩ := e0
    simp only [tipH] at hh
    have := hR.cache.chain tip (by rw [hc]; simp) (b0, x0) (by simp) hh.symm
    exact ⟨(b0, x0), by simp, this.symm⟩

private theorem mem_tail {α : Type} {l : List α} {x : α} (h : x ∈ l.tail) : x ∈ l :=
  List.mem_of_mem_tail h

/-- one operation: every block of the chain afterwards was on it before or is offered as valid -/
private theorem stepC_blocks {cd : Codecs} {cfg : Cfg} {slot : Slot} {base : DiffDB.Store} {baseH : Nat}
    {s : St} {c : Chain} (hR : Ref cd base baseH s c) (op : Op) :
    ∀ e ∈ stepC cd cfg slot s c op, (∃ e0 ∈ c, e0.1 = e.1) ∨ C03OfferedValid op e.1 := by
  have old : ∀ e, e ∈ c → (∃ e0 ∈ c, e0.1 = e.1) ∨ C03OfferedValid op e.1 :=
    fun e he => Or.inl ⟨e, he, rfl⟩
  intro e he
  cases op with
  | apply b v x rt =>
    simp only [stepC] at he
    split at he
    · rename_i hok
      rcases List.mem_cons.mp he with rfl | he
      · right
        cases ha : apply cd cfg s b v x rt with
        | mk s' r =>
          rw [ha] at hok
          simp only at hok
          subst hok
          obtain ⟨_, _, _, _, _, _, hv, _⟩ := apply_ok_inv ha
          exact ⟨hv, rfl⟩
      · exact old e he
    · exact old e he
  | deleteTip st =>
    simp only [stepC] at he
    split at he
    · exact old e (mem_tail he)
    · exact old e he
  | restart => exact old e he
  | clearTemp => exact old e he
  | process i =>
    simp only [stepC, processC] at he
    cases hc : s.cache with
    | nil => rw [hc] at he; exact old e he
    | cons tip rest =>
      rw [hc] at he
      simp only at he
      cases hv : forkChoice slot tip.hdr i.block.hdr i.flags with
      | identical => rw [hv] at he; exact old e he
      | doubleForging => rw [hv] at he; exact old e he
      | differentChain => rw [hv] at he; exact old e he
      | discard => rw [hv] at he; exact old e he
      | valid =>
        rw [hv] at he
        simp only at he
        split at he
        · exact old e he
        · rename_i hsv
          split at he
          · rename_i hok
            rcases List.mem_cons.mp he with rfl | he
            · right
              cases ha : apply cd cfg s i.block i.valid i.exec false with
              | mk s' r =>
                rw [ha] at hok
                simp only at hok
                subst hok
                obtain ⟨_, _, _, _, _, _, hval, _⟩ := apply_ok_inv ha
                exact ⟨by simpa using hsv, hval, rfl⟩
            · exact old e he
          · exact old e he
      | tieBreak =>
        rw [hv] at he
        simp only at he
        split at he
        · exact old e he
        · rename_i hsv
          split at he
          · exact old e (mem_tail he)
          · split at he
            · rename_i hdel
              split at he
              · rename_i hok
                rcases List.mem_cons.mp he with rfl | he
                · right
                  cases ha : apply cd cfg (deleteTip cd cfg s false).1 i.block i.valid i.exec false with
                  | mk s' r =>
                    rw [ha] at hok
                    simp only at hok
                    subst hok
                    obtain ⟨_, _, _, _, _, _, hval, _⟩ := apply_ok_inv ha
                    exact ⟨by simpa using hsv, hval, rfl⟩
                · exact old e (mem_tail he)
              · split at he
                · rcases List.mem_cons.mp he with rfl | he
                  · left
                    exact tip_on_chain (cfg := cfg) hR hc hdel
                  · exact old e (mem_tail he)
                · exact old e (mem_tail he)
            · exact old e he

/-- **Only blocks offered as fully valid are on the chain — over arbitrary operation lists.**
Start from a node state `s` that holds the chain `c` (`Ref`, e.g. the state after the genesis block
with `c = []`) and run ANY list of operations: `processValidated` calls with valid and invalid
blocks, `deleteBlock`, restarts (`PrepareCache`), `process` with all its fork-choice branches
(tie-break replacement and its revert included), `ClearTempBlocks`. Then the state afterwards
holds the chain `runC …` (its database and block cache are that chain's, `Ref`), and every block of
that chain was already on the chain at the start or was offered by one of the operations with all
validity flags set. Invalid blocks, blocks deleted again, blocks seen only by fork choice never
appear. (`RunOK`: the standing input hypotheses of the C04/C05 theorems on the blocks that do get
applied.) -/
theorem C03_ops_chain_only_valid (cd : Codecs) (cfg : Cfg) (slot : Slot) (base : DiffDB.Store)
    (baseH : Nat) (hbase : BaseOK cd base baseH) (ops : List Op) (s : St) (c : Chain)
    (hR : Ref cd base baseH s c) (hok : RunOK cd cfg slot base s c ops) :
    Ref cd base baseH (run cd cfg slot s ops) (runC cd cfg slot s c ops) ∧
    ∀ e ∈ runC cd cfg slot s c ops,
      (∃ e0 ∈ c, e0.1 = e.1) ∨ ∃ op ∈ ops, C03OfferedValid op e.1 := by
  induction ops generalizing s c with
  | nil => exact ⟨hR, fun e he => Or.inl ⟨e, he, rfl⟩⟩
  | cons op r ih =>
    have h1 := trans_step (cfg := cfg) (slot := slot) hbase hR op hok.1
    obtain ⟨i1, i2⟩ := ih (step cd cfg slot s op) (stepC cd cfg slot s c op) h1.ref hok.2
    refine ⟨i1, ?_⟩
    intro e he
    rcases i2 e he with ⟨e0, he0, heq⟩ | ⟨op', hop', hov⟩
    · rcases stepC_blocks (cfg := cfg) (slot := slot) hR op e0 he0 with ⟨e1, he1, heq1⟩ | hov
      · exact Or.inl ⟨e1, he1, by rw [heq1, heq]⟩
      · exact Or.inr ⟨op, by simp, by rw [← heq]; exact hov⟩
    · exact Or.inr ⟨op', List.mem_cons_of_mem _ hop', hov⟩

/-- … and `apply` (`processValidated`) itself only ever appends a block flagged valid that is the
successor of the current tip: next height (`uint32`) and the tip's id as previous-block id;
everything else returns an error with the state untouched. -/
theorem C03_apply_only_valid_successor (cd : Codecs) (cfg : Cfg) (s s' : St) (b : Block)
    (valid : Bool) (x : Exec) (rt : Bool) (h : apply cd cfg s b valid x rt = (s', .ok)) :
    valid = true ∧ ∃ tip rest, s.cache = tip :: rest ∧ b.hdr.height = (tip.hdr.height + 1) % u32 ∧
      b.hdr.previousBlockID = tip.hdr.id ∧ s'.cache.head? = some b := by
  obtain ⟨tip, rest, fin, hc, hh, hp, hv, _, hs'⟩ := apply_ok_inv h
  refine ⟨hv, tip, rest, hc, hh, hp, ?_⟩
  rw [hs']
  rfl

theorem C03_apply_invalid_unchanged (cd : Codecs) (cfg : Cfg) (s : St) (b : Block) (x : Exec)
    (rt : Bool) : (apply cd cfg s b false x rt).1 = s ∧ (apply cd cfg s b false x rt).2 ≠ .ok := by
  unfold apply
  cases s.cache with
  | nil => simp
  | cons tip rest =>
    simp only
    split
    · simp
    · split
      · simp
      · simp

end NodePart

/-! ## Part 3 — the signed message -/

/-- the message of `blockchain.ValidateBlockSignature` before hashing:
`bytes.Join(TagBlockHeader, chainID, signingBytes)`. NOTE: hand transcription of one line of
pkg/blockchain/signature.go; the models treat signature validity as a fact (`Cand.sigOK`). -/
def C03signedMessage (tag chainID signingBytes : Bytes) : Bytes := tag ++ chainID ++ signingBytes

/-- For chain IDs of one length (4 bytes on every Lisk chain) the signed message determines the
chain ID and the signing bytes: a signature for one chain is not a signature of the same header
for another chain, and two headers of one chain with the same message have the same signing
bytes. -/
theorem C03_signed_message_injective (tag c₁ c₂ s₁ s₂ : Bytes) (hl : c₁.length = c₂.length)
    (h : C03signedMessage tag c₁ s₁ = C03signedMessage tag c₂ s₂) : c₁ = c₂ ∧ s₁ = s₂ := by
  unfold C03signedMessage at h
  rw [List.append_assoc, List.append_assoc] at h
  exact List.append_inj (List.append_cancel_left h) hl

/-- The length hypothesis is necessary: `ValidateBlockSignature` does not delimit the chain ID, so
chain IDs of different lengths can give the same message for different signing bytes. -/
theorem C03_signed_message_needs_length :
    ∃ tag c₁ c₂ s₁ s₂, C03signedMessage tag c₁ s₁ = C03signedMessage tag c₂ s₂ ∧ c₁ ≠ c₂ ∧ s₁ ≠ s₂ :=
  ⟨[76], [1], [1, 2], [2, 3], [3], by decide, by decide, by decide⟩

/-- Together with `C03_signing_bytes_injective`: the signed message determines the chain ID and
EVERY signed header field (version … aggregateCommit), for all well-typed headers. -/
theorem C03_signed_message_determines_header (sig : Codec.Schema)
    (hs : Gen.allSchemas.find "blockchain.signingBlockHeader" = some sig)
    (tag c₁ c₂ : Bytes) (hl : c₁.length = c₂.length) (v1 v2 : List Codec.Value)
    (h1 : C08Typed1 Gen.allSchemas Codec.asciiNFC sig.enc v1 = true)
    (h2 : C08Typed1 Gen.allSchemas Codec.asciiNFC sig.enc v2 = true)
    (l1 : (Codec.encode Gen.allSchemas Codec.asciiNFC sig v1).length < 2 ^ 63)
    (l2 : (Codec.encode Gen.allSchemas Codec.asciiNFC sig v2).length < 2 ^ 63)
    (heq : C03signedMessage tag c₁ (Codec.encode Gen.allSchemas Codec.asciiNFC sig v1) =
           C03signedMessage tag c₂ (Codec.encode Gen.allSchemas Codec.asciiNFC sig v2)) :
    c₁ = c₂ ∧ v1 = v2 := by
  obtain ⟨hc, hb⟩ := C03_signed_message_injective tag c₁ c₂ _ _ hl heq
  exact ⟨hc, C03_signing_bytes_injective sig hs v1 v2 h1 h2 l1 l2 hb⟩

/-! ## non-vacuity -/

section
open LiskVerif.Verify LiskVerif.Verify.Example

private theorem valid1 : SpecValid (genesis true).cfg.acBound (genesis true) (blk 1 0) :=
  (C03_accept_iff_spec_partial _ _).mp (by unfold accepts; decide +kernel)

/-- `C03_reject_any_prefix`: a split of the rule list with a passing prefix exists (here the block
passes `Block.Validate` and nine rules of `verifyBlock` before failing the maxHeightPrevoted rule;
in the second example it passes everything up to the event root, i.e. the whole execution ran) -/
example : ∃ pre post, checkList (genesis true) { blk 1 0 with mhp := 7 } = pre ++ (Err.mhp, false) :: post ∧
    (∀ p ∈ pre, p.2 = true) ∧ pre.length = 16 := by
  refine ⟨(checkList (genesis true) { blk 1 0 with mhp := 7 }).take 16,
    (checkList (genesis true) { blk 1 0 with mhp := 7 }).drop 17, ?_, ?_, ?_⟩ <;> decide +kernel
example : ∃ pre post, checkList (genesis true) { blk 1 0 with eventRootOK := false } =
    pre ++ (Err.eventRoot, false) :: post ∧ ∀ p ∈ pre, p.2 = true :=
  (C03_first_failure_characterisation _ _ _).mp (by decide +kernel)

/-- `C03_single_alteration_rejected`: the valid successor exists; some alterations of it -/
example : ∃ e, applyBlock (genesis true) { blk 1 0 with gen := List.replicate 20 2 } = (genesis true, some e) :=
  C03_single_alteration_rejected _ _ _ valid1 (.signer _ (by decide))
example : ∃ e, applyBlock (genesis true) { blk 1 0 with timestamp := 1005 } = (genesis true, some e) :=
  C03_single_alteration_rejected _ _ _ valid1 (.timestampNotLater _ (by decide))
example : ∃ e, applyBlock (genesis true) { blk 1 0 with timestamp := 200000 } = (genesis true, some e) :=
  C03_single_alteration_rejected _ _ _ valid1 (.timestampFuture _ (by decide))
example : ∃ e, applyBlock (genesis true)
    { blk 1 0 with ac := { height := 1, bitsLen := 1, sigLen := 96, sigOK := true } } = (genesis true, some e) :=
  C03_single_alteration_rejected _ _ _ valid1 (.aggregateCommit _ (by decide +kernel))
example : ∃ e, applyBlock (genesis true) { blk 1 0 with txs := [(TxV.ok, TxV.ok), (TxV.fail, TxV.ok)] } =
    (genesis true, some e) :=
  C03_single_alteration_rejected _ _ _ valid1 (.payloadVerdict _ (TxV.fail, TxV.ok) (by decide) (Or.inl (by decide)))

/-- `C03_history_rejected_invisible`: of seven offered blocks (bad signature, future height, a repeat,
a stale block) exactly the four valid successors are accepted -/
example : C03acceptedOf (genesis true)
    [{ blk 1 0 with sigOK := false }, blk 1 0, blk 1 0, blk 3 2, { blk 2 1 with change := some change },
     blk 3 2, blk 1 0, blk 4 3] = history := by decide +kernel

/-- `C03_history_chain_linked`: the hypothesis holds for the genesis node -/
example : ∃ rest, (genesis true).chain = ((genesis true).tipHeight, (genesis true).tipID) :: rest ∧
    C03Linked (genesis true).chain := ⟨[], rfl, trivial⟩
end

section
open LiskVerif.Node

/-- `C03_ops_chain_only_valid`: the hypotheses are satisfiable (apply, restart, delete, restart
after the genesis block) … -/
example : ∀ e ∈ runC Example.cd Example.cfg Example.slot Example.s0 [] Example.ops1,
    (∃ e0 ∈ ([] : Chain), e0.1 = e.1) ∨ ∃ op ∈ Example.ops1, C03OfferedValid op e.1 :=
  (C03_ops_chain_only_valid _ _ _ _ _ Example.baseOK _ _ _ Example.ref0 Example.runOK1).2

/-- … and a block flagged invalid is refused while the same block flagged valid is appended -/
example : (apply Example.cd Example.cfg Example.s0 Example.b1 false Example.x1 false).2 = .err ∧
    (apply Example.cd Example.cfg Example.s0 Example.b1 true Example.x1 false).2 = .ok := by decide
example : C03OfferedValid (.apply Example.b1 true Example.x1 false) Example.b1 := ⟨rfl, rfl⟩
end

/-- `C03_signed_message_injective`: two chains, one header -/
example : C03signedMessage [76, 83, 75] [0, 0, 0, 0] [8, 2] ≠ C03signedMessage [76, 83, 75] [1, 0, 0, 0] [8, 2] := by
  decide
