/-
C15 — tie of `Model/Generator.lean` (and of the slot arithmetic of `Model/Verify.lean`) to the Go
source: the integer expressions of pkg/generator (generator.go, selector.go) and of
pkg/consensus/validator/block_slot.go are REGENERATED from the Go source on every run by tools/fngen
(typed translation, `LiskVerif/Gen/Fns2.lean`) with the exact semantics of `uint32`/`uint64` (wrap),
`int` (two's complement) and the conversions between them:

* selection: the fee priority `tx.Fee / uint64(tx.Size())` (`Gen.genFeePriority`), its storage as
  `int(priority)` (`Gen.genFeePriorityStored`) and the heap order
  `uint64(h[i].FeePriority) > uint64(h[j].FeePriority)` (`Gen.genFeeLess`); the block-size cut
  `nextTx.Size()+totalSize > maxSize` and `totalSize += nextTx.Size()` of `selectTransactionsByFee`
  and of `limitTransactionsWithSize`;
* header bookkeeping: `nextHeight := lastBlock.Header.Height + 1`, the fields `Height`,
  `MaxHeightGenerated`, `MaxHeightPrevoted` of the `blockchain.BlockHeader` literal and the fields of the
  `GeneratorInfo` literals of `initBlockHeader` (`ints.Max(nextHeight, previousInfo.Height)`, …) and of
  `forge` (`ints.Max(signedBlock.Header.Height, signedBlock.Header.MaxHeightGenerated)`, …);
  `ints.Max` (pkg/collection/ints, generic and sort based) is taken to be the maximum;
* slots: `elapsed := unixTime - a.genesisTimestamp` of `BlockSlot.GetSlotNumber` (the division that
  follows is done in float64 and is not translated) and `BlockSlot.GetSlotTime`.
-/
import LiskVerif.Model.Generator
import LiskVerif.Model.Verify
import LiskVerif.Lemmas.GenInt

open LiskVerif LiskVerif.Generator

/-! ### fee priority and heap order -/

/-- **the regenerated fee priority is `Generator.Tx.prio`** for every transaction of positive size -/
theorem C15_gen_fee_priority_eq (t : Tx) (h0 : 0 < t.size) (h1 : t.size < 9223372036854775808) :
    Gen.genFeePriority t.fee (t.size : Int) = some t.prio := by
  unfold Gen.genFeePriority Tx.prio
  rw [Gen.toNat_emod64 (by omega)]
  have : ¬ t.size = 0 := by omega
  simp [this]

/-- **the heap order on the stored priorities is the order of the priorities**: a `uint64` priority is
stored as `int` (values ≥ 2^63 become negative) and compared after conversion back to `uint64`, which
is exact — `pickMax` / `IsMaxHead` compare `Tx.prio` -/
theorem C15_gen_fee_less_eq (a b : Nat) (ha : a < 2 ^ 64) (hb : b < 2 ^ 64) :
    Gen.genFeeLess (Gen.genFeePriorityStored a) (Gen.genFeePriorityStored b) = decide (a > b) := by
  unfold Gen.genFeeLess Gen.genFeePriorityStored
  have h : ∀ n : Nat, n < 2 ^ 64 → Int.toNat (Gen.i64 (Int.ofNat n) % 18446744073709551616) = n := by
    intro n hn
    unfold Gen.i64
    have : Int.ofNat n = (n : Int) := rfl
    omega
  rw [h a ha, h b hb]

/-! ### block-size cut -/

/-- the regenerated cut test and accumulator of both selection loops, while sizes are `int`s -/
theorem C15_gen_size_cut_eq (size total maxSize : Nat) (h : size + total < 9223372036854775808) :
    Gen.genSelectBlockFull (size : Int) (total : Int) (maxSize : Int) = decide (size + total > maxSize) ∧
    Gen.genLimitBlockFull (size : Int) (total : Int) (maxSize : Int) = decide (size + total > maxSize) ∧
    Gen.genSelectTotalSize (total : Int) (size : Int) = ((total + size : Nat) : Int) ∧
    Gen.genLimitTotalSize (total : Int) (size : Int) = ((total + size : Nat) : Int) := by
  unfold Gen.genSelectBlockFull Gen.genLimitBlockFull Gen.genSelectTotalSize Gen.genLimitTotalSize
  rw [Gen.i64_eq (x := (size : Int) + total) (by omega) (by omega),
    Gen.i64_eq (x := (total : Int) + size) (by omega) (by omega)]
  have e : ((size : Int) + (total : Int) > (maxSize : Int)) ↔ (size + total > maxSize) := by omega
  refine ⟨?_, ?_, by omega, by omega⟩ <;> simp only [e]

/-- **`Generator.limitBySize` step with the regenerated test and accumulator** -/
theorem C15_gen_limit_by_size_eq (maxSize total : Nat) (t : Tx) (r : List Tx)
    (h : t.size + total < 9223372036854775808) :
    limitBySize maxSize total (t :: r) =
      if Gen.genLimitBlockFull (t.size : Int) (total : Int) (maxSize : Int) = true then []
      else t :: limitBySize maxSize (Gen.genLimitTotalSize (total : Int) (t.size : Int)).toNat r := by
  obtain ⟨_, h2, _, h4⟩ := C15_gen_size_cut_eq t.size total maxSize h
  rw [h2, h4]
  simp only [limitBySize, decide_eq_true_eq, Int.toNat_natCast]

/-- **`Generator.selectLoop` step with the regenerated test and accumulator** -/
theorem C15_gen_select_loop_eq (ok : List Tx → Tx → Bool) (maxSize fuel : Nat) (g : Groups) (total : Nat)
    (acc : List Tx) (hsz : ∀ s t rest, pickMax g = some (s, t, rest) → t.size + total < 9223372036854775808) :
    selectLoop ok maxSize (fuel + 1) g total acc =
      match pickMax g with
      | none => []
      | some (s, t, rest) =>
        if Gen.genSelectBlockFull (t.size : Int) (total : Int) (maxSize : Int) = true then []
        else if ok acc t then
          t :: selectLoop ok maxSize fuel (advance s rest g) (Gen.genSelectTotalSize (total : Int) (t.size : Int)).toNat (acc ++ [t])
        else selectLoop ok maxSize fuel (erase s g) total acc := by
  simp only [selectLoop]
  cases hp : pickMax g with
  | none => rfl
  | some x =>
    obtain ⟨s, t, rest⟩ := x
    obtain ⟨h1, _, h3, _⟩ := C15_gen_size_cut_eq t.size total maxSize (hsz s t rest hp)
    simp only [h1, h3, decide_eq_true_eq, Int.toNat_natCast]

/-! ### header bookkeeping -/

/-- **what `forge` persists: `Generator.nextInfo .fixed` is the regenerated `GeneratorInfo` literal** -/
theorem C15_gen_persisted_info_eq (h : Hdr) :
    nextInfo .fixed h =
      { height := Gen.genPersistedInfoHeight h.height h.maxHeightGenerated
        mhp := Gen.genPersistedInfoMaxHeightPrevoted h.maxHeightPrevoted
        mhg := Gen.genPersistedInfoMaxHeightGenerated h.maxHeightGenerated } := rfl

/-- **the header `initBlockHeader` prepares: `Generator.mkHeader` carries the regenerated height and
`maxHeightGenerated`** (tip below 2^32 - 1), and the `GeneratorInfo` it writes before signing has the
height `forge` writes after sealing -/
theorem C15_gen_init_header_eq (addr : Nat → Bytes) (st : GState) (v : Nat) (hh : st.height + 1 < 4294967296) :
    (mkHeader addr st v).height = Gen.genHeaderHeight (Gen.genNextHeight st.height) ∧
    (mkHeader addr st v).maxHeightGenerated = Gen.genHeaderMaxHeightGenerated (getInfo st.infos v).height ∧
    (mkHeader addr st v).maxHeightPrevoted = Gen.genHeaderMaxHeightPrevoted st.mhp ∧
    Gen.genNextInfoMaxHeightGenerated (getInfo st.infos v).height = (mkHeader addr st v).maxHeightGenerated ∧
    Gen.genNextInfoHeight (Gen.genNextHeight st.height) (getInfo st.infos v).height =
      (nextInfo .fixed (mkHeader addr st v)).height := by
  unfold Gen.genNextHeight Gen.genNextInfoMaxHeightGenerated Gen.genNextInfoHeight Gen.genHeaderHeight
    Gen.genHeaderMaxHeightGenerated Gen.genHeaderMaxHeightPrevoted
  rw [Nat.mod_eq_of_lt hh]
  exact ⟨rfl, rfl, rfl, rfl, rfl⟩

/-- at the last `uint32` height the Go `nextHeight` wraps to 0 where the model continues to 2^32 -/
theorem C15_gen_next_height_wraps : Gen.genNextHeight 4294967295 = 0 := by decide +kernel

/-! ### slots -/

/-- **`Verify.slotOf` is the regenerated `elapsed` divided by the block time** (the division itself
is float64 code in `GetSlotNumber`) -/
theorem C15_gen_slot_elapsed_eq (c : Verify.Config) (t : Nat) :
    Verify.slotOf c t = Gen.slotElapsed t c.genesisTimestamp / c.blockTime := rfl

/-- `GetSlotTime(slot)` in closed form for `slot ≥ 0` (the `int` product must fit an int64) -/
theorem C15_gen_slot_time_eq (slot g bt : Nat) (h : slot * bt < 9223372036854775808) :
    Gen.getSlotTime (slot : Int) g bt = (g + slot * bt) % 4294967296 := by
  unfold Gen.getSlotTime
  have hc : ((slot : Int) * Int.ofNat bt) = ((slot * bt : Nat) : Int) := by
    have : Int.ofNat bt = (bt : Int) := rfl
    rw [this]; push_cast; rfl
  rw [hc]
  generalize slot * bt = p at h
  show (g + Int.toNat (Gen.i64 (p : Int) % 4294967296)) % 4294967296 = _
  rw [Gen.i64_eq (by omega) (by omega)]
  omega

/-- **`GetSlotTime` is a right inverse of the slot number**: the slot of the start time of slot `s`
is `s` (no `uint32` wrap: `genesis + s * blockTime < 2^32`, positive block time) -/
theorem C15_gen_slot_time_roundtrip (c : Verify.Config) (s : Nat) (hbt : 0 < c.blockTime)
    (h : c.genesisTimestamp + s * c.blockTime < 4294967296) :
    Verify.slotOf c (Gen.getSlotTime (s : Int) c.genesisTimestamp c.blockTime) = s := by
  rw [C15_gen_slot_time_eq s _ _ (by omega), Nat.mod_eq_of_lt h]
  unfold Verify.slotOf BFT.u32
  have : (c.genesisTimestamp + s * c.blockTime + 4294967296 - c.genesisTimestamp) % 4294967296 = s * c.blockTime := by
    omega
  rw [this]
  exact Nat.mul_div_cancel s hbt

/-! ### non-vacuity -/

example : Gen.genFeePriority 1000 100 = some 10 ∧ Gen.genFeePriority 5 0 = none ∧
    Gen.genFeeLess (Gen.genFeePriorityStored (2 ^ 63 + 5)) (Gen.genFeePriorityStored 7) = true ∧
    Gen.genFeePriorityStored (2 ^ 63 + 5) = -9223372036854775803 ∧
    Gen.genSelectBlockFull 60 50 100 = true ∧ Gen.genSelectBlockFull 50 50 100 = false ∧
    Gen.genSelectTotalSize 50 50 = 100 ∧ Gen.genPersistedInfoHeight 7 12 = 12 ∧ Gen.genPersistedInfoHeight 13 12 = 13 ∧
    Gen.genNextHeight 41 = 42 ∧ Gen.slotElapsed 1010 1000 = 10 ∧ Gen.getSlotTime 3 1000 10 = 1030 := by
  decide +kernel

example : Verify.slotOf ⟨1000, 10, 0, 0, true⟩ (Gen.getSlotTime 3 1000 10) = 3 :=
  C15_gen_slot_time_roundtrip ⟨1000, 10, 0, 0, true⟩ 3 (by decide) (by decide)
