/-
C06 — gap-closing theorems (certificates: height field, distinct pool entries, height selection of
`GetAggregateCommit`, liveness of certification, cleanup).

Everything is stated over `LiskVerif.Model.Cert` for ALL states, validator sets, weights, thresholds,
pools and operation histories (the history vocabulary `C06Op` / `C06Step` / `C06run` is the one of
Props/C06_EndToEnd.lean).

1. HEIGHT FIELD AND DISTINCT ENTRIES
   `C06_relabelled_commit_rejected`, `C06_relabelled_commit_not_added`, `C06_relabelled_aggregate_rejected`:
   the height field of a single commit / aggregate commit is tied to the block it signs.
   `C06_pool_distinct_all_histories`: after ANY history (no hypothesis whatsoever) the pool holds at
   most one entry per (block id, signer); the entries are pairwise different, the two lists disjoint.
   `C06_pool_chain_invariant`: on a chain without replaced blocks every entry names the chain's block
   at its height field and there is one entry per (height, signer).
   `C06_duplicates_break_aggregate`: distinctness is NECESSARY (counterexample).
2. HEIGHT SELECTION
   `C06_assembly_bound_exact`, `C06_assembled_height_exact`, `C06_verify_window`,
   `C06_next_params_boundary`: `GetAggregateCommit` returns the LARGEST certifiable height of
   `(mhc, min(nextParamsHeight-1, mhpc)]`; that window is exactly the window of `verifyAggregateCommit`.
3. LIVENESS  `C06_weight_no_double_counting`, `C06_certification_live` (enough signed weight in the pool
   => a non-empty accepted aggregate for a height at least as large), `C06_reachable_certification_live`,
   `C06_valid_commit_enters` / `C06_valid_commits_all_enter` (completeness of the gossip validator),
   `C06_delivery_certifies` (delivery of enough valid commits => certification).
4. CLEANUP  `C06_cleanup_exact`, `C06_cleanup_keeps_needed`, `C06_cleanup_preserves_aggregate`,
   `C06_cleanup_removes_unusable`.
-/
import LiskVerif.Lemmas.CertMore
import LiskVerif.Props.C06_EndToEnd

open LiskVerif LiskVerif.Cert

/-! ## 1. the height field; distinct entries -/

/-- the chain has different block ids at different heights -/
def C06IdsInjective (st : State) : Prop :=
  ∀ h h' a b, st.blockAt h = some a → st.blockAt h' = some b → a.id = b.id → h = h'

/-- **A relabelled single commit is not added** (step 4 of `singleCommitValidator` looks the block up
by the commit's HEIGHT and compares the ids): a message whose block id is the id of the node's block
at height `h'`, presented under another height, leaves the pool unchanged - whatever its signature. -/
theorem C06_relabelled_commit_not_added (st : State) (pool : Pool) (m : Incoming) (hinj : C06IdsInjective st)
    (h' : Nat) (hd' : Header) (hb : st.blockAt h' = some hd') (hm : m.block = hd'.id) (hne : m.height ≠ h') :
    (scvOne st pool m).1 = pool := by
  rcases (scvOne_spec st pool m).1 with h1 | ⟨_, hv, _, _⟩
  · exact h1
  · obtain ⟨hd, hb2, hid⟩ := hv.onChain
    exact absurd (hinj _ _ _ _ hb2 hb (by rw [hid]; exact hm)) hne

/-- **Every entry that enters through the gossip validator carries the height of its block**: for any
pool and any list of messages, a new entry's block id is the id of the node's block at the entry's
height field, and (ids being unique on the chain) at no other height. -/
theorem C06_relabelled_commit_rejected (st : State) (pool : Pool) (msgs : List Incoming) :
    ∀ c ∈ (singleCommitValidator st pool msgs).1.all, c ∈ pool.all ∨
      ((∃ hd, st.blockAt c.height = some hd ∧ hd.id = c.block) ∧
       (C06IdsInjective st → ∀ h' hd', st.blockAt h' = some hd' → hd'.id = c.block → h' = c.height)) := by
  intro c hc
  rcases C06_pool_only_verified_enter st pool msgs c hc with h | ⟨hv, _⟩
  · exact Or.inl h
  · obtain ⟨hd, hb, hid⟩ := hv.onChain
    refine Or.inr ⟨⟨hd, hb, hid⟩, ?_⟩
    intro hinj h' hd' hb' hid'
    exact hinj _ _ _ _ hb' hb (by rw [hid, hid'])

/-- the genuine commit enters, the same commit relayed under height 4 does not -/
example : (scvOne C06cxState Pool.empty ⟨true, 105, 5, 1, sign 20 ⟨1, 105⟩⟩).1.all.length = 1 ∧
    (scvOne C06cxState Pool.empty ⟨true, 105, 4, 1, sign 20 ⟨1, 105⟩⟩).1.all.length = 0 := by decide

theorem C06cx_ids_injective : C06IdsInjective C06cxState := by
  intro h h' a b ha hb hab
  simp only [C06cxState] at ha hb
  split at ha <;> split at hb
  · cases ha; cases hb
    simp only at hab
    omega
  · cases hb
  · cases ha
  · cases ha

/-- **A relabelled aggregate commit is rejected**: an aggregate signature over the certificate of the
node's block at height `h'` is not accepted under any other height, whatever the bitmap. -/
theorem C06_relabelled_aggregate_rejected (st : State) (ac : AggCommit) (hinj : C06IdsInjective st)
    (h' : Nat) (hd' : Header) (signers : List Nat) (chain : Nat)
    (hb : st.blockAt h' = some hd') (hsig : ac.sig = some (.agg signers ⟨chain, hd'.id⟩))
    (hne : ac.height ≠ h') : verifyAggregateCommit st ac ≠ .accept := by
  intro hacc
  have hnem : ac.isEmpty = false := by simp [AggCommit.isEmpty, hsig]
  obtain ⟨_, _, _, hd, p, s', vs, hb2, _, hs, _⟩ := C06_verify_sound st ac hacc hnem
  rw [hsig] at hs
  simp only [Option.some.injEq, Sig.agg.injEq, certMsg, Msg.mk.injEq] at hs
  exact hne (hinj _ _ _ _ hb2 hb hs.2.2.symm)

example : verifyAggregateCommit C06cxState ⟨4, Bits.ofBytes [0x0e], some (.agg [20, 30, 40] ⟨1, 105⟩)⟩ ≠ .accept :=
  C06_relabelled_aggregate_rejected _ _ C06cx_ids_injective 5 ⟨105, 0⟩ _ 1 rfl rfl (by decide)

/-- one pool operation keeps "one entry per (block id, signer)" - in ANY chain state, for ANY
arguments (no consistency, key or well-formedness hypothesis) -/
theorem C06_pool_distinct_step (st : State) (pool : Pool) (op : C06Op) (h : Distinct pool.all) :
    Distinct (C06apply st pool op).all := by
  cases op with
  | gossip msgs => exact scv_distinct st msgs pool h
  | certify frm to addr sk => exact certify_distinct st pool frm to addr sk h
  | cleanup keep => exact h.sublist (cleanup_sublist pool keep)
  | select mhpc limit => exact h.perm (select_perm pool mhpc limit)
  | upgrade sel => exact h.perm (upgrade_perm pool sel)

theorem C06_pool_distinct_run (steps : List C06Step) :
    ∀ pool, Distinct pool.all → Distinct (C06run pool steps).all := by
  induction steps with
  | nil => intro pool h; exact h
  | cons s r ih =>
    intro pool h
    exact ih _ (C06_pool_distinct_step s.st pool s.op h)

/-- **The pool never holds a duplicate - over ALL histories.**  After any sequence of gossip messages
(arbitrary content), `Certify` calls (any key, any range), `Cleanup` (any predicate), `Select` (any
arguments) and `Upgrade` (any selection), in any order and in arbitrary chain states (reorganisations
included), the pool holds at most one entry per (block id, signer); hence its entries are pairwise
different and no entry is in both the gossiped and the non-gossiped list. -/
theorem C06_pool_distinct_all_histories (steps : List C06Step) :
    Distinct (C06run Pool.empty steps).all ∧
    (C06run Pool.empty steps).all.Nodup ∧
    (∀ c ∈ (C06run Pool.empty steps).gossiped, c ∉ (C06run Pool.empty steps).nonGossiped) := by
  have hd : Distinct (C06run Pool.empty steps).all :=
    C06_pool_distinct_run steps Pool.empty (by simp [Distinct, Pool.all, Pool.empty])
  refine ⟨hd, hd.nodup, ?_⟩
  intro c hg hn
  have := (List.nodup_append.mp hd.nodup).2.2 c hg c hn
  exact this rfl

/-- `Select` may return an already gossiped commit and the same commit twice (`GetUntil` followed by
`GetLargestWithLimit`); `Upgrade` with that selection still leaves every entry exactly once -/
example :
    let pool : Pool := ⟨[⟨1, 1, 7, .garbage, true⟩], [⟨2, 2, 8, .garbage, false⟩]⟩
    (pool.select 105 3).2 = [⟨1, 1, 7, .garbage, true⟩, ⟨2, 2, 8, .garbage, false⟩, ⟨1, 1, 7, .garbage, true⟩] ∧
    ((pool.select 105 3).1.upgrade (pool.select 105 3).2).all =
      [⟨2, 2, 8, .garbage, false⟩, ⟨1, 1, 7, .garbage, true⟩] := by decide

private theorem apply_onChain (st : State) (s : C06Step)
    (hext : ∀ h hd, s.st.blockAt h = some hd → st.blockAt h = some hd)
    (pool : Pool) (hon : ∀ c ∈ pool.all, OnChain st c) : ∀ c ∈ (C06apply s.st pool s.op).all, OnChain st c := by
  have lift : ∀ c, OnChain s.st c → OnChain st c := fun c ⟨hd, hb, hid⟩ => ⟨hd, hext _ _ hb, hid⟩
  obtain ⟨st', op⟩ := s
  intro c hc
  cases op with
  | gossip msgs =>
    rcases C06_pool_only_verified_enter st' pool msgs c hc with h | ⟨hv, _⟩
    · exact hon c h
    · exact lift c hv.onChain
  | certify frm to addr sk =>
    rcases C06_certify_only_active_enter st' pool frm to addr sk c hc with h | ⟨_, _, _, _, _, _, hd, _, _, hb, hid, _⟩
    · exact hon c h
    · exact lift c ⟨hd, hb, hid⟩
  | cleanup keep => exact hon c ((cleanup_sublist pool keep).subset hc)
  | select mhpc limit => exact hon c ((select_perm pool mhpc limit).mem_iff.mpr hc)
  | upgrade sel => exact hon c ((upgrade_perm pool sel).mem_iff.mpr hc)

private theorem run_onChain (st : State) (steps : List C06Step)
    (hext : ∀ s ∈ steps, ∀ h hd, s.st.blockAt h = some hd → st.blockAt h = some hd) :
    ∀ pool, (∀ c ∈ pool.all, OnChain st c) → ∀ c ∈ (C06run pool steps).all, OnChain st c := by
  induction steps with
  | nil => intro pool h; exact h
  | cons s r ih =>
    intro pool h
    exact ih (fun o ho => hext o (List.mem_cons_of_mem _ ho)) _
      (apply_onChain st s (hext s List.mem_cons_self) pool h)

/-- **Invariant on a chain without replaced blocks, over all histories.**  If every block a step of the
history saw is still on the chain of `st` (the chain only grew, was finalized, certified - no
reorganisation; maxHeightCertified / maxHeightPrecommitted / parameters may change freely), then in the
pool reached from the empty pool by ANY operations
* every entry's block id is the id of `st`'s block at the entry's HEIGHT FIELD,
* there is at most one entry per (height, validator),
* `Pool.Get h` holds only commits for the chain's block at `h` (the `ForBlock` filter of
  `GetAggregateCommit` removes nothing) and their signers are pairwise different. -/
theorem C06_pool_chain_invariant (st : State) (steps : List C06Step)
    (hext : ∀ s ∈ steps, ∀ h hd, s.st.blockAt h = some hd → st.blockAt h = some hd) :
    (∀ c ∈ (C06run Pool.empty steps).all, ∃ hd, st.blockAt c.height = some hd ∧ hd.id = c.block) ∧
    (C06run Pool.empty steps).all.Pairwise (fun a b => ¬ (a.height = b.height ∧ a.signer = b.signer)) ∧
    (∀ h hd, st.blockAt h = some hd →
      forBlock ((C06run Pool.empty steps).get h) hd.id = (C06run Pool.empty steps).get h ∧
      ((C06run Pool.empty steps).get h).Pairwise (fun a b => a.signer ≠ b.signer)) := by
  have hon : ∀ c ∈ (C06run Pool.empty steps).all, OnChain st c :=
    run_onChain st steps hext Pool.empty (by simp [Pool.all, Pool.empty])
  have hd := (C06_pool_distinct_all_histories steps).1
  have hhs := distinct_height_signer hon hd
  refine ⟨hon, hhs, ?_⟩
  intro h hdr hb
  constructor
  · unfold forBlock
    rw [List.filter_eq_self]
    intro c hc
    rw [pool_get_eq] at hc
    simp only [List.mem_filter, beq_iff_eq] at hc
    obtain ⟨hd', hb', hid⟩ := hon c hc.1
    rw [hc.2, hb] at hb'
    cases hb'
    simp [hid]
  · rw [pool_get_eq]
    refine ((hhs.filter _).imp_of_mem ?_)
    intro a b ha hb' hab he
    simp only [List.mem_filter, beq_iff_eq] at ha hb'
    exact hab ⟨by rw [ha.2, hb'.2], he⟩

/-- non-vacuity: a history with a duplicate message, a relabelled commit, `Certify` twice, select,
upgrade and a cleanup yields the two genuine entries once each -/
example : (C06run Pool.empty
      [⟨C06cxState, .gossip [⟨true, 105, 5, 1, sign 20 ⟨1, 105⟩⟩, ⟨true, 105, 5, 1, sign 20 ⟨1, 105⟩⟩]⟩,
       ⟨C06cxState, .gossip [⟨true, 105, 4, 2, sign 30 ⟨1, 105⟩⟩]⟩,
       ⟨C06cxState, .certify 4 5 3 40⟩, ⟨C06cxState, .certify 4 5 3 40⟩,
       ⟨C06cxState, .select 5 4⟩,
       ⟨C06cxState, .upgrade [⟨105, 5, 1, sign 20 ⟨1, 105⟩, false⟩, ⟨105, 5, 1, sign 20 ⟨1, 105⟩, false⟩]⟩,
       ⟨C06cxState, .gossip [⟨true, 105, 5, 1, sign 20 ⟨1, 105⟩⟩]⟩,
       ⟨C06cxState, .cleanup (fun h => decide (h > 2))⟩]).all =
    [⟨105, 5, 1, sign 20 ⟨1, 105⟩, false⟩, ⟨105, 5, 3, sign 40 ⟨1, 105⟩, true⟩] := by decide

/-- `C06_pool_chain_invariant` instantiated: a history in one chain state -/
example : ∀ c ∈ (C06run Pool.empty [⟨C06cxState, .gossip [⟨true, 105, 5, 1, sign 20 ⟨1, 105⟩⟩]⟩,
      ⟨C06cxState, .select 5 4⟩]).all, ∃ hd, C06cxState.blockAt c.height = some hd ∧ hd.id = c.block :=
  (C06_pool_chain_invariant C06cxState _ (by
    intro s hs
    simp only [List.mem_cons, List.not_mem_nil, or_false] at hs
    rcases hs with rfl | rfl <;> exact fun _ _ h => h)).1

/-- the no-reorganisation hypothesis of `C06_pool_chain_invariant` is needed: validator 0 signed block
999 at height 5, the block was replaced by 105 and it signed again - the pool holds two entries for
(height 5, validator 0), one of them not for the chain's block (`GetAggregateCommit` leaves it out, see
Props/C06.lean) -/
example : ((C06run Pool.empty
      [⟨{ C06cxState with blockAt := fun h => if h = 5 then some ⟨999, 0⟩ else C06cxState.blockAt h },
          .gossip [⟨true, 999, 5, 0, sign 10 ⟨1, 999⟩⟩]⟩,
       ⟨C06cxState, .gossip [⟨true, 105, 5, 0, sign 10 ⟨1, 105⟩⟩]⟩]).all.map (fun c => (c.block, c.height, c.signer))) =
    [(999, 5, 0), (105, 5, 0)] := by decide

/-- the commit of validator 1 for height 5 twice, the commit of validator 2 once -/
def C06dupPool : Pool :=
  ⟨[⟨105, 5, 1, sign 20 ⟨1, 105⟩, false⟩, ⟨105, 5, 2, sign 30 ⟨1, 105⟩, false⟩], [⟨105, 5, 1, sign 20 ⟨1, 105⟩, false⟩]⟩

/-- **Distinctness is necessary.**  Every entry of the pools below is a verified commit of an active
validator for the node's own block - only "one entry per (block, signer)" fails.
(a) Validators 1 and 2 signed (weight 2 < threshold 3); with the commit of validator 1 stored twice the
weight loop of `GetAggregateCommit` counts 3, an aggregate is assembled and the node's own verification
rejects it.  (b) Validators 1, 2, 3 signed (weight 3 reaches the threshold); with the commit of
validator 1 stored twice the aggregate contains its signature twice while the bit is set once, and the
node's own verification rejects it; without the duplicate the aggregate is accepted. -/
theorem C06_duplicates_break_aggregate :
    (∀ c ∈ C06dupPool.all, EntryOk C06cxCtx C06cxState.chainId c) ∧
    (∃ ac, getAggregateCommit C06cxState C06dupPool = .ok ac ∧ ac.height = 5 ∧
      Bits.toBytes ac.bits = [0x06] ∧
      verifyAggregateCommit C06cxState ac = .reject .invalidCertificate) ∧
    (∃ ac, getAggregateCommit C06cxState { C06cxPool with nonGossiped := C06cxPool.nonGossiped ++ [⟨105, 5, 1, sign 20 ⟨1, 105⟩, true⟩] } = .ok ac ∧
      Bits.toBytes ac.bits = [0x0e] ∧ ac.sig = some (.agg [20, 30, 40, 20] ⟨1, 105⟩) ∧
      verifyAggregateCommit C06cxState ac = .reject .invalidCertificate) ∧
    (∃ ac, getAggregateCommit C06cxState C06cxPool = .ok ac ∧ verifyAggregateCommit C06cxState ac = .accept) := by
  refine ⟨?_, ⟨_, rfl, by decide, by decide, by decide⟩, ⟨_, rfl, by decide, by decide, by decide⟩,
    ⟨_, rfl, by decide⟩⟩
  intro c hc
  simp only [C06dupPool, Pool.all, List.cons_append, List.nil_append, List.mem_cons, List.not_mem_nil,
    or_false] at hc
  rcases hc with rfl | rfl | rfl
  · exact ⟨C06cxParams, ⟨1, 20, 1⟩, rfl, by decide, rfl⟩
  · exact ⟨C06cxParams, ⟨1, 20, 1⟩, rfl, by decide, rfl⟩
  · exact ⟨C06cxParams, ⟨2, 30, 1⟩, rfl, by decide, rfl⟩

/-! ## 2. the height selected by `GetAggregateCommit` -/

/-- **The assembly bound is exactly the verification bound.**  The first candidate height
`min(nextParamsHeight - 1, maxHeightPrecommitted)` of `GetAggregateCommit` is the largest height that
is `≤ maxHeightPrecommitted` and strictly below every parameter change after `maxHeightCertified + 1`
(the two upper bounds of `C06_verify_sound`). -/
theorem C06_assembly_bound_exact (st : State) (h : Nat) :
    h ≤ gacStart st ↔ (h ≤ st.mhpc ∧ ∀ e ∈ st.params, st.mhc + 1 < e.1 → h < e.1) :=
  gacStart_iff st h

/-- **Exact characterisation of the height `GetAggregateCommit` selects** (any pool, any state): a
successful call returns either the empty commit at `maxHeightCertified`, and then NO height of the
window `(mhc, min(nextParamsHeight-1, mhpc)]` is certifiable from the pool, or a non-empty commit whose
height lies in the window, is certifiable, and is the LARGEST certifiable height of the window. -/
theorem C06_assembled_height_exact (st : State) (pool : Pool) (ac : AggCommit)
    (hg : getAggregateCommit st pool = .ok ac) :
    (ac = emptyCommit st ∧ ∀ h, st.mhc < h → h ≤ gacStart st → ¬ Certifiable st pool h) ∨
    (ac.isEmpty = false ∧ st.mhc < ac.height ∧ ac.height ≤ gacStart st ∧ Certifiable st pool ac.height ∧
      ∀ h, ac.height < h → h ≤ gacStart st → ¬ Certifiable st pool h) := by
  unfold getAggregateCommit getAggregateCommitOrd at hg
  rcases gacLoop_char keyLe st pool ac _ hg with ⟨h1, h2⟩ | ⟨x, hd, p, x1, x2, x3, x4, x5, x6, x7⟩
  · exact Or.inl ⟨h1, fun h h3 h4 => h2 h h3 (by omega)⟩
  · obtain ⟨c0, rest, sig, hc, hh, hs⟩ := aggregateOrd_ok x7
    have hc0 : c0.height = x := (mem_forBlock_get (hc ▸ List.mem_cons_self)).2.1
    rw [hc0] at hh
    refine Or.inr ⟨by simp [AggCommit.isEmpty, hs], by omega, by omega, hh ▸ x3, ?_⟩
    intro h h3 h4
    exact x4 h (by omega) (by omega)

/-- **The window of `verifyAggregateCommit` is the window of `GetAggregateCommit`.**  For an aggregate
commit with non-empty fields: inside `(mhc, min(nextParamsHeight-1, mhpc)]` the verdict is that of the
certificate check; at or below `mhc` and above the bound it is a guard rejection. -/
theorem C06_verify_window (st : State) (ac : AggCommit) (sig : Sig) (hs : ac.sig = some sig) (hbits : ac.bits ≠ []) :
    (st.mhc < ac.height → ac.height ≤ gacStart st → verifyAggregateCommit st ac = verifyCertificate st ac sig) ∧
    (ac.height ≤ st.mhc → verifyAggregateCommit st ac = .reject .notIncreasing) ∧
    (st.mhc < ac.height → gacStart st < ac.height →
      verifyAggregateCommit st ac = .reject .abovePrecommitted ∨
      verifyAggregateCommit st ac = .reject .beyondNextParams) := by
  have hbe : ac.bits.isEmpty = false := by
    cases hb : ac.bits with
    | nil => exact absurd hb hbits
    | cons _ _ => rfl
  have hie : ¬ (ac.isEmpty = true ∧ ac.height = st.mhc) := by simp [AggCommit.isEmpty, hbe]
  have hv : verifyAggregateCommit st ac =
      if ac.height ≤ st.mhc then .reject .notIncreasing
      else if ac.height > st.mhpc then .reject .abovePrecommitted
      else match nextHeightParams st.params (st.mhc + 1) with
        | some nh => if ac.height > nh - 1 then .reject .beyondNextParams else verifyCertificate st ac sig
        | none => verifyCertificate st ac sig := by
    unfold verifyAggregateCommit
    rw [if_neg hie, hs]
    simp only [hbe, Bool.false_eq_true, if_false]
    rfl
  rw [hv]
  refine ⟨?_, ?_, ?_⟩
  · intro h1 h2
    have hle := (gacStart_iff st ac.height).mp h2
    rw [if_neg (by omega), if_neg (by omega)]
    unfold gacStart at h2
    split
    · rename_i nh hnh
      rw [hnh] at h2
      simp only at h2
      have := Nat.le_min.mp h2
      rw [if_neg (by omega)]
    · rfl
  · intro h1
    rw [if_pos h1]
  · intro h1 h2
    rw [if_neg (by omega)]
    by_cases h3 : ac.height > st.mhpc
    · left; rw [if_pos h3]
    · right
      rw [if_neg h3]
      unfold gacStart at h2
      split
      · rename_i nh hnh
        rw [hnh] at h2
        simp only at h2
        have : nh - 1 < ac.height := by
          rcases Nat.lt_or_ge (nh - 1) ac.height with h | h
          · exact h
          · exact absurd (Nat.le_min.mpr ⟨h, by omega⟩) (by omega)
        rw [if_pos this]
      · rename_i hnh
        rw [hnh] at h2
        simp only at h2
        omega

/-- **An accepted non-empty aggregate commit lies in the assembly window** (so nothing above
`min(nextParamsHeight - 1, mhpc)` is ever accepted). -/
theorem C06_accepted_within_bound (st : State) (ac : AggCommit)
    (hacc : verifyAggregateCommit st ac = .accept) (hne : ac.isEmpty = false) :
    st.mhc < ac.height ∧ ac.height ≤ gacStart st := by
  obtain ⟨h1, h2, h3, _⟩ := C06_verify_sound st ac hacc hne
  exact ⟨h1, (gacStart_iff st ac.height).mpr ⟨h2, h3⟩⟩

/-- non-vacuity of `C06_verify_window` / `C06_accepted_within_bound`: in the example state the window
is `(0, 5]`; the genuine aggregate for height 5 passes the guards and is accepted, heights 0 and 6 are
guard rejections -/
example : gacStart C06cxState = 5 ∧
    verifyAggregateCommit C06cxState ⟨5, Bits.ofBytes [0x0e], some (.agg [20, 30, 40] ⟨1, 105⟩)⟩ = .accept ∧
    verifyAggregateCommit C06cxState ⟨0, Bits.ofBytes [0x0e], some (.agg [20, 30, 40] ⟨1, 100⟩)⟩ = .reject .notIncreasing ∧
    verifyAggregateCommit C06cxState ⟨6, Bits.ofBytes [0x0e], some (.agg [20, 30, 40] ⟨1, 106⟩)⟩ = .reject .abovePrecommitted := by
  decide

/-- **The boundary `nextParamsHeight ≤ maxHeightPrecommitted`** (in particular `nextParamsHeight = mhpc`,
the off-by-one case): the first candidate height is `nextParamsHeight - 1`; `GetAggregateCommit` never
returns a height `≥ nextParamsHeight`, whatever the pool holds for those heights, and every aggregate
commit with non-empty fields for a height in `[nextParamsHeight, mhpc]` is rejected with
`beyondNextParams` - the block `nextParamsHeight - 1` authenticating the change is certified first. -/
theorem C06_next_params_boundary (st : State) (nh : Nat)
    (hn : nextHeightParams st.params (st.mhc + 1) = some nh) (hle : nh ≤ st.mhpc) :
    gacStart st = nh - 1 ∧ st.mhc < nh - 1 ∧
    (∀ pool ac, getAggregateCommit st pool = .ok ac → ac.height < nh) ∧
    (∀ ac sig, ac.sig = some sig → ac.bits ≠ [] → nh ≤ ac.height → ac.height ≤ st.mhpc →
      verifyAggregateCommit st ac = .reject .beyondNextParams) := by
  have h1 := (nextHeightParams_some hn).1
  have hgs : gacStart st = nh - 1 := by
    unfold gacStart
    rw [hn]
    exact Nat.min_eq_left (by omega)
  refine ⟨hgs, by omega, ?_, ?_⟩
  · intro pool ac hg
    rcases C06_assembled_height_exact st pool ac hg with ⟨h2, _⟩ | ⟨_, _, h3, _⟩
    · rw [h2]
      simp only [emptyCommit]
      omega
    · omega
  · intro ac sig hs hb h2 h3
    rcases (C06_verify_window st ac sig hs hb).2.2 (by omega) (by omega) with h | h
    · exfalso
      have hbe : ac.bits.isEmpty = false := by
        cases hb' : ac.bits with
        | nil => exact absurd hb' hb
        | cons _ _ => rfl
      unfold verifyAggregateCommit at h
      rw [if_neg (by simp [AggCommit.isEmpty, hbe]), hs] at h
      simp only [hbe, Bool.false_eq_true, if_false] at h
      rw [if_neg (by omega), if_neg (by omega), hn] at h
      simp only at h
      rw [if_pos (by omega)] at h
      cases h
    · exact h

/-- the state of the off-by-one case: a parameter change stored for height 5 = maxHeightPrecommitted -/
def C06bdState : State := { C06cxState with params := [(1, C06cxParams), (5, C06cxParams)] }

/-- heights 5 and 4 both have three of four commits -/
def C06bdPool : Pool :=
  ⟨C06cxPool.nonGossiped ++
    [⟨104, 4, 0, sign 10 ⟨1, 104⟩, false⟩, ⟨104, 4, 1, sign 20 ⟨1, 104⟩, false⟩, ⟨104, 4, 2, sign 30 ⟨1, 104⟩, false⟩], []⟩

/-- non-vacuity of `C06_next_params_boundary` / `C06_assembled_height_exact`: `nextParamsHeight = mhpc = 5`;
height 5 is certifiable from the pool but height 4 (= 5 - 1) is selected and accepted, the aggregate
for height 5 is rejected; without the parameter change height 5 is selected -/
example : nextHeightParams C06bdState.params (C06bdState.mhc + 1) = some C06bdState.mhpc ∧ gacStart C06bdState = 4 ∧
    (∃ ac, getAggregateCommit C06bdState C06bdPool = .ok ac ∧ ac.height = 4 ∧
      verifyAggregateCommit C06bdState ac = .accept) ∧
    (∃ ac, getAggregateCommit C06cxState C06bdPool = .ok ac ∧ ac.height = 5 ∧
      verifyAggregateCommit C06cxState ac = .accept ∧
      verifyAggregateCommit C06bdState ac = .reject .beyondNextParams) := by
  refine ⟨by decide, by decide, ⟨_, rfl, by decide, by decide⟩, ⟨_, rfl, by decide, by decide, by decide⟩⟩

/-! ## 3. liveness of certification -/

/-- **No double counting** (where distinct entries are needed): in a pool satisfying the invariant the
weight `GetAggregateCommit` sums for a height is the weight of the SET of validators of that height
that have a commit for the chain's block in the pool; so "certifiable as the code computes it" is
"commits present and the signing validators reach the threshold". -/
theorem C06_weight_no_double_counting (st : State) (ctx : BlockCtx) (pool : Pool)
    (hwf : StoreWf st.params) (hcons : Consistent st ctx) (hinv : PoolInv ctx st.chainId pool)
    (h : Nat) (hd : Header) (p : Params) (hb : st.blockAt h = some hd) (hp : getParams st.params h = some p) :
    commitsWeight p.validators (forBlock (pool.get h) hd.id) =
      some (signedWeight p (forBlock (pool.get h) hd.id)) ∧
    (Certifiable st pool h ↔
      (forBlock (pool.get h) hd.id ≠ [] ∧ p.threshold ≤ signedWeight p (forBlock (pool.get h) hd.id))) := by
  obtain ⟨hok, hdist⟩ := cand_facts hcons hinv hb hp
  have hw := commitsWeight_eq_signedWeight p (getParams_wf hwf hp) _ hok hdist
  refine ⟨hw, ?_, ?_⟩
  · rintro ⟨hd', p', w, h1, h2, h3, h4, h5⟩
    rw [hb] at h1
    cases h1
    rw [hp] at h3
    cases h3
    rw [hw] at h4
    cases h4
    exact ⟨h2, h5⟩
  · rintro ⟨h1, h2⟩
    exact ⟨hd, p, _, hb, h1, hp, hw, h2⟩

/-- with a duplicate the loop counts more than the signing validators weigh -/
example : commitsWeight C06cxParams.validators (forBlock (C06dupPool.get 5) 105) = some 3 ∧
    signedWeight C06cxParams (forBlock (C06dupPool.get 5) 105) = 2 := by decide

/-- **Liveness of certification.**  In a pool satisfying the invariant, if for some height `h` of the
window `(mhc, min(nextParamsHeight-1, mhpc)]` the validators of `h` that have a commit for the chain's
block in the pool reach the certificate threshold of `h`, then `GetAggregateCommit` returns a NON-EMPTY
aggregate commit for a height `≥ h` (still inside the window), and the node's own verification accepts
it.  (Blocks must exist for the heights of the window, as for `C06_assembled_total`.) -/
theorem C06_certification_live (st : State) (ctx : BlockCtx) (pool : Pool)
    (hwf : StoreWf st.params) (hcons : Consistent st ctx) (hinv : PoolInv ctx st.chainId pool)
    (hblocks : ∀ x, st.mhc < x → x ≤ gacStart st → st.blockAt x ≠ none)
    (h : Nat) (hd : Header) (p : Params) (hlo : st.mhc < h) (hhi : h ≤ gacStart st)
    (hb : st.blockAt h = some hd) (hp : getParams st.params h = some p)
    (hne : forBlock (pool.get h) hd.id ≠ [])
    (hw : p.threshold ≤ signedWeight p (forBlock (pool.get h) hd.id)) :
    ∃ ac, getAggregateCommit st pool = .ok ac ∧ ac.isEmpty = false ∧ h ≤ ac.height ∧
      ac.height ≤ gacStart st ∧ verifyAggregateCommit st ac = .accept := by
  have hcert : Certifiable st pool h :=
    ((C06_weight_no_double_counting st ctx pool hwf hcons hinv h hd p hb hp).2).mpr ⟨hne, hw⟩
  have hok : ∃ ac, getAggregateCommit st pool = .ok ac := by
    unfold getAggregateCommit getAggregateCommitOrd
    rcases gacLoop_spec st pool ctx hwf hcons hinv (gacStart st - st.mhc) with h1 | ⟨ac', h1, _⟩ | ⟨_, x, hx1, hx2, hx3⟩
    · exact ⟨_, h1⟩
    · exact ⟨_, h1⟩
    · exact absurd hx3 (hblocks x hx1 (by omega))
  obtain ⟨ac, hg⟩ := hok
  refine ⟨ac, hg, ?_⟩
  rcases C06_assembled_height_exact st pool ac hg with ⟨_, h2⟩ | ⟨h1, _, h3, _, h5⟩
  · exact absurd hcert (h2 h hlo hhi)
  · refine ⟨h1, ?_, h3, C06_assembled_accepted st ctx pool ac hwf hcons hinv hg⟩
    rcases Nat.lt_or_ge ac.height h with hlt | hge
    · exact absurd hcert (h5 h hlt hhi)
    · exact hge

/-- non-vacuity: three of four validators (weight 3 = threshold) committed to height 5 -/
example : ∃ ac, getAggregateCommit C06cxState C06cxPool = .ok ac ∧ ac.isEmpty = false ∧ 5 ≤ ac.height ∧
    ac.height ≤ gacStart C06cxState ∧ verifyAggregateCommit C06cxState ac = .accept :=
  C06_certification_live C06cxState C06cxCtx C06cxPool C06cx_wf C06cx_consistent C06cx_inv
    (by intro x _ hx
        have : gacStart C06cxState = 5 := by decide
        simp only [C06cxState] at *
        rw [if_pos (by omega)]
        simp)
    5 ⟨105, 0⟩ C06cxParams (by decide) (by decide) rfl rfl (by decide) (by decide)

/-- the threshold is needed: with two of four validators nothing is assembled -/
example : getAggregateCommit C06cxState
    ⟨[⟨105, 5, 1, sign 20 ⟨1, 105⟩, false⟩, ⟨105, 5, 2, sign 30 ⟨1, 105⟩, false⟩], []⟩ = .ok (emptyCommit C06cxState) := by
  decide

/-- the commits the cleanup of `broadcastCertificate` keeps: above the removal height, and inside
`[mhpc - 100, mhpc]` or authenticating a change of BFT parameters -/
def C06Kept (st : State) (removal : Nat) (h : Nat) : Prop :=
  removal < h ∧ ((minStoredHeight st.mhpc ≤ h ∧ h ≤ st.mhpc) ∨ existParams st.params (h + 1) = true)

theorem C06_cleanupKeep_iff (st : State) (removal h : Nat) : cleanupKeep st removal h = true ↔ C06Kept st removal h := by
  unfold cleanupKeep C06Kept
  by_cases h1 : h ≤ removal
  · simp only [h1, if_true]
    constructor
    · intro h2; cases h2
    · intro h2; omega
  · rw [if_neg h1]
    cases hex : existParams st.params (h + 1)
    · by_cases h2 : minStoredHeight st.mhpc ≤ h ∧ h ≤ st.mhpc
      · simp [h2, show removal < h by omega]
      · have : ¬ (h ≥ minStoredHeight st.mhpc ∧ h ≤ st.mhpc) := h2
        simp only [ge_iff_le] at this
        simp [this]
    · simp [show removal < h by omega]

/-- **Completeness of the gossip validator**: a well-formed single commit whose height the node stores
(above the removal height; inside `[mhpc-100, mhpc]` or authenticating a parameter change) and which
verifies against the current chain (the chain's block at its height, signer active there, valid
signature) is never refused: the loop continues, and afterwards the pool holds the commit (it is
added unless `Pool.Has` already finds it). -/
theorem C06_valid_commit_enters (st : State) (pool : Pool) (m : Incoming) (fin : Header)
    (hwf : m.wf = true) (hfin : st.blockAt st.mhpc = some fin) (hk : C06Kept st fin.acHeight m.height)
    (hv : VerifiedOnChain st m.commit) :
    (scvOne st pool m).2 = none ∧ (scvOne st pool m).1.has m.commit = true ∧
    (pool.has m.commit = false → (scvOne st pool m).1 = pool.add m.commit) := by
  obtain ⟨hd, p, v, hb, hid, hp, hf, hs⟩ := hv
  simp only [Incoming.commit] at hb hid hp hf hs
  have hr : ((decide (m.height < minStoredHeight st.mhpc) || decide (m.height > st.mhpc)) &&
      !existParams st.params (m.height + 1)) = false := by
    rcases hk.2 with ⟨a, b⟩ | e
    · have h1 : ¬ m.height < minStoredHeight st.mhpc := by omega
      have h2 : ¬ m.height > st.mhpc := by omega
      simp [h1, h2]
    · simp [e]
  have hsig : verifySingle v.key (certMsg st hd) m.sig = true := by simp [verifySingle, hs]
  unfold scvOne
  rw [if_neg (by simp [hwf])]
  by_cases hh : pool.has m.commit = true
  · rw [if_pos hh]
    exact ⟨rfl, hh, fun h => by rw [hh] at h; cases h⟩
  · rw [if_neg hh, hfin]
    simp only
    rw [if_neg (by have := hk.1; omega), hr]
    simp only [Bool.false_eq_true, if_false]
    rw [hb]
    simp only
    rw [if_neg (by simp [hid]), hp]
    simp only
    rw [hf]
    simp only [hsig, Bool.not_true, Bool.false_eq_true, if_false]
    have hh' : pool.has m.commit = false := by simpa using hh
    refine ⟨trivial, ?_, fun _ => trivial⟩
    have hadd : pool.add m.commit = { pool with nonGossiped := pool.nonGossiped ++ [m.commit] } := by
      simp only [Pool.add, hh', Bool.false_eq_true, if_false]
    rw [hadd]
    simp [Pool.has, hasCommit]

private theorem has_add_mono (pool : Pool) (d c : Commit) (h : pool.has c = true) : (pool.add d).has c = true := by
  by_cases hd : pool.has d = true
  · rw [LiskVerif.Cert.pool_add_of_has hd]; exact h
  · have hd' : pool.has d = false := by simpa using hd
    simp only [Pool.add, hd', Bool.false_eq_true, if_false]
    simp only [Pool.has, hasCommit, List.any_append, Bool.or_eq_true] at h ⊢
    rcases h with h | h
    · exact Or.inl h
    · exact Or.inr (Or.inl h)

private theorem has_scvOne_mono (st : State) (pool : Pool) (m : Incoming) (c : Commit) (h : pool.has c = true) :
    (scvOne st pool m).1.has c = true := by
  rcases (scvOne_spec st pool m).1 with h1 | ⟨h1, _⟩
  · rw [h1]; exact h
  · rw [h1]; exact has_add_mono pool _ c h

/-- a message the node stores and that verifies against the current chain -/
def C06ValidMsg (st : State) (fin : Header) (m : Incoming) : Prop :=
  m.wf = true ∧ C06Kept st fin.acHeight m.height ∧ VerifiedOnChain st m.commit

/-- **A list of valid single commits is processed to the end**: the validator returns `ignore` (its
only non-rejecting result), afterwards `Pool.Has` finds every one of them, and nothing `Pool.Has` found
before is lost. -/
theorem C06_valid_commits_all_enter (st : State) (fin : Header) (hfin : st.blockAt st.mhpc = some fin)
    (msgs : List Incoming) (hvalid : ∀ m ∈ msgs, C06ValidMsg st fin m) (pool : Pool) :
    (singleCommitValidator st pool msgs).2 = .ignore ∧
    (∀ m ∈ msgs, (singleCommitValidator st pool msgs).1.has m.commit = true) ∧
    (∀ c, pool.has c = true → (singleCommitValidator st pool msgs).1.has c = true) := by
  induction msgs generalizing pool with
  | nil => exact ⟨rfl, fun m hm => absurd hm List.not_mem_nil, fun c h => h⟩
  | cons m r ih =>
    obtain ⟨h1, h2, h3⟩ := hvalid m List.mem_cons_self
    obtain ⟨e1, e2, _⟩ := C06_valid_commit_enters st pool m fin h1 hfin h2 h3
    obtain ⟨i1, i2, i3⟩ := ih (fun x hx => hvalid x (List.mem_cons_of_mem _ hx)) (scvOne st pool m).1
    rw [scv_step]
    simp only [e1]
    refine ⟨i1, ?_, ?_⟩
    · intro x hx
      rcases List.mem_cons.mp hx with rfl | hx
      · exact i3 _ e2
      · exact i2 x hx
    · intro c hc
      exact i3 c (has_scvOne_mono st pool m c hc)

private theorem sum_filter_mono (l : List Validator) (P Q : Validator → Bool)
    (h : ∀ v ∈ l, P v = true → Q v = true) :
    ((l.filter P).map (·.weight)).sum ≤ ((l.filter Q).map (·.weight)).sum := by
  induction l with
  | nil => simp
  | cons x r ih =>
    have ih' := ih (fun v hv => h v (List.mem_cons_of_mem _ hv))
    have hx := h x List.mem_cons_self
    simp only [List.filter_cons]
    cases hP : P x <;> cases hQ : Q x
    · simpa using ih'
    · simp only [Bool.false_eq_true, if_false, if_true, List.map_cons, List.sum_cons]; omega
    · rw [hP] at hx; have := hx rfl; rw [hQ] at this; cases this
    · simp only [if_true, List.map_cons, List.sum_cons]; omega

/-- **Delivery implies certification.**  If a gossip message delivers valid single commits for the
chain's block at a height `h` of the window `(mhc, min(nextParamsHeight-1, mhpc)]` that the node stores,
and the validators of `h` that signed them reach the certificate threshold of `h`, then - whatever the
pool held before (any pool satisfying the invariant, e.g. any reachable one) - `GetAggregateCommit`
afterwards returns a non-empty aggregate commit for a height `≥ h`, accepted by the node's own
verification. -/
theorem C06_delivery_certifies (st : State) (ctx : BlockCtx) (pool : Pool)
    (hwf : StoreWf st.params) (hcons : Consistent st ctx) (hinv : PoolInv ctx st.chainId pool)
    (hblocks : ∀ x, st.mhc < x → x ≤ gacStart st → st.blockAt x ≠ none)
    (fin : Header) (hfin : st.blockAt st.mhpc = some fin)
    (h : Nat) (hd : Header) (p : Params) (hlo : st.mhc < h) (hhi : h ≤ gacStart st)
    (hb : st.blockAt h = some hd) (hp : getParams st.params h = some p)
    (hkept : C06Kept st fin.acHeight h)
    (msgs : List Incoming) (hne : msgs ≠ [])
    (hvalid : ∀ m ∈ msgs, m.wf = true ∧ m.height = h ∧ m.block = hd.id ∧
      ∃ v, findValidator p.validators m.signer = some v ∧ m.sig = sign v.key (certMsg st hd))
    (hw : p.threshold ≤
      ((p.validators.filter (fun v => msgs.any (fun m => m.signer == v.addr))).map (·.weight)).sum) :
    ∃ ac, getAggregateCommit st (singleCommitValidator st pool msgs).1 = .ok ac ∧ ac.isEmpty = false ∧
      h ≤ ac.height ∧ ac.height ≤ gacStart st ∧ verifyAggregateCommit st ac = .accept := by
  have hinv' := C06_pool_invariant_validator st ctx pool msgs hcons hinv
  have hvm : ∀ m ∈ msgs, C06ValidMsg st fin m := by
    intro m hm
    obtain ⟨h1, h2, h3, v, h4, h5⟩ := hvalid m hm
    refine ⟨h1, h2 ▸ hkept, hd, p, v, ?_, h3.symm, ?_, h4, h5⟩
    · simp only [Incoming.commit]; rw [h2]; exact hb
    · simp only [Incoming.commit]; rw [h2]; exact hp
  obtain ⟨_, hall, _⟩ := C06_valid_commits_all_enter st fin hfin msgs hvm pool
  have hctx : ctx hd.id = some (h, p) := (hcons _ _ hb).1 p hp
  -- every delivered commit has an entry among the candidates of height `h`
  have hin : ∀ m ∈ msgs, ∃ d ∈ forBlock ((singleCommitValidator st pool msgs).1.get h) hd.id, d.signer = m.signer := by
    intro m hm
    obtain ⟨d, hdm, hdb, hds⟩ := pool_has_true (hall m hm)
    simp only [Incoming.commit] at hdb hds
    have hdb' : d.block = hd.id := by rw [hdb]; exact (hvalid m hm).2.2.1
    obtain ⟨p', _, hc', _⟩ := hinv'.1 d hdm
    rw [hdb', hctx] at hc'
    simp only [Option.some.injEq, Prod.mk.injEq] at hc'
    refine ⟨d, ?_, hds⟩
    unfold forBlock
    rw [pool_get_eq]
    simp only [List.mem_filter, beq_iff_eq]
    exact ⟨⟨hdm, hc'.1.symm⟩, hdb'⟩
  apply C06_certification_live st ctx _ hwf hcons hinv' hblocks h hd p hlo hhi hb hp
  · obtain ⟨m, hm⟩ := List.exists_mem_of_ne_nil _ hne
    obtain ⟨d, hd', _⟩ := hin m hm
    exact List.ne_nil_of_mem hd'
  · refine Nat.le_trans hw (sum_filter_mono _ _ _ ?_)
    intro v _ hv
    obtain ⟨m, hm, hmv⟩ := List.any_eq_true.mp hv
    obtain ⟨d, hd', hds⟩ := hin m hm
    exact List.any_eq_true.mpr ⟨d, hd', by rw [hds]; exact hmv⟩

/-- non-vacuity: one message with the commits of validators 1, 2, 3 for height 5 into the empty pool -/
example : ∃ ac, getAggregateCommit C06cxState (singleCommitValidator C06cxState Pool.empty
      [⟨true, 105, 5, 1, sign 20 ⟨1, 105⟩⟩, ⟨true, 105, 5, 2, sign 30 ⟨1, 105⟩⟩, ⟨true, 105, 5, 3, sign 40 ⟨1, 105⟩⟩]).1 = .ok ac ∧
    ac.isEmpty = false ∧ ac.height = 5 := ⟨_, rfl, by decide, by decide⟩

/-- **Liveness for reachable pools**: the statement of `C06_certification_live` for the pool reached
from the empty pool by any history of operations (each in its own chain state, all consistent with one
block context). -/
theorem C06_reachable_certification_live (ctx : BlockCtx) (st : State) (hwf : StoreWf st.params)
    (hcons : Consistent st ctx) (hblocks : ∀ x, st.mhc < x → x ≤ gacStart st → st.blockAt x ≠ none)
    (steps : List C06Step) (hok : ∀ s ∈ steps, C06StepOk ctx st.chainId s)
    (h : Nat) (hd : Header) (p : Params) (hlo : st.mhc < h) (hhi : h ≤ gacStart st)
    (hb : st.blockAt h = some hd) (hp : getParams st.params h = some p)
    (hne : forBlock ((C06run Pool.empty steps).get h) hd.id ≠ [])
    (hw : p.threshold ≤ signedWeight p (forBlock ((C06run Pool.empty steps).get h) hd.id)) :
    ∃ ac, getAggregateCommit st (C06run Pool.empty steps) = .ok ac ∧ ac.isEmpty = false ∧ h ≤ ac.height ∧
      ac.height ≤ gacStart st ∧ verifyAggregateCommit st ac = .accept :=
  C06_certification_live st ctx _ hwf hcons
    (C06_reachable_pool_invariant ctx st.chainId steps hok Pool.empty (C06_empty_pool_inv ctx st.chainId))
    hblocks h hd p hlo hhi hb hp hne hw

/-! ## 4. cleanup -/

/-- **Exact effect of the cleanup step of `broadcastCertificate`**: an entry remains (in the same list)
iff it was there, its height is above the removal height (the aggregate-commit height of the block at
`maxHeightPrecommitted`) and it is inside the stored range or authenticates a parameter change. -/
theorem C06_cleanup_exact (st : State) (pool pool' : Pool) (fin : Header)
    (hfin : st.blockAt st.mhpc = some fin) (hb : broadcastCleanup st pool = some pool') (c : Commit) :
    (c ∈ pool'.gossiped ↔ c ∈ pool.gossiped ∧ C06Kept st fin.acHeight c.height) ∧
    (c ∈ pool'.nonGossiped ↔ c ∈ pool.nonGossiped ∧ C06Kept st fin.acHeight c.height) := by
  unfold broadcastCleanup at hb
  rw [hfin] at hb
  simp only [Option.some.injEq] at hb
  rw [← hb, ← C06_cleanupKeep_iff]
  exact cleanup_mem pool _ c

/-- **Cleanup never removes a commit that is still needed.**  When the removal height is at most
`maxHeightCertified` (aggregate-commit heights do not decrease along the chain), every entry for a
height above `maxHeightCertified` inside the stored range `[mhpc - 100, mhpc]`, or authenticating a
parameter change, survives in its list; for such heights `Pool.Get` is unchanged and the height is
certifiable after the cleanup iff it was before.  For NO height does the cleanup create certifiability. -/
theorem C06_cleanup_keeps_needed (st : State) (pool pool' : Pool) (fin : Header)
    (hfin : st.blockAt st.mhpc = some fin) (hb : broadcastCleanup st pool = some pool')
    (hrem : fin.acHeight ≤ st.mhc) :
    (∀ c, st.mhc < c.height →
      ((minStoredHeight st.mhpc ≤ c.height ∧ c.height ≤ st.mhpc) ∨ existParams st.params (c.height + 1) = true) →
      (c ∈ pool.gossiped → c ∈ pool'.gossiped) ∧ (c ∈ pool.nonGossiped → c ∈ pool'.nonGossiped)) ∧
    (∀ h, st.mhc < h →
      ((minStoredHeight st.mhpc ≤ h ∧ h ≤ st.mhpc) ∨ existParams st.params (h + 1) = true) →
      pool'.get h = pool.get h ∧ (Certifiable st pool' h ↔ Certifiable st pool h)) ∧
    (∀ h, Certifiable st pool' h → Certifiable st pool h) := by
  have hget : ∀ h, pool'.get h = if cleanupKeep st fin.acHeight h then pool.get h else [] := by
    intro h
    unfold broadcastCleanup at hb
    rw [hfin] at hb
    simp only [Option.some.injEq] at hb
    rw [← hb]
    exact cleanup_get pool _ h
  refine ⟨?_, ?_, ?_⟩
  · intro c h1 h2
    have hk : C06Kept st fin.acHeight c.height := ⟨by omega, h2⟩
    obtain ⟨hg, hn⟩ := C06_cleanup_exact st pool pool' fin hfin hb c
    exact ⟨fun h => hg.mpr ⟨h, hk⟩, fun h => hn.mpr ⟨h, hk⟩⟩
  · intro h h1 h2
    have hk : cleanupKeep st fin.acHeight h = true := (C06_cleanupKeep_iff st _ h).mpr ⟨by omega, h2⟩
    have : pool'.get h = pool.get h := by rw [hget, if_pos hk]
    refine ⟨this, ?_⟩
    unfold Certifiable
    rw [this]
  · rintro h ⟨hd, p, w, h1, h2, h3, h4, h5⟩
    rw [hget] at h2 h4
    by_cases hk : cleanupKeep st fin.acHeight h = true
    · rw [if_pos hk] at h2 h4
      exact ⟨hd, p, w, h1, h2, h3, h4, h5⟩
    · rw [if_neg hk] at h2
      exact absurd rfl h2

/-- **Cleanup does not change what `GetAggregateCommit` returns** while the uncertified backlog fits
the stored range (`mhpc ≤ mhc + 1 + 100`) and the removal height is at most `maxHeightCertified`. -/
theorem C06_cleanup_preserves_aggregate (st : State) (pool pool' : Pool) (fin : Header)
    (hfin : st.blockAt st.mhpc = some fin) (hb : broadcastCleanup st pool = some pool')
    (hrem : fin.acHeight ≤ st.mhc) (hback : st.mhpc ≤ st.mhc + 1 + commitRangeStored) :
    getAggregateCommit st pool' = getAggregateCommit st pool := by
  unfold getAggregateCommit getAggregateCommitOrd
  apply gacLoop_congr
  intro x h1 h2
  have h3 : x ≤ st.mhpc := by
    have := ((gacStart_iff st (gacStart st)).mp (Nat.le_refl _)).1
    omega
  exact ((C06_cleanup_keeps_needed st pool pool' fin hfin hb hrem).2.1 x h1
    (Or.inl ⟨by unfold minStoredHeight; omega, h3⟩)).1

/-- **Cleanup removes every commit that can never be used, and only droppable ones.**  After the
cleanup every entry is above the removal height `r` (certified by a FINAL block) and inside the stored
range or authenticating a parameter change.  The entries at or below `r` are unusable for ever: in
every chain state whose `maxHeightCertified` is at least `r`, `GetAggregateCommit` returns the same
with or without them (it never reads a height `≤ maxHeightCertified`). -/
theorem C06_cleanup_removes_unusable (st : State) (pool pool' : Pool) (fin : Header)
    (hfin : st.blockAt st.mhpc = some fin) (hb : broadcastCleanup st pool = some pool') :
    (∀ c ∈ pool'.all, fin.acHeight < c.height ∧
      ((minStoredHeight st.mhpc ≤ c.height ∧ c.height ≤ st.mhpc) ∨ existParams st.params (c.height + 1) = true)) ∧
    (∀ (st' : State) (q : Pool), fin.acHeight ≤ st'.mhc →
      getAggregateCommit st' (q.cleanup (fun h => decide (fin.acHeight < h))) = getAggregateCommit st' q) := by
  constructor
  · intro c hc
    obtain ⟨hg, hn⟩ := C06_cleanup_exact st pool pool' fin hfin hb c
    rcases List.mem_append.mp hc with h | h
    · exact (hg.mp h).2
    · exact (hn.mp h).2
  · intro st' q hle
    unfold getAggregateCommit getAggregateCommitOrd
    apply gacLoop_congr
    intro x h1 _
    rw [cleanup_get, if_pos (by simp; omega)]

/-- non-vacuity of the cleanup theorems: with the block at `mhpc = 5` carrying an aggregate commit for
height 3 and `mhc = 3`, the entries of heights 2 and 3 go, those of 4 and 5 stay, and the assembled
aggregate commit is the same -/
example :
    let st : State := { C06cxState with blockAt := fun h => if h ≤ 10 then some ⟨100 + h, 3⟩ else none, mhc := 3 }
    let pool : Pool := ⟨C06cxPool.nonGossiped ++ [⟨102, 2, 1, sign 20 ⟨1, 102⟩, false⟩],
      [⟨103, 3, 1, sign 20 ⟨1, 103⟩, false⟩, ⟨104, 4, 1, sign 20 ⟨1, 104⟩, false⟩]⟩
    (broadcastCleanup st pool).map Pool.all = some ([⟨104, 4, 1, sign 20 ⟨1, 104⟩, false⟩] ++ C06cxPool.nonGossiped) ∧
    (broadcastCleanup st pool).map (getAggregateCommit st) = some (getAggregateCommit st pool) ∧
    (∃ ac, getAggregateCommit st pool = .ok ac ∧ ac.height = 5) := by
  refine ⟨by decide, by decide, ⟨_, rfl, by decide⟩⟩
