/-
  C13 — Block commit and removal are crash-atomic: storage-level crash semantics, histories of
  steps, repeated crashes, restart.

  `Props/C13.lean` proves atomicity for ONE step on the model's history machine, where a crash is
  "the durable history at a prefix of the run". This file

  I.   states the assumption on pebble as a `Prop` (`PebbleAssumption`: a synced `Apply` of a batch
       of any size is all-or-nothing, an idle crash loses nothing) and proves from it that every
       state a restart can find — the process may die between any two events or INSIDE `Write` —
       is the state before or after the step (`C13_storage_atomic`); that a write-ahead log with a
       torn tail which recovery discards (and the stricter "unsynced data lost" variant) satisfies
       the assumption (`C13_wal_*`); that the assumption is needed (`C13_assumption_necessary`);
  II.  lifts this over every sequence of steps (`C13_history_storage_atomic`: state before or after
       the step in progress) and over any number of crashes and restarts, including crashes during
       restart (`C13_invariant_lifts`, `C13_reach_whole_batches`);
  III. the node database: over every such execution of block commits / removals / genesis the
       database a restart finds satisfies the restart invariant, `Executer.Init` + `PrepareCache`
       map it to a consistent tip, and restart is idempotent under crashes
       (`C13_node_reach_recoverable`, `C13_restart_consistent`, `C13_crash_during_restart_harmless`);
  IV.  ties all of it to the REGENERATED skeleton data (`Gen.WS`): the three engine steps are
       single-write, every mutation site of every table goes to the one batch, restart writes only
       through the genesis step, and splitting the write (second batch for pruning finalized
       diffs, auto-flushing batch) is rejected and really is non-atomic.

  The `Storage` interface, the WAL store, `Reach`, `restartBatch` are specification-level
  definitions of Lemmas/CrashMore.lean; the model (Model/Crash.lean) is unchanged.
-/
import LiskVerif.Props.C13
import LiskVerif.Lemmas.CrashMore

open LiskVerif LiskVerif.Crash LiskVerif.C13

namespace LiskVerif.C13

/-- the three steps of the engine that write block data, as regenerated from the Go source, with
    their callees inlined -/
def engineSteps : List Stmt :=
  [step Gen.WS.Executer_processValidated, step Gen.WS.Executer_deleteBlock,
   step Gen.WS.Executer_processGenesisBlock]

/-- a run (with payload) of one of the regenerated engine steps -/
def EnginePath {κ ν : Type} (evs : List (Ev κ ν)) : Prop :=
  ∃ s, s ∈ engineSteps ∧ ∃ o, Exec s (evs.map Ev.abs) o

/-- what the node does as ONE step on a database with content `db` (genesis id `gid`): a run of a
    regenerated engine step which either has no durable effect (it failed before the `Write`), or
    is the genesis step on a database without genesis block (`Executer.Init`), or stages a batch
    with the effect of a block commit / block removal for the tip of `db` (the effect, not the
    list: the engine stages the pruning of finalized diffs before the block, `addBatch` after it) -/
def NodeStep (gid : Nat) (db : NodeDB) (evs : List (Ev Key Val)) : Prop :=
  EnginePath evs ∧
  (delta evs = [] ∨
   (db (.index 0) = none ∧ applyBatch db (stagedOps evs) = applyBatch db (genesisBatch gid)) ∨
   ∃ tip f tip' f' B, NodeInv db tip f ∧ BlockStep db tip f B tip' f' ∧
     applyBatch db (stagedOps evs) = applyBatch db B)

/-- block commit whose finalized-diff pruning goes to a second batch -/
def pruneSecondBatch : Stmt := Stmt.seqs [
  .act (.newBatch "batch"), .act (.batchSet "batch"), .act (.batchSet "batch"), .act (.batchSet "batch"),
  .act (.batchSet "batch"), .act (.batchSet "batch"), .act (.write "batch"), .act .cacheUpdate,
  .act (.newBatch "prune"), .act (.batchDel "prune"), .act (.write "prune"), .ret]

/-- commit block 2 (finalizing height 1) on a chain of genesis + block 1, pruning in a second batch -/
def pruneSecondRun : List (Ev Key Val) :=
  [.newBatch "batch"] ++ (addBatch 1 8 1 []).map (.batchOp "batch") ++ [.write "batch", .other .cacheUpdate,
   .newBatch "prune", .batchOp "prune" (.del (.diff 0)), .write "prune"]

/-- an auto-flushing batch: the batch is written whenever it holds two operations -/
def autoFlush : Stmt := Stmt.seqs [
  .act (.newBatch "batch"), .act (.batchSet "batch"), .act (.batchSet "batch"), .act (.write "batch"),
  .act (.batchSet "batch"), .act (.batchSet "batch"), .act (.write "batch"), .act .cacheUpdate, .ret]

/-- one batch of `n` operations, written once -/
def oneBatchRun {κ ν : Type} (b : String) (ops : List (Op κ ν)) : List (Ev κ ν) :=
  Ev.newBatch b :: ops.map (Ev.batchOp b) ++ [Ev.write b]

/-- the commit of block 1 (id 7) on the genesis database, as one batch -/
def commitRun : List (Ev Key Val) := oneBatchRun "batch" (addBatch 0 7 0 []) ++ [.other .cacheUpdate]

/-- a payload for every action (for non-vacuity: turns a path of a skeleton into a run); the default
    staging payloads do not change the databases of the examples -/
def liftAct : Act → Ev Key Val
  | .newBatch b => .newBatch b
  | .batchSet b => .batchOp b (.set .fin (.num 0))
  | .batchDel b => .batchOp b (.del (.diff 1000))
  | .write b => .write b
  | .directSet => .direct (.set .fin (.num 0))
  | .directDel => .direct (.del (.diff 1000))
  | a => .other a

/-- the run of an auto-flushing commit of block 1 on the genesis database -/
def autoFlushRun : List (Ev Key Val) :=
  [.newBatch "batch", .batchOp "batch" (.set .bftTip (.num 1)), .batchOp "batch" (.set (.diff 1) .blob),
   .write "batch", .batchOp "batch" (.set (.header 7) (.hdr 1)), .batchOp "batch" (.set (.index 1) (.id 7)),
   .write "batch", .other .cacheUpdate]

/-- genesis + block 1 -/
def db2 : NodeDB := applyBatch db1 (addBatch 0 7 0 [])

/-- payloads for the staging actions of a path: the k-th `Set` site on the path gets the k-th
    element of `sets`, the k-th `Del` site the k-th of `dels` (defaults when they run out) -/
def liftWith : List (Op Key Val) → List (Op Key Val) → List Act → List (Ev Key Val)
  | op :: sets, dels, .batchSet b :: tr => .batchOp b op :: liftWith sets dels tr
  | sets, op :: dels, .batchDel b :: tr => .batchOp b op :: liftWith sets dels tr
  | sets, dels, a :: tr => liftAct a :: liftWith sets dels tr
  | _, _, [] => []

def Act.isUnknown : Act → Bool
  | .unknown _ => true
  | _ => false

/-- a site that is harmless for the single batch `"batch"`: not a direct write, not an unknown
    construct, and if it names a batch then that one -/
def siteOk (a : Act) : Bool :=
  !a.isDirect && !Act.isUnknown a && (a.target == none || a.target == some "batch")

/-- the process dies while `Executer.Init` runs on store `s`: while it only reads
    (`GenesisBlockExist`, `PrepareCache`), or — on a database without genesis block — anywhere in
    or after the genesis step -/
inductive RestartCrash {σ : Type} (S : Storage σ Key Val) (gid : Nat) (s : σ) : σ → Prop where
  | idle {s' : σ} : S.crashIdle s s' → RestartCrash S gid s s'
  | inGenesis {evs : List (Ev Key Val)} {s' : σ} : S.content s (.index 0) = none → EnginePath evs →
      (delta evs = [] ∨
        applyBatch (S.content s) (stagedOps evs) = applyBatch (S.content s) (genesisBatch gid)) →
      CrashAt S ⟨s, []⟩ evs s' →
      RestartCrash S gid s s'

/-- any number of crashed restarts in a row -/
inductive RestartCrashes {σ : Type} (S : Storage σ Key Val) (gid : Nat) (s : σ) : σ → Prop where
  | nil : RestartCrashes S gid s s
  | cons {s' s'' : σ} : RestartCrashes S gid s s' → RestartCrash S gid s' s'' → RestartCrashes S gid s s''

end LiskVerif.C13

/-! ## I. Storage-level crash semantics -/

/-- **Refinement of the crash semantics** (no hypothesis on the run): on any store satisfying the
    assumption on pebble, whatever a restart finds after the process died anywhere in a run — between
    two events, inside a `Write`, inside a direct `Set` — has the content of the store at some event
    boundary of the run. The model's "crash = durable history at a prefix" loses no behaviour. -/
theorem C13_storage_refines {σ κ ν : Type} [DecidableEq κ] (S : Storage σ κ ν) (hS : PebbleAssumption S)
    (m0 : SMach σ κ ν) (evs : List (Ev κ ν)) (s' : σ) (h : CrashAt S m0 evs s') :
    ∃ q, q <+: evs ∧ S.content s' = S.content (SMach.run S m0 q).store ∧
      S.content s' = dbOf (S.content m0.store) ((⟨[], m0.pend⟩ : Mach κ ν).run q).hist := by
  obtain ⟨q, hq, hc⟩ := crashAt_refines hS h
  exact ⟨q, hq, hc, by rw [hc, srun_content hS]⟩

/-- **C13 atomicity on the store.** From the assumption on pebble alone: for any skeleton
    satisfying `singleWrite`, any path with any payload (any batch size), started from any store and
    any process memory, EVERY state a restart can find after the process died in the step has the
    content before the step or that content with the whole staged batch applied; so has the
    complete step, and a step that does not end in an error return has the latter. -/
theorem C13_storage_atomic {σ κ ν : Type} [DecidableEq κ] (S : Storage σ κ ν) (hS : PebbleAssumption S)
    (s : Stmt) (hs : singleWrite s = true) (evs : List (Ev κ ν)) (o : Out)
    (hex : Exec s (evs.map Ev.abs) o) (m : SMach σ κ ν) :
    (∀ s', CrashAt S m evs s' →
      S.content s' = S.content m.store ∨
      S.content s' = applyBatch (S.content m.store) (stagedOps evs)) ∧
    (S.content (SMach.run S m evs).store = S.content m.store ∨
     S.content (SMach.run S m evs).store = applyBatch (S.content m.store) (stagedOps evs)) ∧
    (o ≠ .err →
     S.content (SMach.run S m evs).store = applyBatch (S.content m.store) (stagedOps evs)) := by
  have hok : StepOK evs := stepOK_of_singleWrite hs hex
  have hfin : o ≠ .err →
      S.content (SMach.run S m evs).store = applyBatch (S.content m.store) (stagedOps evs) := by
    intro ho
    rw [srun_step_content hS m hok]
    have hd : delta evs = ((start []).run evs).hist := rfl
    cases (C13_atomic s hs evs o hex []).2 ho with
    | inl h => rw [hd, h]; rfl
    | inr h => rw [hd, h.2, h.1]; rfl
  have hpost : S.content (SMach.run S m evs).store = S.content m.store ∨
      S.content (SMach.run S m evs).store = applyBatch (S.content m.store) (stagedOps evs) := by
    rw [srun_step_content hS m hok]
    cases delta_cases hok with
    | inl h => left; rw [h]; rfl
    | inr h => right; rw [h]; rfl
  refine ⟨fun s' hc => ?_, hpost, hfin⟩
  cases crashAt_before_or_after hS m hok hc with
  | inl h => exact Or.inl h
  | inr h => rw [h]; exact hpost

/-- a write-ahead log — one record per batch whatever its size, a crash inside `Apply` leaves the
    record absent, complete, or torn (followed by anything), recovery replays complete records up to
    the first torn one — satisfies the assumption; so does the stricter reading of the property
    text ("unsynced data lost", no torn tail) -/
theorem C13_wal_satisfies_assumption {κ ν : Type} [DecidableEq κ] (base : DBOf κ ν) :
    PebbleAssumption (walStorage base) ∧ PebbleAssumption (walStorageStrict base) :=
  ⟨wal_assumption base, wal_assumption_strict base⟩

/-- **C13 atomicity on a write-ahead log with torn tail.** Spelled out: the database replayed from
    the log a restart finds is the old database or the old database with the whole batch. -/
theorem C13_wal_atomic {κ ν : Type} [DecidableEq κ] (base : DBOf κ ν)
    (s : Stmt) (hs : singleWrite s = true) (evs : List (Ev κ ν)) (o : Out)
    (hex : Exec s (evs.map Ev.abs) o) (w : List (Rec κ ν)) (pend : List (String × List (Op κ ν)))
    (w' : List (Rec κ ν)) (hc : CrashAt (walStorage base) ⟨w, pend⟩ evs w') :
    dbOf base (recoverWal w') = dbOf base (recoverWal w) ∨
    dbOf base (recoverWal w') = applyBatch (dbOf base (recoverWal w)) (stagedOps evs) :=
  (C13_storage_atomic (walStorage base) (wal_assumption base) s hs evs o hex ⟨w, pend⟩).1 w' hc

/-- the same in the "unsynced data lost" variant -/
theorem C13_wal_atomic_strict {κ ν : Type} [DecidableEq κ] (base : DBOf κ ν)
    (s : Stmt) (hs : singleWrite s = true) (evs : List (Ev κ ν)) (o : Out)
    (hex : Exec s (evs.map Ev.abs) o) (w : List (Rec κ ν)) (pend : List (String × List (Op κ ν)))
    (w' : List (Rec κ ν)) (hc : CrashAt (walStorageStrict base) ⟨w, pend⟩ evs w') :
    dbOf base (recoverWal w') = dbOf base (recoverWal w) ∨
    dbOf base (recoverWal w') = applyBatch (dbOf base (recoverWal w)) (stagedOps evs) :=
  (C13_storage_atomic (walStorageStrict base) (wal_assumption_strict base) s hs evs o hex ⟨w, pend⟩).1 w' hc

/-- recovery of the log is idempotent, and dying during recovery any number of times changes
    nothing that a later recovery sees -/
theorem C13_wal_recovery_idempotent {κ ν : Type} (w : List (Rec κ ν)) :
    recoverWal (cleanWal w) = recoverWal w ∧
    ∀ w' w'', WalCrashIdle w w' → WalCrashIdle w' w'' → recoverWal w'' = recoverWal w := by
  have one : ∀ a b : List (Rec κ ν), WalCrashIdle a b → recoverWal b = recoverWal a := by
    intro a b h
    cases h with
    | same => rfl
    | cleaned => exact recoverWal_clean a
    | junk j => exact recoverWal_append_torn a j
  exact ⟨recoverWal_clean w, fun w' w'' h1 h2 => (one _ _ h2).trans (one _ _ h1)⟩

/-- **Batch size does not matter.** One batch of ANY number of operations, written once, on any
    store satisfying the assumption: a restart finds none or all of the operations. -/
theorem C13_batch_size_irrelevant {σ κ ν : Type} [DecidableEq κ] (S : Storage σ κ ν)
    (hS : PebbleAssumption S) (b : String) (ops : List (Op κ ν)) (m : SMach σ κ ν) (s' : σ)
    (hc : CrashAt S m (oneBatchRun b ops) s') :
    S.content s' = S.content m.store ∨ S.content s' = applyBatch (S.content m.store) ops := by
  have hstaged : ∀ l : List (Op κ ν), stagedOps (l.map (Ev.batchOp b) ++ [Ev.write b]) = l := by
    intro l
    induction l with
    | nil => rfl
    | cons x l ih => simp only [List.map_cons, List.cons_append, stagedOps, ih]
  have hmon : ∀ (l : List (Op κ ν)) (stg : Bool), ∃ st',
      runMon ⟨some b, stg, false⟩ ((l.map (Ev.batchOp b) ++ [Ev.write b]).map Ev.abs) = some st' := by
    intro l
    induction l with
    | nil => intro stg; exact ⟨⟨some b, stg, true⟩, by simp [runMon, Ev.abs, stepAct]⟩
    | cons x l ih =>
      intro stg
      obtain ⟨st', h⟩ := ih true
      refine ⟨st', ?_⟩
      cases x <;>
      · simp only [List.map_cons, List.cons_append, runMon, Ev.abs, stepAct, and_self, if_true]
        exact h
  have hok : StepOK (oneBatchRun b ops) := by
    obtain ⟨st', h⟩ := hmon ops false
    refine ⟨st', ?_⟩
    simp only [oneBatchRun, List.cons_append, List.map_cons, runMon, Ev.abs, stepAct, St.init,
      and_self, if_true]
    exact h
  have hst : stagedOps (oneBatchRun b ops) = ops := by
    simp only [oneBatchRun, List.cons_append, stagedOps]; exact hstaged ops
  cases crashAt_before_or_after hS m hok hc with
  | inl h => exact Or.inl h
  | inr h =>
    rw [h, srun_step_content hS m hok]
    cases delta_cases hok with
    | inl hd => left; rw [hd]; rfl
    | inr hd => right; rw [hd, hst]; rfl

/-- **The assumption is needed.** On a store that applies a batch key by key the assumption fails,
    and the commit of block 1 as ONE batch (a single-write run) can be found half applied: the
    consensus store is at height 1, the height index still ends at the genesis block, and no tip /
    finalized height makes the restart invariant true. -/
theorem C13_assumption_necessary :
    ¬ PebbleAssumption (opwiseStorage (κ := Key) (ν := Val)) ∧
    StepOK commitRun ∧
    ∃ db', CrashAt opwiseStorage ⟨db1, []⟩ commitRun db' ∧
      db' ≠ db1 ∧ db' ≠ applyBatch db1 (stagedOps commitRun) ∧
      db' .bftTip = some (.num 1) ∧ RecoveredTip db' 0 ∧ ∀ T F, ¬ NodeInv db' T F := by
  have hcrash : CrashAt opwiseStorage ⟨db1, []⟩ commitRun
      (applyBatch db1 ((addBatch 0 7 0 []).take 1)) := by
    refine CrashAt.inWrite (commitRun.take 6) "batch" _ ⟨[.other .cacheUpdate], rfl⟩ ?_
    exact ⟨1, by decide, by
      simp [commitRun, oneBatchRun, addBatch, SMach.run, SMach.step, SMach.pendOf, List.lookup]⟩
  have look : ∀ k, applyBatch db1 ((addBatch 0 7 0 []).take 1) k =
      match k with
      | .bftTip => some (.num 1)
      | .fin => some (.num 0)
      | .index h => if h = 0 then some (.id 0) else none
      | .header i => if i = 0 then some (.hdr 0) else none
      | .diff h => if h = 0 then some .blob else none := by
    intro k
    cases k <;> simp [applyBatch, applyOp, addBatch, genesisBatch, emptyDB, db1]
  have hbad : ∀ T F, ¬ NodeInv (applyBatch db1 ((addBatch 0 7 0 []).take 1)) T F := by
    intro T F hinv
    have hb := hinv.bft
    rw [look] at hb
    simp only [Option.some.injEq, Val.num.injEq] at hb
    subst hb
    obtain ⟨i, hi, _⟩ := hinv.chain 1 (Nat.le_refl _)
    rw [look] at hi
    simp at hi
  have hne1 : applyBatch db1 ((addBatch 0 7 0 []).take 1) ≠ db1 := by
    intro h; apply hbad 0 0; rw [h]; exact genesis_inv 0
  have hne2 : applyBatch db1 ((addBatch 0 7 0 []).take 1) ≠ applyBatch db1 (stagedOps commitRun) := by
    intro h
    have hs : stagedOps commitRun = addBatch 0 7 0 [] := by decide
    rw [hs] at h
    apply hbad 1 0
    rw [h]
    have hfresh : db1 (.header 7) = none := by simp [db1, applyBatch, applyOp, genesisBatch, emptyDB]
    exact add_preserves (db := db1) (tip := 0) (f := 0) (id := 7) (newFin := 0) (pruned := [])
      (genesis_inv 0) hfresh (Nat.le_refl _) (by omega) (fun _ hh => by cases hh)
  refine ⟨fun hS => ?_, ⟨⟨some "batch", true, true⟩, by decide⟩, _, hcrash, hne1, hne2, by rw [look], ?_, hbad⟩
  · -- the assumption would make the half-applied state equal to pre or post
    have hok : StepOK commitRun := ⟨⟨some "batch", true, true⟩, by decide⟩
    cases crashAt_before_or_after hS _ hok hcrash with
    | inl h => exact hne1 h
    | inr h =>
      apply hne2
      have hd : delta commitRun = [stagedOps commitRun] := by decide
      have h2 := srun_step_content hS ⟨db1, []⟩ hok
      rw [hd] at h2
      exact h.trans h2
  · constructor
    · rw [look]; simp
    · intro h hh; rw [look]; simp [show h ≠ 0 by omega]

/-! ## II. Histories of steps, repeated crashes -/

/-- **Histories, model level.** For every sequence of accepted steps and every crash point in it
    the durable history is the one after the completed steps or the one after the step in progress
    has completed as well — never anything in between. -/
theorem C13_history_atomic {κ ν : Type} (steps : List (List (Ev κ ν))) (hne : steps ≠ [])
    (hok : ∀ evs, evs ∈ steps → StepOK evs) (m0 : Mach κ ν) (p : List (Ev κ ν))
    (hp : p <+: steps.flatten) :
    ∃ pre cur post p', steps = pre ++ cur :: post ∧ p = pre.flatten ++ p' ∧ p' <+: cur ∧
      ((m0.run p).hist = (m0.run pre.flatten).hist ∨
       (m0.run p).hist = (m0.run (pre ++ [cur]).flatten).hist) ∧
      (m0.run pre.flatten).hist = m0.hist ++ pre.flatMap delta := by
  obtain ⟨pre, cur, post, p', e1, e2, e3⟩ := prefix_flatten_split steps p hne hp
  refine ⟨pre, cur, post, p', e1, e2, e3, ?_, ?_⟩
  · have hcur : StepOK cur := hok cur (by rw [e1]; simp)
    rw [e2, run_append, List.flatten_append, run_append]
    simp only [List.flatten_cons, List.flatten_nil, List.append_nil]
    exact prefix_hist_cases hcur e3 _
  · exact runs_hist pre (fun e he => hok e (by rw [e1]; exact List.mem_append_left _ he)) m0

/-- **Histories, on the store.** For EVERY sequence of single-write steps, from any store, and
    EVERY point at which the process can die (between events or inside a `Write`), the content a
    restart finds is the content after the completed steps or after the step in progress has
    completed too; and the content after the completed steps is the initial content with their
    whole effects applied. -/
theorem C13_history_storage_atomic {σ κ ν : Type} [DecidableEq κ] (S : Storage σ κ ν)
    (hS : PebbleAssumption S) (steps : List (List (Ev κ ν))) (hne : steps ≠ [])
    (hok : ∀ evs, evs ∈ steps → StepOK evs) (m : SMach σ κ ν) (s' : σ)
    (hc : CrashAt S m steps.flatten s') :
    ∃ pre cur post, steps = pre ++ cur :: post ∧
      (S.content s' = S.content (SMach.run S m pre.flatten).store ∨
       S.content s' = S.content (SMach.run S m (pre ++ [cur]).flatten).store) ∧
      S.content (SMach.run S m pre.flatten).store = dbOf (S.content m.store) (pre.flatMap delta) := by
  obtain ⟨q, hq, hcq⟩ := crashAt_refines hS hc
  obtain ⟨pre, cur, post, p', e1, e2, e3⟩ := prefix_flatten_split steps q hne hq
  have hcur : StepOK cur := hok cur (by rw [e1]; simp)
  refine ⟨pre, cur, post, e1, ?_, ?_⟩
  · rw [hcq, e2, srun_append, List.flatten_append, srun_append]
    simp only [List.flatten_cons, List.flatten_nil, List.append_nil]
    exact srun_prefix_cases hS _ hcur e3
  · rw [srun_content hS, runs_hist pre (fun e he => hok e (by rw [e1]; exact List.mem_append_left _ he))]
    rfl

/-- **Crash-free invariants are crash invariants.** Let the node perform steps `Step c evs` (each a
    monitor-accepted run), die at any point of any step (or idle), restart with empty process memory,
    die again while restarting, any number of times. Any property of the database content that
    every COMPLETE step preserves holds for what every restart finds. -/
theorem C13_invariant_lifts {σ κ ν : Type} [DecidableEq κ] (S : Storage σ κ ν) (hS : PebbleAssumption S)
    (Step : DBOf κ ν → List (Ev κ ν) → Prop) (hok : ∀ c evs, Step c evs → StepOK evs)
    (I : DBOf κ ν → Prop) (hI : ∀ c evs, I c → Step c evs → I (dbOf c (delta evs)))
    (s0 : σ) (h0 : I (S.content s0)) (m : SMach σ κ ν) (h : Reach S Step s0 m) :
    I (S.content m.store) :=
  reach_invariant hS hok I hI h0 h

/-- **Never a part of a batch.** In every execution with crashes and restarts the database found is
    the initial one with a sequence of WHOLE staged batches of steps applied. -/
theorem C13_reach_whole_batches {σ κ ν : Type} [DecidableEq κ] (S : Storage σ κ ν)
    (hS : PebbleAssumption S) (Step : DBOf κ ν → List (Ev κ ν) → Prop)
    (hok : ∀ c evs, Step c evs → StepOK evs) (s0 : σ) (m : SMach σ κ ν) (h : Reach S Step s0 m) :
    ∃ bs : List (List (Op κ ν)), S.content m.store = dbOf (S.content s0) bs ∧
      ∀ b, b ∈ bs → ∃ c evs, Step c evs ∧ b = stagedOps evs := by
  refine reach_invariant hS hok
    (fun c => ∃ bs : List (List (Op κ ν)), c = dbOf (S.content s0) bs ∧
      ∀ b, b ∈ bs → ∃ c evs, Step c evs ∧ b = stagedOps evs) ?_ ⟨[], rfl, fun _ hb => by cases hb⟩ h
  intro c evs ⟨bs, hc, hbs⟩ hs
  cases delta_cases (hok c evs hs) with
  | inl hd => exact ⟨bs, by rw [hd]; exact hc, hbs⟩
  | inr hd =>
    refine ⟨bs ++ [stagedOps evs], by rw [hd, hc, dbOf_append], fun b hb => ?_⟩
    rw [List.mem_append, List.mem_singleton] at hb
    cases hb with
    | inl hb => exact hbs b hb
    | inr hb => exact ⟨c, evs, hs, hb⟩

/-! ## III. The node database: every history with crashes; restart -/

/-- the three regenerated engine steps satisfy the single-write criterion (from the per-function
    obligations of Props/C13.lean, re-decided on every regeneration) -/
theorem C13_engine_steps_single_write : ∀ s, s ∈ engineSteps → singleWrite s = true := by
  intro s hs
  simp only [engineSteps, List.mem_cons, List.not_mem_nil, or_false] at hs
  rcases hs with rfl | rfl | rfl
  · exact C13_processValidated_single_write
  · exact C13_deleteBlock_single_write
  · exact C13_processGenesisBlock_single_write

/-- every run of a regenerated engine step is accepted by the single-write monitor -/
theorem C13_engine_path_accepted {κ ν : Type} {evs : List (Ev κ ν)} (h : EnginePath evs) : StepOK evs := by
  obtain ⟨s, hs, o, hex⟩ := h
  exact stepOK_of_singleWrite (C13_engine_steps_single_write s hs) hex

/-- **End to end for the regenerated engine steps, on the store.** For any run of
    `processValidated`, `deleteBlock` or `processGenesisBlock` (callees inlined), any store satisfying
    the assumption on pebble, any point at which the process dies: a restart finds the content
    before the step or that content with the whole batch. A change of the Go source that splits
    the write breaks `C13_*_single_write` and with it this theorem. -/
theorem C13_engine_step_storage_atomic {σ κ ν : Type} [DecidableEq κ] (S : Storage σ κ ν)
    (hS : PebbleAssumption S) (evs : List (Ev κ ν)) (hpath : EnginePath evs) (m : SMach σ κ ν)
    (s' : σ) (hc : CrashAt S m evs s') :
    S.content s' = S.content m.store ∨
    S.content s' = applyBatch (S.content m.store) (stagedOps evs) := by
  obtain ⟨s, hs, o, hex⟩ := hpath
  exact (C13_storage_atomic S hS s (C13_engine_steps_single_write s hs) evs o hex m).1 s' hc

/-- a complete node step keeps the database startable -/
theorem C13_node_step_preserves (gid : Nat) (db : NodeDB) (evs : List (Ev Key Val))
    (hrec : Recoverable gid db) (hstep : NodeStep gid db evs) :
    Recoverable gid (dbOf db (delta evs)) := by
  obtain ⟨hpath, hkind⟩ := hstep
  have hok := C13_engine_path_accepted hpath
  cases delta_cases hok with
  | inl hd => rw [hd]; exact hrec
  | inr hd =>
    rw [hd]
    show Recoverable gid (applyBatch db (stagedOps evs))
    rcases hkind with h | ⟨h0, hst⟩ | ⟨tip, f, tip', f', B, hinv, hB, heq⟩
    · rw [hd] at h; cases h
    · have hdb : db = emptyDB := by
        cases hrec with
        | inl h => exact h
        | inr h => obtain ⟨_, _, _, hi⟩ := h; rw [h0] at hi; cases hi
      rw [hst, hdb]
      exact Or.inr ⟨0, 0, genesis_inv gid, genesis_index0 gid⟩
    · have hidx : db (.index 0) = some (.id gid) := by
        cases hrec with
        | inl h => have := hinv.bft; rw [h] at this; cases this
        | inr h => obtain ⟨_, _, _, hi⟩ := h; exact hi
      rw [heq]
      cases hB with
      | add id newFin pruned h1 h2 h3 h4 =>
        exact Or.inr ⟨_, _, add_preserves hinv h1 h2 h3 h4, add_keeps_genesis hidx⟩
      | remove id h1 h2 =>
        exact Or.inr ⟨_, _, remove_preserves hinv h1 h2, remove_keeps_genesis h1 hidx⟩

/-- **The node database over every history with crashes.** Start a node (genesis id `gid`) on a fresh
    or a consistent database, on any store satisfying the assumption on pebble. Let it perform any
    sequence of block commits, block removals, failed steps and genesis steps, die at any point of
    any of them — between two events or inside the `Write` —, restart, die again while restarting,
    any number of times. The database every restart finds is fresh or satisfies the restart
    invariant (height index ↔ headers, consensus store at the tip, revert diffs exactly up to the
    tip, finalized height ≤ tip) with the genesis block at the bottom. -/
theorem C13_node_reach_recoverable {σ : Type} (S : Storage σ Key Val) (hS : PebbleAssumption S)
    (gid : Nat) (s0 : σ) (h0 : Recoverable gid (S.content s0)) (m : SMach σ Key Val)
    (h : Reach S (NodeStep gid) s0 m) : Recoverable gid (S.content m.store) :=
  reach_invariant hS (fun _ _ hs => C13_engine_path_accepted hs.1) (Recoverable gid)
    (fun c evs hc hs => C13_node_step_preserves gid c evs hc hs) h0 h

/-- **One step, on the store** (strengthens `C13_recover_consistent` to crashes inside the
    `Write`): the database a restart finds satisfies the restart invariant for the old or for the
    new tip, and the tip `PrepareCache` finds is that one, with its header, the consensus store at
    it, its revert diff (above the finalized height), and no index entry or diff above it. -/
theorem C13_storage_recover_consistent {σ : Type} (S : Storage σ Key Val) (hS : PebbleAssumption S)
    (s : Stmt) (hs : singleWrite s = true) (evs : List (Ev Key Val)) (o : Out)
    (hex : Exec s (evs.map Ev.abs) o) (m : SMach σ Key Val) (tip f tip' f' : Nat)
    (hinv : NodeInv (S.content m.store) tip f)
    (hstep : BlockStep (S.content m.store) tip f (stagedOps evs) tip' f')
    (s' : σ) (hc : CrashAt S m evs s') :
    ∃ T F, (T = tip ∧ F = f ∨ T = tip' ∧ F = f') ∧ NodeInv (S.content s') T F ∧
      RecoveredTip (S.content s') T ∧
      ∀ t, RecoveredTip (S.content s') t →
        t = T ∧ S.content s' .bftTip = some (.num t) ∧
        (∃ id, S.content s' (.index t) = some (.id id) ∧ S.content s' (.header id) = some (.hdr t)) ∧
        (F < t → S.content s' (.diff t) ≠ none) ∧ (∀ h, t < h → S.content s' (.diff h) = none) := by
  have hpost' : ∀ B, BlockStep (S.content m.store) tip f B tip' f' →
      NodeInv (applyBatch (S.content m.store) B) tip' f' := by
    intro B hB
    cases hB with
    | add id newFin pruned h1 h2 h3 h4 => exact add_preserves hinv h1 h2 h3 h4
    | remove id h1 h2 => exact remove_preserves hinv h1 h2
  have hpost := hpost' _ hstep
  have tipOf : ∀ {db : NodeDB} {T F : Nat}, NodeInv db T F → RecoveredTip db T := by
    intro db T F hi
    obtain ⟨i, hidx, _⟩ := hi.chain T (Nat.le_refl _)
    exact ⟨by rw [hidx]; simp, fun h hh => (hi.above h hh).1⟩
  cases (C13_storage_atomic S hS s hs evs o hex m).1 s' hc with
  | inl h =>
    rw [h]
    exact ⟨tip, f, Or.inl ⟨rfl, rfl⟩, hinv, tipOf hinv, fun t ht => recover_consistent hinv ht⟩
  | inr h =>
    rw [h]
    exact ⟨tip', f', Or.inr ⟨rfl, rfl⟩, hpost, tipOf hpost, fun t ht => recover_consistent hpost ht⟩

private theorem restart_fix {gid : Nat} {d : NodeDB} (h : d (.index 0) = some (.id gid)) :
    restartDB gid d = some d := by
  simp [restartDB, restartBatch, h, applyBatch]

private theorem restart_empty (gid : Nat) :
    restartDB gid emptyDB = some (applyBatch emptyDB (genesisBatch gid)) := by
  simp [restartDB, restartBatch, emptyDB]

/-- **Restart.** On every startable database `Executer.Init` succeeds (the genesis check passes or
    the genesis block is processed), leaves a database satisfying the restart invariant, on which
    `PrepareCache` finds exactly one tip — the one the consensus store is at, with its header,
    finalized height ≤ tip, revert diff present above the finalized height, nothing above the
    tip —; a database that already has its genesis block is not written at all, and restarting the
    restarted database writes nothing (idempotent). -/
theorem C13_restart_consistent (gid : Nat) (db : NodeDB) (h : Recoverable gid db) :
    ∃ db', restartDB gid db = some db' ∧ restartDB gid db' = some db' ∧ (db ≠ emptyDB → db' = db) ∧
      ∃ T F, NodeInv db' T F ∧ db' (.index 0) = some (.id gid) ∧ RecoveredTip db' T ∧
        ∀ t, RecoveredTip db' t →
          t = T ∧ db' .bftTip = some (.num t) ∧ db' .fin = some (.num F) ∧ F ≤ t ∧
          (∃ id, db' (.index t) = some (.id id) ∧ db' (.header id) = some (.hdr t)) ∧
          (F < t → db' (.diff t) ≠ none) ∧ (∀ h, t < h → db' (.diff h) = none) := by
  have key : ∀ d : NodeDB, ∀ T F, NodeInv d T F → d (.index 0) = some (.id gid) →
      restartDB gid d = some d ∧
      ∃ T F, NodeInv d T F ∧ d (.index 0) = some (.id gid) ∧ RecoveredTip d T ∧
        ∀ t, RecoveredTip d t →
          t = T ∧ d .bftTip = some (.num t) ∧ d .fin = some (.num F) ∧ F ≤ t ∧
          (∃ id, d (.index t) = some (.id id) ∧ d (.header id) = some (.hdr t)) ∧
          (F < t → d (.diff t) ≠ none) ∧ (∀ h, t < h → d (.diff h) = none) := by
    intro d T F hi hidx
    refine ⟨restart_fix hidx, T, F, hi, hidx, ?_, fun t ht => ?_⟩
    · obtain ⟨i, hix, _⟩ := hi.chain T (Nat.le_refl _)
      exact ⟨by rw [hix]; simp, fun h hh => (hi.above h hh).1⟩
    · obtain ⟨e, a, b, c, d'⟩ := recover_consistent hi ht
      subst e
      exact ⟨rfl, a, hi.fin, hi.fin_le, b, c, d'⟩
  cases h with
  | inl h =>
    subst h
    have hg := genesis_inv gid
    obtain ⟨k1, k2⟩ := key _ 0 0 hg (genesis_index0 gid)
    exact ⟨applyBatch emptyDB (genesisBatch gid), restart_empty gid, k1,
      fun hne => absurd rfl hne, k2⟩
  | inr h =>
    obtain ⟨T, F, hi, hidx⟩ := h
    obtain ⟨k1, k2⟩ := key db T F hi hidx
    exact ⟨db, k1, k1, fun _ => rfl, k2⟩

/-- **A crash during restart is harmless.** If the process dies while `Executer.Init` runs — at any
    point, also inside the `Write` of the genesis step — the database the next restart finds is
    again startable and the next restart ends exactly where the undisturbed one would have ended. -/
theorem C13_crash_during_restart_harmless {σ : Type} (S : Storage σ Key Val) (hS : PebbleAssumption S)
    (gid : Nat) (s s' : σ) (hrec : Recoverable gid (S.content s)) (hc : RestartCrash S gid s s') :
    Recoverable gid (S.content s') ∧ restartDB gid (S.content s') = restartDB gid (S.content s) := by
  cases hc with
  | idle h => rw [hS.crash_idle _ _ h]; exact ⟨hrec, rfl⟩
  | @inGenesis evs _ h0 hpath hgen hcr =>
    have hok := C13_engine_path_accepted hpath
    have hdb : S.content s = emptyDB := by
      cases hrec with
      | inl h => exact h
      | inr h => obtain ⟨_, _, _, hi⟩ := h; rw [h0] at hi; cases hi
    cases crashAt_before_or_after hS ⟨s, []⟩ hok hcr with
    | inl h => rw [h]; exact ⟨hrec, rfl⟩
    | inr h =>
      rw [h, srun_step_content hS _ hok]
      show Recoverable gid (dbOf (S.content s) (delta evs)) ∧
        restartDB gid (dbOf (S.content s) (delta evs)) = restartDB gid (S.content s)
      cases delta_cases hok with
      | inl hd => rw [hd]; exact ⟨hrec, rfl⟩
      | inr hd =>
        have hst : applyBatch (S.content s) (stagedOps evs) =
            applyBatch (S.content s) (genesisBatch gid) := by
          cases hgen with
          | inl h1 => rw [h1] at hd; cases hd
          | inr h1 => exact h1
        rw [hd]
        show Recoverable gid (applyBatch (S.content s) (stagedOps evs)) ∧
          restartDB gid (applyBatch (S.content s) (stagedOps evs)) = restartDB gid (S.content s)
        rw [hst, hdb]
        refine ⟨Or.inr ⟨0, 0, genesis_inv gid, genesis_index0 gid⟩, ?_⟩
        rw [restart_empty, restart_fix (genesis_index0 gid)]

/-- any number of crashed restarts in a row: still startable, and the restart that finally runs to
    its end leaves the database the very first one would have left -/
theorem C13_restart_idempotent_under_crashes {σ : Type} (S : Storage σ Key Val)
    (hS : PebbleAssumption S) (gid : Nat) (s s' : σ) (hrec : Recoverable gid (S.content s))
    (hc : RestartCrashes S gid s s') :
    Recoverable gid (S.content s') ∧ restartDB gid (S.content s') = restartDB gid (S.content s) := by
  induction hc with
  | nil => exact ⟨hrec, rfl⟩
  | cons _ h1 ih =>
    obtain ⟨r1, e1⟩ := C13_crash_during_restart_harmless S hS gid _ _ ih.1 h1
    exact ⟨r1, e1.trans ih.2⟩

/-! ## IV. Dependence on the regenerated skeleton data -/

/-- **Every table in the one batch (sites).** In each regenerated engine step every action site is
    harmless for the single batch — no direct `Set`/`Del`, nothing the translator did not
    understand, no call left over, and every `NewBatch`/`Set`/`Del`/`Write` site names the batch
    `"batch"` — there is exactly one `NewBatch` site and exactly one `Write` site. -/
theorem C13_engine_sites_one_batch : ∀ s, s ∈ engineSteps →
    s.sites.all siteOk = true ∧ s.sites.filter Act.isWrite = [.write "batch"] ∧
    s.sites.filter (· == .newBatch "batch") = [.newBatch "batch"] := by decide

/-- **Every table in the one batch (paths).** On every path of every regenerated engine step, with
    any payload: no direct write happens, every staged operation goes to the batch `"batch"`, only
    that batch is written, and the durable effect is nothing or ONE batch holding every staged
    operation — header, height index, transactions, transaction ids, assets, events, finalized
    height, consensus-store keys, revert diff, pruned diffs, temp-block entry alike. -/
theorem C13_every_mutation_in_the_batch {κ ν : Type} (evs : List (Ev κ ν)) (h : EnginePath evs) :
    (∀ op, Ev.direct op ∉ evs) ∧ (∀ b op, Ev.batchOp b op ∈ evs → b = "batch") ∧
    (∀ b, Ev.write b ∈ evs → b = "batch") ∧ (delta evs = [] ∨ delta evs = [stagedOps evs]) := by
  have hacc := C13_engine_path_accepted h
  obtain ⟨s, hs, o, hex⟩ := h
  have hsite : ∀ e, e ∈ evs → siteOk e.abs = true := by
    intro e he
    have hm : e.abs ∈ s.sites := exec_sub_sites hex _ (List.mem_map.mpr ⟨e, he, rfl⟩)
    exact List.all_eq_true.mp (C13_engine_sites_one_batch s hs).1 _ hm
  refine ⟨fun op hop => ?_, fun b op hop => ?_, fun b hb => ?_, delta_cases hacc⟩
  · have := hsite _ hop
    cases op <;> simp [siteOk, Ev.abs, Act.isDirect] at this
  · have := hsite _ hop
    cases op <;> simpa [siteOk, Ev.abs, Act.isDirect, Act.isUnknown, Act.target] using this
  · have := hsite _ hb
    simpa [siteOk, Ev.abs, Act.isDirect, Act.isUnknown, Act.target] using this

/-- **The tables of `saveBlock` / `removeBlock` / the consensus-store commit.** The regenerated
    skeletons contain (as a sub-sequence of their sites, all on the caller's batch) the staging
    sites the Go source has for: `saveBlock` — header, height index, each transaction, transaction
    ids, events, assets, finalized height, pruned events, temp-block entry; `removeBlock` —
    header, height index, each transaction, transaction ids, assets, events, temp-block entry;
    `processValidated` on top of `saveBlock` — state/BFT-store `Set`, `Del`, `Set`
    (`cacheDB.commit`), revert diff, pruned finalized diffs; `deleteBlock` on top of `removeBlock`
    — the reverted `Del`, `Set`, `Set` (`RevertDiff`) and the diff key. A table that is no longer
    staged, or is staged to another batch, breaks this theorem or `C13_engine_sites_one_batch`. -/
theorem C13_tables_staged :
    [Act.batchSet "batch", .batchSet "batch", .batchSet "batch", .batchSet "batch", .batchSet "batch",
      .batchSet "batch", .batchSet "batch", .batchDel "batch", .batchDel "batch"].isSublist
      (step Gen.WS.DataAccess_saveBlock).sites = true ∧
    [Act.batchDel "batch", .batchDel "batch", .batchDel "batch", .batchDel "batch", .batchDel "batch",
      .batchDel "batch", .batchSet "batch"].isSublist (step Gen.WS.DataAccess_removeBlock).sites = true ∧
    ([Act.newBatch "batch", .batchSet "batch", .batchDel "batch", .batchSet "batch", .batchSet "batch",
      .batchDel "batch"] ++ (step Gen.WS.DataAccess_saveBlock).sites ++ [Act.write "batch", Act.cacheUpdate]).isSublist
      (step Gen.WS.Executer_processValidated).sites = true ∧
    ([Act.newBatch "batch", .batchDel "batch", .batchSet "batch", .batchSet "batch", .batchDel "batch"] ++
      (step Gen.WS.DataAccess_removeBlock).sites ++ [Act.write "batch", Act.cacheUpdate]).isSublist
      (step Gen.WS.Executer_deleteBlock).sites = true ∧
    ([Act.newBatch "batch", .batchSet "batch", .batchDel "batch", .batchSet "batch", .batchSet "batch"] ++
      (step Gen.WS.DataAccess_saveBlock).sites ++ [Act.write "batch", Act.cacheUpdate]).isSublist
      (step Gen.WS.Executer_processGenesisBlock).sites = true := by decide

/-- **Restart writes only through the genesis step.** In the regenerated data, `Executer.Init`
    reaches a writer only by calling `processGenesisBlock`; `PrepareCache`, `GenesisBlockExist`
    and `getLastBlock` neither create, fill, hand on nor write a batch, nor write directly (they are
    not among the generated skeletons), and `Init` is not a writer itself. -/
theorem C13_restart_writes_only_genesis :
    Gen.WS.callers.lookup "Executer.Init" = some ["Executer.processGenesisBlock"] ∧
    "Executer.Init" ∉ Gen.WS.roots ∧
    ∀ f, f ∈ ["Chain.PrepareCache", "Chain.GenesisBlockExist", "DataAccess.getLastBlock", "Executer.Init"] →
      f ∉ Gen.WS.fns.map (·.1) := by decide

/-! ### Split writes are rejected and really are not atomic -/

theorem C13_prune_second_batch_rejected : singleWrite pruneSecondBatch = false := by decide
theorem C13_auto_flush_rejected : singleWrite autoFlush = false := by decide

/-- pruning the finalized diffs in a second batch: a real path and a crash point (after the first
    write) where the database is neither the old one (finalized height already advanced) nor the new
    one (the finalized diff of height 0 still there) — a mixture, although the restart invariant
    happens to hold for it -/
theorem C13_prune_second_batch_not_atomic :
    Exec pruneSecondBatch (pruneSecondRun.map Ev.abs) .ret ∧
    ∃ p, p <+: pruneSecondRun ∧
      dbOf db2 ((start []).run p).hist .fin = some (.num 1) ∧
      dbOf db2 ((start []).run p).hist (.diff 0) = some .blob ∧
      dbOf db2 [] .fin = some (.num 0) ∧
      dbOf db2 ((start []).run pruneSecondRun).hist (.diff 0) = none := by
  refine ⟨okPath_sound _ _ _ (by decide), pruneSecondRun.take 7, ⟨pruneSecondRun.drop 7, rfl⟩, ?_, ?_, ?_, ?_⟩ <;>
    simp [dbOf, applyBatch, applyOp, addBatch, genesisBatch, emptyDB, db1, db2, start, Mach.run, Mach.step,
      Mach.pendOf, pruneSecondRun, List.lookup]

/-- an auto-flushing batch: a real path and a crash point (after the first flush) where the
    consensus store is at height 1 while the height index ends at the genesis block; no tip /
    finalized height makes the restart invariant true -/
theorem C13_auto_flush_not_atomic :
    Exec autoFlush (autoFlushRun.map Ev.abs) .ret ∧
    ∃ p, p <+: autoFlushRun ∧
      dbOf db1 ((start []).run p).hist .bftTip = some (.num 1) ∧
      RecoveredTip (dbOf db1 ((start []).run p).hist) 0 ∧
      ∀ T F, ¬ NodeInv (dbOf db1 ((start []).run p).hist) T F := by
  have look : ∀ k, dbOf db1 ((start []).run (autoFlushRun.take 4)).hist k =
      match k with
      | .bftTip => some (.num 1)
      | .fin => some (.num 0)
      | .index h => if h = 0 then some (.id 0) else none
      | .header i => if i = 0 then some (.hdr 0) else none
      | .diff h => if h = 1 then some .blob else if h = 0 then some .blob else none := by
    intro k
    cases k <;> simp [dbOf, applyBatch, applyOp, genesisBatch, emptyDB, db1, start, Mach.run, Mach.step,
      Mach.pendOf, autoFlushRun, List.lookup]
  refine ⟨okPath_sound _ _ _ (by decide), autoFlushRun.take 4, ⟨autoFlushRun.drop 4, rfl⟩, by rw [look], ?_, ?_⟩
  · constructor
    · rw [look]; simp
    · intro h hh; rw [look]; simp [show h ≠ 0 by omega]
  · intro T F hinv
    have hb := hinv.bft
    rw [look] at hb
    simp only [Option.some.injEq, Val.num.injEq] at hb
    subst hb
    obtain ⟨i, hi, _⟩ := hinv.chain 1 (Nat.le_refl _)
    rw [look] at hi
    simp at hi

/-! ## Non-vacuity -/

namespace LiskVerif.C13

/-- a skeleton of which `commitRun` is a path -/
def commitSkel : Stmt := Stmt.seqs [
  .act (.newBatch "batch"), .act (.batchSet "batch"), .act (.batchSet "batch"), .act (.batchSet "batch"),
  .act (.batchSet "batch"), .act (.batchSet "batch"), .act (.write "batch"), .act .cacheUpdate, .ret]

/-- payloads for the first `Set` sites on the left-most committing path of the regenerated
    `processValidated`: block 1 (id 7) on the genesis database (further sites get the defaults) -/
def pvSets : List (Op Key Val) :=
  [.set .bftTip (.num 1), .set (.diff 1) .blob, .set (.header 7) (.hdr 1), .set (.index 1) (.id 7),
   .set .fin (.num 0)]

/-- the same for `processGenesisBlock` (genesis id 0) -/
def genSets : List (Op Key Val) :=
  [.set .bftTip (.num 0), .set (.diff 0) .blob, .set (.header 0) (.hdr 0), .set (.index 0) (.id 0),
   .set .fin (.num 0)]

/-- payloads for the left-most path of the regenerated `deleteBlock`: removal of block 1 (id 7) -/
def delDels : List (Op Key Val) := [.del (.diff 1), .del (.header 7), .del (.index 1)]
def delSets : List (Op Key Val) := [.set .bftTip (.num 0)]

/-- decidable form of "same effect" (`effect_eq_of_keys`) -/
def sameEffect (db : NodeDB) (L B : List (Op Key Val)) : Prop :=
  ∀ k, k ∈ L.map Op.key ++ B.map Op.key → applyBatch db L k = applyBatch db B k

instance (db : NodeDB) (L B : List (Op Key Val)) : Decidable (sameEffect db L B) := by
  unfold sameEffect; infer_instance

end LiskVerif.C13

/-- `C13_storage_atomic` / `C13_wal_atomic`: a single-write skeleton, a run of it with payload, and
    two states a restart can find on the write-ahead log after the process died INSIDE the `Write`:
    a torn record followed by stale bytes (replayed: nothing), and the complete record (replayed:
    the whole batch) -/
example : singleWrite commitSkel = true ∧ Exec commitSkel (commitRun.map Ev.abs) .ret ∧
    CrashAt (walStorage db1) ⟨[], []⟩ commitRun [Rec.torn, Rec.full []] ∧
    recoverWal [(Rec.torn : Rec Key Val), Rec.full []] = [] ∧
    CrashAt (walStorage db1) ⟨[], []⟩ commitRun [Rec.full (addBatch 0 7 0 [])] ∧
    CrashAt (walStorageStrict db1) ⟨[], []⟩ commitRun [Rec.full (addBatch 0 7 0 [])] :=
  ⟨by decide, okPath_sound _ _ _ (by decide),
   CrashAt.inWrite (commitRun.take 6) "batch" _ ⟨[.other .cacheUpdate], rfl⟩ (WalCrashApply.tornTail [Rec.full []]),
   rfl,
   CrashAt.inWrite (commitRun.take 6) "batch" _ ⟨[.other .cacheUpdate], rfl⟩ WalCrashApply.durable,
   CrashAt.inWrite (commitRun.take 6) "batch" _ ⟨[.other .cacheUpdate], rfl⟩ WalCrashApplyStrict.durable⟩

/-- `C13_history_storage_atomic`, `C13_history_atomic`: a non-empty sequence of accepted steps -/
example : [commitRun, autoFlushRun.take 3 ++ [Ev.write "batch"]] ≠ [] ∧
    ∀ evs, evs ∈ [commitRun, autoFlushRun.take 3 ++ [Ev.write "batch"]] → StepOK evs := by
  refine ⟨by simp, fun evs h => ?_⟩
  simp only [List.mem_cons, List.not_mem_nil, or_false] at h
  rcases h with rfl | rfl
  · exact ⟨⟨some "batch", true, true⟩, by decide⟩
  · exact ⟨⟨some "batch", true, true⟩, by decide⟩

/-- `EnginePath`, `NodeStep`, `C13_node_reach_recoverable`, `C13_engine_step_storage_atomic`: the
    REGENERATED `processValidated` has a run with payload which is a node step on the genesis
    database — it stages (in the engine's order, with the extra keys of the real batch) a batch
    with the effect of committing block 1 — and has a durable effect -/
example : Recoverable 0 db1 ∧ ∃ evs, NodeStep 0 db1 evs ∧ (delta evs).length = 1 := by
  refine ⟨Or.inr ⟨0, 0, genesis_inv 0, genesis_index0 0⟩, ?_⟩
  cases h : okPath (step Gen.WS.Executer_processValidated) with
  | none => exact absurd h (by decide)
  | some r =>
    obtain ⟨tr, o⟩ := r
    have hfacts : (okPath (step Gen.WS.Executer_processValidated)).map (fun r =>
        decide ((liftWith pvSets [] r.1).map Ev.abs = r.1 ∧
          (delta (liftWith pvSets [] r.1)).length = 1 ∧
          sameEffect db1 (stagedOps (liftWith pvSets [] r.1)) (addBatch 0 7 0 []))) = some true := by
      decide
    rw [h] at hfacts
    simp only [Option.map_some, Option.some.injEq, decide_eq_true_eq] at hfacts
    obtain ⟨habs, hdelta, hst⟩ := hfacts
    refine ⟨liftWith pvSets [] tr, ⟨⟨step Gen.WS.Executer_processValidated, by simp [engineSteps], o, ?_⟩,
      Or.inr (Or.inr ?_)⟩, hdelta⟩
    · rw [habs]; exact okPath_sound _ _ _ h
    · have hfresh : db1 (.header 7) = none := by simp [db1, applyBatch, applyOp, genesisBatch, emptyDB]
      exact ⟨0, 0, 1, 0, addBatch 0 7 0 [], genesis_inv 0,
        BlockStep.add 7 0 [] hfresh (Nat.le_refl _) (by omega) (fun _ hh => by cases hh),
        effect_eq_of_keys _ _ _ hst⟩

/-- `NodeStep` for a removal: the REGENERATED `deleteBlock` has a run with payload which is a node
    step on the database genesis + block 1 (it stages a batch with the effect of removing block 1) -/
example : Recoverable 0 db2 ∧ ∃ evs, NodeStep 0 db2 evs ∧ (delta evs).length = 1 := by
  have hfresh : db1 (.header 7) = none := by simp [db1, applyBatch, applyOp, genesisBatch, emptyDB]
  have hinv2 : NodeInv db2 1 0 :=
    add_preserves (db := db1) (tip := 0) (f := 0) (id := 7) (newFin := 0) (pruned := [])
      (genesis_inv 0) hfresh (Nat.le_refl _) (by omega) (fun _ hh => by cases hh)
  have hidx : db2 (.index 1) = some (.id 7) := by
    show applyBatch db1 (addBatch 0 7 0 []) (.index 1) = _
    rw [add_lookup]; simp
  refine ⟨Or.inr ⟨1, 0, hinv2, add_keeps_genesis (genesis_index0 0)⟩, ?_⟩
  cases h : okPath (step Gen.WS.Executer_deleteBlock) with
  | none => exact absurd h (by decide)
  | some r =>
    obtain ⟨tr, o⟩ := r
    have hfacts : (okPath (step Gen.WS.Executer_deleteBlock)).map (fun r =>
        decide ((liftWith delSets delDels r.1).map Ev.abs = r.1 ∧
          (delta (liftWith delSets delDels r.1)).length = 1 ∧
          sameEffect db2 (stagedOps (liftWith delSets delDels r.1)) (removeBatch 1 7))) = some true := by
      decide
    rw [h] at hfacts
    simp only [Option.map_some, Option.some.injEq, decide_eq_true_eq] at hfacts
    obtain ⟨habs, hdelta, hst⟩ := hfacts
    refine ⟨liftWith delSets delDels tr, ⟨⟨step Gen.WS.Executer_deleteBlock, by simp [engineSteps], o, ?_⟩,
      Or.inr (Or.inr ?_)⟩, hdelta⟩
    · rw [habs]; exact okPath_sound _ _ _ h
    · exact ⟨1, 0, 0, 0, removeBatch 1 7, hinv2, BlockStep.remove 7 (by omega) hidx,
        effect_eq_of_keys _ _ _ hst⟩

/-- `C13_restart_consistent`, `C13_crash_during_restart_harmless`: a fresh database is startable; the
    REGENERATED `processGenesisBlock` has a run with payload that has the effect of the genesis
    batch, and the restart can die inside its `Write` leaving a torn record -/
example : Recoverable 0 emptyDB ∧
    ∃ (evs p : List (Ev Key Val)) (b : String) (w' : List (Rec Key Val)),
      p ++ [Ev.write b] <+: evs ∧ recoverWal w' = [] ∧ w' ≠ [] ∧
      RestartCrash (walStorage emptyDB) 0 [] w' := by
  refine ⟨Or.inl rfl, ?_⟩
  cases h : okPath (step Gen.WS.Executer_processGenesisBlock) with
  | none => exact absurd h (by decide)
  | some r =>
    obtain ⟨tr, o⟩ := r
    have hfacts : (okPath (step Gen.WS.Executer_processGenesisBlock)).map (fun r =>
        decide ((liftWith genSets [] r.1).map Ev.abs = r.1 ∧
          sameEffect emptyDB (stagedOps (liftWith genSets [] r.1)) (genesisBatch 0)) &&
        (match splitAtWrite (liftWith genSets [] r.1) with
          | some (p, _, _) => decide ((SMach.run (walStorage emptyDB) ⟨[], []⟩ p).store = [])
          | none => false)) = some true := by
      decide
    rw [h] at hfacts
    simp only [Option.map_some, Option.some.injEq, Bool.and_eq_true, decide_eq_true_eq] at hfacts
    obtain ⟨⟨habs, hst⟩, hsplit⟩ := hfacts
    cases hs : splitAtWrite (liftWith genSets [] tr) with
    | none => rw [hs] at hsplit; simp at hsplit
    | some r =>
      obtain ⟨p, b, q⟩ := r
      rw [hs] at hsplit
      simp only [decide_eq_true_eq] at hsplit
      have hevs := splitAtWrite_sound _ _ _ _ hs
      have hpre : p ++ [Ev.write b] <+: liftWith genSets [] tr := ⟨q, by rw [hevs]; simp⟩
      refine ⟨liftWith genSets [] tr, p, b, [Rec.torn], hpre, rfl, by simp, ?_⟩
      refine RestartCrash.inGenesis (evs := liftWith genSets [] tr) rfl
        ⟨step Gen.WS.Executer_processGenesisBlock, by simp [engineSteps], o,
          by rw [habs]; exact okPath_sound _ _ _ h⟩ (Or.inr (effect_eq_of_keys _ _ _ hst))
        (CrashAt.inWrite p b _ hpre (by rw [hsplit]; exact WalCrashApply.tornTail []))

/-- `C13_invariant_lifts`, `C13_reach_whole_batches`: an execution that dies inside the `Write` of a
    step, restarts on the torn log, dies again while recovering, and then completes the step -/
example : Reach (walStorage db1) (fun _ evs => evs = commitRun) []
    (SMach.run (walStorage db1) ⟨[Rec.torn, Rec.full []], []⟩ commitRun) :=
  Reach.step (Reach.recrash (Reach.crash Reach.init rfl
    (CrashAt.inWrite (commitRun.take 6) "batch" _ ⟨[.other .cacheUpdate], rfl⟩
      (WalCrashApply.tornTail [Rec.full []]))) WalCrashIdle.same) rfl
