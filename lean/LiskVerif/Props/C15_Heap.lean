/-
C15 — the priority queue of `selectTransactionsByFee` (pkg/generator/generator.go: `heap.Init` of an empty
`FeePriorityTransactions`, one `heap.Push` per sender's lowest nonce, `heap.Pop` per round, `heap.Push` of the sender's
next transaction) on the PROVED transcription of `container/heap` (Model/GoHeap.lean, Props/C14_Heap.lean, tied to the
real package through the repository's heap types by LIBHEAP): the selection model (`Model/Generator.lean`) takes "a
candidate of maximal fee priority" each round — which is what the heap delivers for every history of pushes and pops.
-/
import LiskVerif.Props.C14_Heap

open LiskVerif LiskVerif.GoHeap

/-- the queue the generator works on: pushes and pops starting from the empty heap -/
inductive C15_QOp where
  | push (x : TxPool.Tx)
  | pop

def C15_qstep (a : Array TxPool.Tx) : C15_QOp → Array TxPool.Tx
  | .push x => push C14_feeMaxLess a x
  | .pop => match pop C14_feeMaxLess a with
    | some (a', _) => a'
    | none => a            -- the generator pops only while a sender is left; an empty heap panics in Go

def C15_qrun (ops : List C15_QOp) : Array TxPool.Tx := ops.foldl C15_qstep #[]

/-- after ANY sequence of pushes and pops the array is a heap -/
theorem C15_heap_invariant_all_histories (ops : List C15_QOp) : isHeap C14_feeMaxLess (C15_qrun ops) = true := by
  have ho := C14_heap_max_order TxPool.Tx.prio
  have key : ∀ (ops : List C15_QOp) (a : Array TxPool.Tx), isHeap C14_feeMaxLess a = true →
      isHeap C14_feeMaxLess (ops.foldl C15_qstep a) = true := by
    intro ops
    induction ops with
    | nil => intro a h; exact h
    | cons o r ih =>
      intro a h
      apply ih
      cases o with
      | push x => exact C14_heap_push_isHeap _ ho.1 ho.2 a x h
      | pop =>
        simp only [C15_qstep]
        cases hp : pop C14_feeMaxLess a with
        | none => exact h
        | some r => exact C14_heap_pop_isHeap _ ho.1 ho.2 a r.1 r.2 h hp
  exact key ops #[] (by decide)

/-- every `heap.Pop` of the generator returns a transaction of MAXIMAL fee priority among those queued, and removes
exactly that one -/
theorem C15_heap_pop_is_max_priority (ops : List C15_QOp) (a' : Array TxPool.Tx) (x : TxPool.Tx)
    (h : pop C14_feeMaxLess (C15_qrun ops) = some (a', x)) :
    (∀ y ∈ (C15_qrun ops).toList, y.prio ≤ x.prio) ∧ (x :: a'.toList).Perm (C15_qrun ops).toList := by
  have := C14_heap_feeMax_pop_max (C15_qrun ops) a' x (C15_heap_invariant_all_histories ops) h
  exact ⟨this.1, this.2.1⟩

/-- Non-vacuity: three senders' transactions with priorities 2, 6 and 4 (and a tie) are queued; the pop delivers
priority 6. -/
example :
    (pop C14_feeMaxLess (C15_qrun [.push ⟨1, 1, 0, 10, 5⟩, .push ⟨2, 2, 0, 30, 5⟩, .push ⟨3, 3, 0, 20, 5⟩,
      .push ⟨4, 4, 0, 20, 5⟩])).map (·.2.prio) = some 6 := by decide
