/-
C20 — wait-for cycles through channels, queues and the event emitter.

`Props/C20.lean` proves deadlock freedom for MUTEXES: channel operations are "communications with the
environment", required to happen outside critical sections and assumed to complete. A cycle that runs through
channels is invisible there: the consensus goroutine (the only one that drains the process queue) waits, inside
`EventEmitter.Publish`, for a subscriber to receive; if that subscriber is at the same time waiting for a free
place in the process queue, both wait for ever — and with them everything that needs the emitter lock.

(A) `Model/WaitFor.lean` gives the wait-for semantics of the consumer loop, the emitter (synchronous delivery on
    unbuffered channels under its lock), event subscribers that also submit jobs, pure producers and the bounded
    queue. Proved here for ANY number of subscribers and producers, any queue capacity, any budgets and numbers
    of events, in EVERY state (hence along every schedule):
      `C20_waitfor_progress`            if every enqueue made by an event subscriber is non-blocking (and pure
                                        producers are non-blocking or the capacity is positive), a state is
                                        terminal or has an enabled step;
      `C20_waitfor_no_reachable_deadlock`  the same as "no reachable state is deadlocked";
      `C20_waitfor_blocking_enqueue_deadlocks`  counterexample for EVERY capacity ≥ 1: with a blocking enqueue
                                        in a subscriber and a full queue a deadlocked state is reachable in six
                                        steps (the subscriber's ticker fires while the queue is full, the
                                        consumer publishes the event of the block it just processed);
      `C20_waitfor_blocking_enqueue_deadlocks_on_event`  the same when the submission is the subscriber's
                                        reaction to an event.
(B) Obligations over the skeletons REGENERATED from the Go source by tools/skelgen (group `c20x`,
    `Gen/SkeletonsShared.lean`): which functions operate on the process queue and how (a send in a `select` with
    `default` is `trySend`), its capacity, who receives, who publishes, what the generator's event loop does,
    and exactly which BLOCKING sends exist in the extracted functions today (the emitter's deliveries).
    `C20WaitFor.sourceCfg` is COMPUTED from the regenerated table; `C20_waitfor_source_deadlock_free`
    instantiates (A) with it. A blocking send to the process queue anywhere outside the consumer breaks
    `C20_waitfor_queue_sends_nonblocking`, `C20_waitfor_blocking_sends_today` and
    `C20_waitfor_source_deadlock_free`.

Not covered: fairness / starvation (a job offered to a full queue is dropped — that is the price of the
non-blocking enqueue); goroutines outside the extracted types that subscribe to the executer's events (the
engine's `handleEvents`, which only forwards to the RPC notifier and never enqueues).
-/
import LiskVerif.Model.WaitFor
import LiskVerif.Model.Locks
import LiskVerif.Gen.SkeletonsShared

open LiskVerif LiskVerif.WaitFor

/-! ## (A) generic theorems -/

namespace C20WaitFor

theorem exists_getElem?_of_any {α} (l : List α) (p : α → Bool) (h : l.any p = true) :
    ∃ (i : Nat) (x : α), l[i]? = some x ∧ p x = true := by
  obtain ⟨x, hx, hp⟩ := List.any_eq_true.mp h
  obtain ⟨i, hi⟩ := List.getElem?_of_mem hx
  exact ⟨i, x, hi, hp⟩

/-- with every subscriber at its `select`, a delivery always completes -/
theorem deliver_isSome (subs : List Sub) (h : subs.any (·.submitting) = false) (i : Nat) (b : Bool) :
    (deliver subs i b).isSome = true := by
  unfold deliver
  cases hi : subs[i]? with
  | none => rfl
  | some sb =>
    have hm : sb ∈ subs := List.mem_of_getElem? hi
    have hs : sb.submitting = false := by
      have := List.any_eq_false.mp h sb hm
      simpa using this
    simp only [hs, Bool.false_eq_true, if_false]
    split <;> rfl

/-- a non-blocking enqueue always completes -/
theorem enqueue_nonblocking (cap q : Nat) : (enqueue false cap q).isSome = true := by
  unfold enqueue
  split <;> simp

/-- an enqueue into a queue with a free place always completes -/
theorem enqueue_free (b : Bool) (cap q : Nat) (h : q < cap) : (enqueue b cap q).isSome = true := by
  unfold enqueue
  simp [h]

end C20WaitFor

open C20WaitFor in
/-- **Progress.** If the enqueues made by event subscribers are non-blocking — and those of pure producers
are non-blocking or the queue has a positive capacity — then EVERY state of the system (any number of
subscribers and producers, any capacity, any queue content, any budgets) is terminal or has an enabled step. -/
theorem C20_waitfor_progress (c : Cfg) (hsub : c.subBlocking = false)
    (hprod : c.prodBlocking = false ∨ 0 < c.cap) (s : State) :
    terminal s = true ∨ CanStep c s := by
  -- 1. a subscriber inside its enqueue can always finish it
  cases hsm : s.subs.any (·.submitting) with
  | true =>
    obtain ⟨j, sb, hj, hsb⟩ := exists_getElem?_of_any _ _ hsm
    refine Or.inr ⟨.subEnqueue j, ?_⟩
    simp only [step, hj, hsb, if_true, hsub, Option.isSome_map]
    exact enqueue_nonblocking _ _
  | false =>
  -- 2. every subscriber is at its `select`: deliveries complete
  have hdel := deliver_isSome s.subs hsm
  cases hc : s.cons with
  | publishing targets evs =>
    cases targets with
    | nil => exact Or.inr ⟨.consRelease, by simp [step, hc]⟩
    | cons i rest =>
      refine Or.inr ⟨.consDeliver false, ?_⟩
      simp only [step, hc, Option.isSome_map]
      exact hdel i false
  | working evs =>
    cases hpp : s.prods.any (fun p => p.phase.isPublishing) with
    | true =>
      obtain ⟨p, pr, hp, hpr⟩ := exists_getElem?_of_any _ _ hpp
      cases hph : pr.phase with
      | ready => simp [hph, Phase.isPublishing] at hpr
      | enqueueing => simp [hph, Phase.isPublishing] at hpr
      | publishing ts =>
        cases ts with
        | nil => exact Or.inr ⟨.prodRelease p, by simp [step, hp, hph]⟩
        | cons i rest =>
          refine Or.inr ⟨.prodDeliver p false, ?_⟩
          simp only [step, hp, hph, Option.isSome_map]
          exact hdel i false
    | false =>
      have hlock : lockHeld s = false := by simp [lockHeld, hc, Cons.isPublishing, hpp]
      cases evs with
      | zero => exact Or.inr ⟨.consDone, by simp [step, hc]⟩
      | succ e => exact Or.inr ⟨.consAcquire [], by simp [step, hc, hlock]⟩
  | idle =>
    cases hpp : s.prods.any (fun p => p.phase.isPublishing) with
    | true =>
      obtain ⟨p, pr, hp, hpr⟩ := exists_getElem?_of_any _ _ hpp
      cases hph : pr.phase with
      | ready => simp [hph, Phase.isPublishing] at hpr
      | enqueueing => simp [hph, Phase.isPublishing] at hpr
      | publishing ts =>
        cases ts with
        | nil => exact Or.inr ⟨.prodRelease p, by simp [step, hp, hph]⟩
        | cons i rest =>
          refine Or.inr ⟨.prodDeliver p false, ?_⟩
          simp only [step, hp, hph, Option.isSome_map]
          exact hdel i false
    | false =>
      have hlock : lockHeld s = false := by simp [lockHeld, hc, Cons.isPublishing, hpp]
      by_cases hq : s.queue = 0
      · -- the queue is empty and the consumer waits for it
        cases hpe : s.prods.any (fun p => p.phase == .enqueueing) with
        | true =>
          obtain ⟨p, pr, hp, hpr⟩ := exists_getElem?_of_any _ _ hpe
          have hph : pr.phase = .enqueueing := by simpa using hpr
          refine Or.inr ⟨.prodEnqueue p, ?_⟩
          simp only [step, hp, hph, Option.isSome_map, hq]
          rcases hprod with hb | hcap
          · rw [hb]; exact enqueue_nonblocking _ _
          · exact enqueue_free _ _ _ hcap
        | false =>
          cases hpj : s.prods.any (fun p => p.phase == .ready && p.jobs != 0) with
          | true =>
            obtain ⟨p, pr, hp, hpr⟩ := exists_getElem?_of_any _ _ hpj
            simp only [Bool.and_eq_true, beq_iff_eq, bne_iff_ne, ne_eq] at hpr
            refine Or.inr ⟨.prodStart p [], ?_⟩
            simp [step, hp, hpr.1, hpr.2, hlock]
          | false =>
            cases hsb : s.subs.any (fun sb => sb.budget != 0) with
            | true =>
              obtain ⟨j, sb, hj, hb⟩ := exists_getElem?_of_any _ _ hsb
              have hm : sb ∈ s.subs := List.mem_of_getElem? hj
              have hns : sb.submitting = false := by
                have := List.any_eq_false.mp hsm sb hm
                simpa using this
              have hb' : sb.budget ≠ 0 := by simpa using hb
              exact Or.inr ⟨.subTick j, by simp [step, hj, hns, hb']⟩
            | false =>
              -- nothing is left to do
              refine Or.inl ?_
              simp only [terminal, Bool.and_eq_true, beq_iff_eq, List.all_eq_true]
              refine ⟨⟨⟨hq, hc⟩, ?_⟩, ?_⟩
              · intro pr hm
                have h1 := List.any_eq_false.mp hpp pr hm
                have h2 := List.any_eq_false.mp hpe pr hm
                have h3 := List.any_eq_false.mp hpj pr hm
                cases hph : pr.phase with
                | publishing ts => simp [hph, Phase.isPublishing] at h1
                | enqueueing => simp [hph] at h2
                | ready =>
                  simp only [hph, beq_self_eq_true, Bool.true_and, bne_iff_ne, ne_eq, Decidable.not_not] at h3
                  simp [h3]
              · intro sb hm
                have h1 := List.any_eq_false.mp hsm sb hm
                have h2 := List.any_eq_false.mp hsb sb hm
                simp only [Bool.not_eq_true] at h1
                simp only [bne_iff_ne, ne_eq, Decidable.not_not] at h2
                simp [h1, h2]
      · exact Or.inr ⟨.take 0, by simp [step, hc, hq]⟩

/-- **No reachable deadlock**, for every initial state and every schedule. -/
theorem C20_waitfor_no_reachable_deadlock (c : Cfg) (hsub : c.subBlocking = false)
    (hprod : c.prodBlocking = false ∨ 0 < c.cap) (s0 s : State) (_hr : Reachable c s0 s) :
    ¬ Deadlocked c s := by
  intro hd
  rcases C20_waitfor_progress c hsub hprod s with ht | hstep
  · have h2 := hd.2
    rw [ht] at h2
    cases h2
  · exact hd.1 hstep

namespace C20WaitFor

/-- the state of the counterexample: the queue is full, the consumer is inside `Publish` delivering to
subscriber 0, subscriber 0 is inside its (blocking) enqueue -/
def stuck (cap : Nat) : State := ⟨cap, .publishing [0] 0, [⟨true, 0⟩], [⟨.ready, 0⟩]⟩

/-- the ticker schedule: the consumer takes a block (one event), a block from the network refills the queue,
the subscriber's ticker fires (it starts to submit), the consumer publishes -/
def tickSchedule : List Label :=
  [.take 1, .prodStart 0 [], .prodRelease 0, .prodEnqueue 0, .subTick 0, .consAcquire [0]]

theorem stuck_deadlocked (c : Cfg) (hsub : c.subBlocking = true) : Deadlocked c (stuck c.cap) := by
  refine ⟨?_, by simp [terminal, stuck]⟩
  rintro ⟨l, hl⟩
  cases l with
  | take evs => simp [step, stuck] at hl
  | consAcquire ts => simp [step, stuck] at hl
  | consDeliver b => simp [step, stuck, deliver] at hl
  | consRelease => simp [step, stuck] at hl
  | consDone => simp [step, stuck] at hl
  | subTick j => cases j <;> simp [step, stuck] at hl
  | subEnqueue j => cases j <;> simp [step, stuck, enqueue, hsub] at hl
  | prodStart p ts => cases p <;> simp [step, stuck] at hl
  | prodDeliver p b => cases p <;> simp [step, stuck] at hl
  | prodRelease p => cases p <;> simp [step, stuck] at hl
  | prodEnqueue p => cases p <;> simp [step, stuck] at hl

end C20WaitFor

open C20WaitFor in
/-- **Counterexample, for every capacity ≥ 1.** A subscriber whose enqueue BLOCKS (whatever the pure
producers do): start with a full queue (`cap` blocks received from the network), one subscriber that will
submit one block, one producer with one more block. After the six steps of `tickSchedule` nothing can move any
more: the consumer waits for the subscriber to receive, the subscriber waits for a place in the queue which
only the consumer can free, the emitter lock stays held. -/
theorem C20_waitfor_blocking_enqueue_deadlocks (c : Cfg) (hsub : c.subBlocking = true) (hcap : 0 < c.cap) :
    ∃ s, Reachable c (init c.cap 1 1 [1]) s ∧ Deadlocked c s := by
  refine ⟨stuck c.cap, ⟨tickSchedule, ?_⟩, stuck_deadlocked c hsub⟩
  obtain ⟨n, hn⟩ : ∃ n, c.cap = n + 1 := ⟨c.cap - 1, by omega⟩
  simp [run, step, tickSchedule, init, stuck, lockHeld, Cons.isPublishing, Phase.isPublishing, enqueue, hn]

open C20WaitFor in
/-- **The same when the submission is the reaction to an event** (the subscriber hands in a block when it is
told that one was finalized): the block being processed raises two events, the first makes the subscriber
submit, the second finds it waiting for the full queue. -/
theorem C20_waitfor_blocking_enqueue_deadlocks_on_event (c : Cfg) (hsub : c.subBlocking = true)
    (hcap : 0 < c.cap) :
    ∃ s, Reachable c (init c.cap 1 1 [1]) s ∧ Deadlocked c s := by
  refine ⟨stuck c.cap, ⟨[.take 2, .prodStart 0 [], .prodRelease 0, .prodEnqueue 0, .consAcquire [0],
    .consDeliver true, .consRelease, .consAcquire [0]], ?_⟩, stuck_deadlocked c hsub⟩
  obtain ⟨n, hn⟩ : ∃ n, c.cap = n + 1 := ⟨c.cap - 1, by omega⟩
  simp [run, step, init, stuck, lockHeld, Cons.isPublishing, Phase.isPublishing, enqueue, deliver, hn]

/-- with the non-blocking enqueue the same schedule does not get stuck: the subscriber's block is dropped
("Process queue is full") and the delivery completes -/
theorem C20_waitfor_nonblocking_enqueue_drops (c : Cfg) (hsub : c.subBlocking = false) (hcap : 0 < c.cap) :
    ∃ s, run c (init c.cap 1 1 [1]) (C20WaitFor.tickSchedule ++ [.subEnqueue 0, .consDeliver false, .consRelease, .consDone])
      = some s ∧ s.queue = c.cap ∧ s.cons = .idle ∧ s.subs = [⟨false, 0⟩] := by
  obtain ⟨n, hn⟩ : ∃ n, c.cap = n + 1 := ⟨c.cap - 1, by omega⟩
  refine ⟨⟨c.cap, .idle, [⟨false, 0⟩], [⟨.ready, 0⟩]⟩, ?_, rfl, rfl, rfl⟩
  simp [run, step, C20WaitFor.tickSchedule, init, lockHeld, Cons.isPublishing, Phase.isPublishing, enqueue,
    deliver, hn, hsub]

/-! ## (B) obligations over the regenerated skeletons -/

namespace C20WaitFor

open LiskVerif.Locks

/-- channel operations of a body (not through calls): `(kind, channel)`, kind ∈ send / trySend / recv / tryRecv -/
def chanOps : Nat → List Act → List (String × String)
  | 0, _ => [("?fuel", "")]
  | _ + 1, [] => []
  | n + 1, a :: k =>
    (match a with
     | .send ch => [("send", ch)]
     | .trySend ch => [("trySend", ch)]
     | .recv ch => [("recv", ch)]
     | .tryRecv ch => [("tryRecv", ch)]
     | .go b => chanOps n b
     | .loop b => chanOps n b
     | .choice alts => alts.flatMap (chanOps n)
     | _ => []) ++ chanOps n k

/-- channel creations of a body: `(channel, capacity)` -/
def makeChans : Nat → List Act → List (String × Nat)
  | 0, _ => [("?fuel", 0)]
  | _ + 1, [] => []
  | n + 1, a :: k =>
    (match a with
     | .makeChan ch cap => [(ch, cap)]
     | .go b => makeChans n b
     | .loop b => makeChans n b
     | .choice alts => alts.flatMap (makeChans n)
     | _ => []) ++ makeChans n k

/-- calls / interface calls made by a body (not through calls) -/
def callees : Nat → List Act → List String
  | 0, _ => ["?fuel"]
  | _ + 1, [] => []
  | n + 1, a :: k =>
    (match a with
     | .call f => [f]
     | .blockingCall f => [f]
     | .go b => callees n b
     | .loop b => callees n b
     | .choice alts => alts.flatMap (callees n)
     | _ => []) ++ callees n k

open Gen.SkeletonsShared in
/-- the functions whose own body performs the operation `kind` on the channel `ch` -/
def opsOn (kind ch : String) : List String :=
  (table.filter (fun e => (chanOps 100 e.2).contains (kind, ch))).map (·.1)

open Gen.SkeletonsShared in
/-- every operation of the given kind in the extracted functions: `(function, channel)` -/
def allOps (kind : String) : List (String × String) :=
  table.flatMap fun e => ((chanOps 100 e.2).filter (fun o => o.1 == kind)).eraseDups.map fun o => (e.1, o.2)

open Gen.SkeletonsShared in
def callers (f : String) : List String :=
  (table.filter (fun e => (callees 100 e.2).contains f)).map (·.1)

open Gen.SkeletonsShared in
/-- the capacities with which the channel is created anywhere in the extracted functions -/
def capacities (ch : String) : List Nat :=
  table.flatMap fun e => ((makeChans 100 e.2).filter (fun m => m.1 == ch)).map (·.2)

def queue : String := "Executer.processCh"

/-- the consumer: the only function that receives from the process queue -/
def consumer : String := "Executer.Start"

/-- **the wait-for configuration of the current source, computed from the regenerated table**: the capacity
with which the process queue is made; an enqueue is blocking as soon as ANY function other than the consumer
contains a blocking send to the queue (subscribers and pure producers use the same two functions) -/
def sourceCfg : WaitFor.Cfg :=
  let blocking := !((opsOn "send" queue).filter (· != consumer)).isEmpty
  ⟨(capacities queue).foldl max 0, blocking, blocking⟩

end C20WaitFor

open C20WaitFor

/-- **The process queue**: created once, by `NewExecuter`, with capacity 200 (`closeCh` is unbuffered);
received from by the loop of `Executer.Start` only. -/
theorem C20_waitfor_queue_bounded_single_consumer :
    makeChans 100 Gen.SkeletonsShared.NewExecuter = [("Executer.processCh", 200), ("Executer.closeCh", 0)] ∧
    capacities queue = [200] ∧
    opsOn "recv" queue = ["Executer.Start"] ∧ opsOn "tryRecv" queue = [] := by
  refine ⟨?_, ?_, ?_, ?_⟩ <;> decide +kernel

/-- **Every send to the process queue is non-blocking.** The queue is sent to by `onBlockReceived` (the p2p
`postBlock` handler) and `AddInternal` (generator, `chain_postBlock` endpoint) only, each time as the
communication of a `select` with a `default` branch; NO function contains a blocking send to it. -/
theorem C20_waitfor_queue_sends_nonblocking :
    opsOn "send" queue = [] ∧
    opsOn "trySend" queue = ["Executer.onBlockReceived", "Executer.AddInternal"] ∧
    chanOps 100 Gen.SkeletonsShared.Executer_AddInternal = [("trySend", "Executer.processCh")] ∧
    chanOps 100 Gen.SkeletonsShared.Executer_onBlockReceived = [("trySend", "Executer.processCh")] := by
  refine ⟨?_, ?_, ?_, ?_⟩ <;> decide +kernel

/-- **FACT: the blocking sends that exist today** in the 145 extracted functions are exactly the emitter's
deliveries — `Publish` / `Emit` send on the subscriber's channel, which `Subscribe` makes UNBUFFERED, while
holding the emitter lock (known finding c20-emitter-send-under-lock, `C20_emitter_publish_sends_under_lock`).
That is the synchronous delivery of `Model/WaitFor.lean`. A new blocking send anywhere (to the queue, to a
channel of the generator …) changes this list. -/
theorem C20_waitfor_blocking_sends_today :
    allOps "send" = [("EventEmitter.Publish", "out"), ("EventEmitter.Emit", "out")] ∧
    makeChans 100 Gen.SkeletonsShared.EventEmitter_Subscribe = [("out", 0)] ∧
    chanOps 100 Gen.SkeletonsShared.EventEmitter_Publish = [("send", "out")] := by
  refine ⟨?_, ?_, ?_⟩ <;> decide +kernel

/-- **The consumer and who publishes.** The loop of `Start` receives from the queue and calls `process`;
events are raised (`EventEmitter.Publish`) by `processValidated` and `deleteBlock` — both reached from
`process` only inside the extracted functions — and by `onBlockReceived` on the p2p goroutine BEFORE it
enqueues (the pure producer of the model). -/
theorem C20_waitfor_consumer_and_publishers :
    chanOps 100 Gen.SkeletonsShared.Executer_Start =
      [("recv", "Executer.closeCh"), ("recv", "c.ctx.Done()"), ("recv", "c.certificateTime.C"),
       ("recv", "Executer.processCh")] ∧
    callees 100 Gen.SkeletonsShared.Executer_Start = ["Executer.broadcastCertificate", "Executer.process"] ∧
    callers "EventEmitter.Publish" =
      ["Executer.onBlockReceived", "Executer.processValidated", "Executer.deleteBlock"] ∧
    callers "EventEmitter.Emit" = [] ∧
    callers "Executer.processValidated" = ["Executer.process"] ∧
    callers "Executer.deleteBlock" = ["Executer.process"] ∧
    callers "Executer.process" = ["Executer.Start"] ∧
    callees 100 Gen.SkeletonsShared.Executer_onBlockReceived = ["EventEmitter.Publish"] := by
  refine ⟨?_, ?_, ?_, ?_, ?_, ?_, ?_, ?_⟩ <;> decide +kernel

/-- **The subscriber that submits: the generator's event loop.** `Generator.Start` subscribes three times
through the `Consensus` interface and then only RECEIVES (its three subscriptions, its ticker, its context) —
it contains no send; the ticker case calls `forge`, the only caller of `Consensus.AddInternal`; no function
of the generator contains a send of any kind. The other caller of `AddInternal` is the `chain_postBlock`
endpoint. (That the `Consensus` handed to the generator is the `Executer`: `Props/C15_Wire.lean`.) -/
theorem C20_waitfor_generator_event_loop :
    chanOps 100 Gen.SkeletonsShared.Generator_Start =
      [("recv", "onNewBlock"), ("recv", "onDeleteBlock"), ("recv", "onFinalizeBlock"), ("recv", "g.checkLoop.C"),
       ("recv", "g.ctx.Done()")] ∧
    callees 100 Gen.SkeletonsShared.Generator_Start =
      ["Consensus.Subscribe", "Consensus.Subscribe", "Consensus.Subscribe", "Generator.onNewBlock",
       "Generator.onDeleteBlock", "Generator.onFinalizeBlock", "Generator.forge"] ∧
    callers "Consensus.AddInternal" = ["Generator.forge"] ∧
    callers "Executer.AddInternal" = ["chainEndpoint.HandlePostBlock"] ∧
    ((allOps "send" ++ allOps "trySend").filter (fun o => o.1.startsWith "Generator.")) = [] := by
  refine ⟨?_, ?_, ?_, ?_, ?_⟩ <;> decide +kernel

/-- the configuration computed from the current source: capacity 200, no blocking enqueue -/
theorem C20_waitfor_source_cfg : sourceCfg = ⟨200, false, false⟩ := by decide +kernel

/-- **Deadlock freedom of consumer loop + emitter + subscribers + producers for the current source**: the
instance of `C20_waitfor_progress` for the configuration computed from the regenerated skeletons — any number
of subscribers and p2p / RPC goroutines, any queue content, every schedule. -/
theorem C20_waitfor_source_deadlock_free (s0 s : State) (hr : Reachable sourceCfg s0 s) :
    (terminal s = true ∨ CanStep sourceCfg s) ∧ ¬ Deadlocked sourceCfg s := by
  have hc := C20_waitfor_source_cfg
  have h1 : sourceCfg.subBlocking = false := by rw [hc]
  have h2 : sourceCfg.prodBlocking = false ∨ 0 < sourceCfg.cap := Or.inl (by rw [hc])
  exact ⟨C20_waitfor_progress _ h1 h2 s, C20_waitfor_no_reachable_deadlock _ h1 h2 s0 s hr⟩

/-! ## non-vacuity -/

/-- the hypotheses of the progress theorem are satisfiable and its conclusion is not trivially "terminal":
a full queue of 200 with the source configuration has an enabled step, and the run of the ticker schedule
exists for the source configuration -/
example : terminal (init 200 1 1 [1]) = false ∧
    (run sourceCfg (init 200 1 1 [1]) tickSchedule).isSome = true := by
  refine ⟨by decide, ?_⟩
  rw [C20_waitfor_source_cfg]
  decide

/-- the counterexample theorem is not vacuous: for the seeded configuration (capacity 200, blocking enqueue)
the deadlocked state is reached by the ticker schedule -/
example : run ⟨200, true, true⟩ (init 200 1 1 [1]) tickSchedule = some (stuck 200) := by decide
