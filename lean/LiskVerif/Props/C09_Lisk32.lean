/-
C09 — address texts with arbitrary bytes (pkg/codec/bytes.go: `ValidateLisk32`, `Lisk32ToBytes`,
`Lisk32.UnmarshalJSON`, `BytesToLisk32`).

`codec.Lisk32` is the JSON type of every address parameter of the JSON-RPC endpoints; `router.Invoke` runs the
handler — and with it `json.Unmarshal` → `Lisk32.UnmarshalJSON` → `Lisk32ToBytes` — in a goroutine without
`recover`, so a panic while decoding an address text terminates the node. The text is an arbitrary byte string:
the length check is on BYTES, the loops are over RUNES, and the lookups go through `strings.Index` on the
re-encoded rune.

`Model/Lisk32Text.lean` follows the source construct by construct with Go's run-time panics explicit (slice
expressions, table indexing, the unchecked second lookup of `Lisk32ToBytes`). Theorems, for ALL byte strings:
  * no panic outcome is reachable (`C09_lisk32_total`), because every slice is guarded by the byte-length check
    and every looked-up value is -1 or a position inside the 32-entry alphabet (`C09_lisk32_lookup_guard`);
  * the text-level model equals the byte-level model of `Model/Lisk32.lean` (`C09_lisk32_text_refines_bytes`),
    so the C08 round-trip theorems hold for what Go computes on arbitrary bytes;
  * a text with any byte ≥ 0x80 behind the prefix is rejected, whatever UTF-8 shape it has;
  * the only place that indexes the alphabet table (`uint5ToLisk32`) is always in range.
Tie B: pseudo-property C09TEXT (harness/c09/text.go) runs the real functions and this model (Driver/Text.lean) on
all 256 byte values at every position of valid addresses, on multi-byte / invalid UTF-8 substitutions and on JSON
escapes.
-/
import LiskVerif.Lemmas.Lisk32Text

open LiskVerif LiskVerif.Lisk32 LiskVerif.Lisk32Text

/-! ### the guards -/

/-- **Lookup guard.** For every rune `strings.Index(lisk32Charset, string(c))` is -1 or a position inside the
32-entry alphabet, and only ASCII runes are found: a value that passes the `index < 0` check is a valid index of
any table of the alphabet's size and a valid 5-bit quantity. -/
theorem C09_lisk32_lookup_guard (r : Nat) :
    charIdx r = -1 ∨ (0 ≤ charIdx r ∧ charIdx r < 32 ∧ r < 0x80) :=
  charIdx_guard r

/-- the partial table lookup `lisk32Charset[v]` of `uint5ToLisk32` is defined exactly on the values below 32 -/
theorem C09_lisk32_table_defined_iff (v : Nat) : tableGet charset v ≠ .panic ↔ v < 32 := by
  constructor
  · intro h
    unfold tableGet at h
    cases hg : charset[v]? with
    | none => simp [hg] at h
    | some c =>
      have := (List.getElem?_eq_some_iff.mp hg).1
      rwa [charset_length] at this
  · intro h
    rw [tableGet_charset v h]
    simp

/-- the slices `val[3:]` and `val[3:35]` are in range whenever the byte-length check passed -/
theorem C09_lisk32_slices_in_range (s : Bytes) (h : s.length = 41) :
    slice s 3 s.length = .ok (s.drop 3) ∧ slice s 3 35 = .ok ((s.drop 3).take 32) := by
  unfold slice
  constructor
  · rw [if_pos ⟨by omega, Nat.le_refl _⟩, List.take_length]
  · rw [if_pos ⟨by omega, by omega⟩, List.drop_take]

/-! ### text level = byte level -/

/-- `ValidateLisk32` on an arbitrary byte string: the verdict of the byte-level model -/
theorem C09_lisk32_validate_refines (s : Bytes) :
    goValidate s = if validate s then .ok () else .err := by
  unfold goValidate validate
  by_cases hl : s.length = 41
  · have h1 : ¬ (s.length ≠ 41) := by omega
    rw [if_neg h1, if_neg h1, (C09_lisk32_slices_in_range s hl).1]
    simp only [runes]
    rw [lookupAll_runes _ _ (Nat.le_refl _)]
    cases hm : (s.drop 3).mapM charIndex with
    | none => rfl
    | some u5 =>
      simp only [Option.map_some, map_toNat_ofNat_int]
      by_cases hp : polymod u5 = 1
      · rw [if_neg (by simp [hp])]; simp [hp]
      · rw [if_pos hp]; simp [hp]
  · rw [if_pos hl, if_pos hl]; rfl

/-- `Lisk32ToBytes` on an arbitrary byte string: the result of the byte-level model -/
theorem C09_lisk32_tobytes_refines (s : Bytes) :
    goToBytes s = match lisk32ToBytes s with | some b => .ok b | none => .err := by
  unfold goToBytes lisk32ToBytes
  by_cases h0 : s.length = 0
  · rw [if_pos h0, if_pos h0]
  · rw [if_neg h0, if_neg h0, C09_lisk32_validate_refines]
    by_cases hv : validate s = true
    · have hl : s.length = 41 := by
        unfold validate at hv
        by_cases hl : s.length = 41
        · exact hl
        · rw [if_pos hl] at hv; cases hv
      have hm : ∃ all, (s.drop 3).mapM charIndex = some all := by
        unfold validate at hv
        rw [if_neg (by omega)] at hv
        cases hm : (s.drop 3).mapM charIndex with
        | none => rw [hm] at hv; cases hv
        | some all => exact ⟨all, rfl⟩
      obtain ⟨all, hm⟩ := hm
      obtain ⟨e1, e2⟩ := mapM_charIndex_some _ _ hm
      have ht : (s.drop 3).take 32 = (all.take 32).map charOf := by rw [e1, List.map_take]
      have hlt : ∀ v ∈ all.take 32, v < 32 := fun v hv => e2 v (List.mem_of_mem_take hv)
      simp only [hv, if_true, Bool.not_true, Bool.false_eq_true, if_false,
        (C09_lisk32_slices_in_range s hl).2]
      rw [ht, mapM_charIndex_map _ hlt]
      simp only [runes]
      rw [map_charIdx_runes _ _ hlt (by simp), convertInts_ofNat]
    · have hv' : validate s = false := by simpa using hv
      simp [hv']

/-- **Text level = byte level**, for every byte string: what Go computes through rune iteration,
re-encoding and substring search is what the byte-level model (and the C08 theorems about it) describe. -/
theorem C09_lisk32_text_refines_bytes (s : Bytes) :
    (goValidate s = if validate s then .ok () else .err) ∧
    (goToBytes s = match lisk32ToBytes s with | some b => .ok b | none => .err) :=
  ⟨C09_lisk32_validate_refines s, C09_lisk32_tobytes_refines s⟩

/-- `BytesToLisk32`: the table lookups are always in range (20 bytes give 32 + 6 values below 32) -/
theorem C09_lisk32_frombytes_refines (b : Bytes) :
    goFromBytes b = match bytesToLisk32 b with | some s => .ok s | none => .err := by
  unfold goFromBytes
  by_cases h0 : b.length = 0
  · rw [if_pos h0]; unfold bytesToLisk32; rw [if_pos h0]
  · by_cases h20 : b.length = 20
    · rw [if_neg h0, if_neg (by omega), bytesToLisk32_eq b h20]
      have hall : ∀ v ∈ u5Of b ++ createChecksum (u5Of b), v < 32 := by
        intro v hv
        rcases List.mem_append.mp hv with h | h
        · exact (u5Of_props b h20).2.1 v h
        · exact (createChecksum_props _).2 v h
      show (match lookupTable (u5Of b ++ createChecksum (u5Of b)) with
        | .ok r => Res.ok (lskPrefix ++ r) | .err => .err | .panic => .panic) = _
      rw [lookupTable_ok _ hall]
    · rw [if_neg h0, if_pos h20]; unfold bytesToLisk32; rw [if_neg h0, if_pos h20]

/-! ### totality -/

/-- **Totality on all byte strings**: `ValidateLisk32`, `Lisk32ToBytes`, `Lisk32.UnmarshalJSON` (whatever string
`encoding/json` produced, or none) and `BytesToLisk32` return a value or an error — the panic outcome of the
model (slice out of range, table index out of range) is unreachable. -/
theorem C09_lisk32_total (s : Bytes) :
    goValidate s ≠ .panic ∧ goToBytes s ≠ .panic ∧ goFromBytes s ≠ .panic ∧
      ∀ d : Option Bytes, goUnmarshal d ≠ .panic := by
  have hv : ∀ t : Bytes, goValidate t ≠ .panic := by
    intro t; rw [C09_lisk32_validate_refines]; split <;> simp
  have hb : ∀ t : Bytes, goToBytes t ≠ .panic := by
    intro t; rw [C09_lisk32_tobytes_refines]; split <;> simp
  refine ⟨hv s, hb s, ?_, ?_⟩
  · rw [C09_lisk32_frombytes_refines]; split <;> simp
  · intro d
    cases d with
    | none => simp [goUnmarshal]
    | some t => exact hb t

/-! ### consequences for hostile texts -/

/-- an accepted text has 41 bytes and only alphabet characters (hence only ASCII) behind the prefix -/
theorem C09_lisk32_accepted_is_alphabet_text (s : Bytes) (h : goValidate s = .ok ()) :
    s.length = 41 ∧ ∀ c ∈ s.drop 3, c ∈ charset := by
  rw [C09_lisk32_validate_refines] at h
  have hv : validate s = true := by
    by_cases hv : validate s = true
    · exact hv
    · rw [if_neg hv] at h; cases h
  unfold validate at hv
  by_cases hl : s.length = 41
  · refine ⟨hl, ?_⟩
    rw [if_neg (by omega)] at hv
    cases hm : (s.drop 3).mapM charIndex with
    | none => rw [hm] at hv; cases hv
    | some all =>
      obtain ⟨e1, e2⟩ := mapM_charIndex_some _ _ hm
      intro c hc
      rw [e1] at hc
      obtain ⟨v, hv1, rfl⟩ := List.mem_map.mp hc
      have hlt : v < charset.length := by rw [charset_length]; exact e2 v hv1
      simp only [charOf, List.getD, List.getElem?_eq_getElem hlt, Option.getD_some]
      exact List.getElem_mem hlt
  · rw [if_pos hl] at hv; cases hv

/-- **Every byte ≥ 0x80 behind the prefix is answered with an error** — a multi-byte character that keeps the
byte length at 41, an invalid UTF-8 byte, a truncated sequence: all the same. -/
theorem C09_lisk32_non_ascii_rejected (s : Bytes) (c : UInt8) (hc : c ∈ s.drop 3) (h80 : 0x80 ≤ c.toNat) :
    goValidate s = .err ∧ (s.length ≠ 0 → goToBytes s = .err) := by
  have hne : goValidate s ≠ .ok () := by
    intro hok
    have := charset_ascii c ((C09_lisk32_accepted_is_alphabet_text s hok).2 c hc)
    omega
  have hv : validate s = false := by
    rw [C09_lisk32_validate_refines] at hne
    by_cases hv : validate s = true
    · rw [if_pos hv] at hne; exact absurd rfl hne
    · simpa using hv
  constructor
  · rw [C09_lisk32_validate_refines, hv]; rfl
  · intro h0
    rw [C09_lisk32_tobytes_refines]
    unfold lisk32ToBytes
    rw [if_neg h0, hv]
    rfl

/-! ### non-vacuity -/

/-- a valid address is accepted and decoded … -/
example : goValidate "lskgr5tu9283t77x8d27g8e95zwqgkc3sogx4zazd".toUTF8.toList = .ok () ∧
    (match goToBytes "lskgr5tu9283t77x8d27g8e95zwqgkc3sogx4zazd".toUTF8.toList with
      | .ok b => b.length == 20 | _ => false) = true := by
  decide +kernel

/-- … the same text with "é" in place of two characters (still 41 bytes: the failing input of seeded change
C09-11) is an error, not a panic; so are an invalid byte and a truncated sequence at the end -/
example : goValidate "lské5tu9283t77x8d27g8e95zwqgkc3sogx4zazd".toUTF8.toList = .err ∧
    goToBytes ("lskgr5tu9283t77x8d27g8e95zwqgkc3sogx4zaz".toUTF8.toList ++ [0xff]) = .err ∧
    goToBytes ("lskgr5tu9283t77x8d27g8e95zwqgkc3sogx4za".toUTF8.toList ++ [0xe2, 0x82]) = .err := by
  decide +kernel

/-- the lookup guard is not vacuous: 'z' is found at 0, 'g' at 31, "é" and U+FFFD are not found -/
example : charIdx 0x7a = 0 ∧ charIdx 0x67 = 31 ∧ charIdx 0xe9 = -1 ∧ charIdx runeError = -1 := by
  decide +kernel
