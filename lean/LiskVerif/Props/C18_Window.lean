/-
C18 — the WINDOW semantics of the rate limiter over many windows.

"Request rates above the limit lead to penalties; well-formed traffic within the limits never does."
The limit is per rate-limiting window. In the model (`Model/RateLimit.lean`) the window boundary is the
event `Ev.tick` (one pass of the reset in `rateLimiterHandler`); `Props/C18_Rate.lean` proves
`C18_legal_traffic_never_penalised` for every event list in which each (procedure, peer) stays within the
limit BETWEEN TWO TICKS. That theorem says nothing unless the real handler goroutine does produce a tick
at every window boundary — for ever, not only once. This file states that obligation:

  (a) the model side, for ANY number of windows: traffic given as a list of windows, each within the limit
      when counted from zero, with one tick between consecutive windows, is never penalised
      (`C18_window_many_windows_never_penalised`, `C18_window_legal_concat`), e.g. exactly `limit`
      messages per window for k windows (`C18_window_limit_per_window_never_penalised`);
  (b) why the tick has to RECUR: the same traffic with the ticks after the first one missing (a handler
      whose timer fires once and is not re-armed) is penalised although no window holds more than `limit`
      messages (`C18_window_missing_tick_penalises_legal_traffic`), and with all ticks it is not
      (`C18_window_with_ticks_not_penalised`);
  (c) what the REGENERATED skeleton of `rateLimiterHandler` (tools/skelgen, Gen/SkeletonsP2P.lean) can
      express about it: the handler is one endless loop around a `select`; the branch taken on the
      timer channel writes the counter maps (directly or through a called function of the package) and
      does not leave the loop; the only way out of the loop is the branch on `ctx.Done()`
      (`C18_window_reset_inside_endless_loop`), so a `return` / `break` after the first reset, or a reset
      moved out of the loop, is reported here.

NOT expressible on the skeleton: that the timer channel fires again. skelgen drops calls into other
packages (`time.NewTicker`, `time.NewTimer`, `(*time.Timer).Reset`, `time.After`), and `Locks.Act` has
no action for creating / re-arming a timer; `recv "t.C"` is just a receive that may block. A handler
built on `time.NewTimer` without `t.Reset` on the tick path has the same skeleton as the correct one.
To state "the timer is re-armed on every path of the loop body" skelgen would have to emit, for calls
whose static callee is in package `time`, an action such as `arm "t" periodic` (NewTicker, Tick:
periodic; NewTimer, After, Reset: one shot) and `Locks.Act` would need that constructor (every
interpreter in Model/Locks.lean and Lemmas/Locks.lean matches on `Act`). Until then that part of the
obligation is discharged on the real goroutine by the model-free pseudo-property C18WIN
(harness/c18/window.go), which runs `rateLimiterHandler` over many windows on the wall clock.
-/
import LiskVerif.Props.C18_Rate
import LiskVerif.Gen.SkeletonsP2P

open LiskVerif LiskVerif.ConnGater LiskVerif.RateLimit

/-! ## (a) any number of windows -/

/-- the traffic of consecutive windows, the handler's tick between two windows -/
def C18windows : List (List Ev) → List Ev
  | [] => []
  | w :: r => w ++ (match r with | [] => [] | _ :: _ => Ev.tick :: C18windows r)

private theorem C18Legal_tick (lim : String → Option Int) (c : C18Cnt) (r : List Ev) :
    C18Legal lim c (.tick :: r) = C18Legal lim (fun _ _ => 0) r := rfl

/-- a window that is within the limits, followed by a tick and traffic that is legal from zero counts -/
theorem C18_window_legal_concat (lim : String → Option Int) (w rest : List Ev) (c : C18Cnt)
    (hw : C18Legal lim c w) (hr : C18Legal lim (fun _ _ => 0) rest) :
    C18Legal lim c (w ++ Ev.tick :: rest) := by
  induction w generalizing c with
  | nil => exact hr
  | cons ev w ih =>
    cases ev with
    | tick =>
      have hw' : C18Legal lim (fun _ _ => 0) w := hw
      exact ih (fun _ _ => 0) hw'
    | msg now isReq remote pid k =>
      cases k with
      | malformed => exact absurd hw (by intro h; exact h)
      | proc name =>
        have hw' : (∃ L, lim name = some L ∧ ((c name pid + 1 : Nat) : Int) ≤ L) ∧
            C18Legal lim (C18inc c name pid) w := hw
        exact ⟨hw'.1, ih (C18inc c name pid) hw'.2⟩

/-- every window within the limits (counted from zero) ⇒ the whole traffic is legal -/
theorem C18_window_all_legal (lim : String → Option Int) (ws : List (List Ev))
    (h : ∀ w ∈ ws, C18Legal lim (fun _ _ => 0) w) :
    C18Legal lim (fun _ _ => 0) (C18windows ws) := by
  induction ws with
  | nil => exact True.intro
  | cons w r ih =>
    cases r with
    | nil =>
      have : C18windows [w] = w := by simp [C18windows]
      rw [this]
      exact h w List.mem_cons_self
    | cons w' r' =>
      have hrest := ih (fun x hx => h x (List.mem_cons_of_mem _ hx))
      have : C18windows (w :: w' :: r') = w ++ Ev.tick :: C18windows (w' :: r') := by
        simp [C18windows]
      rw [this]
      exact C18_window_legal_concat lim w _ _ (h w List.mem_cons_self) hrest

/-- **Traffic within the limit in every window is never penalised, however many windows it lasts.**
From a node at the start of a window, any list of windows each of which stays within every
(procedure, peer) limit, separated by the handler's ticks, leaves the gater untouched, closes no
connection and every request reaches its handler. -/
theorem C18_window_many_windows_never_penalised (n : Node) (hmp : n.mpStarted = true)
    (hz : ∀ name pid, count n name pid = 0) (ws : List (List Ev))
    (h : ∀ w ∈ ws, C18Legal (C18limitOf n) (fun _ _ => 0) w) :
    (runEv n (C18windows ws)).g = n.g ∧ (runEv n (C18windows ws)).conns = n.conns ∧
      (runEv n (C18windows ws)).closed = n.closed ∧
      (runEv n (C18windows ws)).handled = n.handled + C18requests (C18windows ws) :=
  C18_legal_traffic_never_penalised n hmp hz (C18windows ws) (C18_window_all_legal _ ws h)

/-- the same window repeated `k` times (e.g. exactly `limit` messages per window) -/
theorem C18_window_limit_per_window_never_penalised (n : Node) (hmp : n.mpStarted = true)
    (hz : ∀ name pid, count n name pid = 0) (w : List Ev)
    (hw : C18Legal (C18limitOf n) (fun _ _ => 0) w) (k : Nat) :
    (runEv n (C18windows (List.replicate k w))).g = n.g := by
  refine (C18_window_many_windows_never_penalised n hmp hz (List.replicate k w) ?_).1
  intro x hx
  rw [List.eq_of_mem_replicate hx]
  exact hw

/-! ## (b) the tick has to recur -/

/-- two requests of peer 0 for the procedure of `C18exampleNode` (limit 2, penalty 50) -/
def C18fullWindow : List Ev :=
  [.msg 1 true ⟨some [1, 2, 3, 4], none⟩ 0 (.proc "blk"), .msg 1 true ⟨some [1, 2, 3, 4], none⟩ 0 (.proc "blk")]

example : C18Legal (C18limitOf C18exampleNode) (fun _ _ => 0) C18fullWindow :=
  ⟨⟨2, by decide, by decide⟩, ⟨2, by decide, by decide⟩, trivial⟩

/-- four windows with exactly `limit` messages each and a tick at every boundary: no score -/
theorem C18_window_with_ticks_not_penalised :
    (runEv C18exampleNode (C18windows [C18fullWindow, C18fullWindow, C18fullWindow, C18fullWindow])).g.peerScore = [] := by
  decide

/-- the same four windows when the handler ticks once and never again (a one-shot timer that is not
re-armed): the first message of the third window and the second of the fourth are penalised (2 x 50: the
IP is banned), although no window holds more than `limit` messages -/
theorem C18_window_missing_tick_penalises_legal_traffic :
    (runEv C18exampleNode (C18fullWindow ++ Ev.tick :: (C18fullWindow ++ C18fullWindow ++ C18fullWindow))).g.peerScore
      = [([1, 2, 3, 4], ⟨100, 11⟩)] := by
  decide

/-! ## (c) the regenerated skeleton of `rateLimiterHandler` -/

namespace C18Win
open LiskVerif.Locks

def counters : String := "rpcMessageCounter.counters"
def done : String := "ctx.Done()"

/-- some action of the list (calls of package functions inlined through the table, `fuel` deep)
satisfies `p`; running out of fuel answers `false` -/
def anyAct (tbl : Table) (p : Act → Bool) : Nat → List Act → Bool
  | 0, _ => false
  | _, [] => false
  | n + 1, a :: r =>
    p a ||
    (match a with
      | .call f => (match tbl.find f with | some b => anyAct tbl p n b | none => false)
      | .go b => anyAct tbl p n b
      | .loop b => anyAct tbl p n b
      | .choice alts => alts.any (fun alt => anyAct tbl p n alt)
      | _ => false) ||
    anyAct tbl p n r

/-- no action of the list (calls inlined) satisfies `p`; running out of fuel, an unresolved call or an
`unknown` construct answer `false` -/
def noAct (tbl : Table) (p : Act → Bool) : Nat → List Act → Bool
  | 0, _ => false
  | _, [] => true
  | n + 1, a :: r =>
    !p a &&
    (match a with
      | .call f => (match tbl.find f with | some b => noAct tbl p n b | none => false)
      | .go b => noAct tbl p n b
      | .loop b => noAct tbl p n b
      | .choice alts => alts.all (fun alt => noAct tbl p n alt)
      | .unknown _ => false
      | _ => true) &&
    noAct tbl p n r

def isRet : Act → Bool
  | .ret => true
  | _ => false

def writesCounters : Act → Bool
  | .write x => x == counters
  | .del x => x == counters
  | _ => false

/-- the branch waits on a channel other than `ctx.Done()` (the timer / ticker channel) -/
def timerBranch : List Act → Bool
  | .recv ch :: _ => ch != done
  | _ => false

def doneBranch : List Act → Bool
  | .recv ch :: _ => ch == done
  | _ => false

/-- the handler is one endless loop around a select; a timer branch resets the counters and stays in
the loop; only the `ctx.Done()` branch may leave -/
def windowShape (tbl : Table) (s : Skel) : Bool :=
  match s with
  | [.loop [.choice alts]] =>
    alts.any (fun alt => timerBranch alt && anyAct tbl writesCounters 40 alt && noAct tbl isRet 40 alt) &&
    alts.all (fun alt => doneBranch alt || noAct tbl isRet 40 alt)
  | _ => false

end C18Win

/-- **(c)** on the skeleton regenerated from pkg/p2p/ratelimit.go -/
theorem C18_window_reset_inside_endless_loop :
    C18Win.windowShape Gen.SkeletonsP2P.table Gen.SkeletonsP2P.rateLimiterHandler = true := by
  decide

open LiskVerif.Locks in
/-- the obligation is not vacuous: a handler that returns after its first reset, and one that resets
before entering the loop, are rejected -/
theorem C18_window_shape_rejects_single_pass :
    C18Win.windowShape [] [.loop [.choice [[.recv "t.C", .lock "m", .write C18Win.counters, .unlock "m", .ret],
        [.recv "ctx.Done()", .ret]]]] = false ∧
    C18Win.windowShape [] [.recv "t.C", .write C18Win.counters,
        .loop [.choice [[.recv "ctx.Done()", .ret]]]] = false ∧
    C18Win.windowShape [("reset", [.lock "m", .write C18Win.counters, .unlock "m"])]
        [.loop [.choice [[.recv "t.C", .call "reset"], [.recv "ctx.Done()", .ret]]]] = true := by
  decide
