/-
C09 — Codec totality: the decoder never panics and does bounded work, for every byte string.

In the model (`LiskVerif.Model.Codec`) every Go panic (index out of range, nil dereference, …) is the
explicit outcome `Err.panic`; running out of the recursion budget (`fuel`) is reported as `panic` too.
The theorems below show that for every schema table without recursion between structs (witnessed by
a rank function), in particular for the table regenerated from the `*_codec.go` files, no input
makes `decode` / `decodeStrict` return `panic`, that the budget `fuelFor data = 3 * |data| + 400` is
never exhausted, and that the answer does not depend on the budget once it is large enough.
-/
import LiskVerif.Lemmas.CodecTotal
import LiskVerif.Gen.Schemas

open LiskVerif LiskVerif.Codec LiskVerif.Gen

/-! ### ranked tables -/

/-- The rank condition on a schema table (a `Bool`, hence decidable): for every struct `m` of the
table, `rank m ≤ 8`; `m` has at most 40 fields (in each of its Encode / Decode / DecodeStrict field
lists); no field has a kind unknown to the translator; every `.msg n` / `.msgArr n` field names a
struct of the table with `rank n < rank m`. -/
def C09Ranked (t : Table) (rank : String → Nat) : Bool := Ranked t rank

/-- names of the structs nested directly in `s` -/
def C09nested (s : Schema) : List String :=
  (s.enc ++ s.dec ++ s.decStrict).filterMap fun f =>
    match f.kind with
    | .msg n => some n
    | .msgArr n => some n
    | _ => none

/-- `k` rounds of "1 + max rank of the nested structs" -/
def C09rankIter (t : Table) : Nat → String → Nat
  | 0, _ => 0
  | k + 1, name =>
    match t.find name with
    | none => 0
    | some s => (C09nested s).foldl (fun acc n => max acc (C09rankIter t k n + 1)) 0

/-- the nesting depth of a struct of the regenerated table -/
def C09rank : String → Nat := C09rankIter allSchemas 8

/-- The regenerated table is ranked: structs are not recursive (nesting depth ≤ 8), have ≤ 40
fields, all nested names resolve and no field kind is unknown. Re-checked on every run. -/
theorem C09_allSchemas_ranked : C09Ranked allSchemas C09rank = true := by
  decide +kernel

/-! ### never panics -/

/-- General form: on a ranked table, a field list whose nested structs have rank `< k`, read from any
reader state `r`, does not panic when given fuel `#fields + 42 * k + 1 + unread bytes`
(`Codec.need`); and a successful read only moves the index forward in the same buffer. -/
theorem C09_decodeFields_no_panic (t : Table) (rank : String → Nat) (hR : C09Ranked t rank = true)
    (nfc : NFC) (k : Nat) (fs : List Field) (r : Reader) (hok : fieldsOK t rank k fs = true)
    (fuel : Nat) (hf : need k fs.length (r.data.length - r.index) ≤ fuel) :
    decodeFields t nfc fuel fs r ≠ .error .panic ∧
    ∀ vs r', decodeFields t nfc fuel fs r = .ok (vs, r') →
      r'.data.length = r.data.length ∧ r.index ≤ r'.index ∧
        (r'.index = r.index ∨ r'.index ≤ r.data.length) := by
  have h := decodeFields_safe t nfc rank hR k fs r hok fuel hf
  exact ⟨h.ne_panic, fun vs r' he => h.of_ok he⟩

/-- `need ≤ fuelFor`: the budget of `decode` covers every struct of a ranked table -/
theorem C09_need_le_fuelFor (data : Bytes) (k n : Nat) (hk : k ≤ 8) (hn : n ≤ 40) :
    need k n data.length ≤ fuelFor data := by
  simp only [need, fuelFor]
  omega

/-- Neither `Decode` nor `DecodeStrict` panics, on any ranked table, any struct of it, any NFC
implementation and any byte string. -/
theorem C09_decode_no_panic (t : Table) (rank : String → Nat) (hR : C09Ranked t rank = true)
    (nfc : NFC) (s : Schema) (hs : s ∈ t) (data : Bytes) :
    decode t nfc s data ≠ .error .panic ∧ decodeStrict t nfc s data ≠ .error .panic := by
  obtain ⟨hk, hdl, hsl, hdec, hstr⟩ := schemaOK_dec (ranked_mem hR hs)
  constructor
  · have h := decodeFields_safe t nfc rank hR (rank s.name) s.dec (Reader.new data) hdec
      (fuelFor data) (need_le_fuelFor data hk hdl)
    unfold decode
    split
    · rename_i e he
      have := h.of_error he
      intro hc
      injection hc with hc
      exact this hc
    · intro hc
      cases hc
  · have h := decodeFields_safe t nfc rank hR (rank s.name) s.decStrict (Reader.new data) hstr
      (fuelFor data) (need_le_fuelFor data hk hsl)
    unfold decodeStrict
    split
    · rename_i e he
      have := h.of_error he
      intro hc
      injection hc with hc
      exact this hc
    · split
      · intro hc
        cases hc
      · intro hc
        cases hc

/-- All 95 generated structs — among them every network-facing one (blockchain.RawBlock / Block /
BlockHeader / AggregateCommit / Transaction / BlockAsset, consensus.EventPostSingleCommits,
certificate.SingleCommit, the p2p messages, the sync requests and responses, smt.Proof, rmt.Proof) —
decode any byte string without panicking, leniently and strictly. -/
theorem C09_decode_all_network_schemas_no_panic :
    ∀ s ∈ allSchemas, ∀ data : Bytes,
      decode allSchemas asciiNFC s data ≠ .error .panic ∧
      decodeStrict allSchemas asciiNFC s data ≠ .error .panic :=
  fun s hs data => C09_decode_no_panic allSchemas C09rank C09_allSchemas_ranked asciiNFC s hs data

/-- the same for any NFC implementation (`norm.NFC` is a parameter of the model) -/
theorem C09_decode_all_schemas_no_panic_any_nfc (nfc : NFC) :
    ∀ s ∈ allSchemas, ∀ data : Bytes,
      decode allSchemas nfc s data ≠ .error .panic ∧
      decodeStrict allSchemas nfc s data ≠ .error .panic :=
  fun s hs data => C09_decode_no_panic allSchemas C09rank C09_allSchemas_ranked nfc s hs data

/-! ### the fuel is irrelevant -/

/-- Once the fuel reaches `need`, the result no longer depends on it: the model's answer is the answer
of the fuel-free Go code. -/
theorem C09_decode_fuel_irrelevant (t : Table) (rank : String → Nat) (hR : C09Ranked t rank = true)
    (nfc : NFC) (k : Nat) (fs : List Field) (r : Reader) (hok : fieldsOK t rank k fs = true)
    (f₁ f₂ : Nat) (h₁ : need k fs.length (r.data.length - r.index) ≤ f₁)
    (h₂ : need k fs.length (r.data.length - r.index) ≤ f₂) :
    decodeFields t nfc f₁ fs r = decodeFields t nfc f₂ fs r := by
  have h := (decodeFields_safe t nfc rank hR k fs r hok _ (Nat.le_refl _)).ne_panic
  rw [decodeFields_fuel_mono t nfc fs r h₁ h, decodeFields_fuel_mono t nfc fs r h₂ h]

/-- in particular `decode` / `decodeStrict` compute what any larger budget would compute -/
theorem C09_decode_fuelFor_irrelevant (t : Table) (rank : String → Nat)
    (hR : C09Ranked t rank = true) (nfc : NFC) (s : Schema) (hs : s ∈ t) (data : Bytes) (fuel : Nat)
    (hf : data.length + 377 ≤ fuel) :
    decodeFields t nfc fuel s.dec (Reader.new data) =
      decodeFields t nfc (fuelFor data) s.dec (Reader.new data) ∧
    decodeFields t nfc fuel s.decStrict (Reader.new data) =
      decodeFields t nfc (fuelFor data) s.decStrict (Reader.new data) := by
  obtain ⟨hk, hdl, hsl, hdec, hstr⟩ := schemaOK_dec (ranked_mem hR hs)
  constructor
  · apply C09_decode_fuel_irrelevant t rank hR nfc (rank s.name) s.dec _ hdec
    · simp only [need, Reader.new]; omega
    · exact need_le_fuelFor data hk hdl
  · apply C09_decode_fuel_irrelevant t rank hR nfc (rank s.name) s.decStrict _ hstr
    · simp only [need, Reader.new]; omega
    · exact need_le_fuelFor data hk hsl

/-! ### linear bound on the recursion / iteration budget -/

/-- The recursion budget actually needed is linear in the input: some fuel `≤ |data| + 377 ≤ 3 * |data| + 400`
already gives a non-panic answer, and that answer is the one for every larger fuel. (Fuel counts the
depth of the call chain `decodeFields → decodeField → decodeNested / decodeMsgArr`, where
every array iteration is one more call.) -/
theorem C09_decode_fuel_linear (t : Table) (rank : String → Nat) (hR : C09Ranked t rank = true)
    (nfc : NFC) (s : Schema) (hs : s ∈ t) (data : Bytes) :
    ∃ fuel, fuel ≤ data.length + 377 ∧ fuel ≤ 3 * data.length + 400 ∧
      decodeFields t nfc fuel s.dec (Reader.new data) ≠ .error .panic ∧
      decodeFields t nfc fuel s.decStrict (Reader.new data) ≠ .error .panic ∧
      ∀ fuel', fuel ≤ fuel' →
        decodeFields t nfc fuel' s.dec (Reader.new data) =
          decodeFields t nfc fuel s.dec (Reader.new data) ∧
        decodeFields t nfc fuel' s.decStrict (Reader.new data) =
          decodeFields t nfc fuel s.decStrict (Reader.new data) := by
  obtain ⟨hk, hdl, hsl, hdec, hstr⟩ := schemaOK_dec (ranked_mem hR hs)
  have hn1 : need (rank s.name) s.dec.length
      ((Reader.new data).data.length - (Reader.new data).index) ≤ data.length + 377 := by
    simp only [need, Reader.new]; omega
  have hn2 : need (rank s.name) s.decStrict.length
      ((Reader.new data).data.length - (Reader.new data).index) ≤ data.length + 377 := by
    simp only [need, Reader.new]; omega
  have h1 := (decodeFields_safe t nfc rank hR _ s.dec _ hdec _ hn1).ne_panic
  have h2 := (decodeFields_safe t nfc rank hR _ s.decStrict _ hstr _ hn2).ne_panic
  refine ⟨data.length + 377, Nat.le_refl _, by omega, h1, h2, ?_⟩
  intro fuel' hle
  exact ⟨decodeFields_fuel_mono t nfc _ _ hle h1, decodeFields_fuel_mono t nfc _ _ hle h2⟩

/-! ### linear bound on the total work -/

/-- Total work. `costFields` (defined in `Lemmas/CodecTotal.lean` next to the model, with the model's
own calls as scrutinees) counts every call of `decodeFields` / `decodeField` / `decodeNested` /
`decodeMsgArr` and every iteration of the two primitive array loops made by a decode. For every
ranked table, every struct, every input and EVERY fuel that count is at most `121 * (|data| + 1)`:
each nested struct or array element costs ≤ 2 + 3 * 40 calls and consumes ≥ 1 byte of its own
(the size prefix), every other loop iteration consumes ≥ 1 byte. Each call performs a bounded
number of primitive reads, each O(1) (a varint of ≤ 10 bytes, a bool) or O(bytes it consumes). -/
theorem C09_decode_steps_linear (t : Table) (rank : String → Nat) (hR : C09Ranked t rank = true)
    (nfc : NFC) (s : Schema) (hs : s ∈ t) (data : Bytes) (fuel : Nat) :
    costFields t nfc fuel s.dec (Reader.new data) ≤ 121 * (data.length + 1) ∧
    costFields t nfc fuel s.decStrict (Reader.new data) ≤ 121 * (data.length + 1) := by
  obtain ⟨_, hdl, hsl, hdec, hstr⟩ := schemaOK_dec (ranked_mem hR hs)
  exact ⟨costFields_le t nfc rank hR _ s.dec hdec hdl fuel data,
    costFields_le t nfc rank hR _ s.decStrict hstr hsl fuel data⟩

/-- the work bound for all generated structs, with the budget `decode` / `decodeStrict` use -/
theorem C09_decode_all_schemas_steps_linear :
    ∀ s ∈ allSchemas, ∀ data : Bytes,
      costFields allSchemas asciiNFC (fuelFor data) s.dec (Reader.new data) ≤
        121 * (data.length + 1) ∧
      costFields allSchemas asciiNFC (fuelFor data) s.decStrict (Reader.new data) ≤
        121 * (data.length + 1) :=
  fun s hs data =>
    C09_decode_steps_linear allSchemas C09rank C09_allSchemas_ranked asciiNFC s hs data _

/-! ### non-vacuity -/

/-- a Bool test for "the outcome is the error `e`" (`Value` has no decidable equality) -/
def C09isError {α : Type} (e : Err) : Except Err α → Bool
  | .error e' => decide (e' = e)
  | .ok _ => false

theorem C09_isError_iff {α : Type} (e : Err) (x : Except Err α) :
    C09isError e x = true ↔ x = .error e := by
  cases x with
  | error e' => simp [C09isError]
  | ok a => simp [C09isError]

/-- the hypotheses of `C09_decode_no_panic` are satisfiable: the block header is in the ranked table -/
example : C09Ranked allSchemas C09rank = true ∧ schema2 ∈ allSchemas ∧
    schema2.name = "blockchain.BlockHeader" ∧ C09rank "sync.GetBlocksFromIDResponse" = 3 := by
  refine ⟨C09_allSchemas_ranked, ?_, rfl, by decide +kernel⟩
  simp [allSchemas]

/-- A block header cut right after the key of field 12 (`impliesMaxPrevotes`, a bool): the byte the
reader wants next is out of range. This input crashed the real reader before `readBool` got a bounds
check; in the model it is `invalidData`, not `panic`. -/
example : decode allSchemas asciiNFC schema2 [0x60] = .error .invalidData :=
  (C09_isError_iff _ _).mp (by decide +kernel)

/-- the same truncation of a full strict header: fields 1–11 present, then the key of field 12 -/
example : decodeStrict allSchemas asciiNFC schema2
    [0x08, 0x02, 0x10, 0x00, 0x18, 0x00, 0x22, 0x00, 0x2a, 0x00, 0x32, 0x00, 0x3a, 0x00, 0x42, 0x00,
     0x4a, 0x00, 0x50, 0x00, 0x58, 0x00, 0x60] = .error .invalidData :=
  (C09_isError_iff _ _).mp (by decide +kernel)

/-- … and inside a block (nested header of declared size 1 holding only that key) -/
example : decode allSchemas asciiNFC schema1 [0x0a, 0x01, 0x60] = .error .invalidData :=
  (C09_isError_iff _ _).mp (by decide +kernel)

/-- the decoder is not trivially failing: the complete strict header decodes -/
example : (decodeStrict allSchemas asciiNFC schema2
    [0x08, 0x02, 0x10, 0x00, 0x18, 0x00, 0x22, 0x00, 0x2a, 0x00, 0x32, 0x00, 0x3a, 0x00, 0x42, 0x00,
     0x4a, 0x00, 0x50, 0x00, 0x58, 0x00, 0x60, 0x01, 0x6a, 0x00, 0x72, 0x00, 0x7a, 0x00]).toBool
    = true := by
  decide +kernel

/-- the rank hypothesis is not redundant: a table with a dangling nested name does panic -/
example :
    let s : Schema := { name := "A", enc := [], dec := [{ num := 1, kind := .msg "B" }], decStrict := [] }
    decode [s] asciiNFC s [0x0a, 0x00] = .error .panic ∧ C09Ranked [s] (fun _ => 0) = false := by
  refine ⟨(C09_isError_iff _ _).mp (by decide +kernel), by decide +kernel⟩

/-- the step counter counts: the one-byte header above takes 12 field reads + 12 list steps -/
example : costFields allSchemas asciiNFC (fuelFor [0x60]) schema2.dec (Reader.new [0x60]) = 24 := by
  decide +kernel
