/-
C20, "concurrent readers always obtain some complete committed tip": the order of the database write and the
in-memory publication of the tip in `Chain.AddBlock` / `Chain.RemoveBlock`, checked on the write skeletons
regenerated from pkg/blockchain/chain.go by tools/wskelgen (`Gen/WriteSkeletons.lean`).

`Props/C20_Data.lean` proves, for the transcribed block cache and a writer whose steps are "write the batch, then
update the cache", that every reader observation is a committed chain state. This file ties that order to the
source: on every path of the regenerated skeletons the cache update comes after the batch was written.
-/
import LiskVerif.Model.Crash
import LiskVerif.Gen.WriteSkeletons

namespace LiskVerif.C20Publish
open LiskVerif.Crash

/-- abstract run over a skeleton: the flag says whether the step's batch has been written on every path reaching
this point; `none` = some path updates the in-memory tip (`cacheUpdate`) before the database write.
Statements after a `ret` are still visited (conservative). -/
def pubOk : Stmt → Bool → Option Bool
  | .skip, w => some w
  | .act (.write _), _ => some true
  | .act .cacheUpdate, w => if w then some w else none
  | .act _, w => some w
  | .seq s t, w => (pubOk s w).bind (pubOk t)
  | .choice s t, w =>
    match pubOk s w, pubOk t w with
    | some a, some b => some (a && b)
    | _, _ => none
  | .loop s, w => (pubOk s w).map (fun _ => w)
  | .scope s, w => pubOk s w
  | .call _ _, w => some w
  | .tryCall c a b, w =>
    (pubOk c w).bind fun w' =>
      match pubOk a w', pubOk b w' with
      | some x, some y => some (x && y)
      | _, _ => none
  | .ret, w => some w
  | .retErr, w => some w
  | .brk, w => some w
  | .cont, w => some w

/-- does the skeleton update the in-memory tip at all (guards against a vacuous check after a rename) -/
def hasCacheUpdate : Stmt → Bool
  | .act .cacheUpdate => true
  | .seq s t => hasCacheUpdate s || hasCacheUpdate t
  | .choice s t => hasCacheUpdate s || hasCacheUpdate t
  | .loop s => hasCacheUpdate s
  | .scope s => hasCacheUpdate s
  | .tryCall c a b => hasCacheUpdate c || hasCacheUpdate a || hasCacheUpdate b
  | _ => false

end LiskVerif.C20Publish

open LiskVerif LiskVerif.Crash LiskVerif.C20Publish

/-- `Chain.AddBlock`: the new tip is pushed into the block cache only after `database.Write(batch)`, on every path
(regenerated skeleton); a reader that obtains the tip from the cache finds all of its data in the database. -/
theorem C20_addBlock_publishes_after_write :
    (pubOk Gen.WS.Chain_AddBlock false).isSome = true ∧ hasCacheUpdate Gen.WS.Chain_AddBlock = true := by
  decide

/-- `Chain.RemoveBlock`: the cache is popped / refilled only after the removal batch was written -/
theorem C20_removeBlock_publishes_after_write :
    (pubOk Gen.WS.Chain_RemoveBlock false).isSome = true ∧ hasCacheUpdate Gen.WS.Chain_RemoveBlock = true := by
  decide

/-- the check is not vacuous: the reordered step (cache push first, as in a seeded change) is rejected -/
theorem C20_publish_before_write_rejected :
    pubOk (Stmt.seqs [.call "DataAccess.saveBlock" [("batch", "batch")], .act .cacheUpdate,
      .act (.write "batch"), .choice .ret .retErr]) false = none := by
  decide
