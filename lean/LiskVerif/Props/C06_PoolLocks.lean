/-
C06, "every aggregate commit the node assembles is accepted by its own verification": the proofs of that clause
(`C06_assembled_accepted`, `C06_reachable_pool_accepted`, `C06_pool_distinct_all_histories`) treat the certificate
pool as a sequential object. The generator (`GetAggregateCommit` → `Pool.Get`), the gossip validators (`Has`/`Add`),
`Certify` and the broadcast loop (`Select`/`Upgrade`/`Cleanup`) call it from different goroutines, so the sequential
reading needs every `Pool` method to run as one critical section of the pool mutex, with every access of the two lists
(`Select` sorts them in place!) under the lock in a mode that allows it. This is the lock discipline checked on the
skeletons regenerated from pkg/consensus/certificate/pool.go (tools/skelgen, group c20), restated here for C06.
-/
import LiskVerif.Props.C20

open LiskVerif LiskVerif.Locks

/-- all `Pool` methods satisfy the lock-discipline criteria (no access of `gossiped` / `nonGossiped` outside the pool
mutex, no write under a read lock, no re-entrant or misordered acquisition, nothing blocking inside) -/
theorem C06_pool_methods_are_critical_sections :
    [Gen.Skeletons.Pool_Size, Gen.Skeletons.Pool_Has, Gen.Skeletons.Pool_Add, Gen.Skeletons.Pool_Cleanup,
     Gen.Skeletons.Pool_Select, Gen.Skeletons.Pool_Get, Gen.Skeletons.Pool_Upgrade].all (criteria C20.cfg) = true :=
  C20_pool_ok
