/-
C19 — tie of the height helpers of `Model/Sync.lean` to the Go source: `getHeightWithGap`
(pkg/consensus/sync/block_sync.go), `getLastHeights` (fast_sync.go) and the `from`/`to` heights of
`HandleRPCEndpointGetBlocksFromID` (sync.go) are REGENERATED from the Go source on every run by
tools/fngen (typed translation, `LiskVerif/Gen/Fns2.lean`) with the exact semantics of `uint32`
(wrap modulo 2^32), `int` (two's complement, `Gen.i64`) and the truncating conversion `uint32(int)`.

The two list-building functions have the shape (checked by the translator, any deviation is a
translation error)

    result := []uint32{}
    [if C { result = append(result, X); return result }]
    for i := 0; i < B; i++ { if G { return result }; next := E; result = append(result, next) }
    return result

and are regenerated as `…Pre` (C ↦ X), `…Bound` (B) and `…Step` (G ↦ none, else E). `C19genLoop` is the
loop of that shape; `C19_gen_height_with_gap_eq` / `C19_gen_last_heights_eq` prove that running it with
the regenerated pieces yields exactly `Sync.getHeightWithGap` / `Sync.getLastHeights`, for every
`uint32` start/minimum and all non-negative `int` gap/num (note that `uint32(i*gap)` is exact modulo
2^32 even when the `int` product wraps).
-/
import LiskVerif.Lemmas.Sync
import LiskVerif.Lemmas.GenInt

open LiskVerif LiskVerif.Sync

/-- the loop `for i := 0; i < bound; i++ { if G { return result }; result = append(result, E) }` of
the shape above, started at counter `i` with `fuel` iterations allowed: the elements appended from
there on -/
def C19genLoop (step : Int → Option Nat) (bound : Int) : Nat → Int → List Nat
  | 0, _ => []
  | f + 1, i =>
    if i < bound then
      match step i with
      | none => []
      | some x => x :: C19genLoop step bound f (Gen.i64 (i + 1))
    else []

/-- `getHeightWithGap` assembled from the regenerated pieces -/
def C19genHeightWithGap (start minimum : Nat) (gap num : Int) (fuel : Nat) : List Nat :=
  match Gen.getHeightWithGapPre start minimum gap num with
  | some x => [x]
  | none => C19genLoop (Gen.getHeightWithGapStep start minimum gap num) (Gen.getHeightWithGapBound start minimum gap num) fuel 0

/-- `getLastHeights` assembled from the regenerated pieces -/
def C19genLastHeights (start : Nat) (num : Int) (fuel : Nat) : List Nat :=
  C19genLoop (Gen.getLastHeightsStep start num) (Gen.getLastHeightsBound start num) fuel 0

private theorem conv_u32 (p : Nat) : Int.toNat (Gen.i64 (p : Int) % 4294967296) = p % 4294967296 := by
  unfold Gen.i64; omega

/-- the regenerated loop body of `getHeightWithGap` is the body of `Sync.gapLoop` — for every
non-negative counter and gap, whether or not the `int` product `i*gap` wraps -/
theorem C19_gen_gap_step_eq (start minimum gap i : Nat) (num : Int) (hs : start < 4294967296)
    (hm : minimum < 4294967296) :
    Gen.getHeightWithGapStep start minimum (gap : Int) num (i : Int) =
      if start < u32 (minimum + u32 (i * gap)) then none else some (u32sub start (u32 (i * gap))) := by
  unfold Gen.getHeightWithGapStep u32 u32sub two32
  have hc : ((i : Int) * (gap : Int)) = ((i * gap : Nat) : Int) := by push_cast; rfl
  rw [hc, conv_u32]
  generalize i * gap = p
  simp only [decide_eq_true_eq]
  by_cases h : start < (minimum + p % 4294967296) % 4294967296
  · rw [if_pos h, if_pos h]
  · rw [if_neg h, if_neg h]
    congr 1
    omega

/-- the regenerated loop body of `getLastHeights` is the body of `Sync.lastLoop` -/
theorem C19_gen_last_step_eq (start i : Nat) (num : Int) (hs : start < 4294967296) :
    Gen.getLastHeightsStep start num (i : Int) =
      if start < u32 i then none else some (u32sub start (u32 i)) := by
  unfold Gen.getLastHeightsStep u32 u32sub two32
  rw [Gen.toNat_emod32]
  simp only [decide_eq_true_eq]
  by_cases h : start < i % 4294967296
  · rw [if_pos h, if_pos h]
  · rw [if_neg h, if_neg h]
    congr 1
    omega

/-- the loop of the fixed shape run with any step function that agrees with the body of a model loop
`mloop` (remaining iterations, counter) on the natural counters -/
private theorem genLoop_generic (step : Int → Option Nat) (bound : Int) (mloop : Nat → Nat → List Nat)
    (body : Nat → Option Nat) (h0 : ∀ i, mloop 0 i = [])
    (hS : ∀ k i, mloop (k + 1) i = match body i with | none => [] | some x => x :: mloop k (i + 1))
    (hstep : ∀ i : Nat, step (i : Int) = body i) :
    ∀ (k fuel i : Nat), (i : Int) + k = bound → k ≤ fuel → i + k < 9223372036854775808 →
      C19genLoop step bound fuel (i : Int) = mloop k i := by
  intro k
  induction k with
  | zero =>
    intro fuel i hb _ _
    rw [h0]
    cases fuel with
    | zero => rfl
    | succ f =>
      have : ¬ ((i : Int) < bound) := by omega
      rw [C19genLoop, if_neg this]
  | succ k ih =>
    intro fuel i hb hf hr
    cases fuel with
    | zero => omega
    | succ f =>
      have hlt : (i : Int) < bound := by omega
      have hi : Gen.i64 ((i : Int) + 1) = ((i + 1 : Nat) : Int) := by
        rw [Gen.i64_eq (by omega) (by omega)]; omega
      rw [C19genLoop, if_pos hlt, hS, hstep, hi]
      cases body i with
      | none => rfl
      | some x =>
        show x :: _ = x :: _
        rw [ih f (i + 1) (by omega) (by omega) (by omega)]

private theorem genLoop_gap (start minimum gap : Nat) (num : Int) (hs : start < 4294967296)
    (hm : minimum < 4294967296) (bound : Int) :
    ∀ (k fuel i : Nat), (i : Int) + k = bound → k ≤ fuel → i + k < 9223372036854775808 →
      C19genLoop (Gen.getHeightWithGapStep start minimum (gap : Int) num) bound fuel (i : Int) =
        gapLoop start minimum gap k i :=
  genLoop_generic _ bound (gapLoop start minimum gap)
    (fun i => if start < u32 (minimum + u32 (i * gap)) then none else some (u32sub start (u32 (i * gap))))
    (fun _ => rfl)
    (fun k i => by
      simp only [gapLoop]
      split <;> rfl)
    (fun i => C19_gen_gap_step_eq start minimum gap i num hs hm)

private theorem genLoop_last (start : Nat) (num : Int) (hs : start < 4294967296) (bound : Int) :
    ∀ (k fuel i : Nat), (i : Int) + k = bound → k ≤ fuel → i + k < 9223372036854775808 →
      C19genLoop (Gen.getLastHeightsStep start num) bound fuel (i : Int) = lastLoop start k i :=
  genLoop_generic _ bound (lastLoop start)
    (fun i => if start < u32 i then none else some (u32sub start (u32 i)))
    (fun _ => rfl)
    (fun k i => by
      simp only [lastLoop]
      split <;> rfl)
    (fun i => C19_gen_last_step_eq start i num hs)

/-- **`getHeightWithGap` regenerated from the Go source = `Sync.getHeightWithGap`** for all `uint32`
`start`, `minimum` and all `int` `gap ≥ 0`, `0 ≤ num < 2^63` (given enough fuel for the `num-1`
iterations) -/
theorem C19_gen_height_with_gap_eq (start minimum gap num fuel : Nat) (hs : start < 4294967296)
    (hm : minimum < 4294967296) (hn : num < 9223372036854775808) (hf : num - 1 ≤ fuel) :
    C19genHeightWithGap start minimum (gap : Int) (num : Int) fuel = getHeightWithGap start minimum gap num := by
  unfold C19genHeightWithGap getHeightWithGap Gen.getHeightWithGapPre
  by_cases h : start ≤ minimum
  · simp [h]
  · simp only [h, decide_false, Bool.false_eq_true, ↓reduceIte]
    have hb : Gen.getHeightWithGapBound start minimum (gap : Int) (num : Int) = (num : Int) - 1 := by
      unfold Gen.getHeightWithGapBound
      exact Gen.i64_eq (by omega) (by omega)
    rw [hb]
    by_cases h0 : num = 0
    · subst h0
      have hn0 : ¬ ((0 : Int) < ((0 : Nat) : Int) - 1) := by omega
      cases fuel with
      | zero => rfl
      | succ f => rw [C19genLoop, if_neg hn0]; rfl
    · exact genLoop_gap start minimum gap (num : Int) hs hm ((num : Int) - 1) (num - 1) fuel 0
        (by omega) hf (by omega)

/-- **`getLastHeights` regenerated from the Go source = `Sync.getLastHeights`** -/
theorem C19_gen_last_heights_eq (start num fuel : Nat) (hs : start < 4294967296)
    (hn : num < 9223372036854775808) (hf : num - 1 ≤ fuel) :
    C19genLastHeights start (num : Int) fuel = getLastHeights start num := by
  unfold C19genLastHeights getLastHeights
  have hb : Gen.getLastHeightsBound start (num : Int) = (num : Int) - 1 := by
    unfold Gen.getLastHeightsBound
    exact Gen.i64_eq (by omega) (by omega)
  rw [hb]
  by_cases h0 : num = 0
  · subst h0
    have hn0 : ¬ ((0 : Int) < ((0 : Nat) : Int) - 1) := by omega
    cases fuel with
    | zero => rfl
    | succ f => rw [C19genLoop, if_neg hn0]; rfl
  · exact genLoop_last start (num : Int) hs ((num : Int) - 1) (num - 1) fuel 0 (by omega) hf (by omega)

/-! ### HandleRPCEndpointGetBlocksFromID -/

/-- the regenerated `from` and `to` are the model's `h + 1` and `min (h + 103) tip` while `h + 103`
is a `uint32` -/
theorem C19_gen_blocks_from_to_eq (h last : Nat) (hh : h + 103 < 4294967296) :
    Gen.blocksFromIDFrom h = h + 1 ∧ Gen.blocksFromIDTo h last = min (h + maxBlocksPerResponse) last := by
  unfold Gen.blocksFromIDFrom Gen.blocksFromIDTo maxBlocksPerResponse
  constructor
  · omega
  · rw [Nat.mod_eq_of_lt hh]

/-- **`Sync.handleBlocksFromID` with the regenerated heights** -/
theorem C19_gen_handle_blocks_from_id_eq {ι : Type} [DecidableEq ι] (okLen : ι → Bool) (c : List (Blk ι))
    (i : ι) (h : Nat) (hok : okLen i = true) (hh : heightOf c i = some h) (hr : h + 103 < 4294967296) :
    handleBlocksFromID okLen c (some i) =
      .blocks ((c.drop (Gen.blocksFromIDFrom h)).take
        (Gen.blocksFromIDTo h (c.length - 1) + 1 - Gen.blocksFromIDFrom h)) := by
  obtain ⟨h1, h2⟩ := C19_gen_blocks_from_to_eq h (c.length - 1) hr
  rw [h1, h2]
  simp [handleBlocksFromID, hok, hh]

/-- outside the range the `uint32` sum `Height+103` wraps: for a requested block at height
`2^32 - 103` the Go code computes `to = 0 < from` (no blocks) where the model would return the blocks
up to the tip. Needs a chain of more than 2^32 - 103 blocks. -/
theorem C19_gen_blocks_to_wraps :
    Gen.blocksFromIDTo 4294967193 4294967295 = 0 ∧ min (4294967193 + maxBlocksPerResponse) 4294967295 = 4294967295 := by
  decide +kernel

/-! ### non-vacuity -/

example : C19genHeightWithGap 100 10 7 5 10 = [100, 93, 86, 79] ∧ getHeightWithGap 100 10 7 5 = [100, 93, 86, 79] ∧
    C19genHeightWithGap 5 10 7 5 10 = [10] ∧ C19genHeightWithGap 20 10 7 5 10 = [20, 13] ∧
    C19genLastHeights 3 10 20 = [3, 2, 1, 0] ∧ getLastHeights 3 10 = [3, 2, 1, 0] := by decide +kernel

example : Gen.blocksFromIDFrom 7 = 8 ∧ Gen.blocksFromIDTo 7 50 = 50 ∧ Gen.blocksFromIDTo 7 500 = 110 := by decide +kernel
