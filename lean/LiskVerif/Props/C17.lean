/-
C17 — P2P request/response: correct correlation, no lost replies, no deadlock.

Theorems about the interleaving model `LiskVerif.ReqResp` (Model/ReqResp.lean) of
pkg/p2p/message_protocol.go.  `step` is the FIXED protocol (channel of capacity 1 registered before
the request is sent, non-blocking delivery under `resMu`, entry removed when the send fails); all
theorems about it hold for every reachable state, i.e. for any number of requester threads (each
with any retry budget), any number of response-handler threads, every interleaving, and every
behaviour of the network (responses delivered, delayed, dropped, duplicated, delivered late).
`stepO` is the ORIGINAL skeleton; the two counterexample theorems exhibit a concrete reachable
deadlock and a concrete lost reply (both were reproduced on the real code by the harness).

`P : Nat → Nat` is the remote handler (request id ↦ payload of its answer).
The inductive invariant and its preservation are in Lemmas/ReqResp.lean.
-/
import LiskVerif.Lemmas.ReqResp

open LiskVerif LiskVerif.ReqResp

/-! ### correlation -/

/-- A requester only ever receives (and only ever has in its channel) the response the remote
handler produced for the id of its own current attempt. -/
theorem C17_correlation (P : Nat → Nat) (s : State) (hs : Reachable P s)
    (i : Nat) (r : Req) (hr : s.reqs[i]? = some r) :
    (∀ m, r.out = some (.got m) → m.rid = r.id ∧ m.payload = P r.id) ∧
    (∀ m, r.buf = some m → m.rid = r.id ∧ m.payload = P r.id) := by
  have hI := inv_reachable P s hs
  constructor
  · intro m hm
    have := hI.outOk i r m hr hm
    subst this; exact ⟨rfl, rfl⟩
  · intro m hm
    have := hI.bufOk i r m hr hm
    subst this; exact ⟨rfl, rfl⟩

/-- Ids are fresh: two different requester threads never work on the same id, no id is ever put on
the wire twice (over all attempts of all requesters), and every response in flight or being handled
answers a request that was actually sent. -/
theorem C17_fresh_ids (P : Nat → Nat) (s : State) (hs : Reachable P s) :
    (∀ (i i' : Nat) (r r' : Req), s.reqs[i]? = some r → s.reqs[i']? = some r' → i ≠ i' →
        r.pc ≠ .start → r'.pc ≠ .start → r.id ≠ r'.id) ∧
    s.sent.Nodup ∧
    (∀ m : Resp, m ∈ s.net → m.rid ∈ s.sent ∧ m.payload = P m.rid) ∧
    (∀ (j : Nat) (h : Hdl), s.hdls[j]? = some h → h.msg.rid ∈ s.sent ∧ h.msg.payload = P h.msg.rid) := by
  have hI := inv_reachable P s hs
  exact ⟨hI.uniq, hI.sentNodup, fun m hm => ⟨hI.netSent m hm, hI.netOk m hm⟩,
    fun j h hh => ⟨hI.msgSent j h hh, hI.msgOk j h hh⟩⟩

/-- A response handler only ever sends on the channel that the requester of that very id
registered, and that requester is still between registration and unregistration. -/
theorem C17_delivery_target (P : Nat → Nat) (s : State) (hs : Reachable P s)
    (j : Nat) (h : Hdl) (ch : Nat) (hh : s.hdls[j]? = some h) (hpc : h.pc = .deliver ch) :
    ∃ r, s.reqs[ch]? = some r ∧ r.id = h.msg.rid ∧ r.pc.registered = true := by
  have hI := inv_reachable P s hs
  exact hI.chSound _ _ (mem_of_lookup _ _ _ (hI.target j h ch hh hpc))

/-! ### no lost reply -/

/-- (a) While a requester sits in its `select` (and already while it sends) its channel is found
under its id, so a response handled now is handed to it; (b) once a response has been handed to the
channel while the requester was in its `select` (`arrived`), the attempt can no longer end by
timeout or send error: the response is in the channel as long as the requester waits, the timeout
branch is disabled, and the outcome is that very response (or the caller's own cancellation). -/
theorem C17_no_lost_reply (P : Nat → Nat) (s : State) (hs : Reachable P s)
    (i : Nat) (r : Req) (hr : s.reqs[i]? = some r) :
    ((r.pc = .send ∨ r.pc = .wait) → s.resCh.lookup r.id = some i) ∧
    (r.arrived = true →
      r.out ≠ some .timeout ∧ r.out ≠ some .sendErr ∧
      (r.pc = .wait → r.buf = some ⟨r.id, P r.id⟩ ∧ step P s (.rTimeout i) = none) ∧
      (∀ m, r.out = some (.got m) → m = ⟨r.id, P r.id⟩)) := by
  have hI := inv_reachable P s hs
  constructor
  · intro hpc
    apply hI.regd i r hr
    rcases hpc with h | h <;> simp [h, RPc.registered]
  · intro ha
    have hg := hI.ghost i r hr ha
    have hb := hI.bufOk i r
    have hn := hI.outNone i r hr
    refine ⟨?_, ?_, ?_, fun m hm => hI.outOk i r m hr hm⟩
    · rcases hg with ⟨hw, _⟩ | ⟨m, hm⟩ | hc
      · have := hn (by simp [hw, RPc.preWait]); simp [this]
      · simp [hm]
      · simp [hc]
    · rcases hg with ⟨hw, _⟩ | ⟨m, hm⟩ | hc
      · have := hn (by simp [hw, RPc.preWait]); simp [this]
      · simp [hm]
      · simp [hc]
    · intro hw
      have hno := hn (by simp [hw, RPc.preWait])
      rcases hg with ⟨_, hsome⟩ | ⟨m, hm⟩ | hc
      · cases hbuf : r.buf with
        | none => simp [hbuf] at hsome
        | some m =>
          have := hb m hr hbuf
          subst this
          refine ⟨rfl, ?_⟩
          simp [step, hr, hbuf]
      · simp [hno] at hm
      · simp [hno] at hc

/-- The delivery step itself: when `onResponse` sends on the channel of a requester that sits in
its `select`, the response handed over (or an identical one already buffered) is in the channel
afterwards and the requester is marked `arrived` — from then on `C17_no_lost_reply` applies. -/
theorem C17_delivery_reaches_waiting_requester (P : Nat → Nat) (s s' : State) (hs : Reachable P s)
    (j : Nat) (h : Hdl) (ch : Nat) (r : Req)
    (hh : s.hdls[j]? = some h) (hpc : h.pc = .deliver ch) (hr : s.reqs[ch]? = some r)
    (hw : r.pc = .wait) (hstep : step P s (.hStep j) = some s') :
    ∃ r', s'.reqs[ch]? = some r' ∧ r'.pc = .wait ∧ r'.id = r.id ∧ r'.arrived = true ∧
      r'.buf = some ⟨r.id, P r.id⟩ ∧ h.msg = ⟨r.id, P r.id⟩ := by
  have hI := inv_reachable P s hs
  have hI' := inv_step P s s' _ hI hstep
  obtain ⟨r0, hr0, hid, _⟩ := C17_delivery_target P s hs j h ch hh hpc
  rw [hr] at hr0; cases hr0
  have hlt : ch < s.reqs.length := (List.getElem?_eq_some_iff.mp hr).1
  have hmsg : h.msg = ⟨r.id, P r.id⟩ := by
    have h2 := hI.msgOk j h hh
    cases hm : h.msg with
    | mk rid pl => rw [hm] at h2 hid; simp at h2 hid; rw [h2, hid]
  simp only [step, hh, stepHdl, hpc, hr] at hstep
  cases hstep
  refine ⟨_, List.getElem?_set_self hlt, hw, rfl, by simp [hw], ?_, hmsg⟩
  cases hb : r.buf with
  | none => simp [hmsg]
  | some m => have := hI.bufOk ch r m hr hb; simp [this]

/-! ### deadlock freedom -/

private theorem req_enabled (P : Nat → Nat) (s : State) (i : Nat) (r : Req)
    (hr : s.reqs[i]? = some r) (hnd : r.pc ≠ .done)
    (hl : s.lock = none ∨ r.pc.holds = true) :
    ∃ a, a.isThread = true ∧ (step P s a).isSome = true := by
  cases hpc : r.pc with
  | start => exact ⟨.rStep i, rfl, by simp [step, hr, stepReq, hpc]⟩
  | regLock =>
    have : s.lock = none := by rcases hl with h | h; exact h; simp [hpc, RPc.holds] at h
    exact ⟨.rStep i, rfl, by simp [step, hr, stepReq, hpc, this]⟩
  | regStore => exact ⟨.rStep i, rfl, by simp [step, hr, stepReq, hpc]⟩
  | regUnlock => exact ⟨.rStep i, rfl, by simp [step, hr, stepReq, hpc]⟩
  | send => exact ⟨.rSendOk i, rfl, by simp [step, hr, hpc]⟩
  | wait =>
    cases hb : r.buf with
    | none => exact ⟨.rTimeout i, rfl, by simp [step, hr, hpc, hb]⟩
    | some m => exact ⟨.rRecv i, rfl, by simp [step, hr, hpc, hb]⟩
  | unLock =>
    have : s.lock = none := by rcases hl with h | h; exact h; simp [hpc, RPc.holds] at h
    exact ⟨.rStep i, rfl, by simp [step, hr, stepReq, hpc, this]⟩
  | unDelete => exact ⟨.rStep i, rfl, by simp [step, hr, stepReq, hpc]⟩
  | unUnlock => exact ⟨.rStep i, rfl, by simp [step, hr, stepReq, hpc]⟩
  | done => exact absurd hpc hnd

private theorem hdl_enabled (P : Nat → Nat) (s : State) (j : Nat) (h : Hdl)
    (hh : s.hdls[j]? = some h) (hnd : h.pc ≠ .done)
    (hl : s.lock = none ∨ h.pc.holds = true) :
    (step P s (.hStep j)).isSome = true := by
  cases hpc : h.pc with
  | lock =>
    have : s.lock = none := by rcases hl with h | h; exact h; simp [hpc, HPc.holds] at h
    simp [step, hh, stepHdl, hpc, this]
  | lookup =>
    simp only [step, hh, stepHdl, hpc]
    cases s.resCh.lookup h.msg.rid <;> simp
  | deliver ch =>
    simp only [step, hh, stepHdl, hpc]
    cases s.reqs[ch]? <;> simp
  | unlock => simp [step, hh, stepHdl, hpc]
  | done => exact absurd hpc hnd

/-- The holder of `resMu` can always execute its next statement: no thread ever waits (on a
channel or on anything else) while it holds the lock. -/
theorem C17_lock_holder_never_blocks (P : Nat → Nat) (s : State) (hs : Reachable P s)
    (t : Tid) (ht : s.lock = some t) :
    match t with
    | .req i => ∃ r, s.reqs[i]? = some r ∧ r.pc.holds = true ∧ (step P s (.rStep i)).isSome = true
    | .hdl j => ∃ h, s.hdls[j]? = some h ∧ h.pc.holds = true ∧ (step P s (.hStep j)).isSome = true := by
  have hI := inv_reachable P s hs
  cases t with
  | req i =>
    have hlt := hI.lockExR i ht
    have hr : s.reqs[i]? = some s.reqs[i] := List.getElem?_eq_getElem hlt
    have hh := (hI.lockReq i _ hr).mpr ht
    refine ⟨_, hr, hh, ?_⟩
    generalize s.reqs[i] = r at hr hh
    cases hpc : r.pc <;> simp [hpc, RPc.holds] at hh <;> simp [step, hr, stepReq, hpc]
  | hdl j =>
    have hlt := hI.lockExH j ht
    have hr : s.hdls[j]? = some s.hdls[j] := List.getElem?_eq_getElem hlt
    have hh := (hI.lockHdl j _ hr).mpr ht
    refine ⟨_, hr, hh, ?_⟩
    apply hdl_enabled P s j _ hr _ (Or.inr hh)
    intro hd; simp [hd, HPc.holds] at hh

/-- Threads are only ever blocked by `resMu`: every thread that is not done and is not about to
acquire the (currently held) lock can execute a statement. -/
theorem C17_only_the_lock_blocks (P : Nat → Nat) (s : State) :
    (∀ (i : Nat) (r : Req), s.reqs[i]? = some r → r.pc ≠ .done → ¬ (r.pc = .regLock ∨ r.pc = .unLock) →
      ∃ a, a.isThread = true ∧ (step P s a).isSome = true) ∧
    (∀ (j : Nat) (h : Hdl), s.hdls[j]? = some h → h.pc ≠ .done → h.pc ≠ .lock →
      (step P s (.hStep j)).isSome = true) := by
  constructor
  · intro i r hr hnd hnl
    cases hpc : r.pc with
    | start => exact ⟨.rStep i, rfl, by simp [step, hr, stepReq, hpc]⟩
    | regLock => simp [hpc] at hnl
    | regStore => exact ⟨.rStep i, rfl, by simp [step, hr, stepReq, hpc]⟩
    | regUnlock => exact ⟨.rStep i, rfl, by simp [step, hr, stepReq, hpc]⟩
    | send => exact ⟨.rSendOk i, rfl, by simp [step, hr, hpc]⟩
    | wait =>
      cases hb : r.buf with
      | none => exact ⟨.rTimeout i, rfl, by simp [step, hr, hpc, hb]⟩
      | some m => exact ⟨.rRecv i, rfl, by simp [step, hr, hpc, hb]⟩
    | unLock => simp [hpc] at hnl
    | unDelete => exact ⟨.rStep i, rfl, by simp [step, hr, stepReq, hpc]⟩
    | unUnlock => exact ⟨.rStep i, rfl, by simp [step, hr, stepReq, hpc]⟩
    | done => exact absurd hpc hnd
  · intro j h hh hnd hnl
    cases hpc : h.pc with
    | lock => exact absurd hpc hnl
    | lookup =>
      simp only [step, hh, stepHdl, hpc]
      cases s.resCh.lookup h.msg.rid <;> simp
    | deliver ch =>
      simp only [step, hh, stepHdl, hpc]
      cases s.reqs[ch]? <;> simp
    | unlock => simp [step, hh, stepHdl, hpc]
    | done => exact absurd hpc hnd

/-- Deadlock freedom: in every reachable state either all threads are done or some thread
(requester or handler — the environment is not needed) can execute a statement. -/
theorem C17_deadlock_free (P : Nat → Nat) (s : State) (hs : Reachable P s) :
    allDone s = true ∨ ∃ a, a.isThread = true ∧ (step P s a).isSome = true := by
  cases hl : s.lock with
  | some t =>
    right
    have := C17_lock_holder_never_blocks P s hs t hl
    cases t with
    | req i => obtain ⟨_, _, _, h⟩ := this; exact ⟨.rStep i, rfl, h⟩
    | hdl j => obtain ⟨_, _, _, h⟩ := this; exact ⟨.hStep j, rfl, h⟩
  | none =>
    by_cases hd : allDone s = true
    · exact Or.inl hd
    · right
      have hd' : s.reqs.all reqDone = false ∨ s.hdls.all hdlDone = false := by
        cases h1 : s.reqs.all reqDone <;> cases h2 : s.hdls.all hdlDone <;> simp [allDone, h1, h2] at hd ⊢
      rcases hd' with hd' | hd'
      · obtain ⟨r, hmem, hnd⟩ := List.all_eq_false.mp hd'
        obtain ⟨i, hi⟩ := List.getElem?_of_mem hmem
        apply req_enabled P s i r hi _ (Or.inl hl)
        intro hp; simp [reqDone, hp] at hnd
      · obtain ⟨h, hmem, hnd⟩ := List.all_eq_false.mp hd'
        obtain ⟨j, hj⟩ := List.getElem?_of_mem hmem
        refine ⟨.hStep j, rfl, hdl_enabled P s j h hj ?_ (Or.inl hl)⟩
        intro hp; simp [hdlDone, hp] at hnd

/-! ### no leak -/

/-- The pending map contains exactly the attempts in progress: an entry `(id, ch)` is present iff
requester `ch` currently works on `id` and is between registration and unregistration. -/
theorem C17_pending_exact (P : Nat → Nat) (s : State) (hs : Reachable P s) (id ch : Nat) :
    s.resCh.lookup id = some ch ↔ ∃ r, s.reqs[ch]? = some r ∧ r.id = id ∧ r.pc.registered = true := by
  have hI := inv_reachable P s hs
  constructor
  · intro h; exact hI.chSound _ _ (mem_of_lookup _ _ _ h)
  · rintro ⟨r, hr, rfl, hp⟩; exact hI.regd ch r hr hp

/-- No leak: once every requester is done, `resCh` is empty (whatever the handlers and the network
still do); more generally the map never holds more entries than there are attempts in progress. -/
theorem C17_no_leak (P : Nat → Nat) (s : State) (hs : Reachable P s)
    (hd : ∀ r ∈ s.reqs, r.pc = .done) : s.resCh = [] := by
  have hI := inv_reachable P s hs
  apply List.eq_nil_iff_forall_not_mem.mpr
  rintro ⟨id, ch⟩ hmem
  obtain ⟨r, hr, _, hp⟩ := hI.chSound id ch hmem
  have := hd r (List.mem_of_getElem? hr)
  simp [this, RPc.registered] at hp

/-! ### termination measure (timeout and retry budget) -/

def C17pcRank : RPc → Nat
  | .start => 9 | .regLock => 8 | .regStore => 7 | .regUnlock => 6 | .send => 5 | .wait => 4
  | .unLock => 3 | .unDelete => 2 | .unUnlock => 1 | .done => 0

/-- statements a requester may still execute: at most 10 per attempt, `retries + 1` attempts -/
def C17rank (r : Req) : Nat := r.retries * 10 + C17pcRank r.pc

def C17actor : Action → Option Nat
  | .rStep i | .rSendOk i | .rSendErr i | .rRecv i | .rTimeout i | .rCancel i => some i
  | _ => none

private theorem rStep_shape (P : Nat → Nat) (s s' : State) (k : Nat) (hstep : step P s (.rStep k) = some s') :
    ∃ rk rk', s.reqs[k]? = some rk ∧ s'.reqs = s.reqs.set k rk' ∧ C17rank rk' < C17rank rk := by
  simp only [step] at hstep
  cases hk : s.reqs[k]? with
  | none => simp [hk] at hstep
  | some rk =>
    simp only [hk, stepReq] at hstep
    refine ⟨rk, ?_⟩
    cases hpc : rk.pc <;> simp only [hpc] at hstep
    case start => cases hstep; exact ⟨_, rfl, rfl, by simp [C17rank, C17pcRank, hpc]⟩
    case regLock =>
      split at hstep
      · cases hstep; exact ⟨_, rfl, rfl, by simp [C17rank, C17pcRank, hpc]⟩
      · cases hstep
    case regStore => cases hstep; exact ⟨_, rfl, rfl, by simp [C17rank, C17pcRank, hpc]⟩
    case regUnlock => cases hstep; exact ⟨_, rfl, rfl, by simp [C17rank, C17pcRank, hpc]⟩
    case unLock =>
      split at hstep
      · cases hstep; exact ⟨_, rfl, rfl, by simp [C17rank, C17pcRank, hpc]⟩
      · cases hstep
    case unDelete => cases hstep; exact ⟨_, rfl, rfl, by simp [C17rank, C17pcRank, hpc]⟩
    case unUnlock =>
      cases hstep
      refine ⟨_, rfl, rfl, ?_⟩
      unfold afterAttempt
      split
      · next h => simp only [C17rank, C17pcRank, hpc]; omega
      · simp only [C17rank, C17pcRank, hpc]; omega
    all_goals cases hstep

private theorem rSel_shape (P : Nat → Nat) (s s' : State) (a : Action) (k : Nat)
    (ha : a = .rSendOk k ∨ a = .rSendErr k ∨ a = .rRecv k ∨ a = .rTimeout k ∨ a = .rCancel k)
    (hstep : step P s a = some s') :
    ∃ rk rk', s.reqs[k]? = some rk ∧ s'.reqs = s.reqs.set k rk' ∧ C17rank rk' < C17rank rk := by
  rcases ha with rfl | rfl | rfl | rfl | rfl <;> simp only [step] at hstep <;>
    (cases hk : s.reqs[k]? with
     | none => simp [hk] at hstep
     | some rk => ?_) <;> simp only [hk] at hstep <;> refine ⟨rk, ?_⟩
  · split at hstep
    · next hpc => cases hstep; exact ⟨_, rfl, rfl, by simp [C17rank, C17pcRank, hpc]⟩
    · cases hstep
  · split at hstep
    · next hpc => cases hstep; exact ⟨_, rfl, rfl, by simp [C17rank, C17pcRank, hpc]⟩
    · cases hstep
  · split at hstep
    · next hpc =>
      split at hstep
      · cases hstep; exact ⟨_, rfl, rfl, by simp [C17rank, C17pcRank, hpc]⟩
      · cases hstep
    · cases hstep
  · split at hstep
    · next hpc => cases hstep; exact ⟨_, rfl, rfl, by simp [C17rank, C17pcRank, hpc.1]⟩
    · cases hstep
  · split at hstep
    · next hpc => cases hstep; exact ⟨_, rfl, rfl, by simp [C17rank, C17pcRank, hpc]⟩
    · cases hstep

private theorem env_reqs (P : Nat → Nat) (s s' : State) (a : Action) (hstep : stepEnv P s a = some s') :
    ∀ (i : Nat) (r : Req), s.reqs[i]? = some r → s'.reqs[i]? = some r := by
  intro i r hr
  cases a <;> simp only [stepEnv] at hstep
  case nRespond id => split at hstep <;> cases hstep; exact hr
  case nDup k => split at hstep <;> cases hstep; exact hr
  case nDrop k => split at hstep <;> cases hstep; exact hr
  case nDeliver k => split at hstep <;> cases hstep; exact hr
  case spawn b =>
    cases hstep
    have hlt : i < s.reqs.length := (List.getElem?_eq_some_iff.mp hr).1
    simp [List.getElem?_append_left hlt, hr]
  all_goals cases hstep

/-- Every statement of requester `i` strictly decreases its rank and nobody else changes it: a
call of `request` with retry budget `b` executes at most `10 * b + 9` statements, i.e. it ends after
at most `b + 1` attempts (each waits in its select for at most the timeout, since the timeout branch
is enabled whenever the channel is empty). -/
theorem C17_within_retry_budget (P : Nat → Nat) (s s' : State) (a : Action)
    (hstep : step P s a = some s') (i : Nat) (r : Req) (hr : s.reqs[i]? = some r) :
    ∃ r', s'.reqs[i]? = some r' ∧ C17rank r' ≤ C17rank r ∧
      (C17actor a = some i → C17rank r' < C17rank r) := by
  have hlti : i < s.reqs.length := (List.getElem?_eq_some_iff.mp hr).1
  have fromShape : ∀ k, C17actor a = some k →
      (∃ rk rk', s.reqs[k]? = some rk ∧ s'.reqs = s.reqs.set k rk' ∧ C17rank rk' < C17rank rk) →
      ∃ r', s'.reqs[i]? = some r' ∧ C17rank r' ≤ C17rank r ∧
        (C17actor a = some i → C17rank r' < C17rank r) := by
    rintro k hact ⟨rk, rk', hk, hs', hlt⟩
    by_cases hki : k = i
    · subst hki
      rw [hr] at hk; cases hk
      exact ⟨rk', by rw [hs']; exact List.getElem?_set_self hlti, Nat.le_of_lt hlt, fun _ => hlt⟩
    · refine ⟨r, by rw [hs', List.getElem?_set_ne hki]; exact hr, Nat.le_refl _, ?_⟩
      intro h; rw [hact] at h; cases h; exact absurd rfl hki
  have fromEnv : stepEnv P s a = some s' → C17actor a = none →
      ∃ r', s'.reqs[i]? = some r' ∧ C17rank r' ≤ C17rank r ∧
        (C17actor a = some i → C17rank r' < C17rank r) := by
    intro he hn
    exact ⟨r, env_reqs P s s' a he i r hr, Nat.le_refl _, by simp [hn]⟩
  cases a with
  | hStep j =>
    obtain ⟨h, hh, hc⟩ := hStep_cases P s s' j hstep
    rcases hc with ⟨_, _, rfl⟩ | ⟨_, _, _, rfl⟩ | ⟨_, _, rfl⟩ | ⟨ch, r0, _, hr0, rfl⟩ | ⟨_, _, _, rfl⟩ | ⟨_, rfl⟩
    all_goals first
      | exact ⟨r, hr, Nat.le_refl _, by simp [C17actor]⟩
      | (by_cases hc : ch = i
         · subst hc
           rw [hr] at hr0; cases hr0
           exact ⟨_, List.getElem?_set_self hlti, by simp [C17rank], by simp [C17actor]⟩
         · exact ⟨r, by simpa [List.getElem?_set_ne hc] using hr, Nat.le_refl _, by simp [C17actor]⟩)
  | rStep k => exact fromShape k rfl (rStep_shape P s s' k hstep)
  | rSendOk k => exact fromShape k rfl (rSel_shape P s s' _ k (by simp) hstep)
  | rSendErr k => exact fromShape k rfl (rSel_shape P s s' _ k (by simp) hstep)
  | rRecv k => exact fromShape k rfl (rSel_shape P s s' _ k (by simp) hstep)
  | rTimeout k => exact fromShape k rfl (rSel_shape P s s' _ k (by simp) hstep)
  | rCancel k => exact fromShape k rfl (rSel_shape P s s' _ k (by simp) hstep)
  | nRespond id => exact fromEnv hstep rfl
  | nDup k => exact fromEnv hstep rfl
  | nDrop k => exact fromEnv hstep rfl
  | nDeliver k => exact fromEnv hstep rfl
  | spawn b => exact fromEnv hstep rfl

/-! ### the original (unfixed) skeleton: concrete counterexamples -/

/-- a concrete remote handler for the evaluated traces -/
def C17P (id : Nat) : Nat := id + 100

private theorem reachableO_of_runO (P : Nat → Nat) (l : List Action) :
    ∀ s s', ReachableO P s → runO P s l = some s' → ReachableO P s' := by
  induction l with
  | nil => intro s s' hs h; simp [runO] at h; subst h; exact hs
  | cons a l ih =>
    intro s s' hs h
    simp only [runO] at h
    cases hstep : stepO P s a with
    | none => simp [hstep] at h
    | some s1 => simp only [hstep] at h; exact ih s1 s' (.step a hs hstep) h

private theorem reachable_of_run (P : Nat → Nat) (l : List Action) :
    ∀ s s', Reachable P s → run P s l = some s' → Reachable P s' := by
  induction l with
  | nil => intro s s' hs h; simp [run] at h; subst h; exact hs
  | cons a l ih =>
    intro s s' hs h
    simp only [run] at h
    cases hstep : step P s a with
    | none => simp [hstep] at h
    | some s1 => simp only [hstep] at h; exact ih s1 s' (.step a hs hstep) h

/-- Schedule of the original code that deadlocks: one request, whose response is looked up by
`onResponse` (holding `resMu`) at the instant the requester leaves its `select` by timeout. -/
def C17_origDeadlockTrace : List Action :=
  [.spawn 0, .rStep 0, .rSendOk 0,        -- create the message, send it
   .rStep 0, .rStep 0, .rStep 0,          -- make(chan), Lock, resCh[id] = ch, Unlock: now in the select
   .nRespond 0, .nDeliver 0,              -- the remote handler answers, the response reaches onResponse
   .hStep 0, .hStep 0,                    -- onResponse: Lock, lookup finds the channel
   .rTimeout 0]                           -- the requester's timer fires first

/-- the state reached: the handler holds `resMu` and is about to send on the unbuffered channel, the
requester has left its select and is about to `Lock` in order to unregister -/
def C17_origDeadlockState : State :=
  { lock := some (.hdl 0), resCh := [(0, 0)],
    reqs := [{ pc := .unLock, id := 0, buf := none, out := some .timeout, retries := 0, arrived := false }],
    hdls := [{ pc := .deliver 0, msg := ⟨0, 100⟩ }],
    net := [], sent := [0], nextId := 1, unknown := [] }

/-- invariant of the deadlocked configuration -/
structure C17Stuck (s : State) : Prop where
  lock : s.lock = some (.hdl 0)
  h0 : ∃ h, s.hdls[0]? = some h ∧ h.pc = .deliver 0
  r0 : ∃ r, s.reqs[0]? = some r ∧ r.pc = .unLock
  hs : ∀ (j : Nat) (h : Hdl), j ≠ 0 → s.hdls[j]? = some h → h.pc = .lock ∨ h.pc = .done
  rs : ∀ (i : Nat) (r : Req), i ≠ 0 → s.reqs[i]? = some r →
    r.pc = .start ∨ r.pc = .send ∨ r.pc = .regLock ∨ r.pc = .done

private theorem stuck_step (P : Nat → Nat) (s s' : State) (a : Action) (hS : C17Stuck s)
    (h : stepO P s a = some s') : C17Stuck s' := by
  obtain ⟨h1, h2, h3, h4, h5⟩ := hS
  cases a <;> simp only [stepO] at h <;> constructor <;>
    grind [stepReqO, stepHdlO, stepEnv, afterAttempt, RPc.holds, newReq]

private theorem stuck_no_thread_step (P : Nat → Nat) (s : State) (hS : C17Stuck s) (a : Action)
    (ha : a.isThread = true) : stepO P s a = none ∨
      ∃ i, i ≠ 0 ∧ (a = .rStep i ∨ a = .rSendOk i ∨ a = .rSendErr i ∨ a = .rTimeout i ∨ a = .rCancel i) := by
  obtain ⟨h1, ⟨h0, hh0, hp0⟩, ⟨r0, hr0, hq0⟩, h4, h5⟩ := hS
  cases a <;> simp only [Action.isThread] at ha
  case rStep i =>
    by_cases hi : i = 0
    · subst hi; left; simp [stepO, hr0, stepReqO, hq0, h1]
    · exact Or.inr ⟨i, hi, Or.inl rfl⟩
  case rSendOk i =>
    by_cases hi : i = 0
    · subst hi; left; simp [stepO, hr0, hq0]
    · exact Or.inr ⟨i, hi, by simp⟩
  case rSendErr i =>
    by_cases hi : i = 0
    · subst hi; left; simp [stepO, hr0, hq0]
    · exact Or.inr ⟨i, hi, by simp⟩
  case rRecv i => left; simp [stepO]
  case rTimeout i =>
    by_cases hi : i = 0
    · subst hi; left; simp [stepO, hr0, hq0]
    · exact Or.inr ⟨i, hi, by simp⟩
  case rCancel i =>
    by_cases hi : i = 0
    · subst hi; left; simp [stepO, hr0, hq0]
    · exact Or.inr ⟨i, hi, by simp⟩
  case hStep j =>
    left
    by_cases hj : j = 0
    · subst hj; simp [stepO, hh0, stepHdlO, hp0, hr0, hq0]
    · simp only [stepO]
      cases hh : s.hdls[j]? with
      | none => rfl
      | some h =>
        rcases h4 j h hj hh with hp | hp <;> simp [stepHdlO, hp, h1]
  all_goals exact absurd ha (by simp)

/-- (b) of the design notes, on the ORIGINAL skeleton: the schedule above is executable and leads to
a state in which not all threads are done and NO thread can execute a statement (the handler is
blocked on the unbuffered channel while holding `resMu`, the requester is blocked on `resMu`).
Moreover the deadlock is permanent and contagious: whatever happens afterwards (new requests, new
responses, any schedule), `resMu` stays held by that handler, the first request never returns, no
later `onResponse` gets past `Lock`, and no later request ever reaches its select (it either fails
to send or blocks forever on `resMu.Lock()` after sending). -/
theorem C17_original_deadlocks_counterexample :
    runO C17P init C17_origDeadlockTrace = some C17_origDeadlockState ∧
    ReachableO C17P C17_origDeadlockState ∧
    allDone C17_origDeadlockState = false ∧
    (∀ a, a.isThread = true → stepO C17P C17_origDeadlockState a = none) ∧
    (∀ l s', runO C17P C17_origDeadlockState l = some s' →
      s'.lock = some (.hdl 0) ∧
      (∃ r, s'.reqs[0]? = some r ∧ r.pc = .unLock) ∧
      (∀ j h, j ≠ 0 → s'.hdls[j]? = some h → h.pc = .lock ∨ h.pc = .done) ∧
      (∀ i r, i ≠ 0 → s'.reqs[i]? = some r →
        r.pc = .start ∨ r.pc = .send ∨ r.pc = .regLock ∨ r.pc = .done)) := by
  have hrun : runO C17P init C17_origDeadlockTrace = some C17_origDeadlockState := by decide
  have hstuck : C17Stuck C17_origDeadlockState := by
    refine ⟨rfl, ⟨_, rfl, rfl⟩, ⟨_, rfl, rfl⟩, ?_, ?_⟩
    · intro j h hj hh
      have : C17_origDeadlockState.hdls[j]? = none := by
        cases j with
        | zero => exact absurd rfl hj
        | succ j => simp [C17_origDeadlockState]
      rw [this] at hh; cases hh
    · intro i r hi hh
      have : C17_origDeadlockState.reqs[i]? = none := by
        cases i with
        | zero => exact absurd rfl hi
        | succ i => simp [C17_origDeadlockState]
      rw [this] at hh; cases hh
  refine ⟨hrun, reachableO_of_runO C17P _ _ _ .init hrun, by decide, ?_, ?_⟩
  · intro a ha
    rcases stuck_no_thread_step C17P _ hstuck a ha with h | ⟨i, hi, h⟩
    · exact h
    · have hnone : C17_origDeadlockState.reqs[i]? = none := by
        cases i with
        | zero => exact absurd rfl hi
        | succ i => simp [C17_origDeadlockState]
      rcases h with rfl | rfl | rfl | rfl | rfl <;> simp [stepO, hnone]
  · intro l
    suffices H : ∀ s, C17Stuck s → ∀ s', runO C17P s l = some s' → C17Stuck s' by
      intro s' hr
      have hS := H _ hstuck s' hr
      exact ⟨hS.lock, hS.r0, hS.hs, hS.rs⟩
    induction l with
    | nil => intro s hS s' h; simp [runO] at h; subst h; exact hS
    | cons a l ih =>
      intro s hS s' h
      simp only [runO] at h
      cases hstep : stepO C17P s a with
      | none => simp [hstep] at h
      | some s1 => simp only [hstep] at h; exact ih s1 (stuck_step C17P s s1 a hS hstep) s' h

/-- Schedule of the original code that loses a reply: the response overtakes the registration. -/
def C17_origLostReplyTrace : List Action :=
  [.spawn 0, .rStep 0, .rSendOk 0,                -- create the message and send it (nothing registered yet)
   .nRespond 0, .nDeliver 0,                      -- the remote handler answers at once
   .hStep 0, .hStep 0, .hStep 0,                  -- onResponse: Lock, lookup fails ("unknown request ID"), Unlock
   .rStep 0, .rStep 0, .rStep 0,                  -- only now: make(chan), Lock, resCh[id] = ch, Unlock
   .rTimeout 0, .rStep 0, .rStep 0, .rStep 0]     -- nothing can arrive any more: timeout, unregister, return

def C17_origLostReplyState : State :=
  { lock := none, resCh := [],
    reqs := [{ pc := .done, id := 0, buf := none, out := some .timeout, retries := 0, arrived := false }],
    hdls := [{ pc := .done, msg := ⟨0, 100⟩ }],
    net := [], sent := [0], nextId := 1, unknown := [0] }

/-- (a) of the design notes, on the ORIGINAL skeleton: the remote handler answered the request, the
answer was processed by `onResponse` while the call was in progress (long before its deadline) and
was dropped as "unknown request ID"; the call ends with a timeout and nothing is left in flight
that could still answer it. -/
theorem C17_original_loses_reply_counterexample :
    runO C17P init C17_origLostReplyTrace = some C17_origLostReplyState ∧
    ReachableO C17P C17_origLostReplyState ∧
    (∃ r h, C17_origLostReplyState.reqs[0]? = some r ∧ C17_origLostReplyState.hdls[0]? = some h ∧
      r.pc = .done ∧ r.out = some .timeout ∧
      h.pc = .done ∧ h.msg = ⟨r.id, C17P r.id⟩ ∧ r.id ∈ C17_origLostReplyState.unknown) ∧
    C17_origLostReplyState.net = [] := by
  have hrun : runO C17P init C17_origLostReplyTrace = some C17_origLostReplyState := by decide
  exact ⟨hrun, reachableO_of_runO C17P _ _ _ .init hrun, ⟨_, _, rfl, rfl, rfl, rfl, rfl, rfl, by decide⟩, rfl⟩

/-! ### the same two environment behaviours on the FIXED protocol (evaluation; non-vacuity) -/

/-- response before the requester reaches its select: the channel is already registered, the
response is buffered and then received -/
def C17_fixedEarlyReplyTrace : List Action :=
  [.spawn 0, .rStep 0, .rStep 0, .rStep 0, .rStep 0, .rSendOk 0,
   .nRespond 0, .nDup 0, .nDeliver 0, .hStep 0, .hStep 0, .hStep 0, .hStep 0,   -- first copy: buffered
   .nDeliver 0, .hStep 1, .hStep 1, .hStep 1, .hStep 1,                         -- duplicate: default branch
   .rRecv 0, .rStep 0, .rStep 0, .rStep 0]

/-- timeout racing with the delivery: the handler wins the lock after the requester left its
select; the send does not block, the requester unregisters and returns the timeout -/
def C17_fixedRaceTrace : List Action :=
  [.spawn 0, .rStep 0, .rStep 0, .rStep 0, .rStep 0, .rSendOk 0,
   .nRespond 0, .nDeliver 0, .hStep 0, .hStep 0,
   .rTimeout 0,
   .hStep 0, .hStep 0,
   .rStep 0, .rStep 0, .rStep 0]

example :
    (run C17P init C17_fixedEarlyReplyTrace).map (fun s => (s.reqs.map (fun r => (r.pc, r.out)), s.resCh, allDone s)) =
      some ([(.done, some (.got ⟨0, 100⟩))], [], true) := by decide

example :
    (run C17P init C17_fixedRaceTrace).map (fun s => (s.reqs.map (fun r => (r.pc, r.out)), s.resCh, allDone s, s.lock)) =
      some ([(.done, some .timeout)], [], true, none) := by decide

/-- non-vacuity of `C17_correlation` / `C17_no_lost_reply`: a reachable state in which a requester
has received a response and is marked `arrived` -/
example : ∃ s, Reachable C17P s ∧ ∃ r, s.reqs[0]? = some r ∧ r.arrived = true ∧
    r.out = some (.got ⟨r.id, C17P r.id⟩) := by
  have h : ∃ s, run C17P init C17_fixedEarlyReplyTrace = some s ∧
      ∃ r, s.reqs[0]? = some r ∧ r.arrived = true ∧ r.out = some (.got ⟨r.id, C17P r.id⟩) := by decide
  obtain ⟨s, hr, h⟩ := h
  exact ⟨s, reachable_of_run C17P _ _ _ .init hr, h⟩

/-- non-vacuity of `C17_deadlock_free` / `C17_lock_holder_never_blocks`: a reachable state in which
`resMu` is held by a handler that is about to deliver while the requester has already left its
select (the configuration that is fatal for the original code) — here a thread can step -/
example : ∃ s, Reachable C17P s ∧ s.lock = some (.hdl 0) ∧ allDone s = false ∧
    (step C17P s (.hStep 0)).isSome = true := by
  have h : ∃ s, run C17P init (C17_fixedRaceTrace.take 11) = some s ∧ s.lock = some (.hdl 0) ∧
      allDone s = false ∧ (step C17P s (.hStep 0)).isSome = true := by decide
  obtain ⟨s, hr, h⟩ := h
  exact ⟨s, reachable_of_run C17P _ _ _ .init hr, h⟩

/-- non-vacuity of `C17_no_leak`: a reachable state with a non-trivial history in which all
requesters are done -/
example : ∃ s, Reachable C17P s ∧ s.reqs ≠ [] ∧ (∀ r ∈ s.reqs, r.pc = .done) ∧ s.resCh = [] := by
  have h : ∃ s, run C17P init C17_fixedRaceTrace = some s ∧ s.reqs ≠ [] ∧
      (∀ r ∈ s.reqs, r.pc = .done) ∧ s.resCh = [] := by decide
  obtain ⟨s, hr, h⟩ := h
  exact ⟨s, reachable_of_run C17P _ _ _ .init hr, h⟩

/-! ### tie of the model's program counters to the skeleton table extracted from the Go source -/

/-- atomic skeleton actions as the labels used by `RPc.acts` / `HPc.acts` -/
def C17atom : SkelAct → Option String
  | .newId => some "newid"
  | .makeChan c => some ("make:" ++ toString c)
  | .lock => some "lock"
  | .unlock => some "unlock"
  | .deferUnlock => some "unlock"   -- the deferred Unlock runs when onResponse returns
  | .store => some "store"
  | .delete => some "delete"
  | .lookup => some "lookup"
  | .netSend => some "send"
  | .chanSend => some "chsend"
  | .ret => some "return"
  | .onErr _ => none
  | .select _ => none

/-- the main path through the skeleton: error branches are skipped, a `select` contributes the
label `select` followed by the body of the branch with the given name -/
def C17mainPath (branch : String) : List SkelAct → List String
  | [] => []
  | .onErr _ :: rest => C17mainPath branch rest
  | .select bs :: rest =>
    "select" :: ((bs.find? (·.1 == branch)).map (fun b => b.2.filterMap C17atom)).getD [] ++ C17mainPath branch rest
  | a :: rest => (C17atom a).toList ++ C17mainPath branch rest

/-- The statements executed by the requester pcs of the model are exactly the main path of the
skeleton table of `sendRequestMessage`, whichever branch of the select is taken; the error branch
of the send and all three select branches run the same unregister sequence (the model's
`unLock; unDelete; unUnlock`). -/
theorem C17_skeleton_matches_model :
    (∀ b ∈ ["recv", "timer", "ctx"], C17mainPath b skelSendRequestMessage =
      [RPc.start, .regLock, .regStore, .regUnlock, .send, .wait, .unLock, .unDelete, .unUnlock].flatMap RPc.acts) ∧
    (skelSendRequestMessage.filterMap (fun a => match a with
        | .onErr b => some (b.filterMap C17atom) | _ => none)) =
      [[RPc.unLock, .unDelete, .unUnlock].flatMap RPc.acts] ∧
    skelOnResponse.filterMap C17atom = ["lock", "unlock", "lookup"] ∧
    (skelOnResponse.filterMap (fun a => match a with
        | .select bs => some (bs.map (·.1)) | _ => none)) = [["send", "default"]] := by
  decide
