/-
C15 — the generator keeps nothing in memory across ticks that a change of the chain underneath it invalidates
(tie A for pkg/generator + the reason).

`Generator.forge` runs every second on a long-lived object, while `Executer` deletes and applies blocks underneath it
(chain switch, tie-break replacement of the tip, sync).  The clause "every block the generator produces is accepted by
the same node at that moment ... across restarts and chain switches" holds for the BEHAVIOUR of the generator only if
a forge step is a function of (block store, clock, enabled keys): a struct field that remembers something derived
from the chain (the generator list of height tip+1 keyed by the height - seeded C15-17 -, the tip, a slot owner, the
last generated height) survives `deleteBlock`, which reverts the database and cannot revert a field.

Part 1 (semantics, all machines and histories): instantiation of `C05_no_hidden_state_confluent`
(Props/C05_NoCache.lean).  The memory `H` of the machine includes the generator's fields; a forge tick is a step that
changes at most the memory (`Hist.candidate`, or a `Hist.block` that is not applied).  If what forge does is not a
function of the memory, then after ANY history of blocks, ticks, deleted tips and restarts it does exactly what a
fresh generator does on a fresh node that was given only the surviving chain.  A toy generator with a height-keyed
memo of the slot owner — the store is restored exactly by every deletion, block validation reads the store — signs a
block for a foreign slot that the same node rejects and skips its own slot after a chain switch that keeps the height;
after a restart it is right again.

Part 2 (tie A): tools/compgen (generator.go) regenerates the tables `gen*` of `Gen/CompState.lean` from pkg/generator
on every check run: the fields of `Generator` with a syntactic kind, its methods, every write to one of its fields with
the function that performs it, constructor initialisers, package-level variables and their writers.  The theorems state
the exact tables: a new field (a memo), a new writer of a field (forge or a helper it calls storing into the receiver),
a package-level memo breaks a named theorem.
Out of scope of the tables (as for C05): writes through an alias of a field, through a method called on the value of a
field, inside a function a field is passed to.  The harness family C15SWITCH (harness/c15/switch.go) observes the
behaviour itself on the real forge.
-/
import LiskVerif.Gen.CompState
import LiskVerif.Props.C05_NoCache

/-! ## Part 1: why forge must not remember -/

open LiskVerif.NoHidden in
/-- **forge is history independent if it reads (store, clock, keys) only.**  `m` is the node together with the
generator object (its memory `H` holds the fields of both; ticks are memory-only steps of the history), `forge p h t`
is what a forge tick with clock and enabled keys `t` hands on.  If the persistent effect of the node's steps and the
result of forge are not functions of the memory and deletion restores the store, then after ANY history the generator
does what a fresh generator does on a fresh node that was given only the surviving chain. -/
theorem C15_forge_function_of_store_clock_keys {P H B T O : Type} (m : Machine P H B) (Inv : P → Prop)
    (hro : ReadsPersistedOnly m) (hdi : DeleteInverts m Inv) (p0 : P) (hI : Inv p0)
    (forge : P → H → T → O) (hf : ∀ p h h' t, forge p h t = forge p h' t) (hs : List (Hist B)) (t : T) :
    forge (hrun m (hinit m p0) hs).p (hrun m (hinit m p0) hs).h t =
      forge (fresh m p0 (hrun m (hinit m p0) hs).kept).1 m.h0 t := by
  rw [(C05_no_hidden_state_confluent m Inv hro hdi p0 hI hs).2.1]
  exact hf _ _ _ t

open LiskVerif.NoHidden in
/-- two generators whose nodes ended on the same chain do the same in the same slot, whatever each of them saw -/
theorem C15_same_chain_same_forge {P H B T O : Type} (m : Machine P H B) (Inv : P → Prop)
    (hro : ReadsPersistedOnly m) (hdi : DeleteInverts m Inv) (p0 : P) (hI : Inv p0)
    (forge : P → H → T → O) (hf : ∀ p h h' t, forge p h t = forge p h' t) (hs₁ hs₂ : List (Hist B)) (t : T)
    (h : (hrun m (hinit m p0) hs₁).kept = (hrun m (hinit m p0) hs₂).kept) :
    forge (hrun m (hinit m p0) hs₁).p (hrun m (hinit m p0) hs₁).h t =
      forge (hrun m (hinit m p0) hs₂).p (hrun m (hinit m p0) hs₂).h t := by
  rw [C15_forge_function_of_store_clock_keys m Inv hro hdi p0 hI forge hf hs₁ t,
    C15_forge_function_of_store_clock_keys m Inv hro hdi p0 hI forge hf hs₂ t, h]

namespace LiskVerif.GenNoCache.Toy

open LiskVerif.NoHidden LiskVerif.NoHidden.Toy

/-- steps offered to the node + generator: `some (gen, next)` = a block by `gen` that hands the next slot to `next`
(validated against the STORE, as consensus/verify.go does); `none` = a forge tick (never a block of the chain) -/
abbrev Step := Option (Nat × Nat)

/-- slot owner the generator acts for: the memo if it is for this height, else the store -/
def memoOwner (p : List Nat) (h : Option (Nat × Nat)) : Nat :=
  match h with
  | some (ht, o) => if ht = p.length then o else paramInForce p
  | none => paramInForce p

/-- the generator with the memo of C15-17: the slot owner of height tip+1 is read once per HEIGHT.  Blocks are
validated against the store; a tick refreshes the memo only if it is for another height. -/
def memoGen : Machine (List Nat) (Option (Nat × Nat)) Step where
  apply p h s :=
    match s with
    | some b => (if paramInForce p = b.1 then some (b.2 :: p) else none, h)
    | none => (none, some (p.length, memoOwner p h))
  delete p h := (p.tail, h)
  h0 := none

/-- the generator as it is: nothing is kept -/
def honestGen : Machine (List Nat) Unit Step where
  apply p _ s :=
    match s with
    | some b => (if paramInForce p = b.1 then some (b.2 :: p) else none, ())
    | none => (none, ())
  delete p _ := (p.tail, ())
  h0 := ()

/-- forge with the enabled key `k`: a block by `k` iff `k` is the slot owner the generator believes in -/
def memoForge (p : List Nat) (h : Option (Nat × Nat)) (k : Nat) : Option (Nat × Nat) :=
  if memoOwner p h = k then some (k, k) else none

def honestForge (p : List Nat) (_ : Unit) (k : Nat) : Option (Nat × Nat) :=
  if paramInForce p = k then some (k, k) else none

/-- branch A: block 1 by generator 1 hands over to 3; a forge tick at height 2; the tip is replaced by block 1 of
branch B, which hands over to 2 — the height is the same -/
def switchSameHeight : List (Hist Step) := [.block (some (1, 3)), .block none, .delete, .block (some (1, 2))]

/-- sync-like: two blocks of branch A with a tick on top of the first, both deleted, two blocks of branch B, no tick
in between — the node is back at the height of the tick -/
def syncSameHeight : List (Hist Step) :=
  [.block (some (1, 3)), .block none, .block (some (3, 3)), .delete, .delete, .block (some (1, 2))]

end LiskVerif.GenNoCache.Toy

open LiskVerif.NoHidden LiskVerif.NoHidden.Toy LiskVerif.GenNoCache.Toy in
/-- **THE DEFECT CLASS (C15-17).**  The memo generator restores the store exactly on every deletion and validates
blocks against the store, and after the chain switch the node's store IS the store of the fresh node given only the
surviving chain — yet with key 3 enabled it hands on a block for the slot that belongs to 2 on the current chain, and
the SAME node rejects that block; with key 2 enabled it skips its own slot.  The fresh generator does the opposite in
both cases; so does the memo generator after a restart.  Same for the sync-like history. -/
theorem C15_height_keyed_memo_counterexample :
    DeleteInverts memoGen (fun _ => True) ∧
    ¬ (∀ p h h' k, memoForge p h k = memoForge p h' k) ∧
    (let w := hrun memoGen (hinit memoGen [1]) switchSameHeight
     w.kept = [some (1, 2)] ∧ w.p = (fresh memoGen [1] w.kept).1 ∧
     memoForge w.p w.h 3 = some (3, 3) ∧ (memoGen.apply w.p w.h (some (3, 3))).1 = none ∧
     memoForge w.p w.h 2 = none ∧
     memoForge (fresh memoGen [1] w.kept).1 memoGen.h0 3 = none ∧
     memoForge (fresh memoGen [1] w.kept).1 memoGen.h0 2 = some (2, 2) ∧
     (memoGen.apply w.p w.h (some (2, 2))).1 = some [2, 2, 1]) ∧
    (let w := hrun memoGen (hinit memoGen [1]) syncSameHeight
     w.kept = [some (1, 2)] ∧ memoForge w.p w.h 3 = some (3, 3) ∧ (memoGen.apply w.p w.h (some (3, 3))).1 = none ∧
     memoForge w.p w.h 2 = none) ∧
    (let w := hrun memoGen (hinit memoGen [1]) (switchSameHeight ++ [.restart])
     memoForge w.p w.h 3 = none ∧ memoForge w.p w.h 2 = some (2, 2)) := by
  refine ⟨?_, ?_, by decide, by decide, by decide⟩
  · intro p h s p' _ hp
    refine ⟨trivial, fun _ => ?_⟩
    cases s with
    | none => cases hp
    | some b =>
      have hp' : (if paramInForce p = b.1 then some (b.2 :: p) else none) = some p' := hp
      by_cases hc : paramInForce p = b.1
      · rw [if_pos hc] at hp'; simp only [Option.some.injEq] at hp'; rw [← hp']; rfl
      · rw [if_neg hc] at hp'; cases hp'
  · intro hf
    have := hf [2, 1] none (some (2, 3)) 3
    revert this
    decide

open LiskVerif.NoHidden LiskVerif.NoHidden.Toy LiskVerif.GenNoCache.Toy in
/-- non-vacuity of `C15_forge_function_of_store_clock_keys`: the generator without memory satisfies every hypothesis,
and on the same histories it forges for the owner the store names and only for it -/
example :
    ReadsPersistedOnly honestGen ∧ DeleteInverts honestGen (fun _ => True) ∧
    (∀ p h h' k, honestForge p h k = honestForge p h' k) ∧
    (let w := hrun honestGen (hinit honestGen [1]) switchSameHeight
     honestForge w.p w.h 2 = some (2, 2) ∧ honestForge w.p w.h 3 = none ∧
     (honestGen.apply w.p w.h (some (2, 2))).1 = some [2, 2, 1]) ∧
    (let w := hrun honestGen (hinit honestGen [1]) syncSameHeight
     honestForge w.p w.h 2 = some (2, 2) ∧ honestForge w.p w.h 3 = none) := by
  refine ⟨readsPersistedOnly_of_subsingleton honestGen, ?_, fun _ _ _ _ => rfl, by decide, by decide⟩
  intro p h s p' _ hp
  refine ⟨trivial, fun _ => ?_⟩
  cases s with
  | none => cases hp
  | some b =>
    have hp' : (if paramInForce p = b.1 then some (b.2 :: p) else none) = some p' := hp
    by_cases hc : paramInForce p = b.1
    · rw [if_pos hc] at hp'; simp only [Option.some.injEq] at hp'; rw [← hp']; rfl
    · rw [if_neg hc] at hp'; cases hp'

/-! ## Part 2: `Generator` holds references, configuration and the enabled keys only (regenerated facts) -/

namespace LiskVerif.GenNoCache

open LiskVerif.Gen.CompState

/-- (name, type, kind) of the fields of a struct of pkg/generator, in declaration order -/
def gFieldsOf (strct : String) : List (String × String × String) :=
  (genFields.filter (fun f => f.pkg == "generator" && f.strct == strct)).map (fun f => (f.name, f.typ, f.kind))

/-- (function, field, how) of every write to a field of `Generator`, in source order -/
def gWrites : List (String × String × String) :=
  (genWrites.filter (fun w => w.pkg == "generator" && w.strct == "Generator")).map (fun w => (w.fn, w.field, w.how))

/-- functions that run once, before the first tick, or on behalf of the operator (RPC enable / disable) -/
def setupFns : List String := ["Generator.Init", "Generator.EnableGeneration", "Generator.DisableGeneration"]

end LiskVerif.GenNoCache

open LiskVerif.GenNoCache LiskVerif.Gen.CompState

theorem C15_generator_component_exact : genComponents = [("generator", "Generator")] := by decide +kernel

/-- **the exact fields of `Generator`**: four references handed to the constructor, what `Init` is given (context,
the two databases, logger, configuration, the wait threshold derived from it), the ticker, and the enabled keys.  A
memo of anything derived from the chain (generator list, height, tip, slot owner, last generated height) would be a
new field. -/
theorem C15_generator_fields_exact :
    gFieldsOf "Generator" =
      [("abi", "labi.ABI", "extern"), ("consensus", "Consensus", "local:interface"),
       ("pool", "*txpool.TransactionPool", "pointer"), ("chain", "*blockchain.Chain", "pointer"),
       ("ctx", "context.Context", "extern"), ("blockchainDB", "*db.DB", "pointer"),
       ("generatorDB", "*db.DB", "pointer"), ("logger", "log.Logger", "extern"),
       ("cfg", "*config.Config", "pointer"), ("waitThreshold", "int", "basic"),
       ("checkLoop", "*time.Ticker", "pointer"), ("enabledKeys", "map[string]*PlainKeys", "map")] := by
  decide +kernel

/-- **the exact (function, field) write table of `Generator`**: `Init` assigns what it is given, the operator's
enable / disable change the key map; the constructor fills the four references and an empty key map.  No other
function - in particular not `forge`, `shouldForge`, `initBlockHeader`, `sealBlock`, the selection helpers, the event
handlers - stores anything in the receiver. -/
theorem C15_generator_writes_exact :
    gWrites =
      [("Generator.Init", "ctx", "assign"), ("Generator.Init", "cfg", "assign"),
       ("Generator.Init", "checkLoop", "assign"), ("Generator.Init", "logger", "assign"),
       ("Generator.Init", "generatorDB", "assign"), ("Generator.Init", "blockchainDB", "assign"),
       ("Generator.Init", "waitThreshold", "assign"),
       ("Generator.EnableGeneration", "enabledKeys", "index-assign"),
       ("Generator.DisableGeneration", "enabledKeys", "delete")] ∧
    (genInits.filter (fun i => i.strct == "Generator")).map (fun i => (i.fn, i.field, i.value)) =
      [("NewGenerator", "consensus", "params.Consensus"), ("NewGenerator", "abi", "params.ABI"),
       ("NewGenerator", "pool", "params.Pool"), ("NewGenerator", "chain", "params.Chain"),
       ("NewGenerator", "enabledKeys", "map[string]*PlainKeys{}")] := by decide +kernel

/-- **nothing on the tick path writes a receiver field**: every write of the table is in `Init` or in the operator's
enable / disable; every other method of `Generator` (the exact list) writes none. -/
theorem C15_forge_writes_no_field :
    (genWrites.all (fun w => setupFns.contains w.fn)) = true ∧
    (genMethods.filter (fun m => m.strct == "Generator")).map (·.name) =
      ["Init", "Start", "EnableGeneration", "DisableGeneration", "IsGenerationEnabled", "forge", "shouldForge",
       "selectTransactionsByFee", "limitTransactionsWithSize", "saveGeneratorsFromFile", "loadGenerator",
       "onNewBlock", "onDeleteBlock", "onFinalizeBlock", "initBlockHeader", "sealBlock"] ∧
    ((genMethods.filter (fun m => m.strct == "Generator" && !setupFns.contains ("Generator." ++ m.name))).all
      (fun m => genWrites.all (fun w => w.fn != "Generator." ++ m.name))) = true := by decide +kernel

/-- **the only container among the fields is the key map, the only plain value the wait threshold**: no slice, no
second map, no struct value, no counter that could hold a decoded list or a height; no field of the generator is handed
to a call as a map / slice that the callee could fill. -/
theorem C15_generator_no_memo_shaped_field :
    ((gFieldsOf "Generator").filter (fun f => f.2.2 == "map" || f.2.2 == "slice" || f.2.2 == "array" ||
        f.2.2 == "chan" || f.2.2 == "func" || f.2.2 == "struct" || f.2.2 == "local:struct")).map (·.1) =
      ["enabledKeys"] ∧
    ((gFieldsOf "Generator").filter (fun f => f.2.2 == "basic" || f.2.2 == "local:basic")).map (·.1) =
      ["waitThreshold"] ∧
    genPasses = [] := by decide +kernel

/-- **no package-level memo in pkg/generator**: the two database prefixes are the only package-level variables and
no function assigns a package-level variable. -/
theorem C15_generator_no_package_level_memo :
    genGlobals.map (fun g => (g.name, g.init)) =
      [("GeneratorDBPrefixGeneratedInfo", "[]byte{0}"), ("GeneratorDBPrefixKeys", "[]byte{1}")] ∧
    genGlobalWrites = [] := by decide +kernel
