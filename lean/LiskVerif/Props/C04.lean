/-
C04 — Finalized blocks are irreversible and the finalized height never decreases.

Theorems about `LiskVerif.Model.Node` (model of Executer.process / processValidated / deleteBlock,
Chain.AddBlock / RemoveBlock / PrepareCache, DataAccess.saveBlock / removeBlock and of the height
selection of the synchronisers). The model is tied to the real node by the C04/C05 correspondence
harness (same operation lines through the real Executer over pebble and through the compiled
model, database deltas compared byte for byte).

Setting of the invariant-based theorems. A node state `s` is *refined* by a chain `c` of
(block, execution result) pairs applied on top of a base state `base` whose tip is finalized
(`Ref cd base baseH s c`, e.g. the state right after the genesis block with `c = []`): outside the
volatile keys the database is `spec cd base c`, and the block cache holds the newest blocks.
Hypotheses on the inputs of an operation sequence are collected in `RunOK` (`StepOK` for every
block that gets applied: result of executing it on the state its parent chain produces — overlay
over the consensus store (`C12CacheInv` shape), `maxHeightPrecommited ≤ height`
(`C02_precommitted_le_prevoted_from_genesis` and `maxHeightPrevoted ≤ height`), fresh block id and
transaction ids, round trip of the codecs that are parameters of the model for this block's header,
assets and state diff (C08)). `BaseOK`: the block index of the base state is consistent.
-/
import LiskVerif.Lemmas.NodeTrans
import LiskVerif.Lemmas.NodeExample

open LiskVerif LiskVerif.Node
open LiskVerif.DiffDB (Store KV CV Cache Diff slookup sset sdel)

/-! ### the finalized height -/

/-- After a successful `processValidated` the stored finalized height is
`max (previous finalized height) (maxHeightPrecommited after the block)` — written in the same
batch that stores the block. -/
theorem C04_fin_eq_max (cd : Codecs) (cfg : Cfg) (s s' : St) (b : Block) (valid : Bool) (x : Exec)
    (rt : Bool) (fin : Nat) (hok : apply cd cfg s b valid x rt = (s', .ok))
    (hf : finOf s.db = some fin) (hm : x.mhpc < u32) : finOf s'.db = some (max fin x.mhpc) := by
  obtain ⟨tip, rest, fin', _, _, _, _, hf', hs'⟩ := apply_ok_inv hok
  have : fin' = fin := by rw [hf] at hf'; exact (Option.some.inj hf').symm
  subst this
  rw [hs', ← nextFin_eq_max]
  exact finOf_applyDb cd cfg s.db fin' b x rt (finOf_lt hf) hm

/-- A finalize event is published by `processValidated` exactly when the stored finalized height
is raised, with `Original` = the old and `Next` = the new finalized height and the applied block
as trigger; the only other event of the step is the new-block event. -/
theorem C04_finalize_event_iff_raise (cd : Codecs) (cfg : Cfg) (s s' : St) (b : Block) (valid : Bool)
    (x : Exec) (rt : Bool) (fin : Nat) (hok : apply cd cfg s b valid x rt = (s', .ok))
    (hf : finOf s.db = some fin) (hm : x.mhpc < u32) :
    ∃ evs fin', finOf s'.db = some fin' ∧ s'.log = evs ++ s.log ∧
      Ev.new b.hdr.id b.hdr.height ∈ evs ∧
      (∀ e ∈ evs, e = Ev.new b.hdr.id b.hdr.height ∨ e = Ev.finalize fin fin' b.hdr.id) ∧
      (Ev.finalize fin fin' b.hdr.id ∈ evs ↔ fin < fin') ∧
      (∀ o n t, Ev.finalize o n t ∈ evs → o = fin ∧ n = fin' ∧ t = b.hdr.id ∧ fin < fin') := by
  have hfin := C04_fin_eq_max cd cfg s s' b valid x rt fin hok hf hm
  obtain ⟨tip, rest, fin0, _, _, _, _, hf0, hs'⟩ := apply_ok_inv hok
  have : fin0 = fin := by rw [hf] at hf0; exact (Option.some.inj hf0).symm
  subst this
  refine ⟨applyLog fin0 b x, max fin0 x.mhpc, hfin, by rw [hs'], ?_, ?_, ?_, ?_⟩
  · unfold applyLog; split <;> simp
  · intro e he
    unfold applyLog at he
    split at he
    · rename_i hlt
      have : max fin0 x.mhpc = x.mhpc := by omega
      rw [this]
      simpa using he
    · simp at he; exact Or.inl he
  · unfold applyLog
    split
    · rename_i hlt
      have : max fin0 x.mhpc = x.mhpc := by omega
      rw [this]; simp [hlt]
    · rename_i hlt
      have : max fin0 x.mhpc = fin0 := by omega
      rw [this]; simp
  · intro o n t he
    unfold applyLog at he
    split at he
    · rename_i hlt
      simp at he
      obtain ⟨h1, h2, h3⟩ := he
      have : max fin0 x.mhpc = x.mhpc := by omega
      rw [this]; exact ⟨h1, h2, h3, hlt⟩
    · simp at he

/-- `deleteBlock` refuses a block at or below the finalized height and changes nothing — first
guard of `Executer.deleteBlock`, whatever else the state looks like. -/
theorem C04_delete_refuses_finalized (cd : Codecs) (cfg : Cfg) (s : St) (tip : Block)
    (rest : List Block) (saveTemp : Bool) (fin : Nat) (hc : s.cache = tip :: rest)
    (hf : finOf s.db = some fin) (hle : tip.hdr.height ≤ fin) :
    deleteTip cd cfg s saveTemp = (s, .err) := by
  unfold deleteTip
  rw [hc]
  simp only [hf, hle, if_true]

/-- The tie-break rule cannot replace a finalized tip either: `process` leaves the state alone. -/
theorem C04_tiebreak_refuses_finalized (cd : Codecs) (cfg : Cfg) (slot : Slot) (s : St) (tip : Block)
    (rest : List Block) (i : Incoming) (fin : Nat) (hc : s.cache = tip :: rest)
    (hf : finOf s.db = some fin) (hle : tip.hdr.height ≤ fin)
    (hv : forkChoice slot tip.hdr i.block.hdr i.flags = .tieBreak) :
    (process cd cfg slot s i).1 = s := by
  unfold process
  rw [hc]
  simp only [hv]
  split
  · rfl
  · rw [C04_delete_refuses_finalized cd cfg s tip rest false fin hc hf hle]

/-! ### operation sequences -/

/-- **The finalized height never decreases**, along any sequence of processed blocks (valid,
invalid, competing, tie-breaks), deletions (also the synchronisers' plans: they are sequences of
`deleteTip true` / `apply … removeTemp` / `clearTemp`), restarts. -/
theorem C04_fin_monotone (cd : Codecs) (cfg : Cfg) (slot : Slot) (base : Store) (baseH : Nat)
    (hbase : BaseOK cd base baseH) (s : St) (c : Chain) (ops : List Op)
    (hR : Ref cd base baseH s c) (hok : RunOK cd cfg slot base s c ops) :
    ∃ f f', finOf s.db = some f ∧ finOf (run cd cfg slot s ops).db = some f' ∧ f ≤ f' := by
  obtain ⟨f, f', evs, h1, h2, _, h4⟩ := (trans_run hbase ops s c hR hok).fin
  exact ⟨f, f', h1, h2, isChain_le _ _ _ h4⟩

/-- … and it is monotone between any two points of a history. -/
theorem C04_fin_monotone_prefix (cd : Codecs) (cfg : Cfg) (slot : Slot) (base : Store) (baseH : Nat)
    (hbase : BaseOK cd base baseH) (s : St) (c : Chain) (a b : List Op)
    (hR : Ref cd base baseH s c) (hok : RunOK cd cfg slot base s c (a ++ b)) :
    ∃ f f', finOf (run cd cfg slot s a).db = some f ∧
      finOf (run cd cfg slot s (a ++ b)).db = some f' ∧ f ≤ f' := by
  obtain ⟨ha, hb⟩ := runOK_append cd cfg slot base a b s c hok
  have hRa := (trans_run hbase a s c hR ha).ref
  rw [run_append]
  exact C04_fin_monotone cd cfg slot base baseH hbase _ _ b hRa hb

/-- **Finalize events are exactly the raises**: the finalize events published along a history are
`(f0,f1), (f1,f2), …, (f_{n-1}, f_n)` with `f0` the finalized height at the start, `f_n` the one at
the end and `f_i < f_{i+1}`: one event per raise, `Original`/`Next` = old/new stored height, no
event without a raise, no raise without an event. -/
theorem C04_finalize_events_chain (cd : Codecs) (cfg : Cfg) (slot : Slot) (base : Store) (baseH : Nat)
    (hbase : BaseOK cd base baseH) (s : St) (c : Chain) (ops : List Op)
    (hR : Ref cd base baseH s c) (hok : RunOK cd cfg slot base s c ops) :
    ∃ f f' evs, finOf s.db = some f ∧ finOf (run cd cfg slot s ops).db = some f' ∧
      (run cd cfg slot s ops).log = evs ++ s.log ∧ IsChain f (finPairs evs) f' :=
  (trans_run hbase ops s c hR hok).fin

/-- **Finalized blocks are irreversible**: for every history `a ++ b` and every height `h` at or
below the finalized height reached after `a`, the block id (indeed the whole header) the node
serves for `h` — `GetBlockHeaderByHeight`: block cache first, then the database index — is the
same after `a ++ b` as after `a`: fork choice, tie-break, deletions, failed applications, the
delete/apply plans of the synchronisers and restarts never remove or replace it. -/
theorem C04_finalized_prefix_stable (cd : Codecs) (cfg : Cfg) (slot : Slot) (base : Store) (baseH : Nat)
    (hbase : BaseOK cd base baseH) (s : St) (c : Chain) (a b : List Op)
    (hR : Ref cd base baseH s c) (hok : RunOK cd cfg slot base s c (a ++ b))
    (f : Nat) (hf : finOf (run cd cfg slot s a).db = some f) (h : Nat) (hle : h ≤ f) :
    headerAt cd (run cd cfg slot s (a ++ b)) h = headerAt cd (run cd cfg slot s a) h ∧
    idAt cd (run cd cfg slot s (a ++ b)) h = idAt cd (run cd cfg slot s a) h := by
  obtain ⟨ha, hb⟩ := runOK_append cd cfg slot base a b s c hok
  have hRa := (trans_run hbase a s c hR ha).ref
  have hT := trans_run hbase b _ _ hRa hb
  rw [run_append]
  have hh : headerAt cd (run cd cfg slot (run cd cfg slot s a) b) h =
      headerAt cd (run cd cfg slot s a) h := by
    rw [headerAt_ref hbase hT.ref h, headerAt_ref hbase hRa h]
    exact hT.pre f hf h hle
  exact ⟨hh, by unfold idAt; rw [hh]⟩

/-- The finalized blocks above the base are served: the header of the chain's block. -/
theorem C04_finalized_block_served (cd : Codecs) (base : Store) (baseH : Nat)
    (hbase : BaseOK cd base baseH) (s : St) (c : Chain)
    (hR : Ref cd base baseH s c) (bx : Block × Exec) (hm : bx ∈ c) :
    headerAt cd s bx.1.hdr.height = some bx.1.hdr := by
  rw [headerAt_ref hbase hR]
  have hs := stored_member hR.db.wf bx hm
  obtain ⟨hg, _⟩ := getBlock_member hR.db hm
  obtain ⟨hb1, h1, h2⟩ := getBlock_some_hdr hg
  obtain ⟨f, hf, _, _⟩ := hR.db.finOk
  rw [hR.db.agree f hf _ (kHeader_not_vol f _), hs.header] at h1
  rw [← Option.some.inj h1] at h2
  unfold hdrSpec
  rw [hs.height]
  simp only
  rw [hs.header]
  exact h2

/-! ### the synchronisers -/

/-- `deleteTillCommonBlock` is a sequence of `deleteBlock(tip, saveTemp = true)` calls -/
theorem C04_deleteTill_is_run (cd : Codecs) (cfg : Cfg) (slot : Slot) : ∀ (fuel : Nat) (s : St)
    (target : Nat), ∃ k, (deleteTill cd cfg fuel s target).1 =
      run cd cfg slot s (List.replicate k (Op.deleteTip true)) := by
  intro fuel
  induction fuel with
  | zero => intro s t; exact ⟨0, rfl⟩
  | succ n ih =>
    intro s t
    unfold deleteTill
    cases hc : s.cache with
    | nil => exact ⟨0, rfl⟩
    | cons tip rest =>
      simp only
      split
      · exact ⟨0, rfl⟩
      · cases hd : deleteTip cd cfg s true with
        | mk s' r =>
          cases r with
          | ok =>
            simp only
            obtain ⟨k, hk⟩ := ih s' t
            refine ⟨k + 1, ?_⟩
            rw [hk, List.replicate_succ, run_cons]
            simp only [step, hd]
          | err => exact ⟨1, by simp [run, step, hd]⟩
          | panic => exact ⟨1, by simp [run, step, hd]⟩
          | errWritten => exact ⟨1, by simp [run, step, hd]⟩

/-- **Block sync has no explicit check of the common block** (the id comes from the peer): the
guard of `deleteBlock` is what protects finalized blocks — `deleteTillCommonBlock` towards a
common block below the finalized height never reports success, and (by
`C04_finalized_prefix_stable` through `C04_deleteTill_is_run`) removes no finalized block. -/
theorem C04_deleteTill_stops_at_fin (cd : Codecs) (cfg : Cfg) (slot : Slot) (base : Store)
    (baseH : Nat) (hbase : BaseOK cd base baseH) (s : St) (c : Chain)
    (hR : Ref cd base baseH s c) (fuel target : Nat) (s' : St)
    (hd : deleteTill cd cfg fuel s target = (s', .ok)) (f : Nat) (hf : finOf s.db = some f) :
    f ≤ target := by
  obtain ⟨k, hk⟩ := C04_deleteTill_is_run cd cfg slot fuel s target
  have hok : ∀ (k : Nat) (s : St) (c : Chain),
      RunOK cd cfg slot base s c (List.replicate k (Op.deleteTip true)) := by
    intro k
    induction k with
    | zero => intro s c; trivial
    | succ n ih => intro s c; exact ⟨trivial, ih _ _⟩
  have hT := trans_run hbase _ s c hR (hok k s c)
  rw [← hk, hd] at hT
  simp only at hT
  obtain ⟨f0, f1, _, h0, h1, _, hch⟩ := hT.fin
  have hmono := isChain_le _ _ _ hch
  have : f0 = f := by rw [hf] at h0; exact (Option.some.inj h0).symm
  subst this
  obtain ⟨f2, h2, _, hle2⟩ := hT.ref.db.finOk
  have : f2 = f1 := by rw [h1] at h2; exact (Option.some.inj h2).symm
  subst this
  -- the loop ended with the tip at the target height
  have htip : ∀ (fuel : Nat) (s s' : St) (t : Nat), deleteTill cd cfg fuel s t = (s', .ok) →
      ∃ tip, s'.cache.head? = some tip ∧ tip.hdr.height = t := by
    intro fuel
    induction fuel with
    | zero => intro s s' t h; simp [deleteTill] at h
    | succ n ih =>
      intro s s' t h
      unfold deleteTill at h
      cases hc : s.cache with
      | nil => rw [hc] at h; simp at h
      | cons tip rest =>
        rw [hc] at h
        simp only at h
        split at h
        · rename_i heq
          simp only [Prod.mk.injEq, and_true] at h
          subst h
          exact ⟨tip, by rw [hc]; rfl, heq⟩
        · cases hd : deleteTip cd cfg s true with
          | mk s1 r =>
            rw [hd] at h
            cases r with
            | ok => exact ih s1 s' t h
            | err => simp at h
            | panic => simp at h
            | errWritten => simp at h
  obtain ⟨tip, hh, ht⟩ := htip fuel s s' target hd
  have := hT.ref.cache.head tip hh
  omega

/-- `fastSyncer.Sync` proceeds (downloads, deletes down to the common block, applies) only if the
common block named by the peer is not below the finalized block; otherwise the peer is banned. -/
theorem C04_fast_sync_common_ge_fin (lastHeight commonHeight finalizedHeight blockHeight nv : Nat)
    (h : fastSyncDecide lastHeight commonHeight finalizedHeight blockHeight nv = .proceed) :
    finalizedHeight ≤ commonHeight := by
  unfold fastSyncDecide at h
  split at h
  · cases h
  · omega

theorem C04_fast_sync_bans_below_fin (lastHeight commonHeight finalizedHeight blockHeight nv : Nat)
    (h : commonHeight < finalizedHeight) :
    fastSyncDecide lastHeight commonHeight finalizedHeight blockHeight nv = .banBelowFinalized := by
  unfold fastSyncDecide; simp [h]

private theorem gapLoop_ge (start minimum gap : Nat) (hs : start < u32) : ∀ (n i : Nat),
    minimum + (i + n) * gap < u32 + gap → ∀ x ∈ gapLoop start minimum gap n i, minimum ≤ x ∧ x ≤ start := by
  intro n
  induction n with
  | zero => intro i _ x hx; simp [gapLoop] at hx
  | succ m ih =>
    intro i hb x hx
    have hig : i * gap ≤ (i + (m + 1)) * gap - gap := by
      have : (i + (m + 1)) * gap = i * gap + (m + 1) * gap := Nat.add_mul _ _ _
      have : (m + 1) * gap = m * gap + gap := Nat.succ_mul _ _
      omega
    have h1 : minimum + i * gap < u32 := by
      have : (i + (m + 1)) * gap = i * gap + (m + 1) * gap := Nat.add_mul _ _ _
      have : (m + 1) * gap = m * gap + gap := Nat.succ_mul _ _
      omega
    have h2 : (i * gap) % u32 = i * gap := Nat.mod_eq_of_lt (by omega)
    have h3 : (minimum + i * gap) % u32 = minimum + i * gap := Nat.mod_eq_of_lt h1
    simp only [gapLoop, h2, h3] at hx
    split at hx
    · cases hx
    · rename_i hge
      simp only [List.mem_cons] at hx
      rcases hx with hx | hx
      · have : (start + u32 - i * gap) % u32 = start - i * gap := by
          have : start + u32 - i * gap = (start - i * gap) + u32 := by omega
          rw [this, Nat.add_mod_right, Nat.mod_eq_of_lt (by omega)]
        rw [hx, this]
        omega
      · refine ih (i + 1) ?_ x hx
        have : i + 1 + m = i + (m + 1) := by omega
        rw [this]; exact hb

/-- **Heights offered to the peer by block sync are never below the finalized height.**
`getHeightWithGap(start, minimum = finalized, gap, num)` returns `[minimum]` when
`start ≤ minimum`; otherwise every returned height lies in `[minimum, start]` — provided the
`uint32` sum `minimum + (num-2)·gap` does not wrap (heights far below 2^32). -/
theorem C04_sync_heights_ge_fin (start minimum gap num : Nat) (hs : start < u32)
    (hno : minimum + (num - 2) * gap < u32) :
    (start ≤ minimum → getHeightWithGap start minimum gap num = [minimum]) ∧
    (minimum < start → ∀ x ∈ getHeightWithGap start minimum gap num, minimum ≤ x ∧ x ≤ start) := by
  constructor
  · intro h; unfold getHeightWithGap; simp [h]
  · intro h x hx
    unfold getHeightWithGap at hx
    have : ¬ start ≤ minimum := by omega
    simp only [this, if_false] at hx
    refine gapLoop_ge start minimum gap hs (num - 1) 0 ?_ x hx
    rcases Nat.lt_or_ge num 2 with h2 | h2
    · have : num - 1 = 0 ∨ num - 1 = 1 := by omega
      rcases this with h3 | h3
      · rw [h3]; simp; omega
      · rw [h3]; simp; omega
    · have : 0 + (num - 1) = (num - 2) + 1 := by omega
      rw [this, Nat.succ_mul]; omega

/-- Without the bound the `uint32` addition wraps and a height below `minimum` is returned. -/
theorem C04_sync_heights_overflow_counterexample :
    4294967285 ∈ getHeightWithGap 4294967295 4294967291 10 10 ∧ 4294967285 < 4294967291 := by decide

private theorem lastLoop_le (start : Nat) (hs : start < u32) : ∀ (n i : Nat), i + n ≤ u32 →
    ∀ x ∈ lastLoop start n i, x ≤ start ∧ start < x + (i + n) := by
  intro n
  induction n with
  | zero => intro i _ x hx; simp [lastLoop] at hx
  | succ m ih =>
    intro i hb x hx
    have h2 : i % u32 = i := Nat.mod_eq_of_lt (by omega)
    simp only [lastLoop, h2] at hx
    split at hx
    · cases hx
    · simp only [List.mem_cons] at hx
      rcases hx with hx | hx
      · have : (start + u32 - i) % u32 = start - i := by
          have : start + u32 - i = (start - i) + u32 := by omega
          rw [this, Nat.add_mod_right, Nat.mod_eq_of_lt (by omega)]
        rw [hx, this]; omega
      · have := ih (i + 1) (by omega) x hx
        omega

/-- `getLastHeights(start, num)` (fast sync) returns heights in `(start - (num-1), start]`; it has
no finalized bound of its own — `C04_fast_sync_common_ge_fin` is where fast sync enforces it. -/
theorem C04_last_heights_bounds (start num : Nat) (hs : start < u32) (hn : num ≤ u32) :
    ∀ x ∈ getLastHeights start num, x ≤ start ∧ start < x + (num - 1) ∨ num ≤ 1 := by
  intro x hx
  unfold getLastHeights at hx
  rcases Nat.lt_or_ge 1 num with h | h
  · left
    have := lastLoop_le start hs (num - 1) 0 (by omega) x hx
    omega
  · right; omega

/-! ### non-vacuity -/

/-- the hypotheses of the invariant-based theorems are satisfiable: the state after a genesis
block, then "apply a block with a transaction and a consensus-store write, restart, delete it
again keeping a temporary copy, restart" -/
example : ∃ f f', finOf Example.s0.db = some f ∧
    finOf (run Example.cd Example.cfg Example.slot Example.s0 Example.ops1).db = some f' ∧ f ≤ f' :=
  C04_fin_monotone _ _ _ _ _ Example.baseOK _ _ _ Example.ref0 Example.runOK1

example : idAt Example.cd (run Example.cd Example.cfg Example.slot Example.s0 (Example.ops1 ++ [])) 0 =
    idAt Example.cd (run Example.cd Example.cfg Example.slot Example.s0 Example.ops1) 0 := by
  obtain ⟨f, _, hf, _⟩ := C04_fin_monotone_prefix Example.cd Example.cfg Example.slot Example.base 0
    Example.baseOK Example.s0 [] Example.ops1 [] Example.ref0 (by simpa using Example.runOK1)
  exact (C04_finalized_prefix_stable _ _ _ _ _ Example.baseOK _ _ Example.ops1 []
    Example.ref0 (by simpa using Example.runOK1) f hf 0 (Nat.zero_le _)).2

example : (apply Example.cd Example.cfg Example.s0 Example.b1 true Example.x1 false).2 = .ok := by
  decide

example : deleteTip Example.cd Example.cfg Example.s0 false = (Example.s0, .err) :=
  C04_delete_refuses_finalized _ _ _ Example.g [] false 0 rfl (by decide) (by decide)

example : getHeightWithGap 100 40 7 10 = [100, 93, 86, 79, 72, 65, 58, 51, 44] := by decide
example : getHeightWithGap 30 40 7 10 = [40] := by decide
example : getLastHeights 5 20 = [5, 4, 3, 2, 1, 0] := by decide
example : fastSyncDecide 50 39 40 52 4 = .banBelowFinalized := by decide
example : fastSyncDecide 50 45 40 52 4 = .proceed := by decide
