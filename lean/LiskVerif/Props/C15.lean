/-
C15 (part 2) — a generator never contradicts itself.

Theorems about part 2 of `LiskVerif.Model.Generator` (header bookkeeping of `forge` /
`initBlockHeader` with the stored `GeneratorInfo`), for the FIXED update rule
(/verif/fixes/C15-max-height-generated.patch: the stored height is the largest height ever
generated), for every sequence of operations
  `ext` (a block of another generator is applied), `del k` (blocks deleted from the tip — a chain
  switch is `del` followed by `ext`s), `forge v o` (validator `v` generates on the tip; outcome `o`:
  applied / handed on but dropped or process died after the database write / process died before
  the write), `restart`
started from the empty generator database, with arbitrary values of the chain's maxHeightPrevoted.
The contradiction predicate is the one regenerated from the Go source (`Gen.areDistinctHeadersContradicting`,
C07). Part 1 (transaction selection) is in `Props/C15_Sel.lean`.
-/
import LiskVerif.Model.Generator
import LiskVerif.Props.C07
import LiskVerif.Props.C15_Sel

open LiskVerif LiskVerif.Gen LiskVerif.Generator

/-- largest height in a list of headers (0 for none) -/
def C15maxHeight : List Hdr → Nat
  | [] => 0
  | h :: r => max h.height (C15maxHeight r)

/-- the forging opportunities `(height, chain maxHeightPrevoted)` of validator `v` whose header
reached the generator database, in order -/
def C15steps (addr : Nat → Bytes) (v : Nat) : GState → List Op → List (Nat × Nat)
  | _, [] => []
  | st, op :: r =>
    let rest := C15steps addr v (applyOp .fixed addr st op) r
    match op with
    | .forge w o _ => if w = v ∧ o ≠ .crashedBeforeWrite then (st.height + 1, st.mhp) :: rest else rest
    | _ => rest

/-! ### lemmas -/

private theorem maxHeight_append (l : List Hdr) (h : Hdr) :
    C15maxHeight (l ++ [h]) = max (C15maxHeight l) h.height := by
  induction l with
  | nil => simp [C15maxHeight]
  | cons a r ih => simp only [List.cons_append, C15maxHeight, ih]; omega

private theorem getInfo_cons (k : Nat) (x : Info) (r : List (Nat × Info)) (v : Nat) :
    getInfo ((k, x) :: r) v = if (k == v) = true then x else getInfo r v := by
  unfold getInfo
  by_cases h : (k == v) = true
  · simp [List.find?, h]
  · simp [List.find?, h]

private theorem getInfo_setInfo_same (infos : List (Nat × Info)) (v : Nat) (i : Info) :
    getInfo (setInfo infos v i) v = i := by
  induction infos with
  | nil => simp [setInfo, getInfo]
  | cons p r ih =>
    obtain ⟨k, x⟩ := p
    unfold setInfo
    by_cases hk : (k == v) = true
    · simp [hk, getInfo_cons]
    · simp [hk, getInfo_cons, ih]

private theorem getInfo_setInfo_other (infos : List (Nat × Info)) (v w : Nat) (i : Info) (h : w ≠ v) :
    getInfo (setInfo infos v i) w = getInfo infos w := by
  induction infos with
  | nil =>
    have : ¬ v = w := fun e => h e.symm
    simp [setInfo, this, getInfo]
  | cons p r ih =>
    obtain ⟨k, x⟩ := p
    unfold setInfo
    by_cases hk : (k == v) = true
    · have hkv : k = v := by simpa using hk
      have hkw : ¬ k = w := by rw [hkv]; exact fun e => h e.symm
      simp [hk, getInfo_cons, hkw]
    · simp only [hk, Bool.false_eq_true, ↓reduceIte, getInfo_cons, ih]

private theorem headersOf_append_same (v : Nat) (l : List (Nat × Hdr)) (h : Hdr) :
    headersOf v (l ++ [(v, h)]) = headersOf v l ++ [h] := by
  simp [headersOf, List.filter_append]

private theorem headersOf_append_other (v w : Nat) (l : List (Nat × Hdr)) (h : Hdr) (hne : w ≠ v) :
    headersOf v (l ++ [(w, h)]) = headersOf v l := by
  have : (w == v) = false := by simp; exact hne
  simp [headersOf, List.filter_append, this]

/-- the invariant: for every validator the stored height is the largest persisted height, and the
hand-off list is the persisted list -/
private def C15Inv (st : GState) : Prop :=
  (∀ v, (getInfo st.infos v).height = C15maxHeight (headersOf v st.persisted)) ∧
  st.handedOn = st.persisted

private theorem nextInfo_fixed_height (addr : Nat → Bytes) (st : GState) (v : Nat) :
    (nextInfo .fixed (mkHeader addr st v)).height = max (getInfo st.infos v).height (st.height + 1) := by
  simp only [nextInfo, mkHeader]; omega

private theorem inv_step (addr : Nat → Bytes) (st : GState) (op : Op) (h : C15Inv st) :
    C15Inv (applyOp .fixed addr st op) := by
  obtain ⟨h1, h2⟩ := h
  cases op with
  | ext m => exact ⟨h1, h2⟩
  | del k m => exact ⟨h1, h2⟩
  | restart => exact ⟨h1, h2⟩
  | forge w o m =>
    cases o with
    | crashedBeforeWrite => exact ⟨h1, h2⟩
    | dropped =>
      refine ⟨?_, by simp [applyOp, h2]⟩
      intro v
      by_cases hv : v = w
      · subst hv
        simp only [applyOp, getInfo_setInfo_same, headersOf_append_same, maxHeight_append,
          nextInfo_fixed_height, ← h1 v]
        simp [mkHeader]
      · simp only [applyOp, getInfo_setInfo_other _ _ _ _ hv,
          headersOf_append_other _ _ _ _ (fun e => hv e.symm), h1 v]
    | applied =>
      refine ⟨?_, by simp [applyOp, h2]⟩
      intro v
      by_cases hv : v = w
      · subst hv
        simp only [applyOp, getInfo_setInfo_same, headersOf_append_same, maxHeight_append,
          nextInfo_fixed_height, ← h1 v]
        simp [mkHeader]
      · simp only [applyOp, getInfo_setInfo_other _ _ _ _ hv,
          headersOf_append_other _ _ _ _ (fun e => hv e.symm), h1 v]

private theorem inv_run (addr : Nat → Bytes) (ops : List Op) (st : GState) (h : C15Inv st) :
    C15Inv (run .fixed addr st ops) := by
  induction ops generalizing st with
  | nil => exact h
  | cons op r ih => exact ih _ (inv_step addr st op h)

private theorem inv_init : C15Inv {} := ⟨fun _ => rfl, rfl⟩

private theorem maxHeight_ge (l : List Hdr) (h : Hdr) (hm : h ∈ l) : h.height ≤ C15maxHeight l := by
  induction l with
  | nil => cases hm
  | cons a r ih =>
    simp only [C15maxHeight]
    rcases List.mem_cons.mp hm with rfl | hm
    · omega
    · have := ih hm; omega

/-! ### property theorems -/

/-- What `maxHeightGenerated` reports: after ANY sequence of forge / delete / chain switch /
restart / crash, the header a validator generates next carries the largest height of all its
headers that ever reached the generator database (0 if none) — not the height of the last one. -/
theorem C15_reports_largest_height (addr : Nat → Bytes) (ops : List Op) (v : Nat) :
    (mkHeader addr (run .fixed addr {} ops) v).maxHeightGenerated =
      C15maxHeight (headersOf v (run .fixed addr {} ops).persisted) :=
  (inv_run addr ops {} inv_init).1 v

/-- Persisted before the hand-off: at every moment, every header that was handed to consensus
(`AddInternal`) is covered by what the generator database holds for its validator — so whatever
happens after the hand-off (crash, restart, the block being dropped), the next header reports a
height at least as large. -/
theorem C15_persisted_before_handoff (addr : Nat → Bytes) (ops : List Op) (v : Nat) (h : Hdr)
    (hh : (v, h) ∈ (run .fixed addr {} ops).handedOn) :
    h.height ≤ (getInfo (run .fixed addr {} ops).infos v).height ∧
    h.height ≤ (mkHeader addr (run .fixed addr {} ops) v).maxHeightGenerated := by
  have hinv := inv_run addr ops {} inv_init
  have hmem : h ∈ headersOf v (run .fixed addr {} ops).persisted := by
    rw [hinv.2] at hh
    simp only [headersOf, List.mem_map, List.mem_filter]
    exact ⟨(v, h), ⟨hh, by simp⟩, rfl⟩
  have := maxHeight_ge _ _ hmem
  rw [← hinv.1 v] at this
  exact ⟨this, this⟩

/-- the stored height never decreases -/
theorem C15_stored_height_monotone (addr : Nat → Bytes) (st : GState) (op : Op) (v : Nat) :
    (getInfo st.infos v).height ≤ (getInfo (applyOp .fixed addr st op).infos v).height := by
  cases op with
  | ext m => exact Nat.le_refl _
  | del k m => exact Nat.le_refl _
  | restart => exact Nat.le_refl _
  | forge w o m =>
    cases o with
    | crashedBeforeWrite => exact Nat.le_refl _
    | dropped =>
      by_cases hv : v = w
      · subst hv; simp only [applyOp, getInfo_setInfo_same, nextInfo_fixed_height]; omega
      · simp only [applyOp, getInfo_setInfo_other _ _ _ _ hv]; exact Nat.le_refl _
    | applied =>
      by_cases hv : v = w
      · subst hv; simp only [applyOp, getInfo_setInfo_same, nextInfo_fixed_height]; omega
      · simp only [applyOp, getInfo_setInfo_other _ _ _ _ hv]; exact Nat.le_refl _

/-- the headers of one validator are exactly the run of C07's honest generator (which remembers
the largest height) over the validator's forging opportunities -/
private theorem sim (addr : Nat → Bytes) (v : Nat) (ops : List Op) :
    ∀ (st : GState) (s : C07Gen), s.maxGen = (getInfo st.infos v).height →
      headersOf v (run .fixed addr st ops).persisted =
        headersOf v st.persisted ++ C07Gen.run (addr v) s (C15steps addr v st ops) := by
  induction ops with
  | nil => intro st s _; simp [run, C15steps, C07Gen.run]
  | cons op r ih =>
    intro st s hs
    simp only [run, C15steps]
    cases op with
    | ext m => exact ih _ s hs
    | del k m => exact ih _ s hs
    | restart => exact ih _ s hs
    | forge w o m =>
      by_cases hw : w = v
      · subst hw
        cases o with
        | crashedBeforeWrite =>
          have e : applyOp .fixed addr st (.forge w .crashedBeforeWrite m) = st := rfl
          simp only [e, ne_eq, not_true_eq_false, and_false, ↓reduceIte]
          exact ih _ s hs
        | dropped =>
          have hs' : (s.forge (addr w) (st.height + 1) st.mhp).1.maxGen =
              (getInfo (applyOp .fixed addr st (.forge w .dropped m)).infos w).height := by
            simp only [applyOp, getInfo_setInfo_same, nextInfo_fixed_height, C07Gen.forge, hs]
          rw [ih _ _ hs']
          simp only [applyOp, headersOf_append_same, C07Gen.run, List.append_assoc,
            List.cons_append, List.nil_append, ne_eq, reduceCtorEq, not_false_eq_true,
            and_self, ↓reduceIte, C07Gen.forge, mkHeader, hs]
        | applied =>
          have hs' : (s.forge (addr w) (st.height + 1) st.mhp).1.maxGen =
              (getInfo (applyOp .fixed addr st (.forge w .applied m)).infos w).height := by
            simp only [applyOp, getInfo_setInfo_same, nextInfo_fixed_height, C07Gen.forge, hs]
          rw [ih _ _ hs']
          simp only [applyOp, headersOf_append_same, C07Gen.run, List.append_assoc,
            List.cons_append, List.nil_append, ne_eq, reduceCtorEq, not_false_eq_true,
            and_self, ↓reduceIte, C07Gen.forge, mkHeader, hs]
      · have hne : ¬ (w = v ∧ o ≠ Outcome.crashedBeforeWrite) := fun h => hw h.1
        simp only [hne, ↓reduceIte]
        cases o with
        | crashedBeforeWrite => exact ih _ s hs
        | dropped =>
          have hs' : s.maxGen = (getInfo (applyOp .fixed addr st (.forge w .dropped m)).infos v).height := by
            simp only [applyOp, getInfo_setInfo_other _ _ _ _ (fun e => hw e.symm), hs]
          rw [ih _ s hs']
          simp only [applyOp, headersOf_append_other _ _ _ _ hw]
        | applied =>
          have hs' : s.maxGen = (getInfo (applyOp .fixed addr st (.forge w .applied m)).infos v).height := by
            simp only [applyOp, getInfo_setInfo_other _ _ _ _ (fun e => hw e.symm), hs]
          rw [ih _ s hs']
          simp only [applyOp, headersOf_append_other _ _ _ _ hw]

/-- The headers of a validator are the headers of the honest generator of C07. -/
theorem C15_refines_honest_generator (addr : Nat → Bytes) (ops : List Op) (v : Nat) :
    headersOf v (run .fixed addr {} ops).persisted =
      C07Gen.run (addr v) {} (C15steps addr v {} ops) := by
  have := sim addr v ops {} {} rfl
  simpa [headersOf] using this

/-- No self-contradiction: for every sequence of forge / delete / better-chain switch / restart /
crash, if each time the validator generates its tip is better in the fork-choice order (larger
maxHeightPrevoted, or equal and larger height) than the tip it generated on before — which is what
a node that only moves to chains preferred by fork choice provides, including a better but
SHORTER chain — then no two headers the validator ever signed contradict each other, in either
order (`contradiction.AreDistinctHeadersContradicting`, regenerated from the Go source). -/
theorem C15_no_self_contradiction (addr : Nat → Bytes) (ops : List Op) (v : Nat)
    (hall : C07Gen.allowedAll {} (C15steps addr v {} ops)) :
    (headersOf v (run .fixed addr {} ops).persisted).Pairwise
      (fun a b => areDistinctHeadersContradicting a b = false ∧
        areDistinctHeadersContradicting b a = false) := by
  rw [C15_refines_honest_generator]
  have hgen : ∀ (steps : List (Nat × Nat)) (s : C07Gen), ∀ x ∈ C07Gen.run (addr v) s steps,
      x.generatorAddress = addr v := by
    intro steps
    induction steps with
    | nil => intro s x hx; simp [C07Gen.run] at hx
    | cons st r ih =>
      intro s x hx
      obtain ⟨h, p⟩ := st
      simp only [C07Gen.run, List.mem_cons] at hx
      rcases hx with rfl | hx
      · rfl
      · exact ih _ x hx
  exact C07_protocol_follower_never_flagged _ (addr v) (hgen _ _)
    (C07_honest_generator_chain (addr v) _ {} hall)

/-- Whatever the tips are: a contradiction between two headers of one validator can only come from
the fork-choice part (the later header is not on a better tip), never from `maxHeightGenerated`:
for an earlier header `e` and a later header `l` of the validator, `e.height ≤ l.maxHeightGenerated`
and `e.maxHeightGenerated ≤ l.maxHeightGenerated` always hold. -/
theorem C15_max_height_generated_clauses (addr : Nat → Bytes) (ops : List Op) (v : Nat) :
    (headersOf v (run .fixed addr {} ops).persisted).Pairwise
      (fun e l => e.height ≤ l.maxHeightGenerated ∧ e.maxHeightGenerated ≤ l.maxHeightGenerated) := by
  rw [C15_refines_honest_generator]
  have key : ∀ (steps : List (Nat × Nat)) (s : C07Gen),
      (∀ y ∈ C07Gen.run (addr v) s steps, s.maxGen ≤ y.maxHeightGenerated) ∧
      (C07Gen.run (addr v) s steps).Pairwise
        (fun e l => e.height ≤ l.maxHeightGenerated ∧ e.maxHeightGenerated ≤ l.maxHeightGenerated) := by
    intro steps
    induction steps with
    | nil => intro s; simp [C07Gen.run]
    | cons st r ih =>
      intro s
      obtain ⟨h, p⟩ := st
      have ih' := ih (s.forge (addr v) h p).1
      simp only [C07Gen.run]
      refine ⟨?_, List.pairwise_cons.mpr ⟨?_, ih'.2⟩⟩
      · intro y hy
        rcases List.mem_cons.mp hy with rfl | hy
        · simp [C07Gen.forge]
        · have := ih'.1 y hy
          simp only [C07Gen.forge] at this
          omega
      · intro y hy
        have := ih'.1 y hy
        simp only [C07Gen.forge] at this ⊢
        omega
  exact (key _ _).2

/-! ### the unpatched rule -/

/-- ten blocks, the validator generates at height 10 on a chain with maxHeightPrevoted 3; the node
moves to a better, shorter chain (3 blocks deleted, maxHeightPrevoted 4); the validator generates
at 8 and then at 9 -/
def C15counterOps : List Op :=
  [.ext 0, .ext 0, .ext 0, .ext 0, .ext 0, .ext 0, .ext 1, .ext 2, .ext 3,
   .forge 0 .applied 3, .del 3 4, .forge 0 .applied 4, .restart, .forge 0 .applied 4]

/-- With the unpatched rule (the stored height is the height of the LAST generated block) the
header at height 9 reports maxHeightGenerated = 8 and contradicts the header at height 10 —
although every forging opportunity was on a better tip (`allowedAll`), i.e. the environment
behaved; with the fixed rule the same history has no contradiction. -/
theorem C15_original_contradicts_counterexample :
    let addr : Nat → Bytes := fun v => [UInt8.ofNat v]
    let hs := headersOf 0 (run .original addr {} C15counterOps).persisted
    hs.map (fun h => (h.height, h.maxHeightGenerated, h.maxHeightPrevoted)) = [(10, 0, 3), (8, 10, 4), (9, 8, 4)] ∧
    (∃ a ∈ hs, ∃ b ∈ hs, areDistinctHeadersContradicting a b = true) ∧
    C07Gen.allowedAll {} (C15steps addr 0 {} C15counterOps) ∧
    (headersOf 0 (run .fixed addr {} C15counterOps).persisted).map
      (fun h => (h.height, h.maxHeightGenerated, h.maxHeightPrevoted)) = [(10, 0, 3), (8, 10, 4), (9, 10, 4)] := by
  refine ⟨by decide, ?_, ?_, by decide⟩
  · refine ⟨{ height := 10, generatorAddress := [0], maxHeightGenerated := 0, maxHeightPrevoted := 3 }, by decide,
      { height := 9, generatorAddress := [0], maxHeightGenerated := 8, maxHeightPrevoted := 4 }, by decide, by decide⟩
  · have hs : C15steps (fun v => [UInt8.ofNat v]) 0 {} C15counterOps = [(10, 3), (8, 4), (9, 4)] := by decide
    rw [hs]
    simp [C07Gen.allowedAll, C07Gen.allowed, C07Gen.forge]

/-! ### non-vacuity -/

-- the fixed rule on the counterexample history: hypotheses of `C15_no_self_contradiction` hold
example : C07Gen.allowedAll {} (C15steps (fun v => [UInt8.ofNat v]) 0 {} C15counterOps) :=
  C15_original_contradicts_counterexample.2.2.1
example : (mkHeader (fun v => [UInt8.ofNat v]) (run .fixed (fun v => [UInt8.ofNat v]) {} C15counterOps) 0).maxHeightGenerated = 10 := by
  decide
-- a crash before the write leaves no trace; a dropped block is still accounted for
example : (run .fixed (fun v => [UInt8.ofNat v]) {}
    [.ext 0, .forge 1 .crashedBeforeWrite 0, .forge 1 .dropped 0, .restart, .forge 1 .applied 0]).persisted.map
      (fun p => (p.2.height, p.2.maxHeightGenerated)) = [(2, 0), (2, 2)] := by decide
