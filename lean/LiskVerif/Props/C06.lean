/-
C06 — Certificates: aggregate commits are sound, bounded and self-consistent.

Theorems about `LiskVerif.Model.Cert` (model of pkg/consensus/certificate.go,
pkg/consensus/certificate/*.go, pkg/crypto/bls.go `Bits`/aggregate functions) under the ideal
aggregate-signature functionality described in the model file.  The pool-invariant theorems
(`singleCommitValidator`, `Certify`, pool operations) and the bitmap range theorems are in
`Props/C06_Pool.lean`.
-/
import LiskVerif.Lemmas.Cert

open LiskVerif LiskVerif.Cert

/-- Soundness of `verifyAggregateCommit`: an accepted non-empty aggregate commit has a height
strictly above the last certified height, not above the precommitted height and strictly below every
parameter change after `maxHeightCertified + 1`; its signature is the aggregate, over the
certificate of the node's OWN block at that height for this chain id, of exactly a set `vs` of
validators of that height whose weight reaches that height's certificate threshold. -/
theorem C06_verify_sound (st : State) (ac : AggCommit)
    (hacc : verifyAggregateCommit st ac = .accept) (hne : ac.isEmpty = false) :
    st.mhc < ac.height ∧ ac.height ≤ st.mhpc ∧
    (∀ e ∈ st.params, st.mhc + 1 < e.1 → ac.height < e.1) ∧
    ∃ (hd : Header) (p : Params) (signers : List Nat) (vs : List Validator),
      st.blockAt ac.height = some hd ∧ getParams st.params ac.height = some p ∧
      ac.sig = some (.agg signers (certMsg st hd)) ∧
      vs.Sublist (sortVals p.validators) ∧ signers.Perm (vs.map (·.key)) ∧
      p.threshold ≤ (vs.map (·.weight)).sum := by
  have cert : ∀ sig, ac.sig = some sig → verifyCertificate st ac sig = .accept →
      ∃ (hd : Header) (p : Params) (signers : List Nat) (vs : List Validator),
        st.blockAt ac.height = some hd ∧ getParams st.params ac.height = some p ∧
        ac.sig = some (.agg signers (certMsg st hd)) ∧
        vs.Sublist (sortVals p.validators) ∧ signers.Perm (vs.map (·.key)) ∧
        p.threshold ≤ (vs.map (·.weight)).sum := by
    intro sig hsig hv
    unfold verifyCertificate at hv
    split at hv
    · cases hv
    · rename_i hd hhd
      split at hv
      · cases hv
      · rename_i p hp
        simp only at hv
        split at hv
        · rename_i hw
          unfold verifyWeighted at hw
          split at hw
          · cases hw
          · simp only at hw
            split at hw
            · cases hw
            · rename_i hthr
              obtain ⟨signers, hs, hperm⟩ := fastAggregateVerify_true hw
              rw [selectedKW_map] at hperm hthr
              refine ⟨hd, p, signers, selVals (sortVals p.validators) ac.bits, hhd, hp, ?_, selVals_sublist _ _, ?_, ?_⟩
              · rw [hsig, hs]
              · simpa [List.map_map, Function.comp_def] using hperm
              · simp only [sumWeights, List.map_map, Function.comp_def] at hthr
                omega
        · cases hv
  unfold verifyAggregateCommit at hacc
  split at hacc
  · rename_i h
    rw [h.1] at hne
    cases hne
  · split at hacc
    · cases hacc
    · rename_i sig hsig
      split at hacc
      · cases hacc
      · split at hacc
        · cases hacc
        · split at hacc
          · cases hacc
          · rename_i h1 h2
            split at hacc
            · rename_i nh hnh
              split at hacc
              · cases hacc
              · rename_i h3
                obtain ⟨hx, _, hmin⟩ := nextHeightParams_some hnh
                refine ⟨by omega, by omega, ?_, cert sig hsig hacc⟩
                intro e he hlt
                have := hmin e he hlt
                omega
            · rename_i hnh
              refine ⟨by omega, by omega, ?_, cert sig hsig hacc⟩
              intro e he hlt
              exact absurd hlt (nextHeightParams_none hnh e he)

/-- The empty aggregate commit is accepted exactly at the last certified height: an accepted
aggregate commit is empty iff its height equals `maxHeightCertified`, and the empty commit at
`maxHeightCertified` is always accepted. -/
theorem C06_empty_commit_only_at_mhc (st : State) (ac : AggCommit)
    (hacc : verifyAggregateCommit st ac = .accept) :
    (ac.isEmpty = true ↔ ac.height = st.mhc) := by
  constructor
  · intro he
    unfold verifyAggregateCommit at hacc
    split at hacc
    · rename_i h; exact h.2
    · simp only [AggCommit.isEmpty, Bool.and_eq_true, List.isEmpty_iff, Option.isNone_iff_eq_none] at he
      rw [he.2] at hacc
      cases hacc
  · intro hh
    cases hem : ac.isEmpty with
    | true => rfl
    | false =>
      have := (C06_verify_sound st ac hacc hem).1
      omega

theorem C06_empty_commit_accepted (st : State) : verifyAggregateCommit st (emptyCommit st) = .accept := by
  simp [verifyAggregateCommit, emptyCommit, AggCommit.isEmpty]

private theorem gacStart_le (st : State) :
    gacStart st ≤ st.mhpc ∧ ∀ nh, nextHeightParams st.params (st.mhc + 1) = some nh → gacStart st ≤ nh - 1 := by
  unfold gacStart
  split
  · rename_i nh hnh
    refine ⟨Nat.min_le_right _ _, ?_⟩
    intro nh' h'
    rw [hnh] at h'
    cases h'
    exact Nat.min_le_left _ _
  · rename_i hnh
    refine ⟨Nat.le_refl _, ?_⟩
    intro nh' h'
    rw [hnh] at h'
    cases h'

/-- Self-consistency: for every pool satisfying the pool invariant (every entry is a commit for
some block by a validator active at that block's height with a signature that verifies for that
block's certificate; at most one entry per (block, signer) - entries for blocks of abandoned forks
are allowed), every chain state consistent with the block context and every well-formed parameter
store, the aggregate commit assembled by `GetAggregateCommit` is accepted by the node's own
`verifyAggregateCommit` in the same state.  This is where the key ORDER of
`SingleCommits.Aggregate` and of the verification must agree, and where entries of replaced blocks
must be left out. -/
theorem C06_assembled_accepted (st : State) (ctx : BlockCtx) (pool : Pool) (ac : AggCommit)
    (hwf : StoreWf st.params) (hcons : Consistent st ctx) (hinv : PoolInv ctx st.chainId pool)
    (hg : getAggregateCommit st pool = .ok ac) : verifyAggregateCommit st ac = .accept := by
  unfold getAggregateCommit getAggregateCommitOrd at hg
  rcases gacLoop_spec st pool ctx hwf hcons hinv (gacStart st - st.mhc) with
    h | ⟨ac', h, sig, hd, p, h1, h2, h3, h4, h5, h6, h7⟩ | ⟨h, _⟩
  · rw [h] at hg
    cases hg
    exact C06_empty_commit_accepted st
  · rw [h] at hg
    cases hg
    obtain ⟨hs1, hs2⟩ := gacStart_le st
    have hne : ac.bits.isEmpty = false := by
      cases hb : ac.bits with
      | nil => exact absurd hb h2
      | cons _ _ => rfl
    have hcert : verifyCertificate st ac sig = .accept := by
      unfold verifyCertificate
      rw [h5, h6]
      simp only
      rw [if_pos h7]
    unfold verifyAggregateCommit
    rw [if_neg (by simp [AggCommit.isEmpty, hne])]
    rw [h1]
    simp only [hne]
    rw [if_neg (by simp), if_neg (by omega), if_neg (by omega)]
    split
    · rename_i nh hnh
      have := hs2 nh hnh
      rw [if_neg (by omega)]
      exact hcert
    · exact hcert
  · rw [h] at hg
    cases hg

/-- Under the same hypotheses, when the chain has a block for every height up to
`maxHeightPrecommitted`, `GetAggregateCommit` neither fails nor panics. -/
theorem C06_assembled_total (st : State) (ctx : BlockCtx) (pool : Pool)
    (hwf : StoreWf st.params) (hcons : Consistent st ctx) (hinv : PoolInv ctx st.chainId pool)
    (hblocks : ∀ h, st.mhc < h → h ≤ st.mhpc → st.blockAt h ≠ none) :
    ∃ ac, getAggregateCommit st pool = .ok ac := by
  unfold getAggregateCommit getAggregateCommitOrd
  rcases gacLoop_spec st pool ctx hwf hcons hinv (gacStart st - st.mhc) with h | ⟨ac', h, _⟩ | ⟨_, h, h1, h2, h3⟩
  · exact ⟨_, h⟩
  · exact ⟨_, h⟩
  · have := (gacStart_le st).1
    exact absurd h3 (hblocks h h1 (by omega))

/-! ### the order mismatch of the unfixed code -/

/-- four validators (address = index), BLS keys 10 < 20 < 30 < 40, weight 1, threshold 3 -/
def C06cxParams : Params := ⟨[⟨0, 10, 1⟩, ⟨1, 20, 1⟩, ⟨2, 30, 1⟩, ⟨3, 40, 1⟩], 3⟩

/-- chain of 10 blocks (block id = 100 + height), height 5 precommitted, nothing certified -/
def C06cxState : State :=
  { chainId := 1
    blockAt := fun h => if h ≤ 10 then some ⟨100 + h, 0⟩ else none
    params := [(1, C06cxParams)]
    mhpc := 5
    mhc := 0 }

/-- validators 1, 2 and 3 (the three largest keys) signed height 5 -/
def C06cxPool : Pool :=
  ⟨[⟨105, 5, 1, sign 20 ⟨1, 105⟩, false⟩, ⟨105, 5, 2, sign 30 ⟨1, 105⟩, false⟩, ⟨105, 5, 3, sign 40 ⟨1, 105⟩, false⟩], []⟩

theorem C06cx_wf : StoreWf C06cxState.params := by
  intro e he
  simp only [C06cxState, List.mem_singleton] at he
  subst he
  constructor <;> decide

/-- the block context of the example: the blocks 101..110 of the example chain -/
def C06cxCtx : BlockCtx := fun b => if 101 ≤ b ∧ b ≤ 110 then some (b - 100, C06cxParams) else none

theorem C06cx_getParams (h : Nat) : getParams C06cxState.params h = if 1 ≤ h then some C06cxParams else none := by
  simp only [C06cxState, getParams, getParamsEntry]
  split <;> simp_all

theorem C06cx_consistent : Consistent C06cxState C06cxCtx := by
  intro h hd hb
  simp only [C06cxState] at hb
  split at hb
  · rename_i hle
    cases hb
    rw [C06cx_getParams]
    simp only [C06cxCtx]
    constructor
    · intro p hp
      split at hp
      · cases hp
        rw [if_pos (by omega)]
        congr 2
        omega
      · cases hp
    · intro hlt p hp
      simp only [C06cxState] at hlt
      rw [if_pos (by omega)]
      split at hp
      · simp only [Option.some.injEq, Prod.mk.injEq] at hp
        rw [hp.2]
      · cases hp
  · cases hb

theorem C06cx_inv : PoolInv C06cxCtx C06cxState.chainId C06cxPool := by
  constructor
  · intro c hc
    simp only [C06cxPool, Pool.all, List.nil_append, List.mem_cons, List.not_mem_nil, or_false] at hc
    rcases hc with rfl | rfl | rfl
    · exact ⟨C06cxParams, ⟨1, 20, 1⟩, rfl, by decide, rfl⟩
    · exact ⟨C06cxParams, ⟨2, 30, 1⟩, rfl, by decide, rfl⟩
    · exact ⟨C06cxParams, ⟨3, 40, 1⟩, rfl, by decide, rfl⟩
  · simp [C06cxPool, Pool.all]

/-- The defect `c06-own-aggregate-rejected`: when `SingleCommits.Aggregate` numbers the bits in
DESCENDING key order (the original `AddressKeyPairs.Sort`) while the verification sorts ascending, the
aggregate of a 3-of-4 subset reaching the threshold (bits `07` instead of `0e`) is rejected by the
node's own verification, although the pool satisfies the invariant; with the ascending order the same
pool yields an accepted aggregate. -/
theorem C06_order_mismatch_counterexample :
    StoreWf C06cxState.params ∧ Consistent C06cxState C06cxCtx ∧ PoolInv C06cxCtx C06cxState.chainId C06cxPool ∧
    (∃ ac, getAggregateCommitOrd keyGe C06cxState C06cxPool = .ok ac ∧
      Bits.toBytes ac.bits = [0x07] ∧
      verifyAggregateCommit C06cxState ac = .reject .invalidCertificate) ∧
    (∃ ac, getAggregateCommit C06cxState C06cxPool = .ok ac ∧
      Bits.toBytes ac.bits = [0x0e] ∧
      verifyAggregateCommit C06cxState ac = .accept) := by
  refine ⟨C06cx_wf, C06cx_consistent, C06cx_inv, ⟨_, rfl, by decide, by decide⟩, ⟨_, rfl, by decide, by decide⟩⟩

/-! ### non-vacuity -/

/-- `C06_verify_sound` / `C06_assembled_accepted` are not vacuous: the example pool yields a
non-empty accepted aggregate commit for height 5. -/
example : ∃ ac, getAggregateCommit C06cxState C06cxPool = .ok ac ∧ ac.isEmpty = false ∧ ac.height = 5 ∧
    verifyAggregateCommit C06cxState ac = .accept :=
  ⟨_, rfl, by decide, by decide, C06_assembled_accepted _ _ _ _ C06cx_wf C06cx_consistent C06cx_inv rfl⟩

/-- a stale entry (validator 0 signed another block `999` at height 5 before a reorganisation) does
not spoil the aggregate: it is left out -/
example : ∃ ac, getAggregateCommit C06cxState (C06cxPool.add ⟨999, 5, 0, sign 10 ⟨1, 999⟩, false⟩) = .ok ac ∧
    Bits.toBytes ac.bits = [0x0e] ∧ verifyAggregateCommit C06cxState ac = .accept :=
  ⟨_, rfl, by decide, by decide⟩

/-- a tampered variant (one more bit) of the accepted aggregate is rejected -/
example : verifyAggregateCommit C06cxState
    ⟨5, Bits.ofBytes [0x0f], some (.agg [20, 30, 40] ⟨1, 105⟩)⟩ = .reject .invalidCertificate := by decide

/-- the height bounds are enforced: a correctly signed commit above `maxHeightPrecommitted` -/
example : verifyAggregateCommit C06cxState
    ⟨6, Bits.ofBytes [0x0e], some (.agg [20, 30, 40] ⟨1, 106⟩)⟩ = .reject .abovePrecommitted := by decide

/-- the next-parameter bound is enforced: with a parameter change stored for height 4 the block 3
authenticating it has to be certified before any later height -/
example : verifyAggregateCommit { C06cxState with params := [(1, C06cxParams), (4, C06cxParams)] }
    ⟨5, Bits.ofBytes [0x0e], some (.agg [20, 30, 40] ⟨1, 105⟩)⟩ = .reject .beyondNextParams := by decide

example : verifyAggregateCommit { C06cxState with params := [(1, C06cxParams), (4, C06cxParams)] }
    ⟨3, Bits.ofBytes [0x0e], some (.agg [20, 30, 40] ⟨1, 103⟩)⟩ = .accept := by decide

/-- `C06_empty_commit_only_at_mhc` is not vacuous -/
example : verifyAggregateCommit C06cxState ⟨0, [], none⟩ = .accept ∧
    verifyAggregateCommit C06cxState ⟨1, [], none⟩ = .reject .emptyField := by decide

/-! ### retention -/

/-- Retention consistency: a single commit that the gossip validator adds to the pool in some state
is kept by the cleanup step of `broadcastCertificate` in the same state (the acceptance range
`(removal height, ..]`, `[maxHeightPrecommitted - 100, maxHeightPrecommitted]` or "authenticates a
parameter change" is the same in both places).  In the original code the cleanup dropped the commits
of `maxHeightPrecommitted` itself and the validator tested the parameters of the wrong height. -/
theorem C06_cleanup_keeps_accepted (st : State) (pool : Pool) (m : Incoming) (fin : Header)
    (hfin : st.blockAt st.mhpc = some fin)
    (hadd : (scvOne st pool m).1 ≠ pool) : cleanupKeep st fin.acHeight m.height = true := by
  unfold scvOne at hadd
  split at hadd
  · exact absurd rfl hadd
  · split at hadd
    · exact absurd rfl hadd
    · rw [hfin] at hadd
      simp only at hadd
      split at hadd
      · exact absurd rfl hadd
      · rename_i hrem
        split at hadd
        · exact absurd rfl hadd
        · rename_i hrange
          unfold cleanupKeep
          rw [if_neg hrem]
          simp only [Bool.and_eq_true, Bool.or_eq_true, decide_eq_true_eq, Bool.not_eq_eq_eq_not,
            Bool.not_true, not_and, Bool.not_eq_false] at hrange
          by_cases hex : existParams st.params (m.height + 1) = true
          · simp [hex]
          · have hex' : existParams st.params (m.height + 1) = false := by simpa using hex
            have : ¬ (m.height < minStoredHeight st.mhpc ∨ m.height > st.mhpc) := fun h => by
              have := hrange h
              rw [hex'] at this
              cases this
            have h1 : m.height ≥ minStoredHeight st.mhpc := by omega
            have h2 : m.height ≤ st.mhpc := by omega
            simp [h1, h2]

example : (scvOne C06cxState Pool.empty ⟨true, 105, 5, 1, sign 20 ⟨1, 105⟩⟩).1 ≠ Pool.empty ∧
    cleanupKeep C06cxState 0 5 = true := by
  constructor
  · intro h
    have := congrArg Pool.size h
    revert this
    decide
  · decide
