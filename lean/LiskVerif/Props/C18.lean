/-
C18 — Peer penalties accumulate into bans that are enforced and expire (connection gater part).

Theorems about `LiskVerif.Model.ConnGater` (model of pkg/p2p/conngater.go), for ALL sequences of
operations (penalties of any amount against any address, expiry passes at any time, block /
unblock / blacklist configuration).  The rate limiter and message-protocol clauses are in
`Props/C18_Rate.lean`.

Specification side (independent bookkeeping): for one IP, its *epoch* is the list of penalties
(time, amount) received since its entry was last removed by an expiry pass; the ban threshold is
reached when some chronological prefix of the epoch sums to >= 100, and the ban expires `E`
seconds after the last penalty at which the running total was >= 100.
-/
import LiskVerif.Lemmas.ConnGater

open LiskVerif LiskVerif.ConnGater

/-- penalties (time, amount) received since the entry was last removed; most recent first -/
abbrev C18Epoch := List (Nat × Int)

/-- accumulated score of an epoch -/
def C18total : C18Epoch → Int
  | [] => 0
  | (_, s) :: r => C18total r + s

/-- the expiration implied by an epoch: `-1` while no chronological prefix reached the threshold,
otherwise `E` seconds after the most recent penalty at which the running total was >= 100 -/
def C18expOf (E : Nat) : C18Epoch → Int
  | [] => -1
  | (t, s) :: older =>
    if C18total ((t, s) :: older) ≥ 100 then ((t + E : Nat) : Int) else C18expOf E older

/-- the table entry implied by an epoch -/
def C18specEntry (E : Nat) : C18Epoch → Option PeerInfo
  | [] => none
  | e :: r => some ⟨C18total (e :: r), C18expOf E (e :: r)⟩

/-- the ban threshold was reached by some chronological prefix of the epoch -/
def C18Reached (ep : C18Epoch) : Prop := ∃ k, k < ep.length ∧ C18total (ep.drop k) ≥ 100

/-- evolution of the epoch of `ip`: penalties against an address with that IP are recorded; an expiry
pass after the implied expiration starts a new (empty) epoch; nothing else matters. -/
def C18epochStep (E : Nat) (ip : IP) (ep : C18Epoch) : Op → C18Epoch
  | .pen now a s => if a.ip = some ip then (now, s) :: ep else ep
  | .sweep now => if C18expOf E ep ≠ -1 ∧ (now : Int) > C18expOf E ep then [] else ep
  | _ => ep

def C18epoch (E : Nat) (ip : IP) (ops : List Op) : C18Epoch := ops.foldl (C18epochStep E ip) []

/-- permanent blacklist membership of `ip` as a function of the configuration operations -/
def C18blockedStep (ip : IP) (b : Bool) : Op → Bool
  | .block ip' => b || decide (ip' = ip)
  | .unblock ip' => b && !decide (ip' = ip)
  | .blacklist l => if l.any (·.isNone) then b else b || decide (some ip ∈ l)
  | _ => b

def C18blocked (ip : IP) (ops : List Op) : Bool := ops.foldl (C18blockedStep ip) false

/-- a freshly created and started gater with ban duration `E` seconds -/
def C18fresh (E : Nat) : Gater := { expSecs := E, started := true }

/-! ### the refinement invariant -/

structure C18Rel (E : Nat) (ip : IP) (g : Gater) (ep : C18Epoch) : Prop where
  started : g.started = true
  exp : g.expSecs = E
  nodup : NoDupKeys g.peerScore
  entry : find g.peerScore ip = C18specEntry E ep

private theorem expOf_ne_iff (E : Nat) (ep : C18Epoch) : C18expOf E ep ≠ -1 ↔ C18Reached ep := by
  induction ep with
  | nil =>
    simp only [C18expOf, ne_eq, not_true_eq_false, C18Reached, List.length_nil, false_iff]
    rintro ⟨k, hk, _⟩
    omega
  | cons e r ih =>
    obtain ⟨t, s⟩ := e
    by_cases h : C18total ((t, s) :: r) ≥ 100
    · simp only [C18expOf, h, if_true]
      constructor
      · intro _
        exact ⟨0, by simp, by simpa using h⟩
      · intro _
        omega
    · simp only [C18expOf, h, if_false]
      rw [ih]
      constructor
      · rintro ⟨k, hk, hk2⟩
        exact ⟨k + 1, by simp; omega, by simpa using hk2⟩
      · rintro ⟨k, hk, hk2⟩
        cases k with
        | zero => exact absurd (by simpa using hk2) h
        | succ k => exact ⟨k, by simp at hk; omega, by simpa using hk2⟩

private theorem expOf_nonneg_or (E : Nat) (ep : C18Epoch) : C18expOf E ep = -1 ∨ 0 ≤ C18expOf E ep := by
  induction ep with
  | nil => left; rfl
  | cons e r ih =>
    obtain ⟨t, s⟩ := e
    by_cases h : C18total ((t, s) :: r) ≥ 100
    · right; simp only [C18expOf, h, if_true]; omega
    · simp only [C18expOf, h, if_false]; exact ih

private theorem rel_step {E : Nat} {ip : IP} {g : Gater} {ep : C18Epoch} (h : C18Rel E ip g ep)
    (op : Op) : C18Rel E ip (apply g op) (C18epochStep E ip ep op) := by
  cases op with
  | start => exact ⟨rfl, h.exp, h.nodup, h.entry⟩
  | pen now a s =>
    have hf := addPenalty_fields g now a s
    refine ⟨by simpa [apply, hf.1] using h.started, by simpa [apply, hf.2.1] using h.exp,
      addPenalty_nodup g now a s h.nodup, ?_⟩
    by_cases ha : a.ip = some ip
    · obtain ⟨aip, apid⟩ := a
      simp only at ha
      subst ha
      simp only [apply, C18epochStep, if_true, addPenalty_ok h.started, find_put]
      have he := h.entry
      cases ep with
      | nil =>
        simp only [C18specEntry] at he
        simp only [he, C18specEntry, C18total, C18expOf, maxPenaltyScore, h.exp]
        simp
      | cons e r =>
        simp only [C18specEntry] at he
        simp only [he, C18specEntry, C18total, C18expOf, maxPenaltyScore, h.exp]
        simp
    · simp only [apply, C18epochStep, ha, if_false]
      rw [addPenalty_find_other g now a s ip ha]
      exact h.entry
  | sweep now =>
    refine ⟨h.started, h.exp, nodup_filter h.nodup _, ?_⟩
    simp only [apply, sweep, C18epochStep]
    rw [find_filter h.nodup (fun i => !expired now i) ip, h.entry]
    cases ep with
    | nil => simp [C18specEntry, C18expOf, Option.filter]
    | cons e r =>
      by_cases hc : C18expOf E (e :: r) ≠ -1 ∧ (now : Int) > C18expOf E (e :: r)
      · rw [if_pos hc]
        have h1 : (C18expOf E (e :: r) != -1) = true := by simpa using hc.1
        have h2 : decide ((now : Int) > C18expOf E (e :: r)) = true := by simpa using hc.2
        simp [C18specEntry, Option.filter, expired, h1, h2]
      · rw [if_neg hc]
        have : (C18expOf E (e :: r) != -1 && decide ((now : Int) > C18expOf E (e :: r))) = false := by
          by_cases h1 : C18expOf E (e :: r) = -1
          · simp [h1]
          · have h2 : ¬ (now : Int) > C18expOf E (e :: r) := fun hh => hc ⟨h1, hh⟩
            simp [h2]
        simp [C18specEntry, Option.filter, expired, this]
  | block ip' =>
    exact ⟨by simpa [apply] using h.started, by simpa [apply] using h.exp,
      by simpa [apply] using h.nodup, by simpa [apply, C18epochStep] using h.entry⟩
  | unblock ip' => exact ⟨h.started, h.exp, h.nodup, h.entry⟩
  | blacklist l =>
    have hb := blacklist_eq g l
    have hf := blockAll_fields l g
    by_cases hl : l.any (·.isNone) = true
    · simp only [hl, if_true] at hb
      simp only [apply, hb, C18epochStep]
      exact h
    · have hl' : l.any (·.isNone) = false := Bool.eq_false_iff.2 hl
      simp only [hl', Bool.false_eq_true, if_false] at hb
      simp only [apply, hb, C18epochStep]
      exact ⟨by rw [hf.2.1]; exact h.started, by rw [hf.2.2]; exact h.exp,
        by rw [hf.1]; exact h.nodup, by rw [hf.1]; exact h.entry⟩

private theorem rel_run {E : Nat} {ip : IP} (ops : List Op) {g : Gater} {ep : C18Epoch}
    (h : C18Rel E ip g ep) : C18Rel E ip (run g ops) (ops.foldl (C18epochStep E ip) ep) := by
  induction ops generalizing g ep with
  | nil => exact h
  | cons op r ih => exact ih (rel_step h op)

private theorem rel_fresh (E : Nat) (ip : IP) : C18Rel E ip (C18fresh E) [] :=
  ⟨rfl, rfl, by simp [C18fresh, NoDupKeys, keys], rfl⟩

/-- **Refinement.** After any operation sequence the table entry of every IP is exactly the one
implied by its epoch: absent when it received no penalty since its last expiry, otherwise the sum
of those penalties and the expiration of the last threshold crossing. -/
theorem C18_entry_is_epoch (E : Nat) (ops : List Op) (ip : IP) :
    find (run (C18fresh E) ops).peerScore ip = C18specEntry E (C18epoch E ip ops) :=
  (rel_run ops (rel_fresh E ip)).entry

/-- Every reachable table has unique keys, stays started and keeps its ban duration (the side
conditions of `C18_expiry_clean` / `C18_ban_holds_until_expiry` hold in every reachable state). -/
theorem C18_reachable_wf (E : Nat) (ops : List Op) :
    NoDupKeys (run (C18fresh E) ops).peerScore ∧ (run (C18fresh E) ops).started = true ∧
      (run (C18fresh E) ops).expSecs = E :=
  let h := rel_run ops (rel_fresh E [])
  ⟨h.nodup, h.started, h.exp⟩

/-- **Ban iff threshold.** After any operation sequence an IP is banned iff the penalties it
accumulated since its last expiry reached the threshold (some chronological prefix sums to >= 100);
its score is the sum of those penalties. -/
theorem C18_ban_iff_threshold (E : Nat) (ops : List Op) (ip : IP) :
    (isBanned (run (C18fresh E) ops) ip = true ↔ C18Reached (C18epoch E ip ops)) ∧
    (∀ i, find (run (C18fresh E) ops).peerScore ip = some i → i.score = C18total (C18epoch E ip ops)) ∧
    (find (run (C18fresh E) ops).peerScore ip = none ↔ C18epoch E ip ops = []) := by
  have he := C18_entry_is_epoch E ops ip
  generalize C18epoch E ip ops = ep at he
  refine ⟨?_, ?_, ?_⟩
  · rw [← expOf_ne_iff E]
    unfold isBanned
    rw [he]
    cases ep with
    | nil => simp [C18specEntry, C18expOf]
    | cons e r => simp [C18specEntry, PeerInfo.banned]
  · intro i hi
    rw [he] at hi
    cases ep with
    | nil => simp [C18specEntry] at hi
    | cons e r =>
      simp only [C18specEntry, Option.some.injEq] at hi
      rw [← hi]
  · rw [he]
    cases ep with
    | nil => simp [C18specEntry]
    | cons e r => simp [C18specEntry]

example : isBanned (run (C18fresh 2) [.pen 10 ⟨some [1, 2, 3, 4], some 0⟩ 60,
    .pen 11 ⟨some [1, 2, 3, 4], some 1⟩ 40]) [1, 2, 3, 4] = true := by decide
example : isBanned (run (C18fresh 2) [.pen 10 ⟨some [1, 2, 3, 4], some 0⟩ 60,
    .pen 11 ⟨some [1, 2, 3, 5], some 1⟩ 40]) [1, 2, 3, 4] = false := by decide

/-! ### gates -/

/-- **All gates refuse a banned or blacklisted IP, and only such IPs.** For an address whose IP is
banned or blocked, `InterceptAddrDial`, `InterceptAccept` and inbound `InterceptSecured` return
false, hence no outbound and no inbound connection attempt passes the gate sequence; for any other
IP every gate allows. -/
theorem C18_gates_refuse_banned_or_blacklisted (g : Gater) (ip : IP) (apid : Option Nat) (pid : Nat) :
    ((isBanned g ip = true ∨ isBlocked g ip = true) →
        interceptAddrDial g pid ⟨some ip, apid⟩ = false ∧ interceptAccept g ⟨some ip, apid⟩ = false ∧
        interceptSecured g true pid ⟨some ip, apid⟩ = false ∧
        outboundAllowed g pid ⟨some ip, apid⟩ = false ∧ inboundAllowed g pid ⟨some ip, apid⟩ = false) ∧
    ((isBanned g ip = false ∧ isBlocked g ip = false) →
        interceptPeerDial g pid = true ∧ interceptAddrDial g pid ⟨some ip, apid⟩ = true ∧
        interceptAccept g ⟨some ip, apid⟩ = true ∧ interceptSecured g true pid ⟨some ip, apid⟩ = true ∧
        interceptSecured g false pid ⟨some ip, apid⟩ = true ∧ interceptUpgraded g = true ∧
        outboundAllowed g pid ⟨some ip, apid⟩ = true ∧ inboundAllowed g pid ⟨some ip, apid⟩ = true) := by
  constructor
  · intro h
    have ha : isAllowed g ⟨some ip, apid⟩ = false := by
      simp only [isAllowed]
      rcases h with h | h <;> simp [h]
    simp [interceptAddrDial, interceptAccept, interceptSecured, outboundAllowed, inboundAllowed, ha]
  · rintro ⟨h1, h2⟩
    have ha : isAllowed g ⟨some ip, apid⟩ = true := by simp [isAllowed, h1, h2]
    simp [interceptPeerDial, interceptAddrDial, interceptAccept, interceptSecured, interceptUpgraded,
      outboundAllowed, inboundAllowed, ha]

private theorem blocked_step (g : Gater) (ip : IP) (op : Op) :
    isBlocked (apply g op) ip = C18blockedStep ip (isBlocked g ip) op := by
  cases op with
  | start => rfl
  | pen now a s =>
    simp only [apply, isBlocked, C18blockedStep, (addPenalty_fields g now a s).2.2]
  | sweep now => rfl
  | block ip' =>
    simp only [apply, isBlocked, C18blockedStep]
    rw [Bool.eq_iff_iff]
    simp only [decide_eq_true_eq, Bool.or_eq_true, mem_blockAddr]
    constructor
    · rintro (h | h)
      · exact Or.inr h.symm
      · exact Or.inl h
    · rintro (h | h)
      · exact Or.inr h
      · exact Or.inl h.symm
  | unblock ip' =>
    simp only [apply, isBlocked, C18blockedStep]
    rw [Bool.eq_iff_iff]
    simp only [decide_eq_true_eq, Bool.and_eq_true, Bool.not_eq_true', decide_eq_false_iff_not,
      mem_unblockAddr]
    constructor
    · rintro ⟨h1, h2⟩
      exact ⟨h2, fun hh => h1 hh.symm⟩
    · rintro ⟨h1, h2⟩
      exact ⟨fun hh => h2 hh.symm, h1⟩
  | blacklist l =>
    simp only [apply, isBlocked, C18blockedStep, blacklist_eq]
    by_cases hl : l.any (·.isNone) = true
    · simp only [hl, if_true]
    · have hl' : l.any (·.isNone) = false := Bool.eq_false_iff.2 hl
      simp only [hl', Bool.false_eq_true, if_false]
      rw [Bool.eq_iff_iff]
      simp only [decide_eq_true_eq, Bool.or_eq_true, mem_blockAll]
      exact Or.comm

private theorem blocked_run (ops : List Op) (g : Gater) (ip : IP) :
    isBlocked (run g ops) ip = ops.foldl (C18blockedStep ip) (isBlocked g ip) := by
  induction ops generalizing g with
  | nil => rfl
  | cons op r ih =>
    simp only [run, List.foldl] at ih ⊢
    rw [ih, blocked_step]

/-- **Gates along runs.** After any operation sequence, a connection attempt (inbound or outbound)
involving `ip` is refused iff `ip` reached the ban threshold since its last expiry or is on the
permanent blacklist as configured by the block / unblock / blacklist operations. -/
theorem C18_gates_along_runs (E : Nat) (ops : List Op) (ip : IP) (apid : Option Nat) (pid : Nat) :
    (inboundAllowed (run (C18fresh E) ops) pid ⟨some ip, apid⟩ = false ↔
      (C18Reached (C18epoch E ip ops) ∨ C18blocked ip ops = true)) ∧
    (outboundAllowed (run (C18fresh E) ops) pid ⟨some ip, apid⟩ = false ↔
      (C18Reached (C18epoch E ip ops) ∨ C18blocked ip ops = true)) := by
  have hb : isBlocked (run (C18fresh E) ops) ip = C18blocked ip ops := by
    rw [blocked_run]; rfl
  have hban := (C18_ban_iff_threshold E ops ip).1
  have hg := C18_gates_refuse_banned_or_blacklisted (run (C18fresh E) ops) ip apid pid
  rw [← hban, ← hb]
  generalize run (C18fresh E) ops = g at hg ⊢
  by_cases h1 : isBanned g ip = true
  · have := hg.1 (Or.inl h1)
    simp [h1, this.2.2.2.1, this.2.2.2.2]
  · by_cases h2 : isBlocked g ip = true
    · have := hg.1 (Or.inr h2)
      simp [h2, this.2.2.2.1, this.2.2.2.2]
    · have h1' : isBanned g ip = false := by simpa using h1
      have h2' : isBlocked g ip = false := by simpa using h2
      have := hg.2 ⟨h1', h2'⟩
      simp [h1', h2', this.2.2.2.2.2.2.1, this.2.2.2.2.2.2.2]

example : inboundAllowed (run (C18fresh 2) [.blacklist [some [9, 9, 9, 9]]]) 0 ⟨some [9, 9, 9, 9], none⟩ = false := by
  decide
example : inboundAllowed (run (C18fresh 2) [.blacklist [some [9, 9, 9, 9], none]]) 0 ⟨some [9, 9, 9, 9], none⟩ = true := by
  decide

/-! ### expiry -/

/-- **Expiry is clean.** For a table with unique keys: the first expiry pass strictly after the
expiration removes the entry — the IP is allowed again (unless blacklisted) and its next penalty
starts from a clean score; passes at or before the expiration leave the entry untouched, and
entries that never reached the threshold are never removed. -/
theorem C18_expiry_clean (g : Gater) (hn : NoDupKeys g.peerScore) (ip : IP) (i : PeerInfo)
    (hi : find g.peerScore ip = some i) (now : Nat) :
    (i.expiration ≠ -1 → (now : Int) > i.expiration →
        find (sweep g now).peerScore ip = none ∧ isBanned (sweep g now) ip = false ∧
        (∀ apid, isBlocked g ip = false → isAllowed (sweep g now) ⟨some ip, apid⟩ = true) ∧
        (∀ t apid s, g.started = true →
          (addPenalty (sweep g now) t ⟨some ip, apid⟩ s).2 = .ok s)) ∧
    (i.expiration ≠ -1 → (now : Int) ≤ i.expiration →
        find (sweep g now).peerScore ip = some i ∧ isBanned (sweep g now) ip = true) ∧
    (i.expiration = -1 → find (sweep g now).peerScore ip = some i) := by
  have hf := find_filter hn (fun i => !expired now i) ip
  rw [hi] at hf
  refine ⟨?_, ?_, ?_⟩
  · intro h1 h2
    have hex : expired now i = true := by simp [expired, h1, h2]
    have hnone : find (sweep g now).peerScore ip = none := by
      simp only [sweep]; rw [hf]; simp [Option.filter, hex]
    refine ⟨hnone, by simp [isBanned, hnone], ?_, ?_⟩
    · intro apid hb
      have hb' : isBlocked (sweep g now) ip = false := hb
      simp [isAllowed, hb', isBanned, hnone]
    · intro t apid s hs
      have hs' : (sweep g now).started = true := hs
      rw [addPenalty_ok hs']
      simp [hnone]
  · intro h1 h2
    have hex : expired now i = false := by
      have : ¬ (now : Int) > i.expiration := by omega
      simp [expired, this]
    have hsome : find (sweep g now).peerScore ip = some i := by
      simp only [sweep]; rw [hf]; simp [Option.filter, hex]
    exact ⟨hsome, by simp [isBanned, hsome, PeerInfo.banned, h1]⟩
  · intro h1
    have hex : expired now i = false := by simp [expired, h1]
    simp only [sweep]; rw [hf]; simp [Option.filter, hex]

/-- time stamp of an operation that reads the clock -/
def C18opTime : Op → Option Nat
  | .pen now _ _ => some now
  | .sweep now => some now
  | _ => none

private theorem banned_persists_step (E : Nat) (ip : IP) (e : Int) (g : Gater)
    (hE : g.expSecs = E) (hn : NoDupKeys g.peerScore)
    (hb : ∃ i, find g.peerScore ip = some i ∧ i.expiration ≠ -1 ∧ e ≤ i.expiration)
    (op : Op) (hop : ∀ t, C18opTime op = some t → (t : Int) ≤ e ∧ e ≤ ((t + E : Nat) : Int)) :
    (apply g op).expSecs = E ∧ NoDupKeys (apply g op).peerScore ∧
    ∃ i, find (apply g op).peerScore ip = some i ∧ i.expiration ≠ -1 ∧ e ≤ i.expiration := by
  obtain ⟨i, hi, hi1, hi2⟩ := hb
  cases op with
  | start => exact ⟨hE, hn, i, hi, hi1, hi2⟩
  | pen now a s =>
    have hf := addPenalty_fields g now a s
    refine ⟨by simpa [apply, hf.2.1] using hE, addPenalty_nodup g now a s hn, ?_⟩
    have ht := hop now rfl
    by_cases ha : a.ip = some ip
    · by_cases hs : g.started = true
      · obtain ⟨aip, apid⟩ := a
        simp only at ha
        subst ha
        simp only [apply, addPenalty_ok hs, find_put, if_true, hi]
        by_cases hth : i.score + s ≥ maxPenaltyScore
        · refine ⟨_, rfl, ?_, ?_⟩
          · simp only [hth, if_true]; omega
          · simp only [hth, if_true, hE]; exact ht.2
        · refine ⟨_, rfl, ?_, ?_⟩
          · simp only [hth, if_false]; exact hi1
          · simp only [hth, if_false]; exact hi2
      · have hs' : g.started = false := by simpa using hs
        refine ⟨i, ?_, hi1, hi2⟩
        simp [apply, addPenalty, hs', hi]
    · refine ⟨i, ?_, hi1, hi2⟩
      simp only [apply]
      rw [addPenalty_find_other g now a s ip ha]
      exact hi
  | sweep now =>
    have ht := hop now rfl
    refine ⟨hE, nodup_filter hn _, i, ?_, hi1, hi2⟩
    have := (C18_expiry_clean g hn ip i hi now).2.1 hi1 (by omega)
    exact this.1
  | block ip' =>
    exact ⟨by simpa [apply] using hE, by simpa [apply] using hn, i, by simpa [apply] using hi, hi1, hi2⟩
  | unblock ip' => exact ⟨hE, hn, i, hi, hi1, hi2⟩
  | blacklist l =>
    have hb := blacklist_eq g l
    have hf := blockAll_fields l g
    by_cases hl : l.any (·.isNone) = true
    · simp only [hl, if_true] at hb
      simp only [apply, hb]
      exact ⟨hE, hn, i, hi, hi1, hi2⟩
    · have hl' : l.any (·.isNone) = false := Bool.eq_false_iff.2 hl
      simp only [hl', Bool.false_eq_true, if_false] at hb
      simp only [apply, hb]
      exact ⟨by rw [hf.2.2]; exact hE, by rw [hf.1]; exact hn, i, by rw [hf.1]; exact hi, hi1, hi2⟩

/-- **A ban holds until it expires.** If a penalty at second `tb` brings the total of `ip` to the
threshold, then after any further operations whose clock readings lie in `[tb, tb + E]` (penalties
of any sign to any address, expiry passes, blacklist changes) `ip` is still banned and every
inbound and outbound attempt is refused. -/
theorem C18_ban_holds_until_expiry (g : Gater) (hn : NoDupKeys g.peerScore) (hs : g.started = true)
    (tb : Nat) (ip : IP) (apid : Option Nat) (s ns : Int)
    (hpen : (addPenalty g tb ⟨some ip, apid⟩ s).2 = .ok ns) (hns : ns ≥ 100)
    (ops : List Op)
    (hops : ∀ op ∈ ops, ∀ t, C18opTime op = some t → tb ≤ t ∧ t ≤ tb + g.expSecs)
    (pid : Nat) (apid' : Option Nat) :
    let g' := run (addPenalty g tb ⟨some ip, apid⟩ s).1 ops
    isBanned g' ip = true ∧ inboundAllowed g' pid ⟨some ip, apid'⟩ = false ∧
      outboundAllowed g' pid ⟨some ip, apid'⟩ = false := by
  intro g'
  have key : ∀ (ops : List Op) (g1 : Gater), g1.expSecs = g.expSecs → NoDupKeys g1.peerScore →
      (∃ i, find g1.peerScore ip = some i ∧ i.expiration ≠ -1 ∧
        ((tb + g.expSecs : Nat) : Int) ≤ i.expiration) →
      (∀ op ∈ ops, ∀ t, C18opTime op = some t → tb ≤ t ∧ t ≤ tb + g.expSecs) →
      isBanned (run g1 ops) ip = true := by
    intro ops
    induction ops with
    | nil =>
      intro g1 _ _ hb _
      obtain ⟨i, hi, hi1, _⟩ := hb
      simp [run, isBanned, hi, PeerInfo.banned, hi1]
    | cons op r ih =>
      intro g1 h1 h2 h3 h4
      have hstep := banned_persists_step g.expSecs ip _ g1 h1 h2 h3 op (by
        intro t ht
        have := h4 op (List.mem_cons_self) t ht
        constructor <;> omega)
      exact ih (apply g1 op) hstep.1 hstep.2.1 hstep.2.2 (fun op' hm => h4 op' (List.mem_cons_of_mem _ hm))
  have hban : isBanned g' ip = true := by
    apply key ops _ (addPenalty_fields g tb _ s).2.1 (addPenalty_nodup g tb _ s hn) _ hops
    rw [addPenalty_ok hs] at hpen ⊢
    simp only [find_put, if_true]
    simp only [Except.ok.injEq] at hpen
    refine ⟨_, rfl, ?_, ?_⟩
    · simp only [maxPenaltyScore, hpen]
      have : ns ≥ 100 := hns
      simp only [this, if_true]
      omega
    · simp only [maxPenaltyScore, hpen]
      have : ns ≥ 100 := hns
      simp [this]
  have := (C18_gates_refuse_banned_or_blacklisted g' ip apid' pid).1 (Or.inl hban)
  exact ⟨hban, this.2.2.2.2, this.2.2.2.1⟩

example : isBanned (run (C18fresh 2) [.pen 10 ⟨some [1, 2, 3, 4], none⟩ 100, .sweep 12]) [1, 2, 3, 4] = true := by
  decide
example : find (run (C18fresh 2) [.pen 10 ⟨some [1, 2, 3, 4], none⟩ 100, .sweep 12, .sweep 13,
    .pen 13 ⟨some [1, 2, 3, 4], none⟩ 7]).peerScore [1, 2, 3, 4] = some ⟨7, -1⟩ := by decide

/-! ### per-IP accounting -/

/-- the operations that can influence the entry of `ip` -/
def C18relevant (ip : IP) : Op → Bool
  | .pen _ a _ => decide (a.ip = some ip)
  | .sweep _ => true
  | _ => false

private theorem epoch_filter (E : Nat) (ip : IP) (ops : List Op) (ep : C18Epoch) :
    ops.foldl (C18epochStep E ip) ep = (ops.filter (C18relevant ip)).foldl (C18epochStep E ip) ep := by
  induction ops generalizing ep with
  | nil => rfl
  | cons op r ih =>
    cases op with
    | pen now a s =>
      by_cases ha : a.ip = some ip
      · simp only [List.filter, C18relevant, ha, decide_true, List.foldl]
        exact ih _
      · simp only [List.filter, C18relevant, ha, decide_false, List.foldl, C18epochStep, if_false]
        exact ih _
    | sweep now =>
      simp only [List.filter, C18relevant, List.foldl]
      exact ih _
    | start => simp only [List.filter, C18relevant, List.foldl, C18epochStep]; exact ih _
    | block _ => simp only [List.filter, C18relevant, List.foldl, C18epochStep]; exact ih _
    | unblock _ => simp only [List.filter, C18relevant, List.foldl, C18epochStep]; exact ih _
    | blacklist _ => simp only [List.filter, C18relevant, List.foldl, C18epochStep]; exact ih _

/-- **Penalties are accounted per IP.** (1) The peer id and transport part of the penalised address
are irrelevant: peers behind one IP share one score. (2) A penalty against another IP (or an
address without IP) leaves the entry untouched. (3) After any operation sequence the entry of `ip`
is the one obtained from the penalties against `ip` and the expiry passes alone. -/
theorem C18_penalties_per_ip (E : Nat) (ip : IP) :
    (∀ (g : Gater) (now : Nat) (p1 p2 : Option Nat) (s : Int),
        addPenalty g now ⟨some ip, p1⟩ s = addPenalty g now ⟨some ip, p2⟩ s) ∧
    (∀ (g : Gater) (now : Nat) (a : Addr) (s : Int), a.ip ≠ some ip →
        find (addPenalty g now a s).1.peerScore ip = find g.peerScore ip) ∧
    (∀ ops : List Op, find (run (C18fresh E) ops).peerScore ip =
        find (run (C18fresh E) (ops.filter (C18relevant ip))).peerScore ip) := by
  refine ⟨fun g now p1 p2 s => rfl, fun g now a s h => addPenalty_find_other g now a s ip h, ?_⟩
  intro ops
  rw [C18_entry_is_epoch, C18_entry_is_epoch]
  unfold C18epoch
  rw [epoch_filter]

example : find (run (C18fresh 5) [.pen 1 ⟨some [1, 1, 1, 1], some 0⟩ 30, .pen 1 ⟨some [2, 2, 2, 2], some 1⟩ 100,
    .pen 2 ⟨some [1, 1, 1, 1], some 2⟩ 30]).peerScore [1, 1, 1, 1] = some ⟨60, -1⟩ := by decide
