/-
C06 — end-to-end statement over histories: the certificate pool lives while the chain changes (new
blocks, finality, deleted blocks, reorganisations).  Every pool REACHABLE from the empty pool
through the gossip validator, `Certify` (with the registered key) and the pool operations - each
executed in ITS OWN chain state - yields, in any chain state, an aggregate commit that the node's
own `verifyAggregateCommit` accepts, provided all those chain states are consistent with one block
context (a block id determines the height of the block and the BFT parameters valid at it) and use
the same chain id.
-/
import LiskVerif.Props.C06
import LiskVerif.Props.C06_Pool

open LiskVerif LiskVerif.Cert

/-- the operations that change the certificate pool -/
inductive C06Op
  | gossip (msgs : List Incoming)
  | certify (frm to addr sk : Nat)
  | cleanup (keep : Nat → Bool)
  | select (mhpc limit : Nat)
  | upgrade (sel : List Commit)

def C06apply (st : State) (pool : Pool) : C06Op → Pool
  | .gossip msgs => (singleCommitValidator st pool msgs).1
  | .certify frm to addr sk => (certify st pool frm to addr sk).1
  | .cleanup keep => pool.cleanup keep
  | .select mhpc limit => (pool.select mhpc limit).1
  | .upgrade sel => pool.upgrade sel

/-- `Certify` is called with the BLS key registered for the address (all other ops are unconstrained:
gossip messages are arbitrary, i.e. adversarial) -/
def C06OpOk (st : State) : C06Op → Prop
  | .certify _ _ addr sk =>
    ∀ h p v, getParams st.params h = some p → findValidator p.validators addr = some v → v.key = sk
  | _ => True

/-- one step of a history: the chain is in state `st` when the pool operation `op` happens -/
structure C06Step where
  st : State
  op : C06Op

def C06StepOk (ctx : BlockCtx) (chainId : Nat) (s : C06Step) : Prop :=
  Consistent s.st ctx ∧ s.st.chainId = chainId ∧ C06OpOk s.st s.op

def C06run (pool : Pool) (steps : List C06Step) : Pool :=
  steps.foldl (fun p s => C06apply s.st p s.op) pool

theorem C06_reachable_pool_invariant (ctx : BlockCtx) (chainId : Nat) (steps : List C06Step)
    (hok : ∀ s ∈ steps, C06StepOk ctx chainId s) (pool : Pool) (h : PoolInv ctx chainId pool) :
    PoolInv ctx chainId (C06run pool steps) := by
  induction steps generalizing pool with
  | nil => exact h
  | cons s r ih =>
    unfold C06run
    rw [List.foldl_cons]
    apply ih (fun o ho => hok o (List.mem_cons_of_mem _ ho))
    obtain ⟨hc, hid, hop⟩ := hok s List.mem_cons_self
    obtain ⟨st, op⟩ := s
    simp only at hc hid hop
    subst hid
    cases op with
    | gossip msgs => exact C06_pool_invariant_validator st ctx pool msgs hc h
    | certify frm to addr sk => exact C06_pool_invariant_certify st ctx pool frm to addr sk hc hop h
    | cleanup keep => exact C06_pool_invariant_cleanup ctx st.chainId pool keep h
    | select mhpc limit => exact C06_pool_invariant_select ctx st.chainId pool mhpc limit h
    | upgrade sel => exact C06_pool_invariant_upgrade ctx st.chainId pool sel h

/-- **End to end**: after ANY history of gossip messages (arbitrary content), `Certify` calls with
the registered key and pool operations, each in its own chain state (the chain may grow, finalize
and reorganise in between), `GetAggregateCommit` in the final state succeeds and its result is
accepted by `verifyAggregateCommit` in that state. -/
theorem C06_reachable_pool_accepted (ctx : BlockCtx) (st : State) (hwf : StoreWf st.params)
    (hcons : Consistent st ctx)
    (hblocks : ∀ h, st.mhc < h → h ≤ st.mhpc → st.blockAt h ≠ none)
    (steps : List C06Step) (hok : ∀ s ∈ steps, C06StepOk ctx st.chainId s) :
    ∃ ac, getAggregateCommit st (C06run Pool.empty steps) = .ok ac ∧
      verifyAggregateCommit st ac = .accept := by
  have hinv := C06_reachable_pool_invariant ctx st.chainId steps hok Pool.empty (C06_empty_pool_inv ctx st.chainId)
  obtain ⟨ac, hac⟩ := C06_assembled_total st ctx _ hwf hcons hinv hblocks
  exact ⟨ac, hac, C06_assembled_accepted st ctx _ ac hwf hcons hinv hac⟩

/-- non-vacuity: two gossip messages (one with a commit of a non-validator) and a selection lead to
a non-empty accepted aggregate -/
example : ∃ ac, getAggregateCommit C06cxState
      (C06run Pool.empty
        [⟨C06cxState, .gossip [⟨true, 105, 5, 1, sign 20 ⟨1, 105⟩⟩, ⟨true, 105, 5, 9, .garbage⟩]⟩,
         ⟨C06cxState, .gossip [⟨true, 105, 5, 3, sign 40 ⟨1, 105⟩⟩, ⟨true, 105, 5, 2, sign 30 ⟨1, 105⟩⟩]⟩,
         ⟨C06cxState, .select 5 2⟩]) = .ok ac ∧
    ac.height = 5 ∧ Bits.toBytes ac.bits = [0x0e] := ⟨_, rfl, by decide, by decide⟩
