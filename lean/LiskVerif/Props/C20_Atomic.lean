/-
C20 — atomicity clause: "readers and writers see consistent data" beyond race and deadlock freedom.

`Props/C20.lean` proves the lock discipline over the regenerated skeletons (no deadlock, no data race),
`Props/C20_Data.lean` that critical sections are atomic on the data. Neither notices a function that
*splits* a read-modify-write over two critical sections: it checks a guarded field under the lock,
RELEASES the lock, re-acquires it and writes the field from what it saw before. Every access is under
the guard (no race), the lock order is respected (no deadlock), yet another goroutine's write can fall
between the two sections and is overwritten by the stale value — a lost update. The motivating example
is a `diffdb.Database.Get` that looks up the staged cache under the shared mutex, reads the underlying
store unlocked and re-locks to install the stored value: a `Set`/`Del` of the key through a sibling
prefix view in between is lost.

Criterion ("no unlock–relock between dependent accesses", `Lemmas/LocksAtomic.lean`): along every path
of an entry point (calls inlined, deferred unlocks released at function exit), a write of a guarded
field `f` must not be preceded by a read of `f` with a lock operation on `f`'s guard in between.
The skeletons carry no data flow, so *every* earlier read of `f` counts as feeding the write
(conservative).

(A) Generic theorems: the decidable check `atomicOk` (an abstract interpreter on the skeleton) is sound
    for every thread path of the skeleton — calls inlined to any depth, every loop iterated any number
    of times, spawned goroutines included (`C20_atomic_check_sound`); on a path satisfying the criterion
    there is no lock operation on the guard between a read and a later write of the same field
    (`C20_atomic_no_relock_between_dependent_accesses`); and, under the lockset discipline already
    proved, a goroutine between such a read and its write holds the guard exclusively, so no other
    goroutine can read or write the field in between, for any number of goroutines and every schedule
    (`C20_atomic_rmw_excludes_other_accesses`, built on `C20_mutual_exclusion` and the invariant behind
    `C20_critical_sections_atomic`).
(B) Obligations over the skeletons REGENERATED from the Go source on every check run: every entry point
    satisfies the criterion, except the two multi-section sequences of the single writer
    (`Chain.RemoveBlock`, `Chain.PrepareCache`: tip lookup, then pop / refill in later sections), which
    violate it on the block-cache fields only and are covered by the assumption "one goroutine adds and
    removes blocks": no other entry point writes a block-cache field at all
    (`C20_atomic_only_the_writer_writes_the_block_cache`).
(C) Counterexample: the skeleton of the seeded `Get` (as skelgen extracts it from the changed source)
    passes all lock-discipline criteria, fails `atomicOk`, and admits the interleaving
    reader-section-1, complete `Set`, reader-section-2; on the data the staged value is lost.
-/
import LiskVerif.Props.C20_Data
import LiskVerif.Lemmas.LocksAtomic

open LiskVerif LiskVerif.Locks

namespace C20.Atomic

/-- entry points of the single writer goroutine that span several critical sections of the block cache
(check the tip, then pop / refill): exempt from the criterion under the single-writer assumption -/
def multiSectionWriter : List String := ["Chain.RemoveBlock", "Chain.PrepareCache"]

/-- the configuration without the block-cache guards (the criterion then ignores the block-cache fields) -/
def cfgNoCache : Cfg :=
  ⟨Gen.Skeletons.table, Gen.Skeletons.guards.filter (fun e => !C20.Data.cacheFields.contains e.1),
    Gen.Skeletons.lockOrder⟩

theorem pathLsFrom_append (g : List (String × String)) (h : Held) (p q : Path) :
    pathLsFrom g h (p ++ q) = (pathLsFrom g h p && pathLsFrom g (heldAfterPath h p) q) := by
  simp only [pathLsFrom, trace_append, List.all_append]

/-- the primitive `a` occurs on the path: it is observed (with some lock set) along the path -/
theorem mem_trace_of_mem {a : Prim} {p : Path} (h : Held) (ha : a ∈ p) : ∃ h', (h', a) ∈ trace h p := by
  induction p generalizing h with
  | nil => cases ha
  | cons b p ih =>
    rcases List.mem_cons.mp ha with rfl | ha
    · exact ⟨h, by simp [trace]⟩
    · obtain ⟨h', hh⟩ := ih (heldAfter h b) ha
      exact ⟨h', by simp [trace, hh]⟩

/-- a thread's remaining program is a suffix of the path it was started with -/
def SuffixInv (ps : List Path) (s : State) : Prop :=
  s.length = ps.length ∧ ∀ (i : Nat) (t : Thread) (p : Path), s[i]? = some t → ps[i]? = some p → ∃ done, p = done ++ t.prog

theorem suffixInv_init (ps : List Path) : SuffixInv ps (initState ps) := by
  refine ⟨by simp [initState], fun i t p hi hp => ⟨[], ?_⟩⟩
  simp only [initState, List.getElem?_map, hp, Option.map_some, Option.some.injEq] at hi
  subst hi
  rfl

theorem suffixInv_step {ps : List Path} {s s' : State} {k : Nat} (h : SuffixInv ps s)
    (hs : stepT s k = some s') : SuffixInv ps s' := by
  obtain ⟨t, t', hk, ht, rfl⟩ := stepT_some hs
  refine ⟨by simpa using h.1, fun i x p hi hp => ?_⟩
  rcases getElem?_set_cases hi with ⟨rfl, rfl⟩ | ⟨_, hi'⟩
  · obtain ⟨done, hd⟩ := h.2 i t p hk hp
    rcases stepThread_shape ht with ⟨_, h2⟩ | ⟨a, rest, hpr, _, h2⟩
    · exact ⟨done, by rw [h2]; exact hd⟩
    · exact ⟨done ++ [a], by rw [h2, hd, hpr]; simp⟩
  · exact h.2 i x p hi' hp

end C20.Atomic

/-! ## (A) generic theorems -/

/-- **Soundness of the atomicity check.** If the decidable check passes on a skeleton, every path of
every thread of it — the invoking goroutine or a goroutine spawned (transitively) along some run, calls
inlined to any depth, loops iterated up to any bound `u` — satisfies the path criterion. -/
theorem C20_atomic_check_sound (c : Cfg) (s : Skel) (h : atomicOk c s = true) (u : Nat) (p : Path)
    (hp : IsThreadPath c.tbl u s p) : pathAtomic c.guards p = true :=
  atomicOk_paths c s h u p hp

/-- **What the criterion means on a path**: between a read of a guarded field `f` and any later write
of `f` on the same path there is no `Lock` / `RLock` / `Unlock` / `RUnlock` of `f`'s guard — the two
accesses are in the same critical section. -/
theorem C20_atomic_no_relock_between_dependent_accesses (g : List (String × String)) (pre mid rest : Path)
    (f m : String) (h : pathAtomic g (pre ++ Prim.read f :: (mid ++ Prim.write f :: rest)) = true)
    (hg : g.lookup f = some m) : ∀ q ∈ mid, lockOf q ≠ some m :=
  pathAtomic_quiet h hg

/-- **A read-modify-write inside one critical section is not interleaved with foreign accesses.**
Any number of goroutines run paths satisfying the lockset discipline (criterion 4), under any schedule.
If goroutine `i` still has to execute `mid ++ [write f] ++ …` where `mid` contains no lock operation on
`f`'s guard `m` (it is between a read of `f` and the dependent write, in the same critical section), then
it holds `m` exclusively, and no other goroutine is about to read or to write `f`. -/
theorem C20_atomic_rmw_excludes_other_accesses (g : List (String × String)) (ps : List Path)
    (hls : ∀ p ∈ ps, pathLs g p = true) (st : State) (hr : Reachable (initState ps) st)
    (i j : Nat) (ti tj : Thread) (hij : i ≠ j) (hi : st[i]? = some ti) (hj : st[j]? = some tj)
    (f m : String) (hg : g.lookup f = some m) (mid rest : Path)
    (hprog : ti.prog = mid ++ Prim.write f :: rest) (hq : ∀ q ∈ mid, lockOf q ≠ some m) :
    (m, Mode.W) ∈ ti.held ∧ ∀ rest', tj.prog ≠ Prim.read f :: rest' ∧ tj.prog ≠ Prim.write f :: rest' := by
  have hAll : AllLs g st :=
    reachable_induction (allLs_init _ ps hls) (fun _ _ _ hok hs => allLs_step hok hs) st hr
  have hex := C20_mutual_exclusion ps st hr
  have hti := hAll ti (List.mem_of_getElem? hi)
  rw [hprog, C20.Atomic.pathLsFrom_append] at hti
  simp only [Bool.and_eq_true] at hti
  obtain ⟨m', hl, hw⟩ := write_holds (t := ⟨heldAfterPath ti.held mid, none, Prim.write f :: rest⟩) hti.2 rfl
  rw [hg] at hl
  injection hl with hmm
  subst hmm
  have hw' : (m, Mode.W) ∈ ti.held := (mem_heldAfterPath_quiet hq ti.held).mp hw
  exact ⟨hw', fun rest' => (C20.Data.atomic_of_inv hAll (fun i j ti tj m md => hex i j ti tj m md) hij hi hj hg rest').1 hw'⟩

/-- The same from the path criterion: goroutine `i` was started on the path `p` satisfying the criterion
and the lockset discipline, `p` reads `f` and later writes `f`, and `i` has executed the read but not yet
the write. Then no other goroutine is about to access `f`: the write is applied to the value that was
read. -/
theorem C20_atomic_path_rmw_not_interleaved (g : List (String × String)) (ps : List Path)
    (hls : ∀ p ∈ ps, pathLs g p = true) (st : State) (hr : Reachable (initState ps) st)
    (i j : Nat) (ti tj : Thread) (hij : i ≠ j) (hi : st[i]? = some ti) (hj : st[j]? = some tj)
    (p pre mid rest : Path) (f m : String) (hp : ps[i]? = some p) (hat : pathAtomic g p = true)
    (hsplit : p = pre ++ Prim.read f :: (mid ++ Prim.write f :: rest)) (hg : g.lookup f = some m)
    (done mid' : Path) (hmid : mid = done ++ mid') (hprog : ti.prog = mid' ++ Prim.write f :: rest) :
    ∀ rest', tj.prog ≠ Prim.read f :: rest' ∧ tj.prog ≠ Prim.write f :: rest' := by
  subst hsplit
  have hq := pathAtomic_quiet hat hg
  have hq' : ∀ q ∈ mid', lockOf q ≠ some m := fun q hq'' => hq q (by rw [hmid]; exact List.mem_append.mpr (Or.inr hq''))
  exact (C20_atomic_rmw_excludes_other_accesses g ps hls st hr i j ti tj hij hi hj f m hg mid' rest hprog hq').2

/-! ## (B) obligations over the regenerated skeletons -/

open Gen.Skeletons in
/-- every extracted entry point satisfies the atomicity criterion, except the multi-section sequences
of the single writer — quantified over the regenerated table, so functions added to the configured
types are covered automatically -/
theorem C20_atomic_all_entries_ok :
    (table.filter (fun e => entries.contains e.1)).all (fun e =>
      C20.Atomic.multiSectionWriter.contains e.1 || atomicOk C20.cfg e.2) = true := by
  decide +kernel

/-- the staged store and its prefix views (one shared mutex and cache): every method is a single
critical section on `cache` / `snapshots` / `snapshotCount` -/
theorem C20_atomic_diffdb_ok :
    [Gen.Skeletons.Database_WithPrefix, Gen.Skeletons.Database_Has, Gen.Skeletons.Database_Get,
     Gen.Skeletons.Database_Range, Gen.Skeletons.Database_Iterate, Gen.Skeletons.Database_Set,
     Gen.Skeletons.Database_Del, Gen.Skeletons.Database_Commit, Gen.Skeletons.Database_RevertDiff,
     Gen.Skeletons.Database_Snapshot, Gen.Skeletons.Database_DeleteSnapshot,
     Gen.Skeletons.Database_RestoreSnapshot].all (atomicOk C20.cfg) = true := by
  decide +kernel

/-- block cache and the chain operations built on one cache section -/
theorem C20_atomic_blockcache_ok :
    [Gen.Skeletons.blockCache_last, Gen.Skeletons.blockCache_get, Gen.Skeletons.blockCache_getByHeight,
     Gen.Skeletons.blockCache_push, Gen.Skeletons.blockCache_pop, Gen.Skeletons.blockCache_len,
     Gen.Skeletons.blockCache_replace, Gen.Skeletons.Chain_LastBlock, Gen.Skeletons.Chain_AddBlock].all
      (atomicOk C20.cfg) = true := by
  decide +kernel

/-- certificate pool and event emitter -/
theorem C20_atomic_pool_and_emitter_ok :
    [Gen.Skeletons.Pool_Size, Gen.Skeletons.Pool_Has, Gen.Skeletons.Pool_Add, Gen.Skeletons.Pool_Cleanup,
     Gen.Skeletons.Pool_Select, Gen.Skeletons.Pool_Get, Gen.Skeletons.Pool_Upgrade,
     Gen.Skeletons.EventEmitter_On, Gen.Skeletons.EventEmitter_Subscribe, Gen.Skeletons.EventEmitter_Publish,
     Gen.Skeletons.EventEmitter_Emit, Gen.Skeletons.EventEmitter_Close, Gen.Skeletons.EventEmitter_UnsubscribeAll,
     Gen.Skeletons.EventEmitter_Unsubscribe].all (atomicOk C20.cfg) = true := by
  decide +kernel

/-- the exempt writer sequences violate the criterion (tip lookup and pop / refill are separate
critical sections), but only on the block-cache fields: with those fields ignored they pass. This
theorem breaks — and the exemption must be dropped — once they become one critical section. -/
theorem C20_atomic_writer_sequences_span_sections :
    (Gen.Skeletons.table.filter (fun e => C20.Atomic.multiSectionWriter.contains e.1)).all (fun e =>
      !atomicOk C20.cfg e.2 && atomicOk C20.Atomic.cfgNoCache e.2) = true ∧
    (Gen.Skeletons.table.filter (fun e => C20.Atomic.multiSectionWriter.contains e.1)).length = 2 := by
  decide +kernel

namespace C20.Atomic

/-- the entry points through which the block cache is written: the cache's own mutators, their
`DataAccess` wrappers and the chain operations of the consensus goroutine -/
def cacheWriters : List String :=
  ["blockCache.push", "blockCache.pop", "blockCache.replace", "DataAccess.Cache", "DataAccess.RemoveCache",
   "Chain.AddBlock", "Chain.RemoveBlock", "Chain.PrepareCache"]

/-- no observation of the analysed function is a write of a block-cache field -/
def noCacheWrite (s : Skel) : Bool :=
  match analyse C20.cfg.tbl fuelDefault s with
  | none => false
  | some (obs, _) => obs.all (fun o => match o.2 with
      | .write x => !C20.Data.cacheFields.contains x
      | _ => true)

end C20.Atomic

open Gen.Skeletons in
/-- every entry point outside `cacheWriters` never writes a block-cache field (computed on the
observations of the sound analysis `an`) -/
theorem C20_atomic_readers_never_write_the_block_cache :
    (table.filter (fun e => entries.contains e.1 && !C20.Atomic.cacheWriters.contains e.1)).all
      (fun e => C20.Atomic.noCacheWrite e.2) = true := by
  decide +kernel

/-- **Single writer.** Any number of goroutines; every goroutine other than `w` executes finite sequences
of invocations of regenerated entry points outside `cacheWriters` (or bodies of goroutines they spawn).
Then in every reachable state, under any schedule, no goroutine other than `w` is about to write a
block-cache field: the multi-section sequences of the writer (`Chain.RemoveBlock`: tip lookup, pop,
refill; `Chain.PrepareCache`) cannot have a foreign write between their sections. -/
theorem C20_atomic_only_the_writer_writes_the_block_cache (u : Nat) (ps : List Path) (w : Nat)
    (hps : ∀ j p, j ≠ w → ps[j]? = some p → ∃ segs : List Path, p = segs.flatten ∧ ∀ q ∈ segs,
      ∃ e ∈ Gen.Skeletons.table, Gen.Skeletons.entries.contains e.1 = true ∧
        C20.Atomic.cacheWriters.contains e.1 = false ∧ IsThreadPath Gen.Skeletons.table u e.2 q)
    (st : State) (hr : Reachable (initState ps) st) (j : Nat) (tj : Thread) (hjw : j ≠ w)
    (hj : st[j]? = some tj) (x : String) (hx : x ∈ C20.Data.cacheFields) (rest : Path) :
    tj.prog ≠ Prim.write x :: rest := by
  intro hprog
  have hinv : C20.Atomic.SuffixInv ps st :=
    reachable_induction (C20.Atomic.suffixInv_init ps) (fun _ _ _ h hs => C20.Atomic.suffixInv_step h hs) st hr
  have hlt : j < ps.length := by
    rw [← hinv.1]
    rcases Nat.lt_or_ge j st.length with h | h
    · exact h
    · rw [List.getElem?_eq_none h] at hj; cases hj
  have hpj : ps[j]? = some ps[j] := List.getElem?_eq_getElem hlt
  obtain ⟨done, hd⟩ := hinv.2 j tj _ hj hpj
  obtain ⟨segs, hflat, hsegs⟩ := hps j ps[j] hjw hpj
  have hmem : Prim.write x ∈ segs.flatten := by
    rw [← hflat, hd, hprog]; simp
  obtain ⟨q, hq, hxq⟩ := List.mem_flatten.mp hmem
  obtain ⟨e, he, hent, hcw, hpath⟩ := hsegs q hq
  have hall := C20_atomic_readers_never_write_the_block_cache
  simp only [List.all_eq_true, List.mem_filter, Bool.and_eq_true, Bool.not_eq_true'] at hall
  have hno := hall e ⟨he, hent, hcw⟩
  unfold C20.Atomic.noCacheWrite at hno
  cases ha : analyse C20.cfg.tbl fuelDefault e.2 with
  | none => simp [ha] at hno
  | some r =>
    obtain ⟨obs, ends⟩ := r
    simp only [ha, List.all_eq_true] at hno
    obtain ⟨h', hobs⟩ := C20.Atomic.mem_trace_of_mem [] hxq
    have := hno _ (C20_analysis_sound C20.cfg.tbl u fuelDefault e.2 obs ends ha q hpath _ hobs)
    simp only [Bool.not_eq_true', List.contains_eq_mem, decide_eq_false_iff_not] at this
    exact this hx

/-- **Read-modify-write sequences of the regenerated entry points are atomic.** Any number of goroutines,
each executing any finite sequence of invocations of the regenerated entry points other than the
emitter's `Publish` / `Emit` (hypotheses of `C20_critical_sections_atomic`), under any schedule. If
goroutine `i` is inside an invocation of an entry point `e` outside `multiSectionWriter` on the path
`q = pre ++ [read f] ++ mid ++ [write f] ++ rest`, has executed the read and (part `done` of `mid`) not
yet the write, then no other goroutine is about to read or write `f`: nothing can slip between what `e`
read and what it writes — for the staged store in particular, a `Get`/`Set`/`Del`/`Range`/`Iterate`/
`Commit`/`Snapshot`/`RestoreSnapshot` through one prefix view is atomic with respect to all other views. -/
theorem C20_atomic_entries_rmw_not_interleaved (u : Nat) (ps : List Path)
    (hps : ∀ p ∈ ps, ∃ segs : List Path, p = segs.flatten ∧ ∀ q ∈ segs,
      ∃ e ∈ Gen.Skeletons.table, Gen.Skeletons.entries.contains e.1 = true ∧
        C20.knownBlocking.contains e.1 = false ∧ IsThreadPath Gen.Skeletons.table u e.2 q)
    (st : State) (hr : Reachable (initState ps) st)
    (i j : Nat) (ti tj : Thread) (hij : i ≠ j) (hi : st[i]? = some ti) (hj : st[j]? = some tj)
    (e : String × Skel) (he : e ∈ Gen.Skeletons.table) (hent : Gen.Skeletons.entries.contains e.1 = true)
    (hex : C20.Atomic.multiSectionWriter.contains e.1 = false)
    (q pre mid rest : Path) (f m : String) (hq : IsThreadPath Gen.Skeletons.table u e.2 q)
    (hsplit : q = pre ++ Prim.read f :: (mid ++ Prim.write f :: rest))
    (hg : Gen.Skeletons.guards.lookup f = some m)
    (done mid' later : Path) (hmid : mid = done ++ mid')
    (hprog : ti.prog = mid' ++ Prim.write f :: (rest ++ later)) :
    ∀ rest', tj.prog ≠ Prim.read f :: rest' ∧ tj.prog ≠ Prim.write f :: rest' := by
  have hall := C20_all_entries_ok
  simp only [List.all_eq_true, List.mem_filter] at hall
  have hls : ∀ p ∈ ps, pathLs C20.cfg.guards p = true := by
    intro p hp
    obtain ⟨segs, rfl, hsegs⟩ := hps p hp
    refine (pathGood_flatten (c := C20.cfg) segs ?_).2
    intro q hq
    obtain ⟨e, he, hent, hkb, hpath⟩ := hsegs q hq
    have hcrit := hall e ⟨he, hent⟩
    have hkb' : ¬ (e.1 ∈ C20.knownBlocking) := by simpa using hkb
    simp only [hkb', List.contains_eq_mem, decide_false, Bool.false_eq_true, if_false] at hcrit
    simp only [criteria, Bool.and_eq_true] at hcrit
    have hwf : wellFormed C20.cfg e.2 = true := by
      have := hcrit.1
      simp only [deadlockCriteria, Bool.and_eq_true] at this
      exact this.1.1.1
    exact ⟨deadlockCriteria_paths C20.cfg e.2 hcrit.1 u q hpath,
      locksetOk_paths C20.cfg e.2 hwf hcrit.2 u q hpath⟩
  have hat := C20_atomic_all_entries_ok
  simp only [List.all_eq_true, List.mem_filter, Bool.or_eq_true] at hat
  have hok : atomicOk C20.cfg e.2 = true := by
    rcases hat e ⟨he, hent⟩ with h | h
    · rw [hex] at h; cases h
    · exact h
  have hpa : pathAtomic C20.cfg.guards q = true := C20_atomic_check_sound C20.cfg e.2 hok u q hq
  subst hsplit
  have hquiet := pathAtomic_quiet hpa hg
  have hq' : ∀ x ∈ mid', lockOf x ≠ some m := fun x hx => hquiet x (by rw [hmid]; exact List.mem_append.mpr (Or.inr hx))
  exact (C20_atomic_rmw_excludes_other_accesses C20.cfg.guards ps hls st hr i j ti tj hij hi hj f m hg mid'
    (rest ++ later) hprog hq').2

/-! ## (C) counterexample: a `Get` that re-locks to install the stored value -/

namespace C20.Seeded

/-- `Database.getCached` of the changed source (pkg/db/diffdb/db.go): looks the key up in the staged
cache under the shared mutex — as extracted by skelgen (a method call on the guarded field counts as a
read and a write of it) -/
def getCached : Skel :=
  [.lock "Database.mutex", .deferUnlock "Database.mutex", .read "Database.cache", .write "Database.cache",
   .choice [[.ret], []], .ret]

/-- `Database.Get` of the changed source: `getCached` (first critical section), the store read without
the lock, then `Lock` again and `cache.cache(key, stored value)` (second critical section) — as extracted
by skelgen -/
def get : Skel :=
  [.call "Database.getKey", .call "Database.getCached", .choice [[.ret], []], .choice [[.ret], []],
   .choice [[.ret], []], .lock "Database.mutex", .deferUnlock "Database.mutex", .read "Database.cache",
   .write "Database.cache", .ret]

def table : Table :=
  [("Database.Get", get), ("Database.getCached", getCached), ("Database.getKey", [.ret]),
   ("Database.Set", Gen.Skeletons.Database_Set), ("Database.ensureCache", Gen.Skeletons.Database_ensureCache)]

def cfg : Cfg := ⟨table, Gen.Skeletons.guards, Gen.Skeletons.lockOrder⟩

/-- the reader: cache miss in the first section, install in the second -/
def readerPath : Path :=
  [.acq "Database.mutex", .read "Database.cache", .write "Database.cache", .rel "Database.mutex",
   .acq "Database.mutex", .read "Database.cache", .write "Database.cache", .rel "Database.mutex"]

/-- the writer: `Set` of a key that is already staged (regenerated skeleton, first `return`) -/
def writerPath : Path :=
  [.acq "Database.mutex", .read "Database.cache", .write "Database.cache", .read "Database.cache",
   .write "Database.cache", .rel "Database.mutex"]

/-- the accesses executed under a schedule, in order: `(goroutine, primitive)`; `Lock` announcements
(which consume no primitive) are not logged -/
def execLog (s : State) : List Nat → Option (List (Nat × Prim))
  | [] => some []
  | i :: sched =>
    match stepT s i with
    | none => none
    | some s' =>
      let ev : List (Nat × Prim) :=
        match s[i]?, s'[i]? with
        | some t, some t' =>
          if t'.prog.length < t.prog.length then (t.prog.head?.map (fun a => (i, a))).toList else []
        | _, _ => []
      (execLog s' sched).map (fun l => ev ++ l)

def isCacheAccess : Nat × Prim → Bool
  | (_, .read "Database.cache") => true
  | (_, .write "Database.cache") => true
  | _ => false

/-- reader section 1 (announce, acquire, read, write, release), the complete `Set`, reader section 2 -/
def lostUpdateSchedule : List Nat := [0, 0, 0, 0, 0, 1, 1, 1, 1, 1, 1, 1, 0, 0, 0, 0, 0]

/-! data level: one staged entry (`none` = the key is not in the staged cache) and the reader's
register `miss` -/

structure Cell where
  staged : Option Nat
  miss : Bool
  deriving DecidableEq, Repr

inductive Sec where
  | check                 -- `getCached`: remember whether the key is staged
  | install (stored : Nat) -- second section of the changed `Get`: `cache.cache(key, stored)` if it was a miss
  | set (v : Nat)          -- `Set(key, v)` through a sibling view
  | getAtomic (stored : Nat) -- the unchanged `Get`: look up and install in ONE section

def Sec.apply (c : Cell) : Sec → Cell
  | .check => ⟨c.staged, c.staged.isNone⟩
  | .install stored => if c.miss then ⟨some stored, false⟩ else c
  | .set v => ⟨some v, c.miss⟩
  | .getAtomic stored => if c.staged.isNone then ⟨some stored, false⟩ else c

def runSecs (c : Cell) (l : List Sec) : Cell := l.foldl Sec.apply c

end C20.Seeded

/-- the changed `Get` passes every lock-discipline criterion (the existing C20 check is silent), but not
the atomicity criterion; the regenerated `Get` passes both -/
theorem C20_seeded_get_violates_atomicity :
    criteria C20.Seeded.cfg C20.Seeded.get = true ∧ criteria C20.Seeded.cfg C20.Seeded.getCached = true ∧
    atomicOk C20.Seeded.cfg C20.Seeded.getCached = true ∧
    atomicOk C20.Seeded.cfg C20.Seeded.get = false ∧
    criteria C20.cfg Gen.Skeletons.Database_Get = true ∧ atomicOk C20.cfg Gen.Skeletons.Database_Get = true := by
  decide +kernel

/-- **Counterexample (lost update).** The reader path is a path of the changed `Get`, the writer path a
path of the regenerated `Set`; both satisfy the lockset discipline, the reader path violates the path
criterion. Under `lostUpdateSchedule` both goroutines run to completion (no deadlock, and by
`C20_lockset_implies_race_free` no race), and the complete critical section of the writer — including
its write of the staged cache — is executed between the reader's read in its first section and the
reader's write in its second section. -/
theorem C20_seeded_get_admits_lost_update_interleaving :
    C20.Seeded.readerPath ∈ bodyPaths C20.Seeded.table 0 40 C20.Seeded.get ∧
    C20.Seeded.writerPath ∈ bodyPaths C20.Seeded.table 0 40 Gen.Skeletons.Database_Set ∧
    pathLs Gen.Skeletons.guards C20.Seeded.readerPath = true ∧
    pathLs Gen.Skeletons.guards C20.Seeded.writerPath = true ∧
    pathAtomic Gen.Skeletons.guards C20.Seeded.readerPath = false ∧
    pathAtomic Gen.Skeletons.guards C20.Seeded.writerPath = true ∧
    (∃ st, run (initState [C20.Seeded.readerPath, C20.Seeded.writerPath]) C20.Seeded.lostUpdateSchedule = some st ∧
      st.all finished = true) ∧
    (C20.Seeded.execLog (initState [C20.Seeded.readerPath, C20.Seeded.writerPath])
        C20.Seeded.lostUpdateSchedule).map (·.filter C20.Seeded.isCacheAccess) =
      some [(0, .read "Database.cache"), (0, .write "Database.cache"),
            (1, .read "Database.cache"), (1, .write "Database.cache"),
            (1, .read "Database.cache"), (1, .write "Database.cache"),
            (0, .read "Database.cache"), (0, .write "Database.cache")] := by
  refine ⟨by decide, by decide, by decide, by decide, by decide, by decide, ⟨_, rfl, by decide⟩, by decide⟩

/-- on the data: key not staged, `stored` in the underlying store. Check, then `Set(new)` through a sibling
view, then the late install: the staged value is `stored` again — the `Set` is lost (whenever
`new ≠ stored`). In the two other orders the staged value is `new`. -/
theorem C20_seeded_get_loses_staged_write (stored new : Nat) :
    (C20.Seeded.runSecs ⟨none, false⟩ [.check, .set new, .install stored]).staged = some stored ∧
    (C20.Seeded.runSecs ⟨none, false⟩ [.check, .install stored, .set new]).staged = some new ∧
    (C20.Seeded.runSecs ⟨none, false⟩ [.set new, .check, .install stored]).staged = some new := by
  refine ⟨rfl, rfl, rfl⟩

/-- with the look-up and the install in ONE critical section (the regenerated `Get`, atomic by
`C20_atomic_entries_rmw_not_interleaved`) the staged value after a `Set(new)` is `new` in every order -/
theorem C20_atomic_get_keeps_staged_write (stored new : Nat) :
    (C20.Seeded.runSecs ⟨none, false⟩ [.getAtomic stored, .set new]).staged = some new ∧
    (C20.Seeded.runSecs ⟨none, false⟩ [.set new, .getAtomic stored]).staged = some new := by
  refine ⟨rfl, rfl⟩

/-! ## non-vacuity -/

/-- `C20_atomic_check_sound` / `C20_atomic_no_relock_between_dependent_accesses`: the cache-miss path of
the regenerated `Get` (look-up, store read, install — one section) is a thread path, satisfies the
criterion, and has the read … write shape -/
example :
    let p : Path := [.acq "Database.mutex", .read "Database.cache", .write "Database.cache",
      .read "Database.cache", .write "Database.cache", .rel "Database.mutex"]
    p ∈ bodyPaths Gen.Skeletons.table 0 40 Gen.Skeletons.Database_Get ∧
    pathAtomic Gen.Skeletons.guards p = true ∧
    p = [.acq "Database.mutex"] ++ Prim.read "Database.cache" ::
      ([.write "Database.cache", .read "Database.cache"] ++ Prim.write "Database.cache" :: [.rel "Database.mutex"]) := by
  refine ⟨by decide, by decide, rfl⟩

/-- `C20_atomic_rmw_excludes_other_accesses`: reader in the regenerated `Get` after its first read, a
`Set` through a sibling view pending: the state is reachable and the writer cannot enter -/
example :
    let pr : Path := [.acq "Database.mutex", .read "Database.cache", .write "Database.cache",
      .read "Database.cache", .write "Database.cache", .rel "Database.mutex"]
    ∃ st ti, run (initState [pr, C20.Seeded.writerPath]) [0, 0, 0, 1] = some st ∧ st[0]? = some ti ∧
      ti.prog = [] ++ Prim.write "Database.cache" :: [.read "Database.cache", .write "Database.cache", .rel "Database.mutex"] ∧
      ("Database.mutex", Mode.W) ∈ ti.held ∧ stepT st 1 = none := by
  refine ⟨_, _, rfl, rfl, rfl, by decide, by decide⟩

/-- `C20_atomic_only_the_writer_writes_the_block_cache`: the reader set is not empty and contains the tip
readers -/
example : Gen.Skeletons.entries.contains "Chain.LastBlock" = true ∧
    Gen.Skeletons.entries.contains "DataAccess.GetBlocksBetweenHeight" = true ∧
    C20.Atomic.cacheWriters.contains "Chain.LastBlock" = false ∧
    C20.Atomic.cacheWriters.contains "DataAccess.GetBlocksBetweenHeight" = false := by
  decide
