/-
C15 (part 3) — the OTHER writers and readers of the persisted generator information.

Theorems about `LiskVerif.Model.GenStatus`: the generator RPC endpoint (`updateStatus`, `setStatus`,
`getStatus`, `setKeys`), `Generator.Init` (`saveGeneratorsFromFile`, `loadGenerator`) and
`EnableGeneration` / `DisableGeneration`, composed with the forge bookkeeping of
`LiskVerif.Model.Generator` (the model embeds its `GState` and every chain / forge step IS
`Generator.applyOp .fixed`), for ALL sequences of
  ext / del / forge (behind the `enabledKeys` gate) / restart (with or without keys file) /
  updateStatus (all inputs, all answers of `HeaderHasPriority`, all crash points) / setStatus / setKeys.

Results: `updateStatus` never changes a stored record (it only creates the all-zero one); it enables
only when the operator supplied exactly what is stored; without `setStatus` the stored record never
decreases and the run is a run of Model/Generator, so all `C15_*` theorems of Props/C15.lean carry
over (in particular no self-contradiction across restarts and crashes); `setStatus` is the ONLY
operation that lowers a record, and with it the operator can make the generator contradict itself
(operator override: recorded, not a defect); `getStatus` reports exactly the stored records and the
enabled flags.
-/
import LiskVerif.Model.GenStatus
import LiskVerif.Props.C15

open LiskVerif LiskVerif.Gen LiskVerif.Generator LiskVerif.GenStatus

/-! ### definitions used in the statements -/

/-- no `setStatus` in the sequence -/
def C15sNoSetStatus (ops : List SOp) : Prop := ∀ op ∈ ops, op.isSetStatus = false

/-- two generator states that every reader of Model/Generator sees alike: same tip, same ghost lists,
same information for every address (an absent record reads as the all-zero one) -/
def C15sEquiv (a b : GState) : Prop :=
  a.height = b.height ∧ a.mhp = b.mhp ∧ a.persisted = b.persisted ∧ a.handedOn = b.handedOn ∧
  ∀ v, getInfo a.infos v = getInfo b.infos v

/-- record order of the property: the height (largest height ever generated, source of the next
`maxHeightGenerated`) and the reported `maxHeightGenerated` do not decrease -/
def C15sInfoLe (a b : Info) : Prop := a.height ≤ b.height ∧ a.mhg ≤ b.mhg

/-! ### lemmas about the association lists -/

private theorem getInfo_cons' (k : Nat) (x : Info) (r : List (Nat × Info)) (v : Nat) :
    getInfo ((k, x) :: r) v = if (k == v) = true then x else getInfo r v := by
  unfold getInfo
  by_cases h : (k == v) = true
  · simp [List.find?, h]
  · simp [List.find?, h]

private theorem lookupInfo_cons (k : Nat) (x : Info) (r : List (Nat × Info)) (v : Nat) :
    lookupInfo ((k, x) :: r) v = if (k == v) = true then some x else lookupInfo r v := by
  unfold lookupInfo
  by_cases h : (k == v) = true
  · simp [List.find?, h]
  · simp [List.find?, h]

private theorem getInfo_eq_lookup (infos : List (Nat × Info)) (v : Nat) :
    getInfo infos v = (lookupInfo infos v).getD {} := by
  unfold getInfo lookupInfo
  cases infos.find? (fun p => p.1 == v) <;> rfl

private theorem lookup_setInfo_same (infos : List (Nat × Info)) (v : Nat) (i : Info) :
    lookupInfo (setInfo infos v i) v = some i := by
  induction infos with
  | nil => simp [setInfo, lookupInfo]
  | cons p r ih =>
    obtain ⟨k, x⟩ := p
    unfold setInfo
    by_cases hk : (k == v) = true
    · simp [hk, lookupInfo_cons]
    · simp [hk, lookupInfo_cons, ih]

private theorem lookup_setInfo_other (infos : List (Nat × Info)) (v w : Nat) (i : Info) (h : w ≠ v) :
    lookupInfo (setInfo infos v i) w = lookupInfo infos w := by
  induction infos with
  | nil =>
    have : ¬ v = w := fun e => h e.symm
    simp [setInfo, this, lookupInfo]
  | cons p r ih =>
    obtain ⟨k, x⟩ := p
    unfold setInfo
    by_cases hk : (k == v) = true
    · have hkv : k = v := by simpa using hk
      have hkw : ¬ k = w := by rw [hkv]; exact fun e => h e.symm
      simp [hk, lookupInfo_cons, hkw]
    · simp only [hk, Bool.false_eq_true, ↓reduceIte, lookupInfo_cons, ih]

private theorem getInfo_setInfo_same' (infos : List (Nat × Info)) (v : Nat) (i : Info) :
    getInfo (setInfo infos v i) v = i := by
  rw [getInfo_eq_lookup, lookup_setInfo_same]; rfl

private theorem getInfo_setInfo_other' (infos : List (Nat × Info)) (v w : Nat) (i : Info) (h : w ≠ v) :
    getInfo (setInfo infos v i) w = getInfo infos w := by
  rw [getInfo_eq_lookup, getInfo_eq_lookup, lookup_setInfo_other _ _ _ _ h]

private theorem lookup_mem (infos : List (Nat × Info)) (v : Nat) (i : Info)
    (h : lookupInfo infos v = some i) : (v, i) ∈ infos := by
  unfold lookupInfo at h
  cases hf : infos.find? (fun p => p.1 == v) with
  | none => simp [hf] at h
  | some p =>
    simp only [hf, Option.some.injEq] at h
    have hm := List.mem_of_find?_eq_some hf
    have hp := List.find?_some hf
    have : p.1 = v := by simpa using hp
    obtain ⟨a, b⟩ := p
    simp only at this h
    subst this; subst h
    exact hm

private theorem restart_gs (addr : Nat → Bytes) (s : SState) (file : List (Nat × KeyKind)) :
    (restart .fixed addr s file).gs = s.gs := rfl

/-! ### `updateStatus` -/

/-- The decision of `verifyAndUpdateGeneratorInfo`: accepted exactly when the input equals the stored
record, or nothing is stored and the input is all-zero (`Equal` / `IsZero`). -/
theorem C15_status_verify_iff (stored : Option Info) (inp : Info) :
    verifyInfo stored inp = none ↔ (stored = some inp ∨ (stored = none ∧ inp = {})) := by
  unfold verifyInfo
  cases stored with
  | none => by_cases h : inp = {} <;> simp [h]
  | some s =>
    by_cases h : inp = s
    · simp [h]
    · have : ¬ s = inp := fun e => h e.symm
      simp [h, this]

private theorem unlock_err (keys : KeyStore) (v pw : Nat) (e : UpdRes) (h : unlock keys v pw = some e) :
    e = .notStored ∨ e = .badKeys ∨ e = .badPassword := by
  unfold unlock at h
  split at h
  · simp at h; exact Or.inl h.symm
  · simp at h
  · split at h
    · simp at h
    · simp at h; exact Or.inr (Or.inr h.symm)
  · simp at h; exact Or.inr (Or.inl h.symm)

private theorem verify_err (st : Option Info) (inp : Info) (e : UpdRes) (h : verifyInfo st inp = some e) :
    e = .contradicting ∨ e = .noPrevious := by
  unfold verifyInfo at h
  split at h
  · split at h
    · simp at h
    · simp at h; exact Or.inl h.symm
  · split at h
    · simp at h
    · simp at h; exact Or.inr h.symm

/-- the state in which the record of the request is written -/
private def written (s : SState) (r : UpdReq) : SState :=
  { s with gs := { s.gs with infos := setInfo s.gs.infos r.v (reqInfo r) } }

/-- the decision order of `HandleUpdateStatus`, as a case distinction -/
private theorem update_cases (addr : Nat → Bytes) (s : SState) (r : UpdReq) (synced : Bool) (c : CrashPt) :
    update .fixed addr s r synced c = (s, .badParams) ∨
    (∃ e, unlock s.keys r.v r.pw = some e ∧ update .fixed addr s r synced c = (s, e)) ∨
    (unlock s.keys r.v r.pw = none ∧ r.enable = false ∧
      update .fixed addr s r synced c = ({ s with enabled := disable s.enabled r.v }, .disabled)) ∨
    (unlock s.keys r.v r.pw = none ∧ r.enable = true ∧ synced = false ∧
      update .fixed addr s r synced c = (s, .notSynced)) ∨
    (unlock s.keys r.v r.pw = none ∧ r.enable = true ∧ synced = true ∧
      ∃ e, verifyInfo (lookupInfo s.gs.infos r.v) (reqInfo r) = some e ∧
        update .fixed addr s r synced c = (s, e)) ∨
    (unlock s.keys r.v r.pw = none ∧ r.enable = true ∧ synced = true ∧
      verifyInfo (lookupInfo s.gs.infos r.v) (reqInfo r) = none ∧
      update .fixed addr s r synced c =
        match c with
        | .beforeWrite => (restart .fixed addr s [], .crashed)
        | .afterWrite => (restart .fixed addr (written s r) [], .crashed)
        | .none => ({ written s r with enabled := enable s.enabled r.v }, .enabled)) := by
  by_cases hp : (!(u32 r.height && u32 r.mhp && u32 r.mhg)) = true
  · left; simp [update, hp]
  · right
    cases hu : unlock s.keys r.v r.pw with
    | some e => left; exact ⟨e, rfl, by simp [update, hp, hu]⟩
    | none =>
      right
      cases hen : r.enable with
      | false => left; exact ⟨rfl, rfl, by simp [update, hp, hu, hen]⟩
      | true =>
        right
        cases hs : synced with
        | false => left; exact ⟨rfl, rfl, rfl, by simp [update, hp, hu, hen]⟩
        | true =>
          right
          cases hv : verifyInfo (lookupInfo s.gs.infos r.v) (reqInfo r) with
          | some e => left; exact ⟨rfl, rfl, rfl, e, rfl, by simp [update, hp, hu, hen, hv]⟩
          | none =>
            right
            refine ⟨rfl, rfl, rfl, rfl, ?_⟩
            cases c <;> simp [update, hp, hu, hen, hv, written]

/-- `updateStatus` NEVER changes a stored record - for every request, every answer of
`HeaderHasPriority`, every crash point: the record of every address is what it was, except that
the all-zero record is created for the requested address when nothing was stored and the request is
all-zero. -/
theorem C15_status_update_never_changes_record (addr : Nat → Bytes) (s : SState) (r : UpdReq)
    (synced : Bool) (c : CrashPt) (w : Nat) :
    lookupInfo (update .fixed addr s r synced c).1.gs.infos w = lookupInfo s.gs.infos w ∨
    (w = r.v ∧ lookupInfo s.gs.infos w = none ∧ reqInfo r = {} ∧
      lookupInfo (update .fixed addr s r synced c).1.gs.infos w = some {}) := by
  rcases update_cases addr s r synced c with h | ⟨e, _, h⟩ | ⟨_, _, h⟩ | ⟨_, _, _, h⟩ | ⟨_, _, _, e, _, h⟩ |
    ⟨_, _, _, hv, h⟩
  · rw [h]; exact Or.inl rfl
  · rw [h]; exact Or.inl rfl
  · rw [h]; exact Or.inl rfl
  · rw [h]; exact Or.inl rfl
  · rw [h]; exact Or.inl rfl
  · rw [h]
    have hv' := (C15_status_verify_iff _ _).mp hv
    have key : lookupInfo (written s r).gs.infos w = lookupInfo s.gs.infos w ∨
        (w = r.v ∧ lookupInfo s.gs.infos w = none ∧ reqInfo r = {} ∧
          lookupInfo (written s r).gs.infos w = some {}) := by
      simp only [written]
      by_cases hw : w = r.v
      · subst hw
        rcases hv' with h | ⟨h1, h2⟩
        · left; rw [lookup_setInfo_same, h]
        · right; refine ⟨rfl, h1, h2, ?_⟩; rw [lookup_setInfo_same, h2]
      · left; exact lookup_setInfo_other _ _ _ _ hw
    cases c with
    | none => exact key
    | beforeWrite => exact Or.inl rfl
    | afterWrite => exact key

/-- in particular: what the generator reads (`initBlockHeader`: an absent record reads as zero) is
never changed by `updateStatus` -/
theorem C15_status_update_preserves_info (addr : Nat → Bytes) (s : SState) (r : UpdReq)
    (synced : Bool) (c : CrashPt) (w : Nat) :
    getInfo (update .fixed addr s r synced c).1.gs.infos w = getInfo s.gs.infos w := by
  rw [getInfo_eq_lookup, getInfo_eq_lookup]
  rcases C15_status_update_never_changes_record addr s r synced c w with h | ⟨_, h1, _, h3⟩
  · rw [h]
  · rw [h1, h3]; rfl

/-- `updateStatus` touches nothing else of the generator state (tip and ghost lists) -/
private theorem update_equiv (addr : Nat → Bytes) (s : SState) (r : UpdReq) (synced : Bool) (c : CrashPt) :
    C15sEquiv (update .fixed addr s r synced c).1.gs s.gs := by
  refine ⟨?_, ?_, ?_, ?_, fun v => C15_status_update_preserves_info addr s r synced c v⟩ <;>
  · rcases update_cases addr s r synced c with h | ⟨e, _, h⟩ | ⟨_, _, h⟩ | ⟨_, _, _, h⟩ | ⟨_, _, _, e, _, h⟩ |
      ⟨_, _, _, _, h⟩
    · rw [h]
    · rw [h]
    · rw [h]
    · rw [h]
    · rw [h]
    · rw [h]; cases c <;> rfl

/-- Enabling succeeds ONLY when the node is synced, the keys open, and the operator supplied exactly
the stored record (or nothing is stored and the input is all-zero); afterwards the stored record
IS the supplied one and the key is enabled. -/
theorem C15_status_enable_requires_stored_info (addr : Nat → Bytes) (s : SState) (r : UpdReq)
    (synced : Bool) (c : CrashPt)
    (h : (update .fixed addr s r synced c).2 = .enabled) :
    r.enable = true ∧ synced = true ∧ unlock s.keys r.v r.pw = none ∧ c = .none ∧
    (lookupInfo s.gs.infos r.v = some (reqInfo r) ∨ (lookupInfo s.gs.infos r.v = none ∧ reqInfo r = {})) ∧
    lookupInfo (update .fixed addr s r synced c).1.gs.infos r.v = some (reqInfo r) ∧
    isEnabled (update .fixed addr s r synced c).1 r.v = true := by
  rcases update_cases addr s r synced c with h' | ⟨e, he, h'⟩ | ⟨_, _, h'⟩ | ⟨_, _, _, h'⟩ |
    ⟨_, _, _, e, he, h'⟩ | ⟨hu, hen, hs, hv, h'⟩
  · rw [h'] at h; cases h
  · rw [h'] at h; simp only at h; subst h
    rcases unlock_err _ _ _ _ he with h | h | h <;> cases h
  · rw [h'] at h; cases h
  · rw [h'] at h; cases h
  · rw [h'] at h; simp only at h; subst h
    rcases verify_err _ _ _ he with h | h <;> cases h
  · cases c with
    | beforeWrite => rw [h'] at h; cases h
    | afterWrite => rw [h'] at h; cases h
    | none =>
      rw [h']
      refine ⟨hen, hs, hu, rfl, (C15_status_verify_iff _ _).mp hv, lookup_setInfo_same _ _ _, ?_⟩
      simp [isEnabled, enable]

/-- No crash point enables a key or changes what the generator reads: a process that dies inside
`updateStatus` comes back with the enabled set of `loadGenerator` and the same information. (The
write is before `EnableGeneration`: there is no point at which the key is usable and the record
is not durable.) -/
theorem C15_status_crash_points_safe (addr : Nat → Bytes) (s : SState) (r : UpdReq) (synced : Bool)
    (c : CrashPt) (h : (update .fixed addr s r synced c).2 = .crashed) :
    (update .fixed addr s r synced c).1.enabled = loadGenerator s.keys ∧
    (update .fixed addr s r synced c).1.keys = s.keys ∧
    ∀ w, getInfo (update .fixed addr s r synced c).1.gs.infos w = getInfo s.gs.infos w := by
  refine ⟨?_, ?_, fun w => C15_status_update_preserves_info addr s r synced c w⟩ <;>
  · rcases update_cases addr s r synced c with h' | ⟨e, he, h'⟩ | ⟨_, _, h'⟩ | ⟨_, _, _, h'⟩ |
      ⟨_, _, _, e, he, h'⟩ | ⟨hu, hen, hs, hv, h'⟩
    · rw [h'] at h; cases h
    · rw [h'] at h; simp only at h; subst h
      rcases unlock_err _ _ _ _ he with h | h | h <;> cases h
    · rw [h'] at h; cases h
    · rw [h'] at h; cases h
    · rw [h'] at h; simp only at h; subst h
      rcases verify_err _ _ _ he with h | h <;> cases h
    · cases c with
      | none => rw [h'] at h; cases h
      | beforeWrite => rw [h']; simp [restart, importFile]
      | afterWrite => rw [h']; simp [restart, importFile, written]

/-! ### single steps -/

private theorem equiv_refl (a : GState) : C15sEquiv a a := ⟨rfl, rfl, rfl, rfl, fun _ => rfl⟩

private theorem equiv_trans {a b c : GState} (h1 : C15sEquiv a b) (h2 : C15sEquiv b c) : C15sEquiv a c :=
  ⟨h1.1.trans h2.1, h1.2.1.trans h2.2.1, h1.2.2.1.trans h2.2.2.1, h1.2.2.2.1.trans h2.2.2.2.1,
    fun v => (h1.2.2.2.2 v).trans (h2.2.2.2.2 v)⟩

private theorem mkHeader_congr (addr : Nat → Bytes) (a b : GState) (v : Nat) (h : C15sEquiv a b) :
    mkHeader addr a v = mkHeader addr b v := by
  obtain ⟨h1, h2, _, _, h5⟩ := h
  simp [mkHeader, h1, h2, h5 v]

/-- every step of Model/Generator respects the equivalence -/
private theorem equiv_applyOp (addr : Nat → Bytes) (a b : GState) (op : Op) (h : C15sEquiv a b) :
    C15sEquiv (applyOp .fixed addr a op) (applyOp .fixed addr b op) := by
  have hm := fun v => mkHeader_congr addr a b v h
  obtain ⟨h1, h2, h3, h4, h5⟩ := h
  cases op with
  | ext m => exact ⟨by simp [applyOp, h1], rfl, h3, h4, h5⟩
  | del k m => exact ⟨by simp [applyOp, h1], rfl, h3, h4, h5⟩
  | restart => exact ⟨h1, h2, h3, h4, h5⟩
  | forge w o m =>
    cases o with
    | crashedBeforeWrite => exact ⟨h1, h2, h3, h4, h5⟩
    | dropped =>
      refine ⟨h1, h2, by simp [applyOp, h3, hm w], by simp [applyOp, h4, hm w], ?_⟩
      intro v
      by_cases hv : v = w
      · subst hv; simp only [applyOp, getInfo_setInfo_same', hm v]
      · simp only [applyOp, getInfo_setInfo_other' _ _ _ _ hv, h5 v]
    | applied =>
      refine ⟨by simp [applyOp, h1], rfl, by simp [applyOp, h3, hm w], by simp [applyOp, h4, hm w], ?_⟩
      intro v
      by_cases hv : v = w
      · subst hv; simp only [applyOp, getInfo_setInfo_same', hm v]
      · simp only [applyOp, getInfo_setInfo_other' _ _ _ _ hv, h5 v]

/-- what a step of the status model does to the embedded generator state: a step of Model/Generator,
or nothing any reader of Model/Generator can see - unless it is `setStatus` -/
private theorem step_shape (addr : Nat → Bytes) (s : SState) (op : SOp) (h : op.isSetStatus = false) :
    (∃ gop, (applyS .fixed addr s op).gs = applyOp .fixed addr s.gs gop ∧
      (∀ v o m, gop = .forge v o m → op = .forge v o m ∧ isEnabled s v = true)) ∨
    C15sEquiv (applyS .fixed addr s op).gs s.gs := by
  cases op with
  | ext m => exact Or.inl ⟨.ext m, rfl, by intro v o m' e; cases e⟩
  | del k m => exact Or.inl ⟨.del k m, rfl, by intro v o m' e; cases e⟩
  | forge v o m =>
    by_cases hen : isEnabled s v = true
    · refine Or.inl ⟨.forge v o m, by simp [applyS, GenStatus.forge, hen], ?_⟩
      intro v' o' m' e; cases e; exact ⟨rfl, hen⟩
    · exact Or.inr (by simp [applyS, GenStatus.forge, hen]; exact equiv_refl _)
  | restart file => exact Or.inr (equiv_refl _)
  | update r sy c => exact Or.inr (update_equiv addr s r sy c)
  | setStatus v hh p g => simp [SOp.isSetStatus] at h
  | setKeys v pl => exact Or.inr (equiv_refl _)

/-- Without `setStatus` the stored height of every address - the largest height it ever generated,
what the next header reports as `maxHeightGenerated` - never decreases, whatever the step is. -/
theorem C15_status_stored_height_monotone (addr : Nat → Bytes) (s : SState) (op : SOp) (v : Nat)
    (h : op.isSetStatus = false) :
    (getInfo s.gs.infos v).height ≤ (getInfo (applyS .fixed addr s op).gs.infos v).height := by
  rcases step_shape addr s op h with ⟨gop, hg, _⟩ | he
  · rw [hg]; exact C15_stored_height_monotone addr s.gs gop v
  · rw [he.2.2.2.2 v]; exact Nat.le_refl _

/-- `setStatus` is the ONLY operation that can lower the stored height of an address - and only of
the address it names. -/
theorem C15_status_only_setStatus_lowers (addr : Nat → Bytes) (s : SState) (op : SOp) (v : Nat)
    (h : (getInfo (applyS .fixed addr s op).gs.infos v).height < (getInfo s.gs.infos v).height) :
    ∃ hh p g, op = .setStatus v hh p g := by
  cases hop : op.isSetStatus with
  | false =>
    have := C15_status_stored_height_monotone addr s op v hop
    omega
  | true =>
    cases op with
    | setStatus w hh p g =>
      by_cases hw : v = w
      · subst hw; exact ⟨hh, p, g, rfl⟩
      · exfalso
        have : getInfo (applyS .fixed addr s (.setStatus w hh p g)).gs.infos v = getInfo s.gs.infos v := by
          simp only [applyS, setStatus]
          split
          · rfl
          · exact getInfo_setInfo_other' _ _ _ _ hw
        rw [this] at h
        omega
    | ext m => simp [SOp.isSetStatus] at hop
    | del k m => simp [SOp.isSetStatus] at hop
    | forge a o m => simp [SOp.isSetStatus] at hop
    | restart f => simp [SOp.isSetStatus] at hop
    | update r sy c => simp [SOp.isSetStatus] at hop
    | setKeys a pl => simp [SOp.isSetStatus] at hop

/-- A stored record never disappears (no operation deletes one). -/
theorem C15_status_record_never_disappears (addr : Nat → Bytes) (s : SState) (op : SOp) (v : Nat)
    (h : lookupInfo s.gs.infos v ≠ none) :
    lookupInfo (applyS .fixed addr s op).gs.infos v ≠ none := by
  have hset : ∀ (w : Nat) (i : Info), lookupInfo (setInfo s.gs.infos w i) v ≠ none := by
    intro w i
    by_cases hw : v = w
    · subst hw; rw [lookup_setInfo_same]; simp
    · rw [lookup_setInfo_other _ _ _ _ hw]; exact h
  cases op with
  | ext m => exact h
  | del k m => exact h
  | restart f => exact h
  | setKeys a pl => exact h
  | forge w o m =>
    simp only [applyS, GenStatus.forge]
    split
    · cases o with
      | crashedBeforeWrite => exact h
      | dropped => exact hset _ _
      | applied => exact hset _ _
    · exact h
  | update r sy c =>
    rcases C15_status_update_never_changes_record addr s r sy c v with e | ⟨_, _, _, e⟩
    · simp only [applyS]; rw [e]; exact h
    · simp only [applyS]; rw [e]; simp
  | setStatus w hh p g =>
    simp only [applyS, setStatus]
    split
    · exact h
    · exact hset _ _

/-- A header reaches the generator database (and is handed on) only through a forge step of an
address whose key is enabled at that moment. -/
theorem C15_status_signs_only_while_enabled (addr : Nat → Bytes) (s : SState) (op : SOp)
    (h : (applyS .fixed addr s op).gs.persisted ≠ s.gs.persisted) :
    ∃ v o m, op = .forge v o m ∧ isEnabled s v = true := by
  cases op with
  | ext m => exact absurd rfl h
  | del k m => exact absurd rfl h
  | restart f => exact absurd rfl h
  | setKeys a pl => exact absurd rfl h
  | forge w o m =>
    by_cases hen : isEnabled s w = true
    · exact ⟨w, o, m, rfl, hen⟩
    · exfalso; apply h; simp [applyS, GenStatus.forge, hen]
  | update r sy c => exact absurd (update_equiv addr s r sy c).2.2.1 h
  | setStatus w hh p g =>
    exfalso; apply h
    simp only [applyS, setStatus]
    split <;> rfl

/-! ### who enables a key -/

private theorem mem_loadGenerator (keys : KeyStore) (v : Nat) (h : v ∈ loadGenerator keys) :
    getKey keys v = some .plain := by
  unfold loadGenerator at h
  have := (List.mem_filter.mp h).2
  simpa using this

private theorem isEnabled_iff (s : SState) (v : Nat) : isEnabled s v = true ↔ v ∈ s.enabled := by
  simp [isEnabled]

/-- A key becomes enabled only through a successful `updateStatus` for its address, or through
`loadGenerator` at a process start for an address whose stored keys are PLAIN (the operator's
standing consent; no look at the stored information). -/
theorem C15_status_enabled_only_by_update_or_plain_keys (addr : Nat → Bytes) (s : SState) (op : SOp)
    (v : Nat) (h : isEnabled (applyS .fixed addr s op) v = true) :
    isEnabled s v = true ∨
    (∃ r sy c, op = .update r sy c ∧ r.v = v ∧ (update .fixed addr s r sy c).2 = .enabled) ∨
    getKey (applyS .fixed addr s op).keys v = some .plain := by
  cases op with
  | ext m => exact Or.inl h
  | del k m => exact Or.inl h
  | setKeys a pl => exact Or.inl h
  | setStatus w hh p g =>
    left
    simp only [applyS, setStatus] at h
    split at h <;> exact h
  | forge w o m =>
    left
    simp only [applyS, GenStatus.forge] at h
    split at h <;> exact h
  | restart f =>
    right; right
    exact mem_loadGenerator _ _ ((isEnabled_iff _ _).mp h)
  | update r sy c =>
    simp only [applyS] at h ⊢
    rcases update_cases addr s r sy c with h' | ⟨e, _, h'⟩ | ⟨_, _, h'⟩ | ⟨_, _, _, h'⟩ | ⟨_, _, _, e, _, h'⟩ |
      ⟨_, _, _, _, h'⟩
    · rw [h'] at h; exact Or.inl h
    · rw [h'] at h; exact Or.inl h
    · rw [h'] at h
      left
      have hm := (isEnabled_iff _ _).mp h
      simp only [disable] at hm
      exact (isEnabled_iff _ _).mpr (List.mem_filter.mp hm).1
    · rw [h'] at h; exact Or.inl h
    · rw [h'] at h; exact Or.inl h
    · cases c with
      | beforeWrite =>
        rw [h'] at h ⊢
        right; right
        exact mem_loadGenerator _ _ ((isEnabled_iff _ _).mp h)
      | afterWrite =>
        rw [h'] at h ⊢
        right; right
        exact mem_loadGenerator _ _ ((isEnabled_iff _ _).mp h)
      | none =>
        rw [h'] at h
        have hm := (isEnabled_iff _ _).mp h
        simp only [enable, List.mem_cons] at hm
        rcases hm with hm | hm
        · right; left; exact ⟨r, sy, .none, rfl, hm.symm, by rw [h']⟩
        · left; exact (isEnabled_iff _ _).mpr (List.mem_filter.mp hm).1

/-- A restart forgets every enabling: afterwards exactly the addresses with plain stored keys are
enabled, and the generator information is untouched (`loadGenerator` never writes the record). -/
theorem C15_status_restart_keeps_info (addr : Nat → Bytes) (s : SState) (file : List (Nat × KeyKind)) :
    (restart .fixed addr s file).gs = s.gs ∧
    ∀ v, isEnabled (restart .fixed addr s file) v = true →
      getKey (restart .fixed addr s file).keys v = some .plain :=
  ⟨rfl, fun v h => mem_loadGenerator _ _ ((isEnabled_iff _ _).mp h)⟩

/-! ### `getStatus` -/

/-- `getStatus` reports exactly the stored records, each with the `IsGenerationEnabled` flag of its
address: nothing else, nothing missing, nothing altered. -/
theorem C15_status_getStatus_exact (s : SState) (v : Nat) (e : Bool) (i : Info) :
    (v, e, i) ∈ getStatus s ↔ ((v, i) ∈ s.gs.infos ∧ e = isEnabled s v) := by
  unfold getStatus
  simp only [List.mem_map]
  constructor
  · rintro ⟨p, hp, he⟩
    obtain ⟨a, b⟩ := p
    simp only [Prod.mk.injEq] at he
    obtain ⟨h1, h2, h3⟩ := he
    subst h1; subst h3
    exact ⟨hp, h2.symm⟩
  · rintro ⟨hm, he⟩
    exact ⟨(v, i), hm, by simp [he]⟩

/-- … and the record `getStatus` shows for an address is the one the generator reads -/
theorem C15_status_getStatus_shows_stored (s : SState) (v : Nat) (i : Info)
    (h : lookupInfo s.gs.infos v = some i) :
    (v, isEnabled s v, i) ∈ getStatus s ∧ getInfo s.gs.infos v = i ∧
    (getStatus s).length = s.gs.infos.length := by
  refine ⟨(C15_status_getStatus_exact s v _ i).mpr ⟨lookup_mem _ _ _ h, rfl⟩, ?_, by simp [getStatus]⟩
  rw [getInfo_eq_lookup, h]; rfl

/-! ### runs without `setStatus` are runs of Model/Generator -/

/-- Refinement: for every sequence of operations without `setStatus` the embedded generator state
is, for every reader, the state of Model/Generator after the projected operations (chain steps,
the forge steps that passed the `enabledKeys` gate, restarts including those of the crash points). -/
theorem C15_status_refines_generator (addr : Nat → Bytes) (ops : List SOp) :
    ∀ (s : SState) (g : GState), C15sNoSetStatus ops → C15sEquiv s.gs g →
      C15sEquiv (runS .fixed addr s ops).gs (run .fixed addr g (projOps .fixed addr s ops)) := by
  induction ops with
  | nil => intro s g _ he; exact he
  | cons op r ih =>
    intro s g hns he
    have hns' : C15sNoSetStatus r := fun o ho => hns o (List.mem_cons_of_mem _ ho)
    have hop : op.isSetStatus = false := hns op List.mem_cons_self
    simp only [runS, projOps]
    cases op with
    | ext m => exact ih _ _ hns' (equiv_applyOp addr _ _ (.ext m) he)
    | del k m => exact ih _ _ hns' (equiv_applyOp addr _ _ (.del k m) he)
    | restart f => exact ih _ _ hns' he
    | setKeys a pl => exact ih _ _ hns' he
    | setStatus w hh p gg => simp [SOp.isSetStatus] at hop
    | forge w o m =>
      by_cases hen : isEnabled s w = true
      · simp only [hen, ↓reduceIte, run]
        refine ih _ _ hns' ?_
        have : (applyS .fixed addr s (.forge w o m)).gs = applyOp .fixed addr s.gs (.forge w o m) := by
          simp [applyS, GenStatus.forge, hen]
        rw [this]
        exact equiv_applyOp addr _ _ _ he
      · simp only [hen, Bool.false_eq_true, ↓reduceIte]
        refine ih _ _ hns' ?_
        have : (applyS .fixed addr s (.forge w o m)).gs = s.gs := by
          simp [applyS, GenStatus.forge, hen]
        rw [this]; exact he
    | update rq sy c =>
      have hq : C15sEquiv (applyS .fixed addr s (.update rq sy c)).gs g :=
        equiv_trans (update_equiv addr s rq sy c) he
      by_cases hc : (update .fixed addr s rq sy c).2 = .crashed
      · simp only [hc, ↓reduceIte, run]
        exact ih _ _ hns' hq
      · simp only [hc, ↓reduceIte]
        exact ih _ _ hns' hq

/-- Composition with `C15_no_self_contradiction` (Props/C15.lean): for EVERY sequence of chain
steps, forge steps, restarts (with or without keys file), `updateStatus` calls (any input, any crash
point) and `setKeys` - no `setStatus` - a validator that forges only while its key is enabled (the
gate of `Generator.forge`) never signs two contradicting headers, before or after any restart,
provided each time it generates its tip is better in the fork-choice order than the tip it generated
on before. -/
theorem C15_status_no_self_contradiction (addr : Nat → Bytes) (ops : List SOp) (v : Nat)
    (hns : C15sNoSetStatus ops)
    (hall : C07Gen.allowedAll {} (C15steps addr v {} (projOps .fixed addr {} ops))) :
    (headersOf v (runS .fixed addr {} ops).gs.persisted).Pairwise
      (fun a b => areDistinctHeadersContradicting a b = false ∧
        areDistinctHeadersContradicting b a = false) := by
  have he := C15_status_refines_generator addr ops {} {} hns (equiv_refl _)
  rw [he.2.2.1]
  exact C15_no_self_contradiction addr _ v hall

/-- Composition with `C15_reports_largest_height` and `C15_max_height_generated_clauses`: whatever
the tips are, after any such sequence the next header of a validator reports the largest height of
all its headers that reached the generator database, and no contradiction can come from the
`maxHeightGenerated` clauses. -/
theorem C15_status_reports_largest_height (addr : Nat → Bytes) (ops : List SOp) (v : Nat)
    (hns : C15sNoSetStatus ops) :
    (mkHeader addr (runS .fixed addr {} ops).gs v).maxHeightGenerated =
      C15maxHeight (headersOf v (runS .fixed addr {} ops).gs.persisted) ∧
    (headersOf v (runS .fixed addr {} ops).gs.persisted).Pairwise
      (fun e l => e.height ≤ l.maxHeightGenerated ∧ e.maxHeightGenerated ≤ l.maxHeightGenerated) := by
  have he := C15_status_refines_generator addr ops {} {} hns (equiv_refl _)
  rw [mkHeader_congr addr _ _ v he, he.2.2.1]
  exact ⟨C15_reports_largest_height addr _ v, C15_max_height_generated_clauses addr _ v⟩

/-- … and everything handed to consensus is covered by the stored record at every moment
(`C15_persisted_before_handoff`) -/
theorem C15_status_persisted_before_handoff (addr : Nat → Bytes) (ops : List SOp) (v : Nat) (h : Hdr)
    (hns : C15sNoSetStatus ops) (hh : (v, h) ∈ (runS .fixed addr {} ops).gs.handedOn) :
    h.height ≤ (getInfo (runS .fixed addr {} ops).gs.infos v).height := by
  have he := C15_status_refines_generator addr ops {} {} hns (equiv_refl _)
  rw [he.2.2.2.1] at hh
  rw [he.2.2.2.2 v]
  exact (C15_persisted_before_handoff addr _ v h hh).1

/-! ### the record never decreases along a run -/

private theorem runS_append (addr : Nat → Bytes) (a b : List SOp) : ∀ s : SState,
    runS .fixed addr s (a ++ b) = runS .fixed addr (runS .fixed addr s a) b := by
  induction a with
  | nil => intro s; rfl
  | cons op r ih => intro s; simp only [List.cons_append, runS]; exact ih _

/-- well-formed records: the reported `maxHeightGenerated` is at most the stored height -/
private def WF (g : GState) : Prop := ∀ v, (getInfo g.infos v).mhg ≤ (getInfo g.infos v).height

private theorem applyOp_le (addr : Nat → Bytes) (g : GState) (op : Op) (hwf : WF g) (v : Nat) :
    C15sInfoLe (getInfo g.infos v) (getInfo (applyOp .fixed addr g op).infos v) ∧
    (getInfo (applyOp .fixed addr g op).infos v).mhg ≤ (getInfo (applyOp .fixed addr g op).infos v).height := by
  have base : C15sInfoLe (getInfo g.infos v) (getInfo g.infos v) ∧
      (getInfo g.infos v).mhg ≤ (getInfo g.infos v).height := ⟨⟨Nat.le_refl _, Nat.le_refl _⟩, hwf v⟩
  have forged : ∀ w, C15sInfoLe (getInfo g.infos v)
        (getInfo (setInfo g.infos w (nextInfo .fixed (mkHeader addr g w))) v) ∧
      (getInfo (setInfo g.infos w (nextInfo .fixed (mkHeader addr g w))) v).mhg ≤
        (getInfo (setInfo g.infos w (nextInfo .fixed (mkHeader addr g w))) v).height := by
    intro w
    by_cases hv : v = w
    · subst hv
      rw [getInfo_setInfo_same']
      have := hwf v
      simp only [C15sInfoLe, nextInfo, mkHeader]
      omega
    · rw [getInfo_setInfo_other' _ _ _ _ hv]; exact base
  cases op with
  | ext m => exact base
  | del k m => exact base
  | restart => exact base
  | forge w o m =>
    cases o with
    | crashedBeforeWrite => exact base
    | dropped => exact forged w
    | applied => exact forged w

private theorem step_le (addr : Nat → Bytes) (s : SState) (op : SOp) (h : op.isSetStatus = false)
    (hwf : WF s.gs) :
    (∀ v, C15sInfoLe (getInfo s.gs.infos v) (getInfo (applyS .fixed addr s op).gs.infos v)) ∧
    WF (applyS .fixed addr s op).gs := by
  rcases step_shape addr s op h with ⟨gop, hg, _⟩ | he
  · rw [hg]
    exact ⟨fun v => (applyOp_le addr s.gs gop hwf v).1, fun v => (applyOp_le addr s.gs gop hwf v).2⟩
  · refine ⟨fun v => ?_, fun v => ?_⟩
    · rw [he.2.2.2.2 v]; exact ⟨Nat.le_refl _, Nat.le_refl _⟩
    · rw [he.2.2.2.2 v]; exact hwf v

private theorem run_le (addr : Nat → Bytes) (ops : List SOp) : ∀ (s : SState), C15sNoSetStatus ops → WF s.gs →
    (∀ v, C15sInfoLe (getInfo s.gs.infos v) (getInfo (runS .fixed addr s ops).gs.infos v)) ∧
    WF (runS .fixed addr s ops).gs := by
  induction ops with
  | nil => intro s _ hwf; exact ⟨fun v => ⟨Nat.le_refl _, Nat.le_refl _⟩, hwf⟩
  | cons op r ih =>
    intro s hns hwf
    have hop : op.isSetStatus = false := hns op List.mem_cons_self
    have hns' : C15sNoSetStatus r := fun o ho => hns o (List.mem_cons_of_mem _ ho)
    obtain ⟨h1, h2⟩ := step_le addr s op hop hwf
    obtain ⟨h3, h4⟩ := ih _ hns' h2
    refine ⟨fun v => ?_, h4⟩
    have a := h1 v
    have b := h3 v
    simp only [runS]
    unfold C15sInfoLe at *
    omega

/-- For ALL operation sequences without `setStatus`: between any two moments of the run the stored
record of an address does not decrease - neither its height (the largest height ever generated,
the next `maxHeightGenerated`) nor the `maxHeightGenerated` it recorded. (`maxHeightPrevoted` of the
record is the chain's value at the last forge: it is monotone exactly when the node only moves to
chains fork choice prefers - the hypothesis of `C15_status_no_self_contradiction`.) -/
theorem C15_status_record_never_decreases (addr : Nat → Bytes) (ops₁ ops₂ : List SOp) (v : Nat)
    (hns : C15sNoSetStatus (ops₁ ++ ops₂)) :
    C15sInfoLe (getInfo (runS .fixed addr {} ops₁).gs.infos v)
      (getInfo (runS .fixed addr {} (ops₁ ++ ops₂)).gs.infos v) := by
  have h1 : C15sNoSetStatus ops₁ := fun o ho => hns o (List.mem_append_left _ ho)
  have h2 : C15sNoSetStatus ops₂ := fun o ho => hns o (List.mem_append_right _ ho)
  have hwf0 : WF ({} : SState).gs := fun _ => Nat.le_refl _
  rw [runS_append]
  exact (run_le addr ops₂ _ h2 (run_le addr ops₁ {} h1 hwf0).2).1 v

/-! ### the operator override: `setStatus` -/

/-- the keys file gives validator 0 plain keys (enabled at every start); ten blocks; validator 0
generates at height 10 on a chain with maxHeightPrevoted 3; THE OPERATOR RESETS THE RECORD with
`setStatus(0,0,0)`; the node moves to a better, shorter chain; validator 0 generates at height 8 -/
def C15sOverrideOps (override : Bool) : List SOp :=
  [.restart [(0, .plain)],
   .ext 0, .ext 0, .ext 0, .ext 0, .ext 0, .ext 0, .ext 1, .ext 2, .ext 3,
   .forge 0 .applied 3] ++
  (if override then [.setStatus 0 0 0 0] else []) ++
  [.del 3 4, .forge 0 .applied 4]

/-- Operator override (recorded, not a defect): `setStatus` writes whatever it is given - no key
lookup, no comparison with the stored record, no look at `enabledKeys` - so an operator who lowers
the record makes the running generator sign a header that contradicts an earlier one although the
node behaved (each forging opportunity on a better tip). Without the `setStatus` call the same
history has no contradiction. `updateStatus` cannot be used for this
(`C15_status_update_never_changes_record`). -/
theorem C15_status_operator_override_contradicts :
    let addr : Nat → Bytes := fun v => [UInt8.ofNat v]
    let hs := headersOf 0 (runS .fixed addr {} (C15sOverrideOps true)).gs.persisted
    hs.map (fun h => (h.height, h.maxHeightGenerated, h.maxHeightPrevoted)) = [(10, 0, 3), (8, 0, 4)] ∧
    (∃ a ∈ hs, ∃ b ∈ hs, areDistinctHeadersContradicting a b = true) ∧
    C07Gen.allowedAll {} [(10, 3), (8, 4)] ∧
    (headersOf 0 (runS .fixed addr {} (C15sOverrideOps false)).gs.persisted).map
      (fun h => (h.height, h.maxHeightGenerated, h.maxHeightPrevoted)) = [(10, 0, 3), (8, 10, 4)] ∧
    C15sNoSetStatus (C15sOverrideOps false) := by
  refine ⟨by decide, ?_, ?_, by decide, ?_⟩
  · refine ⟨{ height := 10, generatorAddress := [0], maxHeightGenerated := 0, maxHeightPrevoted := 3 }, by decide,
      { height := 8, generatorAddress := [0], maxHeightGenerated := 0, maxHeightPrevoted := 4 }, by decide, by decide⟩
  · simp [C07Gen.allowedAll, C07Gen.allowed, C07Gen.forge]
  · intro op hop
    simp only [C15sOverrideOps, Bool.false_eq_true, ↓reduceIte, List.append_nil, List.cons_append,
      List.nil_append, List.mem_cons, List.not_mem_nil, or_false] at hop
    rcases hop with h | h | h | h | h | h | h | h | h | h | h | h | h <;> (subst h; rfl)

/-! ### non-vacuity -/

private def exAddr : Nat → Bytes := fun v => [UInt8.ofNat v]

/-- the intended life cycle: encrypted keys from the keys file (not enabled at start); enable with
the all-zero information; forge at 3; one more block; restart (nothing enabled); a request with
other information is refused, the stored information enables; forge again -/
private def exLife : List SOp :=
  [.restart [(0, .encrypted 7)], .ext 0, .ext 0,
   .update { v := 0, pw := 7, enable := true, height := 0, mhp := 0, mhg := 0 } true .none,
   .forge 0 .applied 0, .ext 0, .restart [],
   .update { v := 0, pw := 7, enable := true, height := 3, mhp := 0, mhg := 0 } true .none,
   .forge 0 .applied 0]

example : (runS .fixed exAddr {} exLife).gs.persisted.map (fun p => (p.2.height, p.2.maxHeightGenerated)) =
    [(3, 0), (5, 3)] := by decide
example : C15sNoSetStatus exLife := by
  intro op hop
  simp only [exLife, List.mem_cons, List.not_mem_nil, or_false] at hop
  rcases hop with h | h | h | h | h | h | h | h | h <;> (subst h; rfl)
-- hypotheses of `C15_status_no_self_contradiction` hold on the life cycle
example : C07Gen.allowedAll {} (C15steps exAddr 0 {} (projOps .fixed exAddr {} exLife)) := by
  have : C15steps exAddr 0 {} (projOps .fixed exAddr {} exLife) = [(3, 0), (5, 0)] := by decide
  rw [this]; simp [C07Gen.allowedAll, C07Gen.allowed, C07Gen.forge]
-- after the restart nothing is enabled, a forge step in the validator's slot signs nothing
example : (runS .fixed exAddr {} (exLife.take 7 ++ [.forge 0 .applied 0])).gs.persisted.length = 1 := by decide
-- the decision order of `updateStatus` on the state after the restart (record 3/0/0 stored)
private def exS : SState := runS .fixed exAddr {} (exLife.take 7)
example : (update .fixed exAddr exS { v := 1, pw := 7, enable := true, height := 3, mhp := 0, mhg := 0 } true .none).2 = .notStored := by decide
example : (update .fixed exAddr exS { v := 0, pw := 8, enable := true, height := 3, mhp := 0, mhg := 0 } true .none).2 = .badPassword := by decide
example : (update .fixed exAddr exS { v := 0, pw := 8, enable := false, height := 9, mhp := 9, mhg := 9 } false .none).2 = .badPassword := by decide
example : (update .fixed exAddr exS { v := 0, pw := 7, enable := false, height := 9, mhp := 9, mhg := 9 } false .none).2 = .disabled := by decide
example : (update .fixed exAddr exS { v := 0, pw := 7, enable := true, height := 3, mhp := 0, mhg := 0 } false .none).2 = .notSynced := by decide
example : (update .fixed exAddr exS { v := 0, pw := 7, enable := true, height := 2, mhp := 0, mhg := 0 } true .none).2 = .contradicting := by decide
example : (update .fixed exAddr exS { v := 0, pw := 7, enable := true, height := 0, mhp := 0, mhg := 0 } true .none).2 = .contradicting := by decide
example : (update .fixed exAddr exS { v := 0, pw := 7, enable := true, height := 4294967296, mhp := 0, mhg := 0 } true .none).2 = .badParams := by decide
example : (update .fixed exAddr {} { v := 0, pw := 7, enable := true, height := 1, mhp := 0, mhg := 0 } true .none).2 = .notStored := by decide
example : (update .fixed exAddr (setKeys {} 0 true) { v := 0, pw := 0, enable := true, height := 1, mhp := 0, mhg := 0 } true .none).2 = .noPrevious := by decide
example : (update .fixed exAddr (setKeys {} 0 false) { v := 0, pw := 0, enable := true, height := 0, mhp := 0, mhg := 0 } true .none).2 = .badKeys := by decide
example : (update .fixed exAddr exS { v := 0, pw := 7, enable := true, height := 3, mhp := 0, mhg := 0 } true .none).2 = .enabled := by decide
-- crash points: the record survives, the key is not enabled
example : (update .fixed exAddr exS { v := 0, pw := 7, enable := true, height := 3, mhp := 0, mhg := 0 } true .afterWrite).2 = .crashed ∧
    isEnabled (update .fixed exAddr exS { v := 0, pw := 7, enable := true, height := 3, mhp := 0, mhg := 0 } true .afterWrite).1 0 = false := by decide
example : lookupInfo (update .fixed exAddr (setKeys {} 0 true) { v := 0, pw := 0, enable := true, height := 0, mhp := 0, mhg := 0 } true .beforeWrite).1.gs.infos 0 = none ∧
    lookupInfo (update .fixed exAddr (setKeys {} 0 true) { v := 0, pw := 0, enable := true, height := 0, mhp := 0, mhg := 0 } true .afterWrite).1.gs.infos 0 = some {} := by decide
-- plain keys are enabled by `loadGenerator` at every start, whatever is stored
example : isEnabled (restart .fixed exAddr (setKeys exS 0 true) []) 0 = true := by decide
-- getStatus
example : getStatus (runS .fixed exAddr {} exLife) = [(0, true, { height := 5, mhp := 0, mhg := 3 })] := by decide
-- setStatus lowers the record (hypothesis of `C15_status_only_setStatus_lowers` is satisfiable)
example : (getInfo (applyS .fixed exAddr exS (.setStatus 0 1 0 0)).gs.infos 0).height < (getInfo exS.gs.infos 0).height := by decide
