/-
C17 — request ids are fresh: obligation instead of assumption.

The theorems of Props/C17.lean hold because `ReqResp.step` draws every request id from a generator that
never repeats.  Two things were taken on trust: that the CODE generates ids that way, and that one
process is all there is.  This file discharges both:

* tie A (`C17_gen_*`): the expression assigned to `Request.ID` in `newRequestMessage`, regenerated from
  the source on every run by tools/reqgen (Gen/ReqFacts.lean), is `uuid.New().String()` from
  github.com/google/uuid, mentions no identifier but the import, depends on no package-level variable
  and on no package-local function; the message that is sent is the one whose id is registered; nothing
  else writes an id; `uuid.New` of the module version the repository builds with reads 16 bytes from
  crypto/rand and fixes 6 of the 128 bits (122 random bits); nothing in the repository replaces that
  random source.
* model (`C17_lives_*`): Model/ReqRespLives.lean adds restarts of the requesting node.  With ids fresh
  across lives the invariant of the fixed protocol survives every restart (pending table cleared,
  responses of the previous life still in flight or produced later), hence correlation, id freshness,
  delivery targets, the exact pending table and "no leak" hold over any number of lives.  With a
  generator that restarts with the process, correlation FAILS: a concrete schedule (evaluated by the
  kernel) delivers the answer to a request of the previous life to an unrelated request of the new
  life and then drops the genuine answer as "unknown request ID".
-/
import LiskVerif.Lemmas.ReqResp
import LiskVerif.Model.ReqRespLives
import LiskVerif.Gen.ReqFacts

open LiskVerif LiskVerif.ReqResp

/-! ### tie A: how the code produces a request id -/

/-- The id of a new request message is `uuid.New().String()`: a call of the package function `New` of
github.com/google/uuid followed by the method `String`, without arguments.  The expression mentions
no identifier besides the import, so it depends on no package-level variable (a counter, a clock
reading kept in a variable, a seeded generator — state that starts again with the process) and on
no package-local function; `newRequestMessage` has one `Request` literal and one return. -/
theorem C17_gen_request_id_is_random_uuid :
    Gen.ReqFacts.idChain = [("pkgfunc", "github.com/google/uuid", "New", ""), ("method", "", "String", "")] ∧
    Gen.ReqFacts.idIdents = [("uuid", "import:github.com/google/uuid")] ∧
    Gen.ReqFacts.idPkgVars = [] ∧
    Gen.ReqFacts.idLocalFuncs = [] ∧
    Gen.ReqFacts.requestLiteralCount = 1 ∧
    Gen.ReqFacts.newRequestMessageReturns = 1 ∧
    Gen.ReqFacts.requestLiteralFields = ["ID", "Timestamp", "PeerID", "Procedure", "Data"] := by
  decide

/-- `uuid.New` of the module version resolved by the repository's go.mod is `Must(NewRandom())`;
`NewRandom` reads from the package's random source (directly or through the pool, which is filled
from the same source); that source is `crypto/rand.Reader`; a UUID has 16 bytes, all 16 are read from
the source and exactly the version nibble and the two variant bits are overwritten: 128 - 6 = 122
random bits.  No non-test source of the repository reconfigures the source (uuid.SetRand ...). -/
theorem C17_gen_uuid_has_122_random_bits :
    Gen.ReqFacts.uuidNewBody = "{ return Must(NewRandom()) }" ∧
    Gen.ReqFacts.uuidNewRandomBody =
      "{ if !poolEnabled { return NewRandomFromReader(rander) } return newRandomFromPool() }" ∧
    Gen.ReqFacts.uuidRander = "rand.Reader" ∧
    Gen.ReqFacts.uuidRanderImport = "crypto/rand" ∧
    Gen.ReqFacts.uuidType = "[16]byte" ∧
    Gen.ReqFacts.uuidFromReaderCalls = ["io.ReadFull(r, uuid[:])"] ∧
    Gen.ReqFacts.uuidMasks.map (fun m => (m.1, m.2.1, m.2.2.1)) = [("6", "15", "64"), ("8", "63", "128")] ∧
    16 * 8 - Gen.ReqFacts.uuidFixedBits = 122 ∧
    Gen.ReqFacts.uuidSourceReconfigured = [] := by
  decide

/-- The id under which `sendRequestMessage` registers the response channel is the id of the message
it sends, created by `newRequestMessage` in that very call: `reqMsg` is defined once from
`newRequestMessage`, is only read through `.ID` and handed to `mp.send`; and the only statements of
the package that write a field named `ID` are the generated decoders (which fill a message from the
wire). -/
theorem C17_gen_registered_id_is_the_generated_id :
    Gen.ReqFacts.reqMsgUses =
      [("assign", "reqMsg := newRequestMessage(mp.peer.ID(), procedure, data)"),
       ("read:ID", ""), ("arg", "mp.send"),
       ("read:ID", ""), ("read:ID", ""), ("read:ID", ""), ("read:ID", "")] ∧
    Gen.ReqFacts.idWrites.all (fun w => w.1 == "message_codec.go" && w.2.2 == "e.ID = val") = true := by
  decide

/-! ### the model over several lives -/

private theorem handlerOf_zero (P : Nat → Nat) : handlerOf P 0 = P := by
  funext id; simp [handlerOf]

/-- a restart with ids fresh across lives preserves the invariant of the fixed protocol -/
private theorem inv_restart (P : Nat → Nat) (s : State) (hI : Inv P s) : Inv P (restartCur true s) := by
  constructor
  all_goals simp only [restartCur, init, if_true]
  case netOk => exact hI.netOk
  case sentLt => exact hI.sentLt
  case sentNodup => exact hI.sentNodup
  case netSent => exact hI.netSent
  all_goals simp

/-- invariant of the multi-life model when ids are fresh: no identity offset, no separate list of old
requests, and the invariant of the fixed protocol for the current life -/
private theorem linv_reachable (P : Nat → Nat) (s : LState) (h : ReachableL true P s) :
    s.off = 0 ∧ s.old = [] ∧ Inv P s.cur := by
  induction h with
  | init => exact ⟨rfl, rfl, inv_init P⟩
  | step a _ hs ih =>
    obtain ⟨hoff, hold, hI⟩ := ih
    cases a with
    | inner a =>
      rename_i s0 _ _
      simp only [stepL, hoff, handlerOf_zero] at hs
      cases hstep : step P s0.cur a with
      | none => rw [hstep] at hs; simp at hs
      | some c =>
        rw [hstep] at hs
        simp only [Option.map_some, Option.some.injEq] at hs
        subst hs
        exact ⟨rfl, hold, inv_step P _ _ a hI hstep⟩
    | restart =>
      simp only [stepL, if_true, Option.some.injEq] at hs
      subst hs
      exact ⟨hoff, hold, inv_restart P _ hI⟩
    | respondOld k =>
      simp [stepL, hold] at hs

/-- Through any number of restarts (ids fresh across lives) the current life satisfies the inductive
invariant of the fixed protocol — so every consequence of it proved in Props/C17.lean for one
process holds for a node that crashes and starts again while answers to its earlier requests are
still under way. -/
theorem C17_lives_invariant_with_fresh_ids (P : Nat → Nat) (s : LState) (hs : ReachableL true P s) :
    Inv P s.cur ∧ s.off = 0 :=
  ⟨(linv_reachable P s hs).2.2, (linv_reachable P s hs).1⟩

/-- Correlation over lives: whatever a requester of the current life receives (or has in its channel)
is the answer the remote handler produced for the request with that requester's identity — never the
answer to a request of an earlier life. -/
theorem C17_lives_correlation_with_fresh_ids (P : Nat → Nat) (s : LState) (hs : ReachableL true P s)
    (i : Nat) (r : Req) (hr : s.cur.reqs[i]? = some r) :
    (∀ m, r.out = some (.got m) → m.rid = r.id ∧ m.payload = expectedPayload P s r) ∧
    (∀ m, r.buf = some m → m.rid = r.id ∧ m.payload = expectedPayload P s r) := by
  obtain ⟨hoff, _, hI⟩ := linv_reachable P s hs
  simp only [expectedPayload, hoff, Nat.zero_add]
  constructor
  · intro m hm
    have := hI.outOk i r m hr hm
    subst this; exact ⟨rfl, rfl⟩
  · intro m hm
    have := hI.bufOk i r m hr hm
    subst this; exact ⟨rfl, rfl⟩

/-- Freshness over lives: no id is ever put on the wire twice — over all attempts of all requesters of
ALL lives (`sent` survives restarts) — and every requester of the current life works on an id that
no earlier request used. -/
theorem C17_lives_ids_never_repeat (P : Nat → Nat) (s : LState) (hs : ReachableL true P s) :
    s.cur.sent.Nodup ∧
    (∀ (i : Nat) (r : Req), s.cur.reqs[i]? = some r → r.pc.preSend = true → r.id ∉ s.cur.sent) ∧
    (∀ (i i' : Nat) (r r' : Req), s.cur.reqs[i]? = some r → s.cur.reqs[i']? = some r' → i ≠ i' →
        r.pc ≠ .start → r'.pc ≠ .start → r.id ≠ r'.id) := by
  obtain ⟨_, _, hI⟩ := linv_reachable P s hs
  exact ⟨hI.sentNodup, hI.notSent, hI.uniq⟩

/-- A response — of whatever life — is only ever handed to the channel registered by the requester
that currently works on exactly that id; the pending table holds exactly the attempts in progress of
the current life, and is empty once all its requesters are done. -/
theorem C17_lives_pending_table_exact (P : Nat → Nat) (s : LState) (hs : ReachableL true P s) :
    (∀ (j : Nat) (h : Hdl) (ch : Nat), s.cur.hdls[j]? = some h → h.pc = .deliver ch →
        ∃ r, s.cur.reqs[ch]? = some r ∧ r.id = h.msg.rid ∧ r.pc.registered = true) ∧
    (∀ id ch, s.cur.resCh.lookup id = some ch ↔
        ∃ r, s.cur.reqs[ch]? = some r ∧ r.id = id ∧ r.pc.registered = true) ∧
    ((∀ r ∈ s.cur.reqs, r.pc = .done) → s.cur.resCh = []) := by
  obtain ⟨_, _, hI⟩ := linv_reachable P s hs
  refine ⟨?_, ?_, ?_⟩
  · intro j h ch hh hpc
    exact hI.chSound _ _ (mem_of_lookup _ _ _ (hI.target j h ch hh hpc))
  · intro id ch
    constructor
    · intro h; exact hI.chSound _ _ (mem_of_lookup _ _ _ h)
    · rintro ⟨r, hr, rfl, hp⟩; exact hI.regd ch r hr hp
  · intro hd
    apply List.eq_nil_iff_forall_not_mem.mpr
    rintro ⟨id, ch⟩ hmem
    obtain ⟨r, hr, _, hp⟩ := hI.chSound id ch hmem
    have := hd r (List.mem_of_getElem? hr)
    simp [this, RPc.registered] at hp

/-- right after a restart nothing is pending and no thread exists, whatever was going on before; the
responses in flight are still in flight -/
theorem C17_lives_restart_clears_pending_keeps_in_flight (fresh : Bool) (P : Nat → Nat) (s s' : LState)
    (h : stepL fresh P s .restart = some s') :
    s'.cur.resCh = [] ∧ s'.cur.reqs = [] ∧ s'.cur.hdls = [] ∧ s'.cur.lock = none ∧
    s'.cur.net = s.cur.net ∧ s'.lives = s.lives + 1 := by
  simp only [stepL, Option.some.injEq] at h
  subst h
  simp [restartCur, init]

/-! ### evaluated schedules -/

/-- a concrete remote handler: identity `u` is answered with `u + 100` -/
def C17LP (u : Nat) : Nat := u + 100

/-- statements of requester `k` from the top of an attempt up to its `select` -/
def C17toWait (k : Nat) : List LAction :=
  [.inner (.rStep k), .inner (.rStep k), .inner (.rStep k), .inner (.rStep k), .inner (.rSendOk k)]

/-- `onResponse` for the first in-flight response, run to completion by handler thread `j` -/
def C17deliver (j : Nat) : List LAction :=
  [.inner (.nDeliver 0), .inner (.hStep j), .inner (.hStep j), .inner (.hStep j), .inner (.hStep j)]

/-- `onResponse` for the first in-flight response when its id is not pending: Lock, failed lookup, Unlock -/
def C17deliverUnknown (j : Nat) : List LAction :=
  [.inner (.nDeliver 0), .inner (.hStep j), .inner (.hStep j), .inner (.hStep j)]

/-- what the evaluated schedules are compared on, per requester: pc, wire id, outcome, and the payload
the remote produced for THIS request -/
structure C17ReqSum where
  pc : RPc
  id : Nat
  out : Option Outcome
  expected : Nat
deriving DecidableEq, Repr

/-- ... and per state: number of restarts, identity offset, the requesters, the ids dropped as
unknown, the responses still in flight -/
structure C17Sum where
  lives : Nat
  off : Nat
  reqs : List C17ReqSum
  unknown : List Nat
  net : List Resp
deriving DecidableEq, Repr

def C17summary (P : Nat → Nat) (s : LState) : C17Sum :=
  { lives := s.lives, off := s.off,
    reqs := s.cur.reqs.map (fun r => ⟨r.pc, r.id, r.out, expectedPayload P s r⟩),
    unknown := s.cur.unknown, net := s.cur.net }

/-- Two lives with a generator that restarts with the process.  Life 1 sends a request (wire id 0,
identity 0) and crashes while the remote handler is still working on it.  Life 2 sends an unrelated
request: the restarted generator hands out wire id 0 again (identity 1).  Now the remote finishes the
OLD request; its answer is addressed to the same peer id, finds the pending entry 0 of the new life
and is delivered; the requester returns it.  The genuine answer arrives afterwards and is dropped as
"unknown request ID". -/
def C17_idReuseTrace : List LAction :=
  [.inner (.spawn 0)] ++ C17toWait 0 ++        -- life 1: request with wire id 0 is on the wire
  [.restart] ++                                 -- crash and start: the counter starts again
  [.inner (.spawn 0)] ++ C17toWait 0 ++        -- life 2: another request, wire id 0 again
  [.respondOld 0] ++ C17deliver 0 ++            -- the slow handler of life 1's request answers now
  [.inner (.rRecv 0), .inner (.rStep 0), .inner (.rStep 0), .inner (.rStep 0)] ++   -- life 2's request returns it
  [.inner (.nRespond 0)] ++ C17deliverUnknown 1 -- the genuine answer: nobody is waiting for it any more

/-- WITHOUT freshness across lives correlation fails: the schedule above is executable, the request of
the second life ends "successfully" with the payload the remote handler produced for the request of
the FIRST life (identity 0) instead of its own (identity 1), and the answer to its own request is
dropped as unknown.  Within each single life all ids are distinct. -/
theorem C17_lives_id_reuse_miscorrelates_counterexample :
    (runL false C17LP linit C17_idReuseTrace).map (C17summary C17LP) =
      some ⟨1, 1, [⟨.done, 0, some (.got ⟨0, C17LP 0⟩), C17LP 1⟩], [0], []⟩ ∧
    C17LP 0 ≠ C17LP 1 := by
  decide

/-- The same behaviour of node, remote and network with ids fresh across lives: the second life's
request gets id 1, the stale answer (id 0) is dropped as unknown, the genuine answer is returned. -/
def C17_freshLivesTrace : List LAction :=
  [.inner (.spawn 0)] ++ C17toWait 0 ++
  [.restart] ++
  [.inner (.spawn 0)] ++ C17toWait 0 ++
  [.inner (.nRespond 0)] ++ C17deliverUnknown 0 ++   -- answer to life 1's request: unknown in life 2
  [.inner (.nRespond 1)] ++ C17deliver 1 ++     -- answer to life 2's request
  [.inner (.rRecv 0), .inner (.rStep 0), .inner (.rStep 0), .inner (.rStep 0)]

private theorem reachableL_of_runL (fresh : Bool) (P : Nat → Nat) (l : List LAction) :
    ∀ s s', ReachableL fresh P s → runL fresh P s l = some s' → ReachableL fresh P s' := by
  induction l with
  | nil => intro s s' hs h; simp [runL] at h; subst h; exact hs
  | cons a l ih =>
    intro s s' hs h
    simp only [runL] at h
    cases hstep : stepL fresh P s a with
    | none => simp [hstep] at h
    | some s1 => simp only [hstep] at h; exact ih s1 s' (.step a hs hstep) h

/-- non-vacuity of the `C17_lives_*` theorems: a reachable two-life state in which a stale answer was
dropped (`0 ∈ unknown`) and the request of the second life returned its own answer -/
example : ∃ s, ReachableL true C17LP s ∧ s.lives = 1 ∧ 0 ∈ s.cur.unknown ∧
    ∃ r, s.cur.reqs[0]? = some r ∧ r.pc = .done ∧ r.id = 1 ∧
      r.out = some (.got ⟨1, expectedPayload C17LP s r⟩) := by
  have h : ∃ s, runL true C17LP linit C17_freshLivesTrace = some s ∧ s.lives = 1 ∧ 0 ∈ s.cur.unknown ∧
      ∃ r, s.cur.reqs[0]? = some r ∧ r.pc = .done ∧ r.id = 1 ∧
        r.out = some (.got ⟨1, expectedPayload C17LP s r⟩) := by decide
  obtain ⟨s, hr, h⟩ := h
  exact ⟨s, reachableL_of_runL true C17LP _ _ _ .init hr, h⟩
