/-
C06 — gossip messages with SEVERAL single commits across a change of the validator set (closure of the miss
C09-17).

Over `LiskVerif.Model.Cert` (`singleCommitValidator` = the gossip validator of `postSingleCommits`), for ALL
chain states, parameter histories (`ParamStore`), pools and messages:

* `C06_message_reject_only_for_own_height`: a message is rejected only if one of ITS commits is malformed or
  invalid under the BFT parameters of THAT COMMIT'S OWN height (`ownHeightOk`: signer in `getParams h`, signature
  verifies against the key registered there) - never because of the parameters of a neighbouring commit;
* `C06_message_all_ok_not_rejected`: conversely a message whose commits are all well-formed and valid under their
  own heights is not rejected; `C06_message_first_bad_rejected`: an invalid commit that the loop reaches
  (steps 1-4 pass, every commit before it is valid or skipped) rejects the message;
* `C06_message_pooled_signers_are_validators`: every commit a message adds to the pool is signed by a validator
  of the commit's own height and verifies (`ownHeightOk`), whatever else the message holds;
* `C06_message_keeps_invariant_no_panic`: the pool invariant is preserved by any message, and under the
  invariant `GetAggregateCommit` never reaches the "Validator address must exist in params" panic - after any
  sequence of messages;
* the per-message memo of the BFT parameters (`scvMemo off`): an EXACT lookup gives the validator
  (`C06_message_exact_lookup`); the memo whose range ends at `NextHeightBFTParameters(h+1)` (off by one: a change
  stored exactly at `h+1` is skipped) pools the commit of a validator dropped at `h+1` when it follows a commit
  for `h` in the same message, and `GetAggregateCommit` then panics (`C06_message_memo_off_by_one_counterexample`);
  with the range ending at `NextHeightBFTParameters(h)` the same message is rejected.
-/
import LiskVerif.Lemmas.Cert
import LiskVerif.Lemmas.CertPool
import LiskVerif.Props.C06_Pool

open LiskVerif LiskVerif.Cert

/-- steps 5 and 6 of the gossip validator for ONE commit, under the BFT parameters of the commit's own height -/
def ownHeightOk (st : State) (m : Incoming) : Bool :=
  match st.blockAt m.height, getParams st.params m.height with
  | some hd, some p =>
    match findValidator p.validators m.signer with
    | some v => verifySingle v.key (certMsg st hd) m.sig
    | none => false
  | _, _ => false

private theorem scvOne_reject (st : State) (pool : Pool) (m : Incoming)
    (h : (scvOne st pool m).2 = some .reject) : m.wf = false ∨ ownHeightOk st m = false := by
  unfold scvOne at h
  split at h
  · left; simpa using ‹(!m.wf) = true›
  split at h
  · simp at h
  split at h
  · simp at h
  split at h
  · simp at h
  split at h
  · simp at h
  split at h
  · simp at h
  rename_i hd hblk
  split at h
  · simp at h
  split at h
  · simp at h
  rename_i p hp
  split at h
  · rename_i hv
    right
    simp [ownHeightOk, hblk, hp, hv]
  rename_i v hv
  split at h
  · rename_i hsig
    right
    simp only [ownHeightOk, hblk, hp, hv]
    simpa using hsig
  · simp at h

private theorem scvOne_ok_not_reject (st : State) (pool : Pool) (m : Incoming)
    (hwf : m.wf = true) (hok : ownHeightOk st m = true) : (scvOne st pool m).2 ≠ some .reject := by
  intro h
  rcases scvOne_reject st pool m h with h1 | h1
  · rw [hwf] at h1; cases h1
  · rw [hok] at h1; cases h1

/-- **A message is rejected only because of a commit that is invalid under the parameters of its own height.** -/
theorem C06_message_reject_only_for_own_height (st : State) (pool : Pool) (msgs : List Incoming)
    (h : (singleCommitValidator st pool msgs).2 = .reject) :
    ∃ m ∈ msgs, m.wf = false ∨ ownHeightOk st m = false := by
  induction msgs generalizing pool with
  | nil => simp [singleCommitValidator] at h
  | cons m r ih =>
    rw [scv_step] at h
    split at h
    · obtain ⟨m', hm', h'⟩ := ih _ h
      exact ⟨m', List.mem_cons_of_mem _ hm', h'⟩
    · rename_i v hv
      simp only at h
      subst h
      exact ⟨m, List.mem_cons_self, scvOne_reject st pool m hv⟩

/-- **A message all of whose commits are well-formed and valid under their own heights is not rejected** (the
parameters of one commit's height never spoil another commit). -/
theorem C06_message_all_ok_not_rejected (st : State) (pool : Pool) (msgs : List Incoming)
    (h : ∀ m ∈ msgs, m.wf = true ∧ ownHeightOk st m = true) :
    (singleCommitValidator st pool msgs).2 ≠ .reject := by
  intro hr
  obtain ⟨m, hm, h1 | h1⟩ := C06_message_reject_only_for_own_height st pool msgs hr
  · rw [(h m hm).1] at h1; cases h1
  · rw [(h m hm).2] at h1; cases h1

/-- the loop reaches steps 5/6 for the commit: well-formed, not pooled, above the removal height, inside the
stored range (or authenticating a change), for the block of the current chain -/
def reachesCheck (st : State) (pool : Pool) (m : Incoming) : Prop :=
  m.wf = true ∧ pool.has m.commit = false ∧
  ∃ fin hd, st.blockAt st.mhpc = some fin ∧ fin.acHeight < m.height ∧
    ((decide (m.height < minStoredHeight st.mhpc) || decide (m.height > st.mhpc)) && !existParams st.params (m.height + 1)) = false ∧
    st.blockAt m.height = some hd ∧ hd.id = m.block ∧ getParams st.params m.height ≠ none

private theorem scvOne_bad_rejects (st : State) (pool : Pool) (m : Incoming) (hr : reachesCheck st pool m)
    (hbad : ownHeightOk st m = false) : scvOne st pool m = (pool, some .reject) := by
  obtain ⟨hwf, hhas, fin, hd, hfin, hrem, hrange, hblk, hid, hpar⟩ := hr
  unfold scvOne
  rw [if_neg (by simp [hwf]), if_neg (by simp [hhas])]
  simp only [hfin]
  rw [if_neg (by omega), if_neg (by simp [hrange])]
  simp only [hblk]
  rw [if_neg (by simp [hid])]
  cases hp : getParams st.params m.height with
  | none => exact absurd hp hpar
  | some p =>
    simp only
    cases hv : findValidator p.validators m.signer with
    | none => rfl
    | some v =>
      simp only
      have : verifySingle v.key (certMsg st hd) m.sig = false := by
        simpa [ownHeightOk, hblk, hp, hv] using hbad
      simp [this]

/-- **An invalid commit that the loop reaches rejects the message**, wherever it stands: every commit in front of
it may be anything that does not end the loop (valid, known, out of range ..). -/
theorem C06_message_first_bad_rejected (st : State) (pool : Pool) (pre : List Incoming) (m : Incoming)
    (post : List Incoming)
    (hpre : ∃ pool', singleCommitValidator st pool pre = (pool', .ignore) ∧ reachesCheck st pool' m ∧
      ∀ r, singleCommitValidator st pool (pre ++ r) = singleCommitValidator st pool' r)
    (hbad : ownHeightOk st m = false) :
    (singleCommitValidator st pool (pre ++ m :: post)).2 = .reject := by
  obtain ⟨pool', _, hr, hcont⟩ := hpre
  rw [hcont, scv_step, scvOne_bad_rejects st pool' m hr hbad]

/-- **Every commit a message adds to the pool is signed by a validator of the commit's OWN height** and its
signature verifies against the key registered at that height. -/
theorem C06_message_pooled_signers_are_validators (st : State) (pool : Pool) (msgs : List Incoming) :
    ∀ c ∈ (singleCommitValidator st pool msgs).1.all, c ∈ pool.all ∨
      ∃ m ∈ msgs, c = m.commit ∧ ownHeightOk st m = true ∧
        ∃ p v, getParams st.params c.height = some p ∧ findValidator p.validators c.signer = some v := by
  intro c hc
  rcases C06_pool_only_verified_enter st pool msgs c hc with h | ⟨⟨hd, p, v, hb, hid, hp, hf, hs⟩, m, hm, _, hcm⟩
  · exact Or.inl h
  · refine Or.inr ⟨m, hm, hcm, ?_, p, v, hp, hf⟩
    subst hcm
    simp only [Incoming.commit] at hb hp hf hs
    simp [ownHeightOk, hb, hp, hf, verifySingle, hs]

/-- **The invariant survives any message and excludes the missing-address panic**: under the pool invariant
(kept by every message, `C06_pool_invariant_validator`) `GetAggregateCommit` never answers `panic`. -/
theorem C06_message_keeps_invariant_no_panic (st : State) (ctx : BlockCtx) (pool : Pool) (msgs : List Incoming)
    (hwf : StoreWf st.params) (hc : Consistent st ctx) (h : PoolInv ctx st.chainId pool) :
    PoolInv ctx st.chainId (singleCommitValidator st pool msgs).1 ∧
    getAggregateCommit st (singleCommitValidator st pool msgs).1 ≠ .panic := by
  have hinv := C06_pool_invariant_validator st ctx pool msgs hc h
  refine ⟨hinv, ?_⟩
  unfold getAggregateCommit getAggregateCommitOrd
  rcases gacLoop_spec st _ ctx hwf hc hinv (gacStart st - st.mhc) with h1 | ⟨_, h1, _⟩ | ⟨h1, _⟩ <;>
    rw [h1] <;> simp

/-- any number of messages -/
theorem C06_messages_keep_invariant_no_panic (st : State) (ctx : BlockCtx) (hwf : StoreWf st.params)
    (hc : Consistent st ctx) (messages : List (List Incoming)) (pool : Pool) (h : PoolInv ctx st.chainId pool) :
    let pool' := messages.foldl (fun p msgs => (singleCommitValidator st p msgs).1) pool
    PoolInv ctx st.chainId pool' ∧ getAggregateCommit st pool' ≠ .panic := by
  induction messages generalizing pool with
  | nil =>
    refine ⟨h, ?_⟩
    have := (C06_message_keeps_invariant_no_panic st ctx pool [] hwf hc h).2
    simpa [singleCommitValidator] using this
  | cons msgs r ih =>
    exact ih _ (C06_pool_invariant_validator st ctx pool msgs hc h)

/-! ### the per-message memo of the BFT parameters -/

/-- parameters read for height `frm`, taken to be valid for `[frm, til)` (`none` = no bound) -/
structure ParamMemo where
  p : Params
  frm : Nat
  til : Option Nat

/-- `commitParams.get`: the range of a fresh entry ends at `NextHeightBFTParameters(h + off)`; the model's
`nextHeightParams ps x` is the smallest stored height strictly above `x`, so `off = 0` is the exact range and
`off = 1` (the idiom `NextHeightBFTParameters(maxHeightCertified+1)` copied to `h+1`) skips a change stored at `h+1` -/
def memoGet (off : Nat) (ps : ParamStore) (memo : Option ParamMemo) (h : Nat) : Option Params × Option ParamMemo :=
  let fresh : Option Params × Option ParamMemo :=
    match getParams ps h with
    | none => (none, memo)
    | some p => (some p, some ⟨p, h, nextHeightParams ps (h + off)⟩)
  match memo with
  | none => fresh
  | some mm =>
    if decide (mm.frm ≤ h) && (match mm.til with | some u => decide (h < u) | none => true) then (some mm.p, memo)
    else fresh

/-- one iteration of the validator loop with the parameters of step 5 supplied by `lookup` -/
def scvOneWith (lookup : Option Params) (st : State) (pool : Pool) (m : Incoming) : Pool × Option VRes :=
  if !m.wf then (pool, some .reject)
  else if pool.has m.commit then (pool, none)
  else
    match st.blockAt st.mhpc with
    | none => (pool, some .ignore)
    | some fin =>
      if m.height ≤ fin.acHeight then (pool, none)
      else if (decide (m.height < minStoredHeight st.mhpc) || decide (m.height > st.mhpc)) && !existParams st.params (m.height + 1)
      then (pool, none)
      else
        match st.blockAt m.height with
        | none => (pool, some .ignore)
        | some hd =>
          if hd.id ≠ m.block then (pool, none)
          else
            match lookup with
            | none => (pool, some .ignore)
            | some p =>
              match findValidator p.validators m.signer with
              | none => (pool, some .reject)
              | some v =>
                if !verifySingle v.key (certMsg st hd) m.sig then (pool, some .reject)
                else (pool.add m.commit, none)

/-- with the parameters of the commit's own height this is the validator's iteration -/
theorem C06_message_exact_lookup (st : State) (pool : Pool) (m : Incoming) :
    scvOneWith (getParams st.params m.height) st pool m = scvOne st pool m := rfl

/-- the step-5 lookup happens only when steps 1-4 pass -/
def reachesLookup (st : State) (pool : Pool) (m : Incoming) : Bool :=
  m.wf && !pool.has m.commit &&
  (match st.blockAt st.mhpc with
   | none => false
   | some fin => !decide (m.height ≤ fin.acHeight) &&
      !((decide (m.height < minStoredHeight st.mhpc) || decide (m.height > st.mhpc)) && !existParams st.params (m.height + 1)) &&
      (match st.blockAt m.height with
       | none => false
       | some hd => decide (hd.id = m.block)))

/-- the gossip validator with the per-message memo -/
def scvMemo (off : Nat) (st : State) : Pool → Option ParamMemo → List Incoming → Pool × VRes
  | pool, _, [] => (pool, .ignore)
  | pool, memo, m :: r =>
    let (lk, memo') := if reachesLookup st pool m then memoGet off st.params memo m.height else (none, memo)
    match scvOneWith lk st pool m with
    | (p, none) => scvMemo off st p memo' r
    | (p, some v) => (p, v)

/-- validators 0, 1, 2 (keys 10, 20, 30) up to height 5; the block at height 5 authenticates the change to
0, 1, 3 (keys 10, 20, 40) stored at height 6: validator 2 is dropped, 3 added -/
def C06mgOld : Params := ⟨[⟨2, 30, 1⟩, ⟨1, 20, 1⟩, ⟨0, 10, 1⟩], 3⟩
def C06mgNew : Params := ⟨[⟨3, 40, 1⟩, ⟨1, 20, 1⟩, ⟨0, 10, 1⟩], 3⟩

/-- 10 blocks (id = 100 + height), height 8 finalized, height 5 certified (not yet by a finalized block) -/
def C06mgState : State :=
  { chainId := 1
    blockAt := fun h => if h ≤ 10 then some ⟨100 + h, 0⟩ else none
    params := [(1, C06mgOld), (6, C06mgNew)]
    mhpc := 8
    mhc := 5 }

/-- one message: the commit of validator 0 for height 5, then the correctly self-signed commit of the DROPPED
validator 2 for height 6 -/
def C06mgMessage : List Incoming :=
  [⟨true, 105, 5, 0, sign 10 ⟨1, 105⟩⟩, ⟨true, 106, 6, 2, sign 30 ⟨1, 106⟩⟩]

/-- The defect `c06-commit-of-non-validator-pooled` / `c09-own-aggregate-panics`: with the off-by-one range the
memo filled for height 5 answers for height 6 as well, the dropped validator's commit is pooled (verdict
`ignore`), and the generator's `GetAggregateCommit` hits the missing-address panic.  The validator itself, and the
memo with the exact range, reject the message, pool only the first commit and `GetAggregateCommit` succeeds. The
second commit alone, or first in the message, is rejected by the off-by-one memo too. -/
theorem C06_message_memo_off_by_one_counterexample :
    ((scvMemo 1 C06mgState Pool.empty none C06mgMessage).2 = .ignore ∧
      (scvMemo 1 C06mgState Pool.empty none C06mgMessage).1.all.map (fun c => (c.height, c.signer)) = [(5, 0), (6, 2)] ∧
      getAggregateCommit C06mgState (scvMemo 1 C06mgState Pool.empty none C06mgMessage).1 = .panic) ∧
    ((singleCommitValidator C06mgState Pool.empty C06mgMessage).2 = .reject ∧
      (singleCommitValidator C06mgState Pool.empty C06mgMessage).1.all.map (fun c => (c.height, c.signer)) = [(5, 0)] ∧
      getAggregateCommit C06mgState (singleCommitValidator C06mgState Pool.empty C06mgMessage).1 = .ok (emptyCommit C06mgState)) ∧
    ((scvMemo 0 C06mgState Pool.empty none C06mgMessage).2 = .reject ∧
      (scvMemo 0 C06mgState Pool.empty none C06mgMessage).1.all.map (fun c => (c.height, c.signer)) = [(5, 0)]) ∧
    ((scvMemo 1 C06mgState Pool.empty none C06mgMessage.reverse).2 = .reject ∧
      (scvMemo 1 C06mgState Pool.empty none (C06mgMessage.drop 1)).2 = .reject) := by
  refine ⟨⟨by decide, by decide, by decide⟩, ⟨by decide, by decide, by decide⟩, by decide, by decide, by decide⟩

/-- non-vacuity of the general theorems on the example: the rejected message is rejected because of the commit
that is invalid under ITS height (6), the pooled commit is valid under its height (5) -/
example : ownHeightOk C06mgState ⟨true, 106, 6, 2, sign 30 ⟨1, 106⟩⟩ = false ∧
    ownHeightOk C06mgState ⟨true, 105, 5, 0, sign 10 ⟨1, 105⟩⟩ = true ∧
    ownHeightOk C06mgState ⟨true, 105, 5, 2, sign 30 ⟨1, 105⟩⟩ = true ∧
    ownHeightOk C06mgState ⟨true, 106, 6, 3, sign 40 ⟨1, 106⟩⟩ = true := by decide

example : ∃ m ∈ C06mgMessage, m.wf = false ∨ ownHeightOk C06mgState m = false :=
  C06_message_reject_only_for_own_height C06mgState Pool.empty C06mgMessage (by decide)

/-- the mirror effect of the off-by-one memo: the honest commit of the validator ADDED at height 6 is rejected
when it follows a commit for height 5 -/
example : (scvMemo 1 C06mgState Pool.empty none
      [⟨true, 105, 5, 0, sign 10 ⟨1, 105⟩⟩, ⟨true, 106, 6, 3, sign 40 ⟨1, 106⟩⟩]).2 = .reject ∧
    (singleCommitValidator C06mgState Pool.empty
      [⟨true, 105, 5, 0, sign 10 ⟨1, 105⟩⟩, ⟨true, 106, 6, 3, sign 40 ⟨1, 106⟩⟩]).2 = .ignore := by decide
