/-
C10 — tie of the bit/byte helpers of `Model/SMTSpec.lean` / `Model/SMTVerify.lean` to the Go source:
the integer and boolean helpers of pkg/collection/bytes (bool.go, bit.go) and the guards of
pkg/trie/smt/verify.go are REGENERATED from the Go source on every run by tools/fngen (typed
translation, `LiskVerif/Gen/Fns2.lean`) with the exact semantics of `uint8` shifts (wrap modulo 256),
`int` arithmetic (two's complement, truncated division) and conversions:

* `bytes.ToBools`: `res[8*i+j] = (x<<uint(j))&0x80 == 0x80` (`Gen.toBoolsBit`) — the bits of
  `SMT.byteBits` / `SMT.keyBits`;
* `bytes.IsBitSet` (`Gen.isBitSetByteIndex`, `Gen.isBitSetBit`) — bit `index` of `SMT.keyBits`;
* `bytes.FromBools`: result length `(len+7)/8`, padded length, byte index `i/8` and mask
  `0x80 >> uint(i%8)` — the padding of `SMTVerify.fromBools` and the weights of `SMTVerify.packBits`;
* `smt.Verify`: the five guards on key length, bitmap form and depth (`SMTVerify.checkOne`);
* `smt.CalculateRoot`: the two bitmap/node-type consistency conditions (`SMTVerify.calcLoop`).
-/
import LiskVerif.Model.SMTVerify
import LiskVerif.Lemmas.SMT
import LiskVerif.Lemmas.GenInt

open LiskVerif LiskVerif.SMT LiskVerif.SMTVerify

/-! ### bytes.ToBools -/

/-- **the bit `bytes.ToBools` stores at `res[8*i+j]` is bit `j` of `SMT.byteBits x`** -/
theorem C10_gen_to_bools_bit_eq (x : UInt8) (j : Nat) (hj : j < 8) :
    Gen.toBoolsBit x.toNat (j : Int) = (byteBits x).getD j false := by
  have aux : ∀ n < 256, ∀ j < 8, Gen.toBoolsBit n ((j : Nat) : Int) =
      [n.testBit 7, n.testBit 6, n.testBit 5, n.testBit 4, n.testBit 3, n.testBit 2, n.testBit 1, n.testBit 0].getD j false := by
    decide +kernel
  exact aux x.toNat x.toNat_lt j hj

private theorem keyBits_getD : ∀ (bs : Bytes) (i j : Nat), i < bs.length → j < 8 →
    (keyBits bs).getD (8 * i + j) false = (byteBits (bs.getD i 0)).getD j false
  | [], i, _, hi, _ => by simp at hi
  | b :: r, 0, j, _, hj => by
    simp only [keyBits, Nat.mul_zero, Nat.zero_add, List.getD_cons_zero]
    rw [List.getD_eq_getElem?_getD, List.getElem?_append_left (by rw [byteBits_length]; exact hj),
      ← List.getD_eq_getElem?_getD]
  | b :: r, i + 1, j, hi, hj => by
    simp only [keyBits, List.getD_cons_succ]
    rw [List.getD_eq_getElem?_getD, List.getElem?_append_right (by rw [byteBits_length]; omega), byteBits_length]
    have : 8 * (i + 1) + j - 8 = 8 * i + j := by omega
    rw [this, ← List.getD_eq_getElem?_getD]
    exact keyBits_getD r i j (by simpa using hi) hj

/-- **`bytes.ToBools` = `SMT.keyBits`** position by position: element `8*i+j` of `keyBits bs` is the
regenerated bit expression on byte `i` -/
theorem C10_gen_to_bools_eq (bs : Bytes) (i j : Nat) (hi : i < bs.length) (hj : j < 8) :
    (toBools bs).getD (8 * i + j) false = Gen.toBoolsBit (bs.getD i 0).toNat (j : Int) := by
  unfold toBools
  rw [keyBits_getD bs i j hi hj, C10_gen_to_bools_bit_eq _ j hj]

/-! ### bytes.IsBitSet -/

/-- the byte `IsBitSet` looks at: `index/8` (non-negative `int` index) -/
theorem C10_gen_is_bit_set_byte_index_eq (index : Nat) (h : index < 9223372036854775808) :
    Gen.isBitSetByteIndex (index : Int) = ((index / 8 : Nat) : Int) := by
  unfold Gen.isBitSetByteIndex
  rw [Int.tdiv_eq_ediv_of_nonneg (by omega), Gen.i64_eq (by omega) (by omega)]
  omega

/-- the bit test of `IsBitSet` is the test of `ToBools` at `j = index % 8`; it never panics for a
non-negative index -/
theorem C10_gen_is_bit_set_bit_eq (b index : Nat) :
    Gen.isBitSetBit b (index : Int) = some (Gen.toBoolsBit b ((index % 8 : Nat) : Int)) := by
  unfold Gen.isBitSetBit Gen.toBoolsBit
  have h1 : Int.tmod (index : Int) 8 = ((index % 8 : Nat) : Int) := by
    rw [Int.tmod_eq_emod_of_nonneg (by omega)]; omega
  rw [h1]
  have h2 : ¬ (((index % 8 : Nat) : Int) < 0) := by omega
  have h3 : Int.toNat (((index % 8 : Nat) : Int) % 18446744073709551616) = Int.toNat ((index % 8 : Nat) : Int) := by omega
  simp only [h2, decide_false, Bool.false_eq_true, ↓reduceIte, h3]

/-- **`bytes.IsBitSet(bits, index)` = bit `index` of `SMT.keyBits bits`** for every index inside the
byte string (outside it the Go code panics with an index error) -/
theorem C10_gen_is_bit_set_eq (bs : Bytes) (index : Nat) (h : index < 8 * bs.length) :
    Gen.isBitSetBit (bs.getD (index / 8) 0).toNat (index : Int) = some ((keyBits bs).getD index false) := by
  rw [C10_gen_is_bit_set_bit_eq]
  have hi : index / 8 < bs.length := by omega
  have hj : index % 8 < 8 := by omega
  have := C10_gen_to_bools_eq bs (index / 8) (index % 8) hi hj
  unfold toBools at this
  rw [← this]
  congr 2
  omega

/-! ### bytes.FromBools -/

/-- result length `(len(input)+7)/8`, padded bit length (the pad is the `(8 - len % 8) % 8` leading
`false`s of `SMTVerify.fromBools`), byte index `i/8` -/
theorem C10_gen_from_bools_sizes_eq (n : Nat) (h : n < 9223372036854775800) :
    Gen.fromBoolsLen (n : Int) = (((n + 7) / 8 : Nat) : Int) ∧
    Gen.fromBoolsTargetSize (n : Int) = ((n + (8 - n % 8) % 8 : Nat) : Int) ∧
    Gen.fromBoolsByteIndex (n : Int) = ((n / 8 : Nat) : Int) := by
  refine ⟨?_, ?_, ?_⟩
  · unfold Gen.fromBoolsLen
    rw [Gen.i64_eq (x := (n : Int) + 7) (by omega) (by omega), Int.tdiv_eq_ediv_of_nonneg (by omega),
      Gen.i64_eq (by omega) (by omega)]
    omega
  · unfold Gen.fromBoolsTargetSize
    have h1 : Int.tmod (n : Int) 8 = ((n % 8 : Nat) : Int) := by
      rw [Int.tmod_eq_emod_of_nonneg (by omega)]; omega
    dsimp only
    rw [h1]
    by_cases h0 : n % 8 = 0
    · have : ¬ (((n % 8 : Nat) : Int) ≠ 0) := by omega
      simp only [this, decide_false, Bool.false_eq_true, ↓reduceIte]
      omega
    · have : (((n % 8 : Nat) : Int) ≠ 0) := by omega
      rw [if_pos (decide_eq_true this)]
      rw [Gen.i64_eq (x := 8 - ((n % 8 : Nat) : Int)) (by omega) (by omega), Gen.i64_eq (by omega) (by omega)]
      omega
  · unfold Gen.fromBoolsByteIndex
    rw [Int.tdiv_eq_ediv_of_nonneg (by omega), Gen.i64_eq (by omega) (by omega)]
    omega

/-- the mask `0x80 >> uint(i%8)` is the weight `SMTVerify.packBits` gives position `i % 8`
(128, 64, …, 1) -/
theorem C10_gen_from_bools_mask_eq (i : Nat) :
    Gen.fromBoolsMask (i : Int) = [128, 64, 32, 16, 8, 4, 2, 1].getD (i % 8) 0 := by
  unfold Gen.fromBoolsMask
  have h1 : Int.tmod (i : Int) 8 = ((i % 8 : Nat) : Int) := by
    rw [Int.tmod_eq_emod_of_nonneg (by omega)]; omega
  have h3 : Int.toNat (((i % 8 : Nat) : Int) % 18446744073709551616) = i % 8 := by omega
  rw [h1, h3]
  have : ∀ k < 8, 128 >>> k = [128, 64, 32, 16, 8, 4, 2, 1].getD k 0 := by decide
  exact this (i % 8) (by omega)

/-- the weights are those of `packBits`: a byte whose only set bit is position `k` -/
theorem C10_gen_from_bools_mask_pack (k : Nat) (hk : k < 8) :
    packBits ((List.replicate k false ++ [true]) ++ List.replicate (7 - k) false) =
      [UInt8.ofNat (Gen.fromBoolsMask (k : Int))] := by
  have : ∀ k < 8, packBits ((List.replicate k false ++ [true]) ++ List.replicate (7 - k) false) =
      [UInt8.ofNat ([128, 64, 32, 16, 8, 4, 2, 1].getD (k % 8) 0)] := by decide
  rw [C10_gen_from_bools_mask_eq]
  exact this k hk

/-! ### smt.Verify -/

/-- **`SMTVerify.checkOne` with the regenerated guards** of the first loop of `smt.Verify` (key
lengths below 2^60 so that `8*keyLength` does not wrap) -/
theorem C10_gen_check_one_eq (keyLen : Nat) (key : Bytes) (query : Query) (seen : List Query)
    (hk : keyLen < 1152921504606846976) :
    checkOne keyLen key query seen =
      if Gen.smtVerifyKeyLenBad (key.length : Int) (keyLen : Int) = true then some (.ok false)
      else if Gen.smtVerifyQueryKeyLenBad (query.key.length : Int) (keyLen : Int) = true then some (.ok false)
      else if (seen.find? (fun q => q.key = query.key)).any
          (fun d => d.bitmap != query.bitmap || d.value != query.value) then some .err
      else if Gen.smtVerifyLeadingZero (query.bitmap.length : Int) (query.bitmap.headD 0).toNat = true then some (.ok false)
      else if Gen.smtVerifyTooDeep ((stripPrefixFalse (toBools query.bitmap)).length : Int) (keyLen : Int) = true then
        some (.ok false)
      else if key = query.key then none
      else if Gen.smtVerifyBelowFork ((stripPrefixFalse (toBools query.bitmap)).length : Int)
          ((commonPrefixLen (toBools key) (toBools query.key) : Nat) : Int) = true then some (.ok false)
      else none := by
  have e1 : ∀ a b : Nat, (Gen.smtVerifyKeyLenBad (a : Int) (b : Int) = true) = ((a != b) = true) := by
    intro a b; unfold Gen.smtVerifyKeyLenBad; simp; omega
  have e2 : ∀ a b : Nat, (Gen.smtVerifyQueryKeyLenBad (a : Int) (b : Int) = true) = ((a != b) = true) := by
    intro a b; unfold Gen.smtVerifyQueryKeyLenBad; simp; omega
  have e3 : (Gen.smtVerifyLeadingZero (query.bitmap.length : Int) (query.bitmap.headD 0).toNat = true) =
      ((query.bitmap.headD 1 == 0) = true) := by
    unfold Gen.smtVerifyLeadingZero
    cases query.bitmap with
    | nil => simp
    | cons b r =>
      have : ((b :: r).length : Int) > 0 := by simp
      simp [← UInt8.toNat_inj]
  have e4 : ∀ a : Nat, (Gen.smtVerifyTooDeep (a : Int) (keyLen : Int) = true) = (a > 8 * keyLen) := by
    intro a; unfold Gen.smtVerifyTooDeep
    rw [Gen.i64_eq (by omega) (by omega)]
    simp; omega
  have e5 : ∀ a b : Nat, (Gen.smtVerifyBelowFork (a : Int) (b : Int) = true) = (a > b) := by
    intro a b; unfold Gen.smtVerifyBelowFork; simp
  unfold checkOne
  simp only [e1, e2, e3, e4, e5]

/-! ### smt.CalculateRoot -/

/-- the two consistency conditions of `CalculateRoot` are those of `SMTVerify.calcLoop`
(`(isSiblingEmpty && b0) || (!isSiblingEmpty && !b0)` and the same for the query) -/
theorem C10_gen_bitmap_consistency_eq (e b : Bool) :
    Gen.smtSiblingBitmapBad e b = ((e && b) || (!e && !b)) ∧
    Gen.smtQueryBitmapBad e b = ((e && b) || (!e && !b)) := ⟨rfl, rfl⟩

/-! ### non-vacuity -/

example : Gen.toBoolsBit 0x80 0 = true ∧ Gen.toBoolsBit 0x80 1 = false ∧ Gen.toBoolsBit 1 7 = true ∧
    Gen.isBitSetBit 0x40 9 = some true ∧ Gen.isBitSetBit 0x40 (-1) = none ∧ Gen.isBitSetByteIndex 17 = 2 ∧
    Gen.fromBoolsLen 9 = 2 ∧ Gen.fromBoolsTargetSize 9 = 16 ∧ Gen.fromBoolsTargetSize 16 = 16 ∧
    Gen.fromBoolsMask 9 = 64 ∧ Gen.fromBoolsByteIndex 9 = 1 ∧
    Gen.smtVerifyLeadingZero 2 0 = true ∧ Gen.smtVerifyLeadingZero 0 0 = false ∧
    Gen.smtVerifyTooDeep 257 32 = true ∧ Gen.smtVerifyTooDeep 256 32 = false ∧
    Gen.smtSiblingBitmapBad true true = true ∧ Gen.smtSiblingBitmapBad true false = false := by decide +kernel

example : Gen.isBitSetBit ([0x00, 0x40] : Bytes)[1].toNat 9 = some ((keyBits [0x00, 0x40]).getD 9 false) :=
  C10_gen_is_bit_set_eq [0x00, 0x40] 9 (by decide)
