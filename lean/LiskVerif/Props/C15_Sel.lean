/-
C15 (part 1) — transaction selection of the block generator.

Theorems about `LiskVerif.Model.Generator` part 1: `Run` is the relation "possible result of the loop
of `selectTransactionsByFee`" for ANY tie-break among heads of equal fee priority; `selectByFee` /
`select` (deterministic tie-break, printed by the driver) and every result accepted by `checkSel`
(the driver applies it to outputs of the real generator for pools with ties) are instances
(`C15_select_is_run`, `C15_checkSel_sound`; `checkSel` is also complete: `C15_checkSel_complete`), so everything proved about `Run` holds for them.
All statements hold for every pool without duplicate entries, every size limit and every
verify/execute verdict function `ok` (which may depend on what was selected before).
-/
import LiskVerif.Lemmas.Generator

open LiskVerif LiskVerif.Generator

/-- The sender lists built by `getSortedTransactionMapByNonce` are well formed. -/
theorem C15_init_groups_wf (txs : List Tx) (hnd : txs.Nodup) : GroupsWF (initGroups txs) := by
  exact initGroups_wf hnd

/-- The list of sender `s` is the nonce-sorted list of all its transactions in the pool. -/
theorem C15_init_groups_lookup (txs : List Tx) (s : Nat) (l : List Tx) (h : (s, l) ∈ initGroups txs) :
    l = isort nonceLe (txs.filter fun t => t.sender == s) := by
  exact (initGroups_mem h).1

/-- The deterministic function is a run of the loop. -/
theorem C15_select_is_run (ok : List Tx → Tx → Bool) (maxSize : Nat) (txs : List Tx) (hnd : txs.Nodup) :
    ∃ evs, Run ok maxSize (initGroups txs) 0 [] (selectByFee ok maxSize txs) evs := by
  exact selectLoop_run ok maxSize txs.length (initGroups txs) 0 [] (initGroups_wf hnd)
    (by rw [txCount_initGroups]; exact Nat.le_refl _)

/-- Every claimed result accepted by the validator is a run of the loop (mock verdicts). -/
theorem C15_checkSel_sound (maxSize : Nat) (txs R : List Tx) (hnd : txs.Nodup)
    (h : checkSel maxSize txs R = true) :
    ∃ evs, Run okMock maxSize (initGroups txs) 0 [] R evs := by
  have _ := hnd
  exact checkLoop_run (fun t => t.vok && t.eok) maxSize _ _ 0 R [] h

/-- ... and the validator accepts every run of the loop: `checkSel` decides "possible result". -/
theorem C15_checkSel_complete (maxSize : Nat) (txs R : List Tx) (evs : List Ev) (hnd : txs.Nodup)
    (h : Run okMock maxSize (initGroups txs) 0 [] R evs) : checkSel maxSize txs R = true :=
  run_checkLoop (fun t => t.vok && t.eok) maxSize h _ (initGroups_wf hnd)
    (by rw [txCount_initGroups]; exact Nat.lt_succ_self _)

/-- Nonce order: per sender, the selected transactions are a prefix of the sender's nonce-sorted
transactions of the pool (and that list is sorted by nonce). -/
theorem C15_selection_nonce_order (ok : List Tx → Tx → Bool) (maxSize : Nat) (txs R : List Tx)
    (evs : List Ev) (hnd : txs.Nodup) (h : Run ok maxSize (initGroups txs) 0 [] R evs) (s : Nat) :
    (R.filter fun t => t.sender == s) <+: isort nonceLe (txs.filter fun t => t.sender == s) ∧
    (isort nonceLe (txs.filter fun t => t.sender == s)).Pairwise (fun a b => a.nonce ≤ b.nonce) := by
  have hwf := initGroups_wf hnd
  refine ⟨?_, isort_nonce_sorted _⟩
  by_cases hs : s ∈ (initGroups txs).map (·.1)
  · obtain ⟨⟨k, l⟩, hp, hk⟩ := List.mem_map.mp hs
    simp only at hk
    subst hk
    have hpre := h.filter_prefix hwf k l hp
    have e := (initGroups_mem hp).1
    subst e
    exact hpre
  · rw [h.filter_eq_nil hwf hs]
    exact List.nil_prefix

/-- Selected transactions come from the pool and none is selected twice. -/
theorem C15_selection_from_pool (ok : List Tx → Tx → Bool) (maxSize : Nat) (txs R : List Tx)
    (evs : List Ev) (hnd : txs.Nodup) (h : Run ok maxSize (initGroups txs) 0 [] R evs) :
    R.Nodup ∧ ∀ t ∈ R, t ∈ txs := by
  have hwf := initGroups_wf hnd
  refine ⟨h.nodup hwf, ?_⟩
  intro t ht
  obtain ⟨l, hl, htl⟩ := h.mem_groups hwf t ht
  have e := (initGroups_mem hl).1
  subst e
  exact (List.mem_filter.mp ((mem_isort _ _ _).mp htl)).1

/-- Size bound: the selected transactions fit into the payload limit. -/
theorem C15_selection_size_bound (ok : List Tx → Tx → Bool) (maxSize : Nat) (g : Groups)
    (total : Nat) (acc R : List Tx) (evs : List Ev) (h : Run ok maxSize g total acc R evs)
    (ht : total ≤ maxSize) : total + (R.map (·.size)).sum ≤ maxSize := by
  induction h with
  | done total acc => simpa using ht
  | cut hmax hsz => simpa using ht
  | skip hmax hsz hok hrun ih => exact ih ht
  | take hmax hsz hok hrun ih =>
    have := ih (by omega)
    simp only [List.map_cons, List.sum_cons]
    omega

/-- `limitTransactionsWithSize` never removes anything from a selection result. -/
theorem C15_limit_is_identity (ok : List Tx → Tx → Bool) (maxSize : Nat) (g : Groups)
    (total : Nat) (acc R : List Tx) (evs : List Ev) (h : Run ok maxSize g total acc R evs) :
    limitBySize maxSize total R = R := by
  induction h with
  | done total acc => rfl
  | cut hmax hsz => rfl
  | skip hmax hsz hok hrun ih => exact ih
  | take hmax hsz hok hrun ih =>
    simp only [limitBySize]
    rw [if_neg (by omega), ih]

/-- the transaction an iteration popped, and the heads at that moment -/
def C15EvTx : Ev → Tx × List Tx
  | .take t hs => (t, hs)
  | .skip t hs => (t, hs)
  | .cut t hs => (t, hs)

def C15Taken : Ev → Option Tx
  | .take t _ => some t
  | _ => none

/-- Greedy priority: every popped transaction is one of the heads (the senders' next
transactions) and has maximal fee priority among them; the result is the sequence of the
successfully executed pops; every selected transaction passed verification and execution, fitted
into the limit, and the loop only ends on an exhausted pool or a pop that does not fit. -/
theorem C15_selection_greedy_priority (ok : List Tx → Tx → Bool) (maxSize : Nat) (g : Groups)
    (total : Nat) (acc R : List Tx) (evs : List Ev) (h : Run ok maxSize g total acc R evs) :
    (∀ e ∈ evs, (C15EvTx e).1 ∈ (C15EvTx e).2 ∧ ∀ x ∈ (C15EvTx e).2, x.prio ≤ (C15EvTx e).1.prio) ∧
    R = evs.filterMap C15Taken := by
  induction h with
  | done total acc => exact ⟨fun e he => (by cases he), rfl⟩
  | cut hmax hsz =>
    refine ⟨?_, rfl⟩
    intro e he
    rw [List.mem_singleton] at he
    subst he
    exact ⟨mem_heads.mpr ⟨_, _, hmax.1⟩, hmax.2⟩
  | skip hmax hsz hok hrun ih =>
    refine ⟨?_, ?_⟩
    · intro e he
      rcases List.mem_cons.mp he with rfl | he
      · exact ⟨mem_heads.mpr ⟨_, _, hmax.1⟩, hmax.2⟩
      · exact ih.1 e he
    · simp only [List.filterMap_cons, C15Taken]
      exact ih.2
  | take hmax hsz hok hrun ih =>
    refine ⟨?_, ?_⟩
    · intro e he
      rcases List.mem_cons.mp he with rfl | he
      · exact ⟨mem_heads.mpr ⟨_, _, hmax.1⟩, hmax.2⟩
      · exact ih.1 e he
    · simp only [List.filterMap_cons, C15Taken]
      rw [← ih.2]

private theorem prio_order_aux {ok : List Tx → Tx → Bool} {maxSize : Nat} {g : Groups} {total : Nat}
    {acc R : List Tx} {evs : List Ev} (h : Run ok maxSize g total acc R evs) :
    GroupsWF g → ∀ (pre post : List Tx) (t u : Tx), R = pre ++ t :: post → u ∈ post →
      ∀ (s : Nat) (l l1 l2 : List Tx), (s, l) ∈ g → l = l1 ++ u :: l2 → (∀ w ∈ l1, w ∈ pre) →
        u.prio ≤ t.prio := by
  induction h with
  | done total acc => intro _ pre post t u hR; cases pre <;> cases hR
  | cut hmax hsz => intro _ pre post t u hR; cases pre <;> cases hR
  | @skip g total acc s0 t0 rest0 R evs hmax hsz hok hrun ih =>
    intro hwf pre post t u hR hu s l l1 l2 hl hsplit hbefore
    have huR : u ∈ R := by rw [hR]; simp [hu]
    have hs : s ≠ s0 := by
      intro hs
      subst hs
      have hus : u.sender = s := (hwf.2 _ hl).2.2 u (by rw [hsplit]; simp)
      have := hrun.sender_mem_keys (hwf.erase _) huR
      rw [hus] at this
      exact not_mem_keys_erase hwf.1 s this
    exact ih (hwf.erase _) pre post t u hR hu s l l1 l2
      ((mem_erase_iff hwf.1 s0 s l).mpr ⟨hl, hs⟩) hsplit hbefore
  | @take g total acc s0 t0 rest0 R evs hmax hsz hok hrun ih =>
    intro hwf pre post t u hR hu s l l1 l2 hl hsplit hbefore
    have hw0 := hwf.2 _ hmax.1
    have ht0 : t0.sender = s0 := hw0.2.2 t0 List.mem_cons_self
    cases pre with
    | nil =>
      simp only [List.nil_append, List.cons.injEq] at hR
      rw [← hR.1]
      cases l1 with
      | nil =>
        rw [hsplit] at hl
        exact hmax.2 u (mem_heads.mpr ⟨s, l2, hl⟩)
      | cons w l1' => exact absurd (hbefore w List.mem_cons_self) List.not_mem_nil
    | cons p pre' =>
      simp only [List.cons_append, List.cons.injEq] at hR
      obtain ⟨hp, hR⟩ := hR
      rw [← hp] at hbefore
      by_cases hs : s = s0
      · subst hs
        have hl' : l = t0 :: rest0 := keys_unique hwf.1 hl hmax.1
        rw [hl'] at hsplit
        cases l1 with
        | nil =>
          simp only [List.nil_append, List.cons.injEq] at hsplit
          exfalso
          apply Run.head_not_mem hwf hmax.1 hrun
          rw [hR, hsplit.1]
          simp [hu]
        | cons w l1' =>
          simp only [List.cons_append, List.cons.injEq] at hsplit
          obtain ⟨hw, hrest⟩ := hsplit
          have hmem : (s, rest0) ∈ advance s rest0 g := by
            cases rest0 with
            | nil => cases l1' <;> cases hrest
            | cons a r => exact mem_advance_self hwf.1 hmax.1
          refine ih (hwf.advance hmax.1) pre' post t u hR hu s rest0 l1' l2 hmem hrest ?_
          intro x hx
          rcases List.mem_cons.mp (hbefore x (List.mem_cons_of_mem _ hx)) with h1 | h1
          · exfalso
            apply (List.nodup_cons.mp hw0.2.1).1
            rw [← h1, hrest]
            simp [hx]
          · exact h1
      · refine ih (hwf.advance hmax.1) pre' post t u hR hu s l l1 l2
          (mem_advance_of_ne hwf.1 hs hl) hsplit ?_
        intro x hx
        rcases List.mem_cons.mp (hbefore x hx) with h1 | h1
        · exfalso
          have hxs : x.sender = s := (hwf.2 _ hl).2.2 x (by rw [hsplit]; simp [hx])
          exact hs (by rw [← hxs, h1, ht0])
        · exact h1

/-- Descending priority in closed form: if `u` is selected after `t` and `u` was already its
sender's next transaction when `t` was selected (everything before `u` in the sender's list was
selected before `t`), then `u`'s fee priority is not larger than `t`'s. -/
theorem C15_selection_priority_order (ok : List Tx → Tx → Bool) (maxSize : Nat) (g : Groups)
    (total : Nat) (acc R : List Tx) (evs : List Ev) (hwf : GroupsWF g)
    (h : Run ok maxSize g total acc R evs)
    (pre post : List Tx) (t u : Tx) (hR : R = pre ++ t :: post) (hu : u ∈ post)
    (s : Nat) (l l1 l2 : List Tx) (hl : (s, l) ∈ g) (hsplit : l = l1 ++ u :: l2)
    (hbefore : ∀ w ∈ l1, w ∈ pre) : u.prio ≤ t.prio := by
  exact prio_order_aux h hwf pre post t u hR hu s l l1 l2 hl hsplit hbefore

private theorem skips_aux {ok : List Tx → Tx → Bool} {maxSize : Nat} {g : Groups} {total : Nat}
    {acc R : List Tx} {evs : List Ev} (h : Run ok maxSize g total acc R evs) :
    GroupsWF g → ∀ (e1 e2 : List Ev) (t : Tx) (hs : List Tx), evs = e1 ++ Ev.skip t hs :: e2 →
      ∀ u hs', Ev.take u hs' ∈ e2 → u.sender ≠ t.sender := by
  induction h with
  | done total acc => intro _ e1 e2 t hs he; cases e1 <;> cases he
  | cut hmax hsz =>
    intro _ e1 e2 t hs he
    cases e1 with
    | nil => cases he
    | cons x e1' =>
      simp only [List.cons_append, List.cons.injEq] at he
      cases e1' <;> cases he.2
  | @skip g total acc s0 t0 rest0 R evs hmax hsz hok hrun ih =>
    intro hwf e1 e2 t hs he
    cases e1 with
    | nil =>
      simp only [List.nil_append, List.cons.injEq, Ev.skip.injEq] at he
      obtain ⟨⟨ht, _⟩, he2⟩ := he
      intro u hs' hu
      rw [← he2] at hu
      have huR := hrun.take_mem u hs' hu
      have hk := hrun.sender_mem_keys (hwf.erase _) huR
      have ht0 : t0.sender = s0 := (hwf.2 _ hmax.1).2.2 t0 List.mem_cons_self
      intro hcontra
      rw [hcontra, ← ht, ht0] at hk
      exact not_mem_keys_erase hwf.1 s0 hk
    | cons x e1' =>
      simp only [List.cons_append, List.cons.injEq] at he
      exact ih (hwf.erase _) e1' e2 t hs he.2
  | @take g total acc s0 t0 rest0 R evs hmax hsz hok hrun ih =>
    intro hwf e1 e2 t hs he
    cases e1 with
    | nil => simp at he
    | cons x e1' =>
      simp only [List.cons_append, List.cons.injEq] at he
      exact ih (hwf.advance hmax.1) e1' e2 t hs he.2

/-- A sender is skipped once one of its transactions fails: after an iteration that popped a
failing transaction, no transaction of that sender is selected. -/
theorem C15_selection_skips_failed_sender (ok : List Tx → Tx → Bool) (maxSize : Nat) (g : Groups)
    (total : Nat) (acc R : List Tx) (evs : List Ev) (hwf : GroupsWF g)
    (h : Run ok maxSize g total acc R evs)
    (e1 e2 : List Ev) (t : Tx) (hs : List Tx) (hsplit : evs = e1 ++ Ev.skip t hs :: e2) :
    ∀ e ∈ e2, ∀ u, C15Taken e = some u → u.sender ≠ t.sender := by
  intro e he u hu
  cases e with
  | take u' hs' =>
    simp only [C15Taken, Option.some.injEq] at hu
    subst hu
    exact skips_aux h hwf e1 e2 t hs hsplit u' hs' he
  | skip _ _ => simp [C15Taken] at hu
  | cut _ _ => simp [C15Taken] at hu

/-- The same in closed form for verdicts that do not depend on the state: nothing at or after a
failing transaction in its sender's nonce-sorted list is selected. -/
theorem C15_selection_stops_at_failure (okb : Tx → Bool) (maxSize : Nat) (g : Groups)
    (total : Nat) (acc R : List Tx) (evs : List Ev) (hwf : GroupsWF g)
    (h : Run (fun _ t => okb t) maxSize g total acc R evs)
    (s : Nat) (l l1 l2 : List Tx) (u : Tx) (hl : (s, l) ∈ g) (hsplit : l = l1 ++ u :: l2)
    (hfail : okb u = false) : ∀ w ∈ R, w.sender = s → w ∈ l1 := by
  intro w hw hws
  have hpre := h.filter_prefix hwf s l hl
  rw [hsplit] at hpre
  have hu : u ∉ R.filter (fun t => t.sender == s) := by
    intro hu
    have := h.ok_of_mem u (List.mem_filter.mp hu).1
    rw [hfail] at this
    cases this
  exact prefix_mem_left hpre hu w (List.mem_filter.mpr ⟨hw, by simp [hws]⟩)

/-! ### non-vacuity -/

private def p0 : List Tx :=
  [ { id := 0, sender := 0, nonce := 1, fee := 500, size := 40 },
    { id := 1, sender := 0, nonce := 2, fee := 900, size := 40 },
    { id := 2, sender := 1, nonce := 5, fee := 300, size := 30 },
    { id := 3, sender := 2, nonce := 1, fee := 1000, size := 50, vok := false } ]

example : (select okMock 100 p0).map (·.id) = [0, 1] := by decide
example : checkSel 100 p0 (select okMock 100 p0) = true := by decide
example : checkSel 100 p0 [] = false := by decide

-- two senders with equal fee priority: both orders are possible results, and nothing else
private def p1 : List Tx :=
  [ { id := 0, sender := 0, nonce := 1, fee := 80, size := 40 },
    { id := 1, sender := 1, nonce := 1, fee := 80, size := 40 } ]
example : checkSel 100 p1 p1 = true ∧ checkSel 100 p1 p1.reverse = true ∧ checkSel 100 p1 [] = false := by decide
-- the order in which tied heads are popped matters: a failing head that still fits is dropped and
-- the loop goes on, the same head popped later ends the loop
private def p2 : List Tx :=
  [ { id := 0, sender := 0, nonce := 1, fee := 252, size := 126, vok := false },
    { id := 1, sender := 1, nonce := 1, fee := 252, size := 126 },
    { id := 2, sender := 1, nonce := 2, fee := 125, size := 125 } ]
example : checkSel 251 p2 [p2[1], p2[2]] = true ∧ checkSel 251 p2 [p2[1]] = true ∧ checkSel 251 p2 [p2[2]] = false := by
  decide
