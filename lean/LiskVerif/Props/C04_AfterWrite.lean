/-
C04, class "errors after the point of no return".

"The stored finalized height is raised … in the same step that applies the block causing it, and a finalization
event is emitted exactly for those raises": `Executer.processValidated` stores the block together with the raised
finalized height in ONE batch (`Chain.AddBlock`, `Props/C04_Atomic.lean`) and publishes `EventBlockFinalize` /
`EventBlockNew` afterwards. Whatever the step does BETWEEN that write and the publications must not be able to end
the step: an error-checked call there (`if err := …; err != nil { return err }` - e.g. a call of the application)
leaves the raise stored while its event is never emitted, and reports a stored block as failed.

Tie A (source): on the write skeletons regenerated from /repo by tools/wskelgen (`Gen/WriteSkeletons.lean`; an
error-checked call of ANY callee is the item `choice retErr skip`, an error-checked call of a function of the
skeleton table is `tryCall`), with the callees inlined (`C13.step`), the abstract run `aw` below accepts the step
functions: after the batch may have been written there is no error exit, no early return before an event was
published, no application commit / revert, no call of an untranslated function - with ONE exception that is pinned
separately: the error result of the write call itself (`Chain.AddBlock` / `Chain.RemoveBlock`: the in-memory block
cache update that follows `database.Write`, `Res.errWritten` of `Model/Node.lean`).

Model: `Model/NodeFail.lean` adds the application's refusal of a removal (the failure-injection histories of
harness/c04/inject.go); a refused step changes nothing, and a history with refusals is an ordinary history of
`Model.Node` in which the refused steps do not occur - every theorem of `Props/C04.lean` / `C04_More.lean` about
histories applies to it.
-/
import LiskVerif.Props.C13
import LiskVerif.Model.NodeFail
import LiskVerif.Lemmas.NodeTrans

namespace LiskVerif.C04AfterWrite
open LiskVerif.Crash

/-- does the statement contain the database write -/
def hasWrite : Stmt → Bool
  | .act (.write _) => true
  | .seq s t => hasWrite s || hasWrite t
  | .choice s t => hasWrite s || hasWrite t
  | .loop s => hasWrite s
  | .scope s => hasWrite s
  | .tryCall c a b => hasWrite c || hasWrite a || hasWrite b
  | _ => false

def hasPublish : Stmt → Bool
  | .act .publish => true
  | .seq s t => hasPublish s || hasPublish t
  | .choice s t => hasPublish s || hasPublish t
  | .loop s => hasPublish s
  | .scope s => hasPublish s
  | .tryCall c a b => hasPublish c || hasPublish a || hasPublish b
  | _ => false

/-- abstract state of the run: `w` = on some path reaching this point the batch has been written (point of no
return passed); `p` = on every such path an event has been published since -/
structure Ph where
  w : Bool
  p : Bool
  deriving DecidableEq, Repr

def Ph.start : Ph := ⟨false, true⟩

def Ph.join (a b : Ph) : Ph := ⟨a.w || b.w, a.p && b.p⟩

def isRetErr : Stmt → Bool
  | .retErr => true
  | _ => false

/-- the abstract run. `top` = the statement belongs to the body of the step function itself (its `ret` / `retErr`
end the step); inside an inlined callee they only end the callee. `none` = rejected.
Statements after a `ret` / `retErr` are still visited (conservative: more is rejected, never less). -/
def aw (top : Bool) : Stmt → Ph → Option Ph
  | .skip, st => some st
  | .act (.write _), _ => some ⟨true, false⟩
  | .act .publish, st => some ⟨st.w, true⟩
  | .act .abiCommit, st => if st.w then none else some st      -- application call after the write
  | .act .abiRevert, st => if st.w then none else some st
  | .act (.unknown _), st => if st.w then none else some st    -- something the translator did not understand
  | .act .directSet, st => if st.w then none else some st      -- a second (own) write: C13 rejects it anywhere
  | .act .directDel, st => if st.w then none else some st
  | .act _, st => some st                                       -- cacheUpdate, netPublish, staging (C13 judges those)
  | .seq s t, st => (aw top s st).bind (aw top t)
  | .choice s t, st =>
    match aw top s st, aw top t st with
    | some a, some b => some (a.join b)
    | _, _ => none
  | .loop s, st => if hasWrite s then none else (aw top s st).map fun _ => st
  | .scope s, st => aw false s st
  | .call _ _, st => if st.w then none else some st             -- a callee that was not inlined
  | .tryCall c a b, st =>
    if hasWrite c then
      -- the write call: its own error result (before or after its write) is the one admitted error exit, and it
      -- must be handed on as it is
      match aw false c st with
      | some st' => if isRetErr a then aw top b st' else none
      | none => none
    else
      match aw false c st with
      | some st' =>
        match aw top a st', aw top b st' with
        | some x, some y => some (x.join y)
        | _, _ => none
      | none => none
  | .ret, st => if top && st.w && !st.p then none else some st  -- success return after the write without any event
  | .retErr, st => if top && st.w then none else some st        -- error exit after the write
  | .brk, st => some st
  | .cont, st => some st

/-- the criterion for a step function: accepted by the abstract run, it does not fall off its end with a written
batch and no event, and it does write and publish (not vacuous after a rename) -/
def afterWriteOk (s : Stmt) : Bool :=
  match aw true s Ph.start with
  | some st => (!st.w || st.p) && hasWrite s && hasPublish s
  | none => false

/-- the statements of a body in order (right-nested `seq` flattened) -/
def flat : Stmt → List Stmt
  | .seq s t => flat s ++ flat t
  | s => [s]

/-- what follows the first `database.Write` of a body -/
def afterFirstWrite : List Stmt → Option (List Stmt)
  | [] => none
  | .act (.write _) :: r => some r
  | _ :: r => afterFirstWrite r

/-- `Chain.AddBlock` after its write: the block cache push, whose error is the function's result -/
def addBlockTail : Option (List Stmt) → Bool
  | some [.act .cacheUpdate, .choice .ret .retErr] => true
  | _ => false

/-- `Chain.RemoveBlock` after its write: refill of an emptied block cache (its read error is returned), else the
cache pop -/
def removeBlockTail : Option (List Stmt) → Bool
  | some [.choice (.seq (.choice .retErr .skip) .ret) .skip, .act .cacheUpdate, .ret] => true
  | _ => false

/-- the seeded shape: an error-checked call between `Chain.AddBlock` and the finalize event -/
def fallibleBeforeFinalizeEvent : Stmt := Stmt.seqs [
  .act (.newBatch "batch"), .act (.batchSet "batch"),
  .tryCall (Stmt.seqs [.act (.write "batch"), .act .cacheUpdate, .choice .ret .retErr]) .retErr .skip,
  .choice (Stmt.seqs [.choice .retErr .skip, .act .publish]) .skip,
  .act .publish, .ret]

/-- the same call with its error swallowed by an early `return nil` -/
def earlyReturnBeforeEvents : Stmt := Stmt.seqs [
  .act (.newBatch "batch"), .act (.batchSet "batch"),
  .tryCall (Stmt.seqs [.act (.write "batch"), .act .cacheUpdate, .choice .ret .retErr]) .retErr .skip,
  .choice .ret .skip,
  .act .publish, .ret]

/-- an error-checked call between the finalize event and the new-block event -/
def fallibleBetweenEvents : Stmt := Stmt.seqs [
  .act (.newBatch "batch"), .act (.batchSet "batch"),
  .tryCall (Stmt.seqs [.act (.write "batch"), .act .cacheUpdate, .choice .ret .retErr]) .retErr .skip,
  .choice (.act .publish) .skip, .choice .retErr .skip,
  .act .publish, .ret]

/-- the application commit moved behind the engine's write -/
def commitAfterWrite : Stmt := Stmt.seqs [
  .act (.newBatch "batch"), .act (.batchSet "batch"),
  .tryCall (Stmt.seqs [.act (.write "batch"), .act .cacheUpdate, .choice .ret .retErr]) .retErr .skip,
  .tryCall (Stmt.seqs [.act .abiCommit, .choice .ret .retErr]) .retErr .skip,
  .act .publish, .ret]

/-- the error of the write call handled by anything else than handing it on -/
def writeErrorSwallowed : Stmt := Stmt.seqs [
  .act (.newBatch "batch"), .act (.batchSet "batch"),
  .tryCall (Stmt.seqs [.act (.write "batch"), .act .cacheUpdate, .choice .ret .retErr]) .skip .skip,
  .act .publish, .ret]

/-- the shape of the step as it is (for the non-vacuity example) -/
def plainStep : Stmt := Stmt.seqs [
  .choice .retErr .skip,
  .act (.newBatch "batch"), .act (.batchSet "batch"),
  .tryCall (Stmt.seqs [.act .abiCommit, .choice .ret .retErr]) .retErr .skip,
  .tryCall (Stmt.seqs [.act (.write "batch"), .act .cacheUpdate, .choice .ret .retErr]) .retErr .skip,
  .choice (.act .publish) .skip,
  .act .publish, .ret]

end LiskVerif.C04AfterWrite

section Skeletons
open LiskVerif LiskVerif.Crash LiskVerif.C13 LiskVerif.C04AfterWrite

/-! ## Tie A: the regenerated skeletons -/

/-- **No fallible call between the write and the finalize event.** In `Executer.processValidated` (regenerated
skeleton, callees inlined) nothing that can end the step lies between the `Write` of the block batch and the
publication of `EventBlockFinalize` / `EventBlockNew`: after the point of no return there is no error-checked call
(an action whose error makes the function return), no early return before an event was published, no application
commit / revert, no untranslated call; the step writes and publishes. The only admitted error exit is the result of
the write call `Chain.AddBlock` itself, handed on as it is (`C04_addBlock_only_post_write_error_is_cache_push`). -/
theorem C04_no_fallible_call_between_write_and_finalize_event :
    afterWriteOk (step Gen.WS.Executer_processValidated) = true := by
  decide +kernel

/-- the same for the removal step: between `Chain.RemoveBlock`'s write and `EventBlockDelete` nothing can fail -/
theorem C04_no_fallible_call_between_write_and_delete_event :
    afterWriteOk (step Gen.WS.Executer_deleteBlock) = true := by
  decide +kernel

/-- `Chain.AddBlock` after `database.Write(batch)`: exactly the block cache push, whose error is the result
(`blockCache.push` fails only for a non-consecutive height or a cache index hole - `Res.errWritten` of the model,
excluded by the chain invariant). A further fallible call inside `AddBlock` after the write changes this shape. -/
theorem C04_addBlock_only_post_write_error_is_cache_push :
    addBlockTail (afterFirstWrite (flat Gen.WS.Chain_AddBlock)) = true := by
  decide +kernel

/-- `Chain.RemoveBlock` after its write: the refill of an emptied block cache (read error returned) or the pop -/
theorem C04_removeBlock_only_post_write_error_is_cache_refill :
    removeBlockTail (afterFirstWrite (flat Gen.WS.Chain_RemoveBlock)) = true := by
  decide +kernel

/-- the two step functions are the only callers' entry points that write block batches (`Executer.process` and
`Executer.Init` compose them): the criterion above covers every path on which a finalized height is stored -/
theorem C04_after_write_steps_covered : Gen.WS.callers =
    [("Executer.Init", ["Executer.processGenesisBlock"]),
     ("Executer.process", ["Executer.deleteBlock", "Executer.processValidated"])] :=
  C13_step_callers

/-! ### the criterion is not vacuous -/

/-- the present shape is accepted … -/
theorem C04_after_write_accepts_plain_step : afterWriteOk plainStep = true := by decide

/-- … an error-checked call between `AddBlock` and the finalize event (the seeded change: `abi.Finalize` with an
ordinary error return) is rejected -/
theorem C04_fallible_call_after_write_rejected : afterWriteOk fallibleBeforeFinalizeEvent = false := by decide

/-- … also when its error is swallowed by a `return nil` that skips the events -/
theorem C04_early_return_after_write_rejected : afterWriteOk earlyReturnBeforeEvents = false := by decide

/-- … also between the two events -/
theorem C04_fallible_call_between_events_rejected : afterWriteOk fallibleBetweenEvents = false := by decide

/-- … an application commit behind the engine's write is rejected -/
theorem C04_commit_after_write_rejected : afterWriteOk commitAfterWrite = false := by decide

/-- … and so is a write call whose error is not handed on -/
theorem C04_write_error_swallowed_rejected : afterWriteOk writeErrorSwallowed = false := by decide

end Skeletons

/-! ## The model under an application that refuses -/

namespace LiskVerif.Node

theorem deleteTipA_ok (cd : Codecs) (cfg : Cfg) (s : St) (st : Bool) :
    deleteTipA cd cfg s st true = deleteTip cd cfg s st := by
  simp [deleteTipA]

theorem deleteTipA_refused (cd : Codecs) (cfg : Cfg) (s : St) (st : Bool) :
    (deleteTipA cd cfg s st false).1 = s ∧
      ((deleteTipA cd cfg s st false).2 = .err ∨ (deleteTipA cd cfg s st false).2 = .panic) := by
  unfold deleteTipA
  cases hc : s.cache <;> simp

theorem processA_ok (cd : Codecs) (cfg : Cfg) (slot : Slot) (s : St) (i : Incoming) :
    processA cd cfg slot s i true = process cd cfg slot s i := by
  simp [processA]

theorem processA_refused (cd : Codecs) (cfg : Cfg) (slot : Slot) (s : St) (i : Incoming) :
    processA cd cfg slot s i false = process cd cfg slot s i ∨ (processA cd cfg slot s i false).1 = s := by
  unfold processA
  simp only [Bool.false_eq_true, if_false]
  cases hc : s.cache with
  | nil => right; rfl
  | cons tip rest =>
    simp only
    cases hf : forkChoice slot tip.hdr i.block.hdr i.flags <;> simp

theorem deleteTillA_refused (cd : Codecs) (cfg : Cfg) (fuel : Nat) (s : St) (target : Nat) :
    (deleteTillA cd cfg fuel s target false).1 = s := by
  unfold deleteTillA
  simp only [Bool.false_eq_true, if_false]
  cases fuel with
  | zero => rfl
  | succ n =>
    cases hc : s.cache with
    | nil => rfl
    | cons tip rest =>
      simp only
      split <;> rfl

end LiskVerif.Node

section Model
open LiskVerif LiskVerif.Node
open LiskVerif.DiffDB (Store)

/-- **A refused removal changes nothing**: when the application fails `InitStateMachine` / `Revert` of
`Executer.deleteBlock` (both before `Chain.RemoveBlock`), database, block cache and event log are what they were
and an error is reported; with an application that answers, the step is `deleteTip`. -/
theorem C04_refused_removal_changes_nothing (cd : Codecs) (cfg : Cfg) (s : St) (st : Bool) :
    (deleteTipA cd cfg s st false).1 = s ∧
      ((deleteTipA cd cfg s st false).2 = .err ∨ (deleteTipA cd cfg s st false).2 = .panic) ∧
      deleteTipA cd cfg s st true = deleteTip cd cfg s st :=
  ⟨(deleteTipA_refused cd cfg s st).1, (deleteTipA_refused cd cfg s st).2, deleteTipA_ok cd cfg s st⟩

/-- the same for `deleteTillCommonBlock` whose first removal is refused -/
theorem C04_refused_deleteTill_changes_nothing (cd : Codecs) (cfg : Cfg) (fuel : Nat) (s : St) (target : Nat) :
    (deleteTillA cd cfg fuel s target false).1 = s :=
  deleteTillA_refused cd cfg fuel s target

/-- **A step that reports a failure has no effect** (model side of "no error after the point of no return"):
`processValidated` that does not answer `ok` leaves database, cache and event log untouched; in particular no
finalized height is stored without its event. (`Res.errWritten` - the block cache push failing after the write -
is not a result of `apply` when it succeeds in `push`; see `apply_not_ok`.) -/
theorem C04_failed_apply_has_no_effect (cd : Codecs) (cfg : Cfg) (s s' : St) (b : Block) (valid : Bool) (x : Exec)
    (rt : Bool) (r : Res) (h : apply cd cfg s b valid x rt = (s', r)) (hr : r ≠ .ok) : s' = s :=
  apply_not_ok h hr

/-- **Histories with refusals are ordinary histories.** Every run with refused removals / refused tie-breaks
(`runA`) ends in the state of a run of `Model.Node` over at most as many ordinary operations - the refused steps
drop out. Hence finalized-height monotonicity, `fin = max`, "finalize events = exactly the raises", the stable
finalized prefix (`Props/C04.lean`, `C04_More.lean`) hold for the failure-injection histories as they are stated. -/
theorem C04_history_with_refusals_is_history (cd : Codecs) (cfg : Cfg) (slot : Slot) :
    ∀ (opsA : List OpA) (s : St), ∃ ops : List Op,
      runA cd cfg slot s opsA = run cd cfg slot s ops ∧ ops.length ≤ opsA.length := by
  intro opsA
  induction opsA with
  | nil => intro s; exact ⟨[], rfl, Nat.le_refl _⟩
  | cons a rest ih =>
    intro s
    have hstep : (∃ o : Op, stepA cd cfg slot s a = step cd cfg slot s o) ∨ stepA cd cfg slot s a = s := by
      cases a with
      | op o => exact Or.inl ⟨o, rfl⟩
      | deleteTip st ok =>
        cases ok with
        | true => exact Or.inl ⟨.deleteTip st, by simp [stepA, step, deleteTipA]⟩
        | false => exact Or.inr (deleteTipA_refused cd cfg s st).1
      | process i ok =>
        cases ok with
        | true => exact Or.inl ⟨.process i, by simp [stepA, step, processA]⟩
        | false =>
          rcases processA_refused cd cfg slot s i with h | h
          · exact Or.inl ⟨.process i, by simp [stepA, step, h]⟩
          · exact Or.inr h
    rcases hstep with ⟨o, ho⟩ | hs
    · obtain ⟨ops, h1, h2⟩ := ih (step cd cfg slot s o)
      refine ⟨o :: ops, ?_, by simp; omega⟩
      simp only [runA, run, List.foldl_cons] at h1 ⊢
      rw [ho]; exact h1
    · obtain ⟨ops, h1, h2⟩ := ih s
      refine ⟨ops, ?_, by simp; omega⟩
      simp only [runA, List.foldl_cons] at h1 ⊢
      rw [hs]; exact h1

/-- non-vacuity: a refused removal on a node with a tip reports `err` and keeps the tip -/
example (cd : Codecs) (cfg : Cfg) (tip : Block) (rest : List Block) (db : Store) (log : List Ev) :
    deleteTipA cd cfg { db := db, cache := tip :: rest, log := log } true false
      = ({ db := db, cache := tip :: rest, log := log }, .err) := rfl

end Model

example : LiskVerif.C04AfterWrite.afterWriteOk LiskVerif.C04AfterWrite.fallibleBeforeFinalizeEvent = false ∧
    LiskVerif.C04AfterWrite.afterWriteOk LiskVerif.C04AfterWrite.plainStep = true := by decide
