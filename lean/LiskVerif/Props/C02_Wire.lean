/-
C02 — the BFT batch size reaches liskbft unchanged (tie A, table described in Props/C13_Wire.lean).
The vote window of `Model/BFT.lean` is `3 * batchSize`; the theorems of C01/C02 are stated for the batch size
of the configuration.  Path: genesis configuration → `ExecuterConfig.BatchSize` → `Executer.batchSize` →
`liskBFT.Init(c.batchSize)` → `Module.batchSize`, `maxLengthBlock = 3 * batchSize`.
-/
import LiskVerif.Lemmas.Wire

open LiskVerif LiskVerif.Wire

theorem C02_wire_batch_size_path :
    wired "Engine.init" "consensus.ExecuterConfig" "BatchSize" "int(e.config.Genesis.BFTBatchSize)" = true ∧
    wired "NewExecuter" "Executer" "batchSize" "config.BatchSize" = true ∧
    argsOf "Executer.Init" "c.liskBFT.Init" = some ["c.batchSize"] ∧
    wired "Module.Init" "recv" "batchSize" "batchSize" = true ∧
    wired "Module.Init" "recv" "maxLengthBlock" "3 * m.batchSize" = true := by decide +kernel

/-- a configuration that leaves the batch size out gets a positive one (the window is never empty) -/
theorem C02_wire_default_batch_size_positive :
    positiveDefault "GenesisConfig.InsertDefault" "BFTBatchSize" "0" = true := by decide +kernel

/-- the executer gets a fresh BFT module and certificate pool of its own -/
theorem C02_wire_fresh_bft_module :
    wired "NewExecuter" "Executer" "liskBFT" "liskbft.NewModule()" = true ∧
    wired "NewExecuter" "Executer" "certificatePool" "certificate.NewPool()" = true := by decide +kernel
