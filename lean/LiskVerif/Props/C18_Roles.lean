/-
C18 — the ban clause for every ROLE a peer can have in the configuration (ordinary / fixed / seed / fixed+seed).

"once the total reaches the ban threshold the peer is disconnected and every inbound and outbound connection
attempt involving that IP is refused until the ban expires" has no exception for peers the operator listed in
`FixedPeers` / `SeedPeers`.  In the code the role is simply NOT AN INPUT: `Peer.addPenalty` / `Peer.banPeer` look at
the score the gater returns and then call `Peer.Disconnect`, which closes the peer; none of them reads the peerbook
or the configuration.

Model part: `C18rPenalty` / `C18rBan` are `ConnGater.peerAddPenalty` / `ConnGater.banPeer` followed by the
disconnect they report, on a connection table, parametrised by a disconnect POLICY `keep : Role → Bool`
(`keep r = true`: `Peer.Disconnect` returns without closing for role `r`).  The code's policy is `fun _ => false`.
* `C18_roles_ban_disconnected_refused` / `C18_roles_banPeer_disconnected_refused`: with the code's policy, for EVERY
  role, a penalty that brings the IP's total to the threshold (resp. `banPeer`) leaves the peer not connected, the
  IP banned and every gate closed for it;
* `C18_roles_role_not_an_input`: the outcome is the same for any two roles;
* `C18_roles_keep_policy_violates`: for ANY policy that keeps some role `r`, a peer of role `r` is banned and still
  connected (the seeded refactoring "fixed peers are kept in Disconnect" is `keep = (·.fixed)`);
* `C18_roles_skip_policy_violates`: a ban decision that skips some role leaves a peer of that role unbanned however
  large the penalty (the sibling change "fixed peers are not penalised").

Tie (Gen/Life.lean, regenerated from pkg/p2p/{peer,p2p,message_protocol}.go by tools/lifegen on every run): the exact
list of conditions, exits and calls of `Peer.Disconnect`, `Peer.addPenalty`, `Peer.banPeer` (and of the callers
`Connection.ApplyPenalty`, `Connection.BanPeer`, `MessageProtocol.banRemotePeer`) is pinned.  A role / configuration
dependent early return (`if p.isFixedPeer(peer) { return nil }`) adds a condition, an exit and a call and breaks
`C18_rolegen_Disconnect_closes_unconditionally` / `C18_rolegen_addPenalty_conditions` / `C18_rolegen_banPeer_conditions`.
-/
import LiskVerif.Gen.Life
import LiskVerif.Props.C18
import LiskVerif.Props.C18_LifeGen

open LiskVerif LiskVerif.ConnGater LiskVerif.Gen.Life

/-- the role of a peer in the node's configuration -/
structure C18Role where
  fixed : Bool
  seed : Bool
deriving DecidableEq, Repr

/-- `Peer.Disconnect` under a policy: `keep role` = return without closing -/
def C18rDisconnect (keep : C18Role → Bool) (role : C18Role) (conns : List Nat) (p : Nat) : List Nat :=
  if keep role then conns else conns.filter (· ≠ p)

/-- `Peer.addPenalty` followed by the disconnect it asks for -/
def C18rPenalty (keep : C18Role → Bool) (role : C18Role) (g : Gater) (now : Nat) (addr : Addr) (score : Int)
    (conns : List Nat) : Gater × List Nat :=
  match peerAddPenalty g now addr score with
  | (g', .ok (some p)) => (g', C18rDisconnect keep role conns p)
  | (g', _) => (g', conns)

/-- `Peer.banPeer` followed by the disconnect it asks for -/
def C18rBan (keep : C18Role → Bool) (role : C18Role) (g : Gater) (now : Nat) (addr : Addr)
    (conns : List Nat) : Gater × List Nat :=
  match banPeer g now addr with
  | (g', .ok (some p)) => (g', C18rDisconnect keep role conns p)
  | (g', _) => (g', conns)

/-- a ban decision that skips some roles (`skip role` = return an error before the gater is asked) -/
def C18rPenaltySkipping (skip : C18Role → Bool) (role : C18Role) (g : Gater) (now : Nat) (addr : Addr) (score : Int)
    (conns : List Nat) : Gater × List Nat :=
  if skip role then (g, conns) else C18rPenalty (fun _ => false) role g now addr score conns

/-- the code's policy: nobody is kept -/
def C18rCode : C18Role → Bool := fun _ => false

/-- the IP's total after adding `score` -/
def C18rTotal (g : Gater) (ip : IP) (score : Int) : Int :=
  match find g.peerScore ip with
  | some i => i.score + score
  | none => score

private theorem addPenalty_banned (g : Gater) (hs : g.started = true) (now : Nat) (ip : IP) (apid : Option Nat)
    (score : Int) (h : C18rTotal g ip score ≥ maxPenaltyScore) :
    ∃ g', addPenalty g now ⟨some ip, apid⟩ score = (g', .ok (C18rTotal g ip score)) ∧ isBanned g' ip = true := by
  unfold C18rTotal at h ⊢
  refine ⟨(addPenalty g now ⟨some ip, apid⟩ score).1, ?_, ?_⟩
  · cases hf : find g.peerScore ip <;> simp [addPenalty, hs, hf]
  · cases hf : find g.peerScore ip <;> simp only [hf] at h <;>
      simp only [addPenalty, hs, hf, Bool.not_true, Bool.false_eq_true, if_false, isBanned, find_put, if_true,
        PeerInfo.banned, if_pos h, bne_iff_ne, ne_eq] <;> omega

/-- **Ban ⇒ disconnected ∧ refused, for every role.** With the code's disconnect (no role kept): a penalty that
brings the total of the peer's IP to the threshold leaves the peer `p` out of the connection table, the IP banned,
and every gate (`InterceptAddrDial`, `InterceptAccept`, inbound `InterceptSecured`, hence the whole outbound and
inbound gate sequence) closed for that IP whatever peer ID it presents. -/
theorem C18_roles_ban_disconnected_refused (role : C18Role) (g : Gater) (hs : g.started = true) (now : Nat) (ip : IP)
    (p : Nat) (score : Int) (conns : List Nat) (h : C18rTotal g ip score ≥ maxPenaltyScore) (apid : Option Nat) (q : Nat) :
    let r := C18rPenalty C18rCode role g now ⟨some ip, some p⟩ score conns
    p ∉ r.2 ∧ isBanned r.1 ip = true ∧
      interceptAddrDial r.1 q ⟨some ip, apid⟩ = false ∧ interceptAccept r.1 ⟨some ip, apid⟩ = false ∧
      interceptSecured r.1 true q ⟨some ip, apid⟩ = false ∧
      outboundAllowed r.1 q ⟨some ip, apid⟩ = false ∧ inboundAllowed r.1 q ⟨some ip, apid⟩ = false := by
  obtain ⟨g', hg, hb⟩ := addPenalty_banned g hs now ip (some p) score h
  have hr : C18rPenalty C18rCode role g now ⟨some ip, some p⟩ score conns = (g', conns.filter (· ≠ p)) := by
    simp only [C18rPenalty, peerAddPenalty, hg, h, if_true, C18rDisconnect, C18rCode, Bool.false_eq_true, if_false]
  simp only [hr]
  refine ⟨?_, hb, ?_⟩
  · simp [List.mem_filter]
  · have := (C18_gates_refuse_banned_or_blacklisted g' ip apid q).1 (Or.inl hb)
    exact this

/-- the same for `Peer.banPeer` (malformed envelope, unknown procedure, `Connection.BanPeer`), for every role and
whatever the earlier score was (non-negative totals: scores only grow) -/
theorem C18_roles_banPeer_disconnected_refused (role : C18Role) (g : Gater) (hs : g.started = true) (now : Nat) (ip : IP)
    (p : Nat) (conns : List Nat) (h : C18rTotal g ip maxPenaltyScore ≥ maxPenaltyScore) (apid : Option Nat) (q : Nat) :
    let r := C18rBan C18rCode role g now ⟨some ip, some p⟩ conns
    p ∉ r.2 ∧ isBanned r.1 ip = true ∧
      outboundAllowed r.1 q ⟨some ip, apid⟩ = false ∧ inboundAllowed r.1 q ⟨some ip, apid⟩ = false := by
  obtain ⟨g', hg, hb⟩ := addPenalty_banned g hs now ip (some p) maxPenaltyScore h
  have hr : C18rBan C18rCode role g now ⟨some ip, some p⟩ conns = (g', conns.filter (· ≠ p)) := by
    simp only [C18rBan, banPeer, hg, C18rDisconnect, C18rCode, Bool.false_eq_true, if_false]
  simp only [hr]
  refine ⟨?_, hb, ?_⟩
  · simp [List.mem_filter]
  · have := (C18_gates_refuse_banned_or_blacklisted g' ip apid q).1 (Or.inl hb)
    exact ⟨this.2.2.2.1, this.2.2.2.2⟩

/-- **The role is not an input** of the ban decision or of the disconnect: any two roles give the same gater and
the same connection table. -/
theorem C18_roles_role_not_an_input (r₁ r₂ : C18Role) (g : Gater) (now : Nat) (addr : Addr) (score : Int)
    (conns : List Nat) :
    C18rPenalty C18rCode r₁ g now addr score conns = C18rPenalty C18rCode r₂ g now addr score conns ∧
    C18rBan C18rCode r₁ g now addr conns = C18rBan C18rCode r₂ g now addr conns := ⟨rfl, rfl⟩

/-- **A role-dependent disconnect violates the clause.** For ANY policy that keeps some role `r`: a connected peer
of role `r` that is banned through `banPeer` is banned in the gater (new connections refused) and STILL in the
connection table. (`keep = (·.fixed)` is the refactoring "fixed peers are kept connected inside Disconnect".) -/
theorem C18_roles_keep_policy_violates (keep : C18Role → Bool) (r : C18Role) (hk : keep r = true)
    (g : Gater) (hs : g.started = true) (now : Nat) (ip : IP) (p : Nat) (conns : List Nat) (hc : p ∈ conns)
    (h : C18rTotal g ip maxPenaltyScore ≥ maxPenaltyScore) :
    let res := C18rBan keep r g now ⟨some ip, some p⟩ conns
    isBanned res.1 ip = true ∧ p ∈ res.2 := by
  obtain ⟨g', hg, hb⟩ := addPenalty_banned g hs now ip (some p) maxPenaltyScore h
  have hr : C18rBan keep r g now ⟨some ip, some p⟩ conns = (g', conns) := by
    simp only [C18rBan, banPeer, hg, C18rDisconnect, hk, if_true]
  simp only [hr]
  exact ⟨hb, hc⟩

/-- **A role-dependent ban decision violates the clause**: a skipped role is never banned, whatever the penalty. -/
theorem C18_roles_skip_policy_violates (skip : C18Role → Bool) (r : C18Role) (hk : skip r = true)
    (g : Gater) (now : Nat) (addr : Addr) (score : Int) (conns : List Nat) :
    C18rPenaltySkipping skip r g now addr score conns = (g, conns) := by
  simp only [C18rPenaltySkipping, hk, if_true]

/-- non-vacuity: a fixed+seed peer with 60 points gets 40 more: gone, banned, refused; under the seeded policy the
same peer stays connected although banned -/
example :
    let g : Gater := { expSecs := 10, started := true, peerScore := [([127, 0, 0, 1], ⟨60, -1⟩)] }
    let r := C18rPenalty C18rCode ⟨true, true⟩ g 5 ⟨some [127, 0, 0, 1], some 7⟩ 40 [3, 7]
    r.2 = [3] ∧ isBanned r.1 [127, 0, 0, 1] = true ∧ inboundAllowed r.1 7 ⟨some [127, 0, 0, 1], none⟩ = false ∧
      (C18rBan (·.fixed) ⟨true, false⟩ g 5 ⟨some [127, 0, 0, 1], some 7⟩ [3, 7]).2 = [3, 7] ∧
      (C18rBan (·.fixed) ⟨false, true⟩ g 5 ⟨some [127, 0, 0, 1], some 7⟩ [3, 7]).2 = [3] := by decide

/-! ### tie: the regenerated statement tables of the ban path -/

/-- the conditions (`if`, loop headers) of a function, in source order -/
def C18rgConds (fn : String) : List String :=
  ((C18lgOf fn).filter (fun s => s.kind == "if" || s.kind == "loop" || s.kind == "other")).map (·.a)

/-- the exits of a function: (guards, returned expression) -/
def C18rgExits (fn : String) : List (List String × String) :=
  ((C18lgOf fn).filter C18lgExit).map (fun s => (s.guards, s.a))

/-- the callees of a function, in source order -/
def C18rgCalls (fn : String) : List String :=
  ((C18lgOf fn).filter (fun s => s.kind == "call" || s.kind == "go-call" || s.kind == "defer-call")).map (·.a)

/-- the ban-path functions of the extraction list exist -/
theorem C18_rolegen_functions_present :
    (["Peer.Disconnect", "Peer.addPenalty", "Peer.banPeer", "Connection.ApplyPenalty", "Connection.BanPeer",
      "MessageProtocol.banRemotePeer"].all fun n => (C18lgParams n).isSome && C18lgParams n != some ["MISSING"]) = true := by
  decide +kernel

/-- **`Peer.Disconnect(peer)` closes the peer on every call**: no condition, a single exit, which returns the
result of `ClosePeer(peer)`; nothing else is called (no peerbook / configuration lookup). -/
theorem C18_rolegen_Disconnect_closes_unconditionally :
    C18rgConds "Peer.Disconnect" = [] ∧
    C18rgExits "Peer.Disconnect" = [([], "p.host.Network().ClosePeer(peer)")] ∧
    C18rgCalls "Peer.Disconnect" = ["p.host.Network().ClosePeer", "p.host.Network"] ∧
    ((C18lgOf "Peer.Disconnect").filter (fun s => s.a == "p.host.Network().ClosePeer")).map (·.b) = [["peer"]] := by
  decide +kernel

/-- **`Peer.addPenalty`: exact conditions, exits and calls.** The gater is asked first and unconditionally; the only
conditions are the two error checks and `newScore >= MaxPenaltyScore`, under which `p.Disconnect(addrInfo.ID)` is
returned. -/
theorem C18_rolegen_addPenalty_conditions :
    C18rgConds "Peer.addPenalty" = ["err != nil", "newScore >= MaxPenaltyScore", "err != nil"] ∧
    C18rgExits "Peer.addPenalty" =
      [(["if err != nil"], "err"), (["if newScore >= MaxPenaltyScore", "if err != nil"], "err"),
       (["if newScore >= MaxPenaltyScore"], "p.Disconnect(addrInfo.ID)"), ([], "nil")] ∧
    C18rgCalls "Peer.addPenalty" = ["p.connGater.addPenalty", "AddrInfoFromMultiAddr", "addr.String", "p.Disconnect"] ∧
    C18lgCallsAlways "Peer.addPenalty" "p.connGater.addPenalty" ["addr", "score"] = true := by
  decide +kernel

/-- **`Peer.banPeer`: exact conditions, exits and calls.** `connGater.addPenalty(addr, MaxPenaltyScore)` first and
unconditionally, two error checks, then `p.Disconnect(addrInfo.ID)` on the straight path. -/
theorem C18_rolegen_banPeer_conditions :
    C18rgConds "Peer.banPeer" = ["err != nil", "err != nil"] ∧
    C18rgExits "Peer.banPeer" = [(["if err != nil"], "err"), (["if err != nil"], "err"), ([], "p.Disconnect(addrInfo.ID)")] ∧
    C18rgCalls "Peer.banPeer" = ["p.connGater.addPenalty", "AddrInfoFromMultiAddr", "addr.String", "p.Disconnect"] ∧
    C18lgCallsAlways "Peer.banPeer" "p.connGater.addPenalty" ["addr", "MaxPenaltyScore"] = true := by
  decide +kernel

/-- **The callers hand every connection of the peer to the ban path**: `Connection.ApplyPenalty` / `BanPeer` loop
over `ConnsToPeer(pid)` with only the multiaddr error check; `banRemotePeer` has only the multiaddr error check in
front of `mp.peer.banPeer(addr)`. No configuration lookup in any of them. -/
theorem C18_rolegen_callers_conditions :
    C18rgConds "Connection.ApplyPenalty" = ["range conn.Peer.host.Network().ConnsToPeer(pid)", "err != nil", "err != nil"] ∧
    C18rgConds "Connection.BanPeer" = ["range conn.Peer.host.Network().ConnsToPeer(pid)", "err != nil", "err != nil"] ∧
    C18rgConds "MessageProtocol.banRemotePeer" = ["err != nil"] ∧
    C18rgCalls "Connection.ApplyPenalty" =
      ["conn.Peer.host.Network().ConnsToPeer", "conn.Peer.host.Network", "c.RemoteMultiaddr().String", "c.RemoteMultiaddr",
       "pid.String", "ma.NewMultiaddr", "conn.logger.Errorf", "conn.addPenalty", "conn.logger.Errorf"] ∧
    C18rgCalls "Connection.BanPeer" =
      ["conn.Peer.host.Network().ConnsToPeer", "conn.Peer.host.Network", "c.RemoteMultiaddr().String", "c.RemoteMultiaddr",
       "pid.String", "ma.NewMultiaddr", "conn.logger.Errorf", "conn.Peer.banPeer", "conn.logger.Errorf"] ∧
    C18rgExits "MessageProtocol.banRemotePeer" = [(["if err != nil"], "err"), ([], "mp.peer.banPeer(addr)")] := by
  decide +kernel
