/-
C04 — gap-closing theorems (see Props/C04.lean for the setting: `Ref`, `RunOK`, `BaseOK`).

What Props/C04.lean leaves open and this file closes:

* the finalized height over a *history*: Props/C04.lean has `fin' = max fin mhpc` for one
  `processValidated` and monotonicity over histories; here the stored marker after ANY history
  (processed blocks — valid, invalid, competing, tie-breaks —, deletions, restarts, failed
  operations) is the maximum of its start value and the `maxHeightPrecommited` of every block whose
  `processValidated` succeeded in the history, at every point of the history
  (`C04_fin_eq_max_history`), it changes in no other step (`C04_fin_changes_only_by_apply`) and it
  dominates the `maxHeightPrecommited` of every block of the chain (`C04_fin_ge_chain_mhpc`);
* the events: Props/C04.lean has the chain of (original, next) pairs; here the whole published
  log is a function of the effect trace (`C04_event_log_exact`), the finalize events are exactly one
  per raise with (original, next, trigger) = (marker before the step, the block's
  `maxHeightPrecommited`, the block applied in that step) (`C04_finalize_events_exact`,
  `C04_finalize_event_iff`);
* irreversibility: Props/C04.lean has "the header served for `h ≤ fin` never changes" over all
  histories; here the finalized *blocks* themselves (block and execution result) stay in the chain,
  stay loadable from the database (header, transactions, assets, height index) and their id is served
  (`some`, never `none`) after every continuation (`C04_finalized_blocks_forever`), the height index
  on disk is unchanged for every `h ≤ fin` (`C04_finalized_index_on_disk`);
* `Executer.process` writes only through `processValidated` / `deleteBlock`
  (`C04_process_is_run`), `deleteTillCommonBlock` of both synchronisers neither changes the marker
  nor a finalized block, whatever its outcome (`C04_deleteTill_keeps_finalized`).

The effect trace `trace cd cfg slot s ops` (Lemmas/NodeMore.lean) lists, in order, every successful
`processValidated` of the history (also those inside `Executer.process`), every `deleteBlock` that
removed the tip and every `ClearTempBlocks`.
-/
import LiskVerif.Lemmas.NodeMore
import LiskVerif.Lemmas.NodeExample
import LiskVerif.Props.C04

open LiskVerif LiskVerif.Node
open LiskVerif.DiffDB (Store KV CV Cache Diff slookup sset sdel)

/-! ### `process` -/

/-- **`Executer.process` changes the node only through `processValidated` and `deleteBlock`**: its
effect is that of at most three such calls (valid block: one `processValidated`; tie-break:
`deleteBlock(tip, false)`, `processValidated(new)` and, if that failed, `processValidated(tip)`);
every other verdict (identical, double forging, different chain — the synchroniser is a sequence of
the same calls —, discard) leaves the state alone. -/
theorem C04_process_is_run (cd : Codecs) (cfg : Cfg) (slot : Slot) (s : St) (i : Incoming) :
    (process cd cfg slot s i).1 = run cd cfg slot s (processOps cd cfg slot s i) ∧
    (∀ op ∈ processOps cd cfg slot s i, (∃ b v x, op = Op.apply b v x false) ∨ op = Op.deleteTip false) ∧
    (processOps cd cfg slot s i).length ≤ 3 := by
  refine ⟨process_eq_run cd cfg slot s i, ?_, ?_⟩
  · intro op hop
    unfold processOps at hop
    split at hop
    · cases hop
    · split at hop
      · split at hop
        · cases hop
        · simp only [List.mem_cons, List.not_mem_nil, or_false] at hop
          exact Or.inl ⟨_, _, _, hop⟩
      · split at hop
        · cases hop
        · split at hop
          · split at hop
            · simp only [List.mem_cons, List.not_mem_nil, or_false] at hop
              rcases hop with h | h
              · exact Or.inr h
              · exact Or.inl ⟨_, _, _, h⟩
            · simp only [List.mem_cons, List.not_mem_nil, or_false] at hop
              rcases hop with h | h | h
              · exact Or.inr h
              · exact Or.inl ⟨_, _, _, h⟩
              · exact Or.inl ⟨_, _, _, h⟩
          · simp only [List.mem_cons, List.not_mem_nil, or_false] at hop
            exact Or.inr hop
      · cases hop
  · unfold processOps
    split
    · simp
    · split
      · split <;> simp
      · split
        · simp
        · split
          · split <;> simp
          · simp
      · simp

/-- … hence every history is a history of primitive operations (same final state, same ghost
chain, same hypotheses). -/
theorem C04_history_is_primitive (cd : Codecs) (cfg : Cfg) (slot : Slot) (base : Store) (s : St)
    (c : Chain) (ops : List Op) (hok : RunOK cd cfg slot base s c ops) :
    run cd cfg slot s ops = run cd cfg slot s (flat cd cfg slot s ops) ∧
    runC cd cfg slot s c ops = runC cd cfg slot s c (flat cd cfg slot s ops) ∧
    RunOK cd cfg slot base s c (flat cd cfg slot s ops) ∧
    ∀ op ∈ flat cd cfg slot s ops, op.prim :=
  ⟨run_flat cd cfg slot ops s, runC_flat cd cfg slot ops s c, runOK_flat cd cfg slot base ops s c hok,
    flat_prim cd cfg slot ops s⟩

/-- **What the effect trace is** (so that the theorems below can be read without the definition):
the trace of a history is the concatenation of the traces of its operations, each taken in the state
it is executed in; `processValidated` contributes the block iff it succeeded; `deleteBlock`
contributes the cached tip iff it removed it (`published = false`: the error after the write, no
event); a restart contributes nothing; `Executer.process` contributes what its `processValidated` /
`deleteBlock` calls contribute. -/
theorem C04_trace_unfold (cd : Codecs) (cfg : Cfg) (slot : Slot) (s : St) :
    (∀ op r, trace cd cfg slot s (op :: r) =
      trace cd cfg slot s [op] ++ trace cd cfg slot (step cd cfg slot s op) r) ∧
    trace cd cfg slot s [] = [] ∧
    (∀ b v x rt, trace cd cfg slot s [Op.apply b v x rt] =
      if (apply cd cfg s b v x rt).2 = .ok then [Eff.applied b x rt] else []) ∧
    (∀ st, trace cd cfg slot s [Op.deleteTip st] =
      match s.cache with
      | [] => []
      | tip :: _ =>
        if (deleteTip cd cfg s st).2 = .ok then [Eff.deleted tip st true]
        else if (deleteTip cd cfg s st).2 = .errWritten then [Eff.deleted tip st false] else []) ∧
    trace cd cfg slot s [Op.restart] = [] ∧
    trace cd cfg slot s [Op.clearTemp] = [Eff.cleared] ∧
    (∀ i, trace cd cfg slot s [Op.process i] = trace cd cfg slot s (processOps cd cfg slot s i)) := by
  refine ⟨fun op r => trace_cons cd cfg slot s op r, rfl, ?_, ?_, rfl, rfl,
    fun i => trace_process cd cfg slot s i⟩
  · intro b v x rt
    simp only [trace, flat, primOps, List.append_nil, tracePrim, effOf]
  · intro st
    simp only [trace, flat, primOps, List.append_nil, tracePrim, effOf]
    cases s.cache <;> rfl

/-! ### the finalized height of a history -/

/-- **The stored finalized height is the maximum, over the history, of the precommitted heights**:
after any history `a` (and any continuation `b` does not matter: `a` is an arbitrary prefix of an
arbitrary history) the marker `GetFinalizedHeight` reads from the database is
`max (start value) (maxHeightPrecommited of every block whose processValidated succeeded in a)` —
whatever else happened (invalid blocks, failed operations, deletions, tie-breaks, restarts). -/
theorem C04_fin_eq_max_history (cd : Codecs) (cfg : Cfg) (slot : Slot) (base : Store) (baseH : Nat)
    (hbase : BaseOK cd base baseH) (s : St) (c : Chain) (a b : List Op)
    (hR : Ref cd base baseH s c) (hok : RunOK cd cfg slot base s c (a ++ b)) :
    ∃ f, finOf s.db = some f ∧
      finOf (run cd cfg slot s a).db =
        some (((appliedOf (trace cd cfg slot s a)).map (·.2.mhpc)).foldl max f) ∧
      finOf (run cd cfg slot s (a ++ b)).db =
        some (((appliedOf (trace cd cfg slot s (a ++ b))).map (·.2.mhpc)).foldl max f) := by
  obtain ⟨f, hf, _, _⟩ := hR.db.finOk
  obtain ⟨ha, _⟩ := runOK_append cd cfg slot base a b s c hok
  refine ⟨f, hf, ?_, ?_⟩
  · rw [← finAfter_eq_foldl]; exact (hist_run hbase a s c f hR hf ha).fin
  · rw [← finAfter_eq_foldl]; exact (hist_run hbase (a ++ b) s c f hR hf hok).fin

/-- The marker is durable and changes in no other step: a stretch of history in which no
`processValidated` succeeds (failed blocks, deletions, restarts, `ClearTempBlocks`, fork-choice
discards) leaves the stored finalized height as it is. -/
theorem C04_fin_changes_only_by_apply (cd : Codecs) (cfg : Cfg) (slot : Slot) (base : Store)
    (baseH : Nat) (hbase : BaseOK cd base baseH) (s : St) (c : Chain) (a b : List Op)
    (hR : Ref cd base baseH s c) (hok : RunOK cd cfg slot base s c (a ++ b))
    (hno : appliedOf (trace cd cfg slot (run cd cfg slot s a) b) = []) :
    finOf (run cd cfg slot s (a ++ b)).db = finOf (run cd cfg slot s a).db := by
  obtain ⟨ha, hb⟩ := runOK_append cd cfg slot base a b s c hok
  have hRa := (trans_run hbase a s c hR ha).ref
  obtain ⟨f, hf, _, _⟩ := hRa.db.finOk
  have h := (hist_run hbase b _ _ f hRa hf hb).fin
  rw [finAfter_eq_foldl, hno] at h
  rw [run_append, h, hf]
  rfl

/-- The marker lies between the base height and the tip, and the cached tip is at or above it. -/
theorem C04_fin_bounds (cd : Codecs) (cfg : Cfg) (slot : Slot) (base : Store) (baseH : Nat)
    (hbase : BaseOK cd base baseH) (s : St) (c : Chain) (ops : List Op)
    (hR : Ref cd base baseH s c) (hok : RunOK cd cfg slot base s c ops) :
    ∃ f, finOf (run cd cfg slot s ops).db = some f ∧ baseH ≤ f ∧
      f ≤ tipH baseH (runC cd cfg slot s c ops) ∧
      ∀ t, (run cd cfg slot s ops).cache.head? = some t → f ≤ t.hdr.height := by
  have hR' := (trans_run hbase ops s c hR hok).ref
  obtain ⟨f, hf, h1, h2⟩ := hR'.db.finOk
  refine ⟨f, hf, h1, h2, ?_⟩
  intro t ht
  rw [hR'.cache.head t ht]
  exact h2

/-- **The marker is the chain's precommitted height or more**: if the finalized height is at least
the `maxHeightPrecommited` of every block of the chain at the start (e.g. the chain is empty: the
state right after the genesis block), this stays so after every history — the node never holds a
block whose precommitted height it has not stored as finalized. -/
theorem C04_fin_ge_chain_mhpc (cd : Codecs) (cfg : Cfg) (slot : Slot) (base : Store) (baseH : Nat)
    (hbase : BaseOK cd base baseH) (s : St) (c : Chain) (ops : List Op)
    (hR : Ref cd base baseH s c) (hok : RunOK cd cfg slot base s c ops) (f : Nat)
    (hf : finOf s.db = some f) (h0 : ∀ bx ∈ c, bx.2.mhpc ≤ f) :
    ∃ f', finOf (run cd cfg slot s ops).db = some f' ∧
      ∀ bx ∈ runC cd cfg slot s c ops, bx.2.mhpc ≤ f' := by
  have h := hist_run hbase ops s c f hR hf hok
  refine ⟨_, h.fin, ?_⟩
  rw [h.chain]
  exact chainOf_mhpc_le _ c f h0

/-! ### the events of a history -/

/-- **The published events are a function of the effect trace**: after any history the event log
is the old log followed by, for every successful `processValidated` in order, the finalize event (iff
the block raised the marker) and the new-block event, and for every `deleteBlock` that returned
without error the delete event — nothing else is ever published. -/
theorem C04_event_log_exact (cd : Codecs) (cfg : Cfg) (slot : Slot) (base : Store) (baseH : Nat)
    (hbase : BaseOK cd base baseH) (s : St) (c : Chain) (ops : List Op)
    (hR : Ref cd base baseH s c) (hok : RunOK cd cfg slot base s c ops) (f : Nat)
    (hf : finOf s.db = some f) :
    (run cd cfg slot s ops).log = (evsOf f (trace cd cfg slot s ops)).reverse ++ s.log ∧
    runC cd cfg slot s c ops = chainOf c (trace cd cfg slot s ops) := by
  have h := hist_run hbase ops s c f hR hf hok
  exact ⟨h.log, h.chain⟩

/-- **Exactly one finalize event per raise, with the right content**: the finalize events
published during a history are, in order, `finEvsOf f (applied blocks)`: walking through the blocks
whose `processValidated` succeeded with the running maximum `m` (start: the stored marker), a block
with `maxHeightPrecommited > m` contributes the one event `(Original = m, Next =
maxHeightPrecommited, Trigger = the block)` and `m` becomes `Next`; a block that does not raise the
marker contributes none. -/
theorem C04_finalize_events_exact (cd : Codecs) (cfg : Cfg) (slot : Slot) (base : Store) (baseH : Nat)
    (hbase : BaseOK cd base baseH) (s : St) (c : Chain) (ops : List Op)
    (hR : Ref cd base baseH s c) (hok : RunOK cd cfg slot base s c ops) (f : Nat)
    (hf : finOf s.db = some f) :
    ∃ evs : List Ev, (run cd cfg slot s ops).log = evs.reverse ++ s.log ∧
      evs.filter Ev.isFinalize = finEvsOf f (appliedOf (trace cd cfg slot s ops)) :=
  ⟨_, (hist_run hbase ops s c f hR hf hok).log, evsOf_finalize _ f⟩

/-- **A finalize event iff a raise**: `(o, n, t)` is published during a history iff the history
contains a successful `processValidated` of a block with id `t` and `maxHeightPrecommited = n`
before which the stored marker was `o < n` (`o` is the marker after the part `tr1` of the history
that precedes that step). -/
theorem C04_finalize_event_iff (cd : Codecs) (cfg : Cfg) (slot : Slot) (base : Store) (baseH : Nat)
    (hbase : BaseOK cd base baseH) (s : St) (c : Chain) (ops : List Op)
    (hR : Ref cd base baseH s c) (hok : RunOK cd cfg slot base s c ops) (f : Nat)
    (hf : finOf s.db = some f) :
    ∃ evs : List Ev, (run cd cfg slot s ops).log = evs.reverse ++ s.log ∧
      ∀ o n t, Ev.finalize o n t ∈ evs ↔
        ∃ tr1 b x rt tr2, trace cd cfg slot s ops = tr1 ++ Eff.applied b x rt :: tr2 ∧
          o = finAfter f tr1 ∧ n = x.mhpc ∧ o < n ∧ t = b.hdr.id :=
  ⟨_, (hist_run hbase ops s c f hR hf hok).log, fun o n t => evsOf_finalize_mem _ f o n t⟩

/-! ### finalized blocks -/

/-- **Finalized blocks are never removed or replaced — the blocks, not only the headers served.**
Let `bx = (block, execution result)` be in the chain after a history `a`, at or below the finalized
height reached after `a`. Then after every continuation `b` (fork choice, tie-breaks, deletions,
the delete / apply / restore plans of the synchronisers, failed operations, restarts):
`bx` is still in the chain, the block is loadable from the database exactly as it was stored
(`getBlock`: header, transactions, assets), the height index points to it, and the id served for its
height is its id — `some`, never `none` — as it was after `a`. -/
theorem C04_finalized_blocks_forever (cd : Codecs) (cfg : Cfg) (slot : Slot) (base : Store)
    (baseH : Nat) (hbase : BaseOK cd base baseH) (s : St) (c : Chain) (a b : List Op)
    (hR : Ref cd base baseH s c) (hok : RunOK cd cfg slot base s c (a ++ b))
    (f : Nat) (hf : finOf (run cd cfg slot s a).db = some f)
    (bx : Block × Exec) (hm : bx ∈ runC cd cfg slot s c a) (hle : bx.1.hdr.height ≤ f) :
    bx ∈ runC cd cfg slot s c (a ++ b) ∧
    getBlock cd (run cd cfg slot s (a ++ b)).db bx.1.hdr.id = some bx.1 ∧
    slookup (run cd cfg slot s (a ++ b)).db (kHeight bx.1.hdr.height) = some bx.1.hdr.id ∧
    idAt cd (run cd cfg slot s (a ++ b)) bx.1.hdr.height = some bx.1.hdr.id ∧
    idAt cd (run cd cfg slot s a) bx.1.hdr.height = some bx.1.hdr.id := by
  obtain ⟨ha, hb⟩ := runOK_append cd cfg slot base a b s c hok
  have hRa := (trans_run hbase a s c hR ha).ref
  have hRb := (trans_run hbase b _ _ hRa hb).ref
  have hm' : bx ∈ runC cd cfg slot s c (a ++ b) := by
    rw [runC_append]
    exact mem_runC hbase b _ _ f hRa hf hb bx hm hle
  rw [← run_append, ← runC_append] at hRb
  obtain ⟨g1, g2⟩ := getBlock_member hRb.db hm'
  refine ⟨hm', g1, g2, ?_, ?_⟩
  · unfold idAt
    rw [C04_finalized_block_served cd base baseH hbase _ _ hRb bx hm']; rfl
  · unfold idAt
    rw [C04_finalized_block_served cd base baseH hbase _ _ hRa bx hm]; rfl

/-- **The height index on disk is frozen up to the finalized height**: for every `h` at or below
the finalized height reached after `a`, the database entry `height → block id` is byte for byte the
same after every continuation (what a restart — `PrepareCache` reads the database — sees). -/
theorem C04_finalized_index_on_disk (cd : Codecs) (cfg : Cfg) (slot : Slot) (base : Store)
    (baseH : Nat) (hbase : BaseOK cd base baseH) (s : St) (c : Chain) (a b : List Op)
    (hR : Ref cd base baseH s c) (hok : RunOK cd cfg slot base s c (a ++ b))
    (f : Nat) (hf : finOf (run cd cfg slot s a).db = some f) (h : Nat) (hle : h ≤ f) :
    slookup (run cd cfg slot s (a ++ b)).db (kHeight h) =
      slookup (run cd cfg slot s a).db (kHeight h) := by
  obtain ⟨ha, hb⟩ := runOK_append cd cfg slot base a b s c hok
  have hRa := (trans_run hbase a s c hR ha).ref
  have hRb := (trans_run hbase b _ _ hRa hb).ref
  rw [← run_append, ← runC_append] at hRb
  by_cases hbh : h ≤ baseH
  · rw [db_index_base hRb.db hbh, db_index_base hRa.db hbh]
  · obtain ⟨f', hf', _, hft⟩ := hRa.db.finOk
    have hfe : f' = f := by rw [hf] at hf'; exact (Option.some.inj hf').symm
    subst hfe
    obtain ⟨bx, hbx, hh⟩ := chain_covers hRa.db.wf h (by omega) (by omega)
    have hall := C04_finalized_blocks_forever cd cfg slot base baseH hbase s c a b hR hok f' hf bx hbx
      (by omega)
    rw [← hh, hall.2.2.1, (getBlock_member hRa.db hbx).2]

/-! ### the synchronisers -/

private theorem deleteTill_ref {cd : Codecs} {cfg : Cfg} {base : Store} {baseH : Nat}
    (hbase : BaseOK cd base baseH) : ∀ (fuel : Nat) (s : St) (c : Chain) (target : Nat),
    Ref cd base baseH s c →
    ∃ k, Ref cd base baseH (deleteTill cd cfg fuel s target).1 (c.drop k) ∧
      finOf (deleteTill cd cfg fuel s target).1.db = finOf s.db := by
  intro fuel
  induction fuel with
  | zero => intro s c t hR; exact ⟨0, by simpa [deleteTill] using hR, rfl⟩
  | succ n ih =>
    intro s c t hR
    unfold deleteTill
    cases hc : s.cache with
    | nil => exact ⟨0, by simpa using hR, rfl⟩
    | cons tip rest =>
      simp only
      split
      · exact ⟨0, by simpa using hR, rfl⟩
      · cases hd : deleteTip cd cfg s true with
        | mk s' r =>
          cases r with
          | ok =>
            simp only
            obtain ⟨b, x, c', hc0, hR', hfin, _⟩ := ref_delete hbase hR hd (Or.inl rfl)
            obtain ⟨k, h1, h2⟩ := ih s' c' t hR'
            refine ⟨k + 1, ?_, by rw [h2, hfin]⟩
            subst hc0
            simpa using h1
          | errWritten =>
            simp only
            obtain ⟨b, x, c', hc0, hR', hfin, _⟩ := ref_delete hbase hR hd (Or.inr rfl)
            refine ⟨1, ?_, hfin⟩
            subst hc0
            simpa using hR'
          | err =>
            simp only
            rw [deleteTip_not_ok hd (Or.inl rfl)]
            exact ⟨0, by simpa using hR, rfl⟩
          | panic =>
            simp only
            rw [deleteTip_not_ok hd (Or.inr rfl)]
            exact ⟨0, by simpa using hR, rfl⟩

/-- **`deleteTillCommonBlock` cannot touch finality**, whatever target the peer named and however
it ends (reached the common block, refused by the `deleteBlock` guard, ran into an error): the
stored finalized height is unchanged, the state is again a refinement of a suffix of the chain, and
for every height at or below the finalized height the header / block id served is unchanged. -/
theorem C04_deleteTill_keeps_finalized (cd : Codecs) (cfg : Cfg) (slot : Slot) (base : Store)
    (baseH : Nat) (hbase : BaseOK cd base baseH) (s : St) (c : Chain)
    (hR : Ref cd base baseH s c) (fuel target : Nat) (f : Nat) (hf : finOf s.db = some f) :
    finOf (deleteTill cd cfg fuel s target).1.db = some f ∧
    (∃ k, Ref cd base baseH (deleteTill cd cfg fuel s target).1 (c.drop k)) ∧
    ∀ h, h ≤ f →
      headerAt cd (deleteTill cd cfg fuel s target).1 h = headerAt cd s h ∧
      idAt cd (deleteTill cd cfg fuel s target).1 h = idAt cd s h := by
  obtain ⟨k, hRk, hfin⟩ := deleteTill_ref (cfg := cfg) hbase fuel s c target hR
  refine ⟨by rw [hfin]; exact hf, ⟨k, hRk⟩, ?_⟩
  intro h hle
  obtain ⟨j, hj⟩ := C04_deleteTill_is_run cd cfg slot fuel s target
  have hok : ∀ (k : Nat) (s : St) (c : Chain),
      RunOK cd cfg slot base s c (List.replicate k (Op.deleteTip true)) := by
    intro k
    induction k with
    | zero => intro s c; trivial
    | succ n ih => intro s c; exact ⟨trivial, ih _ _⟩
  have := C04_finalized_prefix_stable cd cfg slot base baseH hbase s c []
    (List.replicate j (Op.deleteTip true)) hR (by simpa using hok j s c) f (by simpa [run] using hf) h hle
  rw [hj]
  simpa [run] using this

/-! ### non-vacuity: a history with a finality raise -/

namespace C04More
open LiskVerif.Node.Example

/-- the block of `LiskVerif.Node.Example`, executed with a result that precommits height 1 -/
def xr : Exec := { overlay := ov1, mhpc := 1, events := [] }

theorem stepR : StepOK cd base [] b1 xr := by
  have h := step1
  exact ⟨h.block, h.ov, h.stateKeys, h.initOk, by decide, h.fresh, h.diffRt⟩

/-- apply the block (raises the marker 0 → 1), try to delete it (refused: finalized), restart,
try again through a tie-break-free `deleteTip`, clear the temporary blocks -/
def opsR : List Op := [.apply b1 true xr false, .deleteTip true, .restart, .deleteTip false, .clearTemp]

theorem runOKR : RunOK cd cfg slot base s0 [] opsR :=
  ⟨fun _ => stepR, trivial, trivial, trivial, trivial, trivial⟩

end C04More

example : (run Example.cd Example.cfg Example.slot Example.s0 C04More.opsR).log =
    [Ev.new [7] 1, Ev.finalize 0 1 [7]] ∧
    finOf (run Example.cd Example.cfg Example.slot Example.s0 C04More.opsR).db = some 1 ∧
    idAt Example.cd (run Example.cd Example.cfg Example.slot Example.s0 C04More.opsR) 1 = some [7] := by
  decide +kernel

example : ∃ f, finOf Example.s0.db = some f ∧
    finOf (run Example.cd Example.cfg Example.slot Example.s0 C04More.opsR).db =
      some (((appliedOf (trace Example.cd Example.cfg Example.slot Example.s0 C04More.opsR)).map
        (·.2.mhpc)).foldl max f) := by
  obtain ⟨f, h1, h2, _⟩ := C04_fin_eq_max_history Example.cd Example.cfg Example.slot Example.base 0
    Example.baseOK Example.s0 [] C04More.opsR [] Example.ref0 (by simpa using C04More.runOKR)
  exact ⟨f, h1, h2⟩

example : ∃ evs : List Ev, (run Example.cd Example.cfg Example.slot Example.s0 C04More.opsR).log =
      evs.reverse ++ Example.s0.log ∧
    evs.filter Ev.isFinalize =
      finEvsOf 0 (appliedOf (trace Example.cd Example.cfg Example.slot Example.s0 C04More.opsR)) :=
  C04_finalize_events_exact _ _ _ _ _ Example.baseOK _ _ _ Example.ref0 C04More.runOKR 0 (by decide)

/-- the trace of the example history: one applied block, no deletion succeeded -/
example : (appliedOf (trace Example.cd Example.cfg Example.slot Example.s0 C04More.opsR)).map
      (fun bx => (bx.1, bx.2.mhpc)) = [(Example.b1, 1)] ∧
    finEvsOf 0 [(Example.b1, C04More.xr)] = [Ev.finalize 0 1 [7]] := by
  decide +kernel

example : getBlock Example.cd (run Example.cd Example.cfg Example.slot Example.s0
    (C04More.opsR ++ [])).db Example.b1.hdr.id = some Example.b1 :=
  (C04_finalized_blocks_forever Example.cd Example.cfg Example.slot Example.base 0 Example.baseOK
    Example.s0 [] C04More.opsR [] Example.ref0 (by simpa using C04More.runOKR) 1 (by decide +kernel)
    (Example.b1, C04More.xr) (by
      have h : runC Example.cd Example.cfg Example.slot Example.s0 [] C04More.opsR =
          [(Example.b1, C04More.xr)] := by rfl
      rw [h]; exact List.mem_cons_self) (by decide)).2.1

example : (process Example.cd Example.cfg Example.slot Example.s0
    { block := Example.b1, flags := ⟨true, true⟩, staticValid := true, valid := true,
      exec := Example.x1, oldValid := true, oldExec := Example.x1 }).2 = .applied := by
  decide +kernel

/-! #### a tie-break -/

namespace C04More
open LiskVerif.Node.Example

def sA : St := (apply cd cfg s0 b1 true x1 false).1

/-- a competing block for height 1 by another generator in a later slot -/
def hdrT : Hdr := { height := 1, generatorAddress := [2], maxHeightGenerated := 0,
                    maxHeightPrevoted := 0, id := [8], previousBlockID := gid, timestamp := 20 }
def bT : Block := { hdr := hdrT, hdrBytes := [1], txs := [], assets := [] }
def iT : Incoming := { block := bT, flags := ⟨true, false⟩, staticValid := true, valid := true,
                       exec := x1, oldValid := true, oldExec := x1 }

end C04More

/-- `process` takes the tie-break path: the tip is deleted and the competing block applied — two
primitive operations, three events, the marker untouched -/
example : (process Example.cd Example.cfg Example.slot C04More.sA C04More.iT).2 = .tieBreakApplied ∧
    (processOps Example.cd Example.cfg Example.slot C04More.sA C04More.iT).length = 2 ∧
    (process Example.cd Example.cfg Example.slot C04More.sA C04More.iT).1.log =
      [Ev.new [8] 1, Ev.delete [7] 1, Ev.new [7] 1] ∧
    finOf (process Example.cd Example.cfg Example.slot C04More.sA C04More.iT).1.db = some 0 ∧
    idAt Example.cd (process Example.cd Example.cfg Example.slot C04More.sA C04More.iT).1 1 = some [8] := by
  decide +kernel
