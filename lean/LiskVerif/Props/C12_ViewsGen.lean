/-
C12 — the assumptions of Model/DiffDBViews.lean / Props/C12_Views.lean as obligations on facts regenerated from
pkg/db/diffdb on every run (tools/compgen, tables `ddb*` of Gen/CompState.lean):

* every handle shares ONE overlay: `WithPrefix` initialises the view's `cache` with the parent's pointer, and NO method
  of `Database` ever replaces that pointer (`RestoreSnapshot` writes THROUGH it: `s.cache.data`) — a pointer
  assignment is the defect fixed by 5a39fd4 (handles derived earlier keep the un-restored overlay);
* every handle owns its snapshot table and counter: `New` and `WithPrefix` each allocate `make(map[int]*cacheDB)`,
  neither copies the counter, and the view is built field by field (a struct copy of the parent — seeded change
  C12-19 — would share the table and fork the counter: the composite-literal initialisers disappear and
  `C12_gen_view_initialisers_exact` breaks);
* only `Snapshot` / `DeleteSnapshot` / `RestoreSnapshot` write table and counter, each its own handle's.
-/
import LiskVerif.Gen.CompState

open LiskVerif.Gen.CompState

/-- the components scanned are the staged store and its overlay -/
theorem C12_gen_components_exact : ddbComponents = [("db/diffdb", "Database"), ("db/diffdb", "cacheDB")] := by
  decide +kernel

/-- `Database` has exactly today's fields (a new field — a memo, a second table — must be placed in the model) -/
theorem C12_gen_database_fields_exact :
    (ddbFields.filter (fun f => f.strct == "Database")).map (fun f => (f.name, f.typ)) =
      [("store", "DatabaseReader"), ("mutex", "*sync.Mutex"), ("prefix", "[]byte"), ("prefixLength", "int"),
       ("cache", "*cacheDB"), ("snapshots", "map[int]*cacheDB"), ("snapshotCount", "int")] := by
  decide +kernel

/-- the overlay is one map behind one pointer -/
theorem C12_gen_overlay_fields_exact :
    (ddbFields.filter (fun f => f.strct == "cacheDB")).map (fun f => (f.name, f.typ)) =
      [("data", "map[string]*cacheValue")] := by
  decide +kernel

/-- every receiver-field write of `Database`, exactly -/
theorem C12_gen_database_writes_exact :
    (ddbWrites.filter (fun w => w.strct == "Database")).map (fun w => (w.fn, w.field, w.how, w.path)) =
      [("Database.Snapshot", "snapshots", "index-assign", "s.snapshots[id]"),
       ("Database.Snapshot", "snapshotCount", "incdec", "s.snapshotCount"),
       ("Database.DeleteSnapshot", "snapshots", "delete", "s.snapshots"),
       ("Database.RestoreSnapshot", "cache", "nested", "s.cache.data"),
       ("Database.RestoreSnapshot", "snapshots", "delete", "s.snapshots")] := by
  decide +kernel

/-- no method replaces the pointer to the shared overlay: every write to `cache` goes THROUGH it -/
theorem C12_gen_cache_pointer_never_replaced :
    (ddbWrites.filter (fun w => w.strct == "Database" && w.field == "cache")).all (fun w => w.how == "nested") = true := by
  decide +kernel

/-- the restore is in place: it writes the shared overlay's map -/
theorem C12_gen_restore_in_place :
    ddbWrites.any (fun w => w.fn == "Database.RestoreSnapshot" && w.field == "cache" && w.path == "s.cache.data") = true := by
  decide +kernel

/-- a view is built field by field: shared mutex, store and overlay; its own (empty) snapshot table; the counter is
not copied (zero value) -/
theorem C12_gen_view_initialisers_exact :
    (ddbInits.filter (fun i => i.fn == "Database.WithPrefix")).map (fun i => (i.field, i.value)) =
      [("mutex", "s.mutex"), ("store", "s.store"), ("cache", "s.cache"), ("prefix", "nextPrefix"),
       ("prefixLength", "len(nextPrefix)"), ("snapshots", "make(map[int]*cacheDB)")] := by
  decide +kernel

/-- the root starts with an empty overlay and an empty table of its own -/
theorem C12_gen_root_initialisers_exact :
    (ddbInits.filter (fun i => i.fn == "New")).map (fun i => (i.field, i.value)) =
      [("mutex", "new(sync.Mutex)"), ("store", "store"), ("cache", "newCacheDB()"), ("prefix", "prefix"),
       ("prefixLength", "len(prefix)"), ("snapshots", "make(map[int]*cacheDB)")] := by
  decide +kernel

/-- no handle is created anywhere else in the package (constructors of `Database`: `New` and `WithPrefix`) -/
theorem C12_gen_database_constructors_exact :
    ((ddbInits.filter (fun i => i.strct == "Database")).map (fun i => i.fn)).eraseDups = ["New", "Database.WithPrefix"] := by
  decide +kernel

/-- the package keeps no package-level state -/
theorem C12_gen_no_package_state : ddbGlobalWrites = [] := by decide +kernel
