/-
C15 — "a block the node generates is accepted by its own validation", the application-input side.

The application is a parameter of the engine: state root and event root of a block are whatever the application
computes from what the engine tells it (labi.Consensus: current validators, implyMaxPrevote, maxHeightCertified,
certificateThreshold — next to header, assets and transactions). The generator dry-runs the block with inputs
`ig` and writes the resulting roots into the header; validation runs the application with inputs `iv` and compares.

* `C15_app_inputs_accept_all_apps_iff` — the generated block is accepted FOR EVERY application iff the inputs are
  equal (an application telling two inputs apart exists as soon as there are two different roots).
* `C15_app_inputs_stale_certified_height` — the seeded variant C15-19 (the generator reads maxHeightCertified before
  the block's own BFT hook raised it to the aggregate commit's height): the inputs differ exactly when the block
  carries an aggregate commit above the certified height, and then some application rejects the block.
Tie: the mock application records every labi.Consensus argument; for every forged block that the node applies the
arguments of generation and validation are compared field by field
(`c15-generation-consensus-argument-differs`, `c15-generation-skips-application-call`).
-/
import LiskVerif.Model.Util

open LiskVerif

/-- what the engine tells the application about the consensus state (`labi.Consensus`) -/
structure C15_ConsensusArg where
  validators : List (Bytes × Nat × Bytes × Bytes)
  implyMaxPrevote : Bool
  maxHeightCertified : Nat
  certificateThreshold : Nat
deriving DecidableEq, Repr

theorem C15_app_inputs_accept_all_apps_iff {I R : Type} [DecidableEq I] (r0 r1 : R) (hr : r0 ≠ r1) (ig iv : I) :
    (∀ app : I → R, app iv = app ig) ↔ iv = ig := by
  constructor
  · intro h
    have := h (fun i => if i = ig then r0 else r1)
    by_cases e : iv = ig
    · exact e
    · simp [e] at this
      exact absurd this.symm hr
  · intro e app; rw [e]

/-- the generator's argument when maxHeightCertified is read BEFORE the block's BFT hook (tip value) vs the
validator's (after the hook: the aggregate commit's height when that is higher) -/
def C15_certifiedAfterHook (tipCertified aggregateHeight : Nat) : Nat := max tipCertified aggregateHeight

theorem C15_app_inputs_stale_certified_height (a : C15_ConsensusArg) (tipCertified aggregateHeight : Nat)
    (hagg : tipCertified < aggregateHeight) :
    let ig := { a with maxHeightCertified := tipCertified }
    let iv := { a with maxHeightCertified := C15_certifiedAfterHook tipCertified aggregateHeight }
    iv ≠ ig ∧ ∃ app : C15_ConsensusArg → Nat, app iv ≠ app ig := by
  intro ig iv
  have hne : iv ≠ ig := by
    intro h
    have : iv.maxHeightCertified = ig.maxHeightCertified := by rw [h]
    simp [iv, ig, C15_certifiedAfterHook] at this
    omega
  refine ⟨hne, ⟨fun i => i.maxHeightCertified, ?_⟩⟩
  simp [iv, ig, C15_certifiedAfterHook]
  omega

/-- with an empty aggregate commit (height not above the certified height) the two reads agree -/
theorem C15_app_inputs_empty_aggregate_agree (tipCertified aggregateHeight : Nat) (h : aggregateHeight ≤ tipCertified) :
    C15_certifiedAfterHook tipCertified aggregateHeight = tipCertified := by
  simp [C15_certifiedAfterHook]; omega

example : C15_certifiedAfterHook 0 3 = 3 ∧ (0 : Nat) < 3 := by decide
