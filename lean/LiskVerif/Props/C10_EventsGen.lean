/-
C10 — regenerated shape of `blockchain.CalculateEventRoot` (tools/fngen/callsites.go → Gen/Fns2.lean), see
Props/C10_Events.lean: the pairs of a block must reach the event trie in ONE `Update` on a fresh trie, because
pkg/trie/smt reads stored subtrees back assuming 32-byte leaf values while the event tree stores raw encoded events.
-/
import LiskVerif.Gen.Fns2

open LiskVerif

/-- `CalculateEventRoot` makes one trie and calls `Update` on it exactly once, outside every loop and every
conditional construct, and uses the trie for nothing else: the pairs of a block reach the trie in one batch on a
fresh trie — the only use for which pkg/trie/smt gives the specification root with values that are not 32 bytes. -/
theorem C10_event_root_single_update :
    Gen.eventRootUpdateSites = [(0, 0)] ∧ Gen.eventRootTries = 1 ∧ Gen.eventRootTrieOtherUses = [] := by decide
