/-
C06 — tie of `Model/Cert.lean`'s `verifyAggregateCommit` to the Go source: the guards of
`Executer.verifyAggregateCommit` (pkg/consensus/certificate.go) before the block lookup are
REGENERATED from the Go source on every run by tools/fngen (`LiskVerif/Gen/Fns.lean`,
`Gen.aggregateCommitGuards`: the 1-based index of the first `if cond { return … }` whose condition
holds, 0 = none; `Gen.aggregateCommitGuardsReturns`: what each guard returns). The results of the
impure calls are parameters: `Empty()`, the commit height, `maxHeightCertified`,
`maxHeightPrecommited` (`GetBFTHeights`), whether `NextHeightBFTParameters(maxHeightCertified+1)`
found a height (`err == nil`) and that height, `len(AggregationBits) == 0`,
`len(CertificateSignature) == 0`.

`C06_gen_aggregate_commit_guards_eq`: the model evaluates the same five conditions in the same
order with the same outcomes; what follows the guards (block lookup, parameters, weighted aggregate
signature check) is `Cert.verifyCertificate`.
-/
import LiskVerif.Lemmas.Cert
import LiskVerif.Gen.Fns

open LiskVerif LiskVerif.Cert

/-- the regenerated guards evaluated on a model state and aggregate commit -/
def C06genGuards (st : State) (ac : AggCommit) : Nat :=
  Gen.aggregateCommitGuards ac.isEmpty ac.height st.mhc st.mhpc
    (nextHeightParams st.params (st.mhc + 1)).isSome ((nextHeightParams st.params (st.mhc + 1)).getD 0)
    ac.bits.isEmpty ac.sig.isNone

/-- the outcome the Go code attaches to each guard, in order: guard 1 returns `nil` (the commit is
accepted as it stands), guards 2–5 return an error -/
theorem C06_gen_aggregate_commit_guard_returns :
    Gen.aggregateCommitGuardsReturns = ["nil", "error", "error", "error", "error"] := rfl

/-- **Guard order and conditions of the model = those regenerated from the Go code.** For every
state whose next BFT-parameter height (if any) is a `uint32`, `Cert.verifyAggregateCommit` is: the
regenerated guard index decides — 1 ↦ accept (`return nil`), 2 ↦ empty aggregation bits or signature,
3 ↦ height not above `maxHeightCertified`, 4 ↦ height above `maxHeightPrecommited`, 5 ↦ height above
the next BFT parameters − 1, and 0 (no guard fires) ↦ the certificate check `verifyCertificate`. -/
theorem C06_gen_aggregate_commit_guards_eq (st : State) (ac : AggCommit)
    (hu : ∀ nh, nextHeightParams st.params (st.mhc + 1) = some nh → nh < 4294967296) :
    verifyAggregateCommit st ac =
      match C06genGuards st ac, ac.sig with
      | 0, some sig => verifyCertificate st ac sig
      | 0, none => .reject .emptyField      -- unreachable: guard 2 fires when the signature is empty
      | 1, _ => .accept
      | 2, _ => .reject .emptyField
      | 3, _ => .reject .notIncreasing
      | 4, _ => .reject .abovePrecommitted
      | _, _ => .reject .beyondNextParams := by
  unfold verifyAggregateCommit C06genGuards Gen.aggregateCommitGuards AggCommit.isEmpty
  cases hs : ac.sig with
  | none =>
    cases hb : ac.bits.isEmpty <;> by_cases hh : ac.height = st.mhc <;> simp [hh]
  | some sig =>
    cases hb : ac.bits.isEmpty
    · simp only [Option.isNone_some, Bool.and_false, Bool.false_eq_true, false_and, ↓reduceIte,
        Bool.or_self, decide_eq_true_eq]
      by_cases h3 : ac.height ≤ st.mhc
      · simp [h3]
      · simp only [h3, ↓reduceIte]
        by_cases h4 : ac.height > st.mhpc
        · simp [h4]
        · simp only [h4, ↓reduceIte]
          cases hn : nextHeightParams st.params (st.mhc + 1) with
          | none => simp
          | some nh =>
            have h1 := (nextHeightParams_some hn).1
            have h2 := hu nh hn
            have he : (nh + 4294967296 - 1) % 4294967296 = nh - 1 := by omega
            simp only [Option.isSome_some, Option.getD_some, Bool.true_and, decide_eq_true_eq, he]
            by_cases h5 : ac.height > nh - 1
            · simp [h5]
            · simp [h5]
    · simp

/-- the same statement read from the Go side: which guard fires determines the model's verdict -/
theorem C06_gen_aggregate_commit_guard_verdicts (st : State) (ac : AggCommit)
    (hu : ∀ nh, nextHeightParams st.params (st.mhc + 1) = some nh → nh < 4294967296) :
    (C06genGuards st ac = 1 → verifyAggregateCommit st ac = .accept) ∧
    (C06genGuards st ac = 2 → verifyAggregateCommit st ac = .reject .emptyField) ∧
    (C06genGuards st ac = 3 → verifyAggregateCommit st ac = .reject .notIncreasing) ∧
    (C06genGuards st ac = 4 → verifyAggregateCommit st ac = .reject .abovePrecommitted) ∧
    (C06genGuards st ac = 5 → verifyAggregateCommit st ac = .reject .beyondNextParams) ∧
    (C06genGuards st ac = 0 → ∃ sig, ac.sig = some sig ∧ ac.bits.isEmpty = false ∧
      st.mhc < ac.height ∧ ac.height ≤ st.mhpc ∧
      verifyAggregateCommit st ac = verifyCertificate st ac sig) ∧
    C06genGuards st ac ≤ 5 := by
  have hle : C06genGuards st ac ≤ 5 := by
    unfold C06genGuards Gen.aggregateCommitGuards
    repeat' split
    all_goals omega
  have h := C06_gen_aggregate_commit_guards_eq st ac hu
  refine ⟨?_, ?_, ?_, ?_, ?_, ?_, hle⟩
  · intro hg; rw [h, hg]; first | rfl | (cases ac.sig <;> rfl)
  · intro hg; rw [h, hg]; first | rfl | (cases ac.sig <;> rfl)
  · intro hg; rw [h, hg]; first | rfl | (cases ac.sig <;> rfl)
  · intro hg; rw [h, hg]; first | rfl | (cases ac.sig <;> rfl)
  · intro hg; rw [h, hg]; first | rfl | (cases ac.sig <;> rfl)
  · intro hg
    have hg' := hg
    unfold C06genGuards Gen.aggregateCommitGuards at hg'
    split at hg'
    · omega
    · split at hg'
      · omega
      · rename_i hemp
        split at hg'
        · omega
        · rename_i h3
          split at hg'
          · omega
          · rename_i h4
            simp only [Bool.or_eq_true, not_or, Bool.not_eq_true] at hemp
            simp only [decide_eq_true_eq] at h3 h4
            cases hs : ac.sig with
            | none => rw [hs] at hemp; simp at hemp
            | some sig =>
              refine ⟨sig, rfl, hemp.1, by omega, by omega, ?_⟩
              rw [h, hg, hs]
              rfl

/-! ### non-vacuity -/

def C06genState : State :=
  { chainId := 1, blockAt := fun _ => none, params := [(1, ⟨[], 1⟩), (20, ⟨[], 1⟩)], mhpc := 15, mhc := 10 }

/-- each of the six outcomes occurs -/
example :
    [C06genGuards C06genState ⟨10, [], none⟩,
     C06genGuards C06genState ⟨12, [], some .garbage⟩,
     C06genGuards C06genState ⟨9, [true], some .garbage⟩,
     C06genGuards C06genState ⟨16, [true], some .garbage⟩,
     C06genGuards { C06genState with mhpc := 30 } ⟨20, [true], some .garbage⟩,
     C06genGuards C06genState ⟨12, [true], some .garbage⟩] = [1, 2, 3, 4, 5, 0] := by
  decide +kernel

example : verifyAggregateCommit C06genState ⟨16, [true], some .garbage⟩ = .reject .abovePrecommitted :=
  (C06_gen_aggregate_commit_guard_verdicts C06genState ⟨16, [true], some .garbage⟩
    (by
      intro nh h
      have h20 : nextHeightParams C06genState.params (C06genState.mhc + 1) = some 20 := by decide +kernel
      rw [h20] at h
      injection h with h
      omega)).2.2.2.1 (by decide +kernel)
